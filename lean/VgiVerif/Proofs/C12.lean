import VgiVerif.Lemmas.Token
import VgiVerif.Spec.C12
/-
C12 — stream state tokens are unforgeable, identity-bound and opaque.
Helper lemmas are in `Lemmas/Token.lean`; this file holds the obligations.

Assumptions, all explicit as hypotheses (never axioms):
* `z.Lawful`      python-zstandard: `decompress (compress p) = p`
* `E.Lawful`      CPython base64: `b64decode (b64encode x) = x` (only for the round-trip theorems)
* `srv.key ∉ keys` + `ReqKnown`   ideal AEAD (Dolev–Yao): what a presented text decodes to is a minted envelope,
                  arbitrary bytes, or an envelope sealed with a key the attacker holds
* `NulFreeDomain` / `NulFree method`   the property's restriction to NUL-free domains; method names are identifiers
* fresh call ids  (premise of `Step.init`): `os.urandom(16)` does not repeat
-/
namespace VgiVerif.C12
open VgiVerif.Token VgiVerif.Gen

namespace Aux

theorem observe_enc {E : Wire} (hE : E.Lawful) (t : Tok) : E.observe (E.enc t) = ⟨some t, true⟩ := by
  unfold Wire.observe
  rw [hE t]
  simp

theorem not_expired_of_fresh {ttl : Nat} {now : Int} {t : Nat} (h : Fresh ttl now t) :
    ¬ (ttl > 0 ∧ now - (t : Int) > (ttl : Int)) := by
  intro hc
  rcases h with h | h
  · omega
  · omega

end Aux

/-! ### the model follows the source (shapes) -/

/-- the extracted tree has the strict canonical base64 check and the method binding -/
theorem shape_repaired : Shape.extracted = ⟨true, true⟩ := rfl

/-- every `raise` of the token path is one the model knows, in source order -/
theorem sites_as_modelled :
    Token.rejectSites.map (·.1) =
      (Reject.all.map Reject.site).take 15 ++
      ["_resolve_call_from_token#0", "_resolve_call_from_token#1", "_resolve_call_from_token#2",
       "_resolve_call_from_token#3", "_resolve_call_from_token#4", "_resolve_call_from_token#5",
       "_unpack_and_recover_state#0", "_unpack_and_recover_state#1", "_unpack_and_recover_state#2"] := by decide

/-- resolution order of `_unpack_and_recover_state` / `_resolve_call_from_token` as modelled by `recoverObs` -/
theorem order_as_modelled :
    Token.recoverOrder = ["open_cursor", "cache_get", "resolve_call_from_token", "cache_put", "method_check",
      "hit_type_check", "resolve_state_cls", "deserialize_state", "bind_call_state", "rehydrate"] ∧
    Token.recoverBranches = ["miss:resolve_call_from_token", "miss:cache_put", "hit:method_check", "hit:hit_type_check"] ∧
    Token.resolveCallOrder = ["missing_check", "open_call", "pairing_check", "read_schema", "read_schema",
      "deserialize_call_state"] ∧
    Token.cacheGetExpires = true ∧ Token.cacheGetRefreshes = false ∧ Token.cacheAgesFromToken = true ∧
    Token.normalizeKeyShape = true ∧ Token.keyLen = 32 ∧
    Token.ttlShapeRecognised = true ∧ Token.b64Validate = true ∧ Token.headerLen = Token.lenFmtWidth ∧
    Token.timestampLen = Token.tsFmtWidth ∧ Token.cursorSegments = 1 ∧ Token.callSegments = 5 ∧
    Token.minCursorPlaintextLen = Token.timestampLen + Token.callIdLen + Token.headerLen * Token.cursorSegments ∧
    Token.minCallPlaintextLen = Token.timestampLen + Token.callIdLen + Token.headerLen * Token.callSegments := by decide

/-! ### identity binding -/

/-- `_compute_aad` is injective on identities with NUL-free domains (incl. anonymous vs `("", "anonymous")`,
    `("ab","c")` vs `("a","bc")`) -/
theorem aad_injective (i j : Identity) (hi : i.NulFreeDomain) (hj : j.NulFreeDomain) : aad i = aad j → i = j :=
  aad_inj hi hj

/-- `_compute_call_aad` (extracted shape) is injective in method and identity -/
theorem call_aad_injective (m m' : List Char) (i j : Identity) (hm : NulFree m) (hm' : NulFree m')
    (hi : i.NulFreeDomain) (hj : j.NulFreeDomain) :
    callAad Shape.extracted.methodBound m i = callAad Shape.extracted.methodBound m' j → m = m' ∧ i = j :=
  callAad_inj_bound hm hm' hi hj

/-- a cursor AAD is never a call AAD: swapping the two token kinds fails the tag check -/
theorem aad_kinds_disjoint (b : Bool) (m : List Char) (i j : Identity) : aad i ≠ callAad b m j :=
  aad_ne_callAad b m i j

/-- identifiers and host names (no U+0000) are NUL-free -/
theorem nulFree_of_no_nul_char (s : List Char) (h : ∀ c ∈ s, c ≠ Char.ofNat 0) : NulFree s := nulFree_of_chars h

example : aad .anonymous ≠ aad (.user [] "anonymous".toList) := by decide
example : aad (.user "ab".toList "c".toList) ≠ aad (.user "a".toList "bc".toList) := by decide

/-! ### framing: round trip and totality -/

/-- a minted, unexpired cursor token opens to exactly what was sealed -/
theorem frame_roundtrip_cursor (strict : Bool) (E : Wire) (z : Zstd) (hE : E.Lawful) (hz : z.Lawful) (key : KeyId)
    (cm : CursorMint) (hwf : cm.WF) (ttl : Nat) (now : Int) (hf : Fresh ttl now cm.t) :
    openCursorObs strict z key (aad cm.who) ttl now (E.observe (E.enc (cm.tok z key))) = .ok (cm.state, cm.callId) := by
  obtain ⟨w1, w2, w3, _⟩ := hwf
  rw [Aux.observe_enc hE]
  unfold openCursorObs decodeObs CursorMint.tok
  simp only [Bool.not_true, Bool.and_false, Bool.false_eq_true, if_false, openBytes, and_self, if_true]
  rw [unpackTagged_pack z hz]
  simp only
  rw [unpackCursorPlain_pack cm.t cm.callId cm.state w1 w3]
  simp only
  unfold packCursorPlain
  rw [ttlCheck_packed _ _ _ _ _ w2, if_neg (Aux.not_expired_of_fresh hf)]

/-- … and so does a call token -/
theorem frame_roundtrip_call (sh : Shape) (E : Wire) (z : Zstd) (hE : E.Lawful) (hz : z.Lawful) (key : KeyId)
    (km : CallMint) (hwf : km.WF) (ttl : Nat) (now : Int) (hf : Fresh ttl now km.t) :
    openCallObs sh.strictB64 z key (callAad sh.methodBound km.method km.who) ttl now
      (E.observe (E.enc (km.tok sh z key))) = .ok (km.callId, km.body, km.t) := by
  obtain ⟨w1, w2, w3, _, _⟩ := hwf
  rw [Aux.observe_enc hE]
  unfold openCallObs decodeObs CallMint.tok
  simp only [Bool.not_true, Bool.and_false, Bool.false_eq_true, if_false, openBytes, and_self, if_true]
  rw [unpackTagged_pack z hz]
  simp only
  rw [unpackCallPlain_pack km.t km.callId km.body w1 w3]
  simp only
  unfold packCallPlain
  rw [callTtlCheck_packed _ _ _ _ w2, if_neg (Aux.not_expired_of_fresh hf)]
  simp only [createdAtOf_packed _ _ w2]

/-- an expired minted token is rejected (TTL edge: age `ttl` is served, age `ttl + 1` is not) -/
theorem expired_rejected (strict : Bool) (E : Wire) (z : Zstd) (hE : E.Lawful) (hz : z.Lawful) (key : KeyId)
    (cm : CursorMint) (hwf : cm.WF) (ttl : Nat) (now : Int) (hpos : ttl > 0) (hold : now - (cm.t : Int) > (ttl : Int)) :
    openCursorObs strict z key (aad cm.who) ttl now (E.observe (E.enc (cm.tok z key))) = .reject .curExpired := by
  obtain ⟨w1, w2, w3, _⟩ := hwf
  rw [Aux.observe_enc hE]
  unfold openCursorObs decodeObs CursorMint.tok
  simp only [Bool.not_true, Bool.and_false, Bool.false_eq_true, if_false, openBytes, and_self, if_true]
  rw [unpackTagged_pack z hz]
  simp only
  rw [unpackCursorPlain_pack cm.t cm.callId cm.state w1 w3]
  simp only
  unfold packCursorPlain
  rw [ttlCheck_packed _ _ _ _ _ w2, if_pos ⟨hpos, hold⟩]

/-- **totality of the framing**: whatever bytes come out of decryption, the unpackers answer `ok` or a token
    rejection — no `struct.error` / `IndexError` can escape (the guards cover every read) -/
theorem unpack_total (z : Zstd) (bs : Bytes) :
    ((∃ x, unpackCursorPlain bs = .ok x) ∨ (∃ r, unpackCursorPlain bs = .reject r)) ∧
    ((∃ x, unpackCallPlain bs = .ok x) ∨ (∃ r, unpackCallPlain bs = .reject r)) ∧
    ((∃ x, unpackTagged z bs = .ok x) ∨ (∃ r, unpackTagged z bs = .reject r)) :=
  ⟨unpackCursorPlain_total bs, unpackCallPlain_total bs, unpackTagged_total z bs⟩

/-- **totality of the openers**: every presented text is opened or rejected with a token rejection -/
theorem open_total (strict : Bool) (z : Zstd) (key : KeyId) (a : Bytes) (ttl : Nat) (now : Int) (o : WireObs) :
    ((∃ x, openCursorObs strict z key a ttl now o = .ok x) ∨ (∃ r, openCursorObs strict z key a ttl now o = .reject r)) ∧
    ((∃ x, openCallObs strict z key a ttl now o = .ok x) ∨ (∃ r, openCallObs strict z key a ttl now o = .reject r)) := by
  constructor
  · unfold openCursorObs
    cases decodeObs strict o with
    | none => exact Or.inr ⟨_, rfl⟩
    | some t =>
      simp only
      cases openBytes t key a Token.cursorTokenVersion with
      | none => exact Or.inr ⟨_, rfl⟩
      | some sp =>
        simp only
        rcases unpackTagged_total z sp with ⟨plain, hu⟩ | ⟨r, hu⟩
        · rw [hu]; simp only
          rcases unpackCursorPlain_total plain with ⟨x, hc⟩ | ⟨r, hc⟩
          · rw [hc]; simp only
            have hl := unpackCursorPlain_ok_len hc
            rcases ttlCheck_total .curExpired plain ttl now (by tok_consts; omega) with ht | ht
            · rw [ht]; exact Or.inl ⟨_, rfl⟩
            · rw [ht]; exact Or.inr ⟨_, rfl⟩
          · rw [hc]; exact Or.inr ⟨_, rfl⟩
        · rw [hu]; exact Or.inr ⟨_, rfl⟩
  · unfold openCallObs
    cases decodeObs strict o with
    | none => exact Or.inr ⟨_, rfl⟩
    | some t =>
      simp only
      cases openBytes t key a Token.callTokenVersion with
      | none => exact Or.inr ⟨_, rfl⟩
      | some sp =>
        simp only
        rcases unpackTagged_total z sp with ⟨plain, hu⟩ | ⟨r, hu⟩
        · rw [hu]; simp only
          rcases unpackCallPlain_total plain with ⟨x, hc⟩ | ⟨r, hc⟩
          · rw [hc]; simp only
            have hl := unpackCallPlain_ok_len hc
            rcases callTtlCheck_total plain ttl now (by tok_consts; omega) with ht | ht
            · rw [ht]; exact Or.inl ⟨_, rfl⟩
            · rw [ht]; exact Or.inr ⟨_, rfl⟩
          · rw [hc]; exact Or.inr ⟨_, rfl⟩
        · rw [hu]; exact Or.inr ⟨_, rfl⟩

/-! ### unforgeability -/

/-- a minted token as the spec sees it -/
def specCursor (E : Wire) (z : Zstd) (key : KeyId) (cm : CursorMint) : Spec.Minted Identity :=
  ⟨E.enc (cm.tok z key), key, cm.who, cm.callId, cm.t⟩

def specCall (sh : Shape) (E : Wire) (z : Zstd) (key : KeyId) (km : CallMint) : Spec.Minted Identity :=
  ⟨E.enc (km.tok sh z key), key, km.who, km.callId, km.t⟩

/-- **C12, "served only if"** — for every reachable history of the system (any number of workers sharing the key,
    any interleaving of inits, accepted turns and cache evictions), a request is accepted only if its cursor text is
    byte-identical to a cursor token minted under the server key for the requesting identity, unexpired; the call
    token, when consulted (cache miss), is byte-identical to the call token of the same stream, same identity,
    unexpired; on a hit the call is one minted for that identity and stream.  The state the server goes on to decode
    is exactly the state it sealed. -/
theorem C12_unforgeable {E : Wire} {z : Zstd} {D : Decoders} {srv : Server} {keys : List KeyId} {W : World} {i : Nat}
    {r : Req} {effs : List Effect} {acc : Accepted}
    (hz : z.Lawful) (hk : srv.key ∉ keys) (hW : Reachable Shape.extracted E z D srv keys W)
    (hknown : ReqKnown E (W.toks Shape.extracted z srv.key) keys r) (hnf : r.who.NulFreeDomain) (hnm : NulFree r.method)
    (h : recover Shape.extracted E z D srv (W.caches i) r = (effs, .ok acc)) :
    Spec.ServedOnlyIfMinted (W.cursors.map (specCursor E z srv.key)) (W.calls.map (specCall Shape.extracted E z srv.key))
        srv.key r.who srv.ttl r.now r.cursor r.call (!acc.hit)
      ∧ ∃ cm ∈ W.cursors, r.cursor = E.enc (cm.tok z srv.key) ∧ acc.state = cm.state ∧ acc.callId = cm.callId := by
  have hinv := reachable_inv hz hk hW
  obtain ⟨cm, hcm, km, hkm, S⟩ := recover_sound hinv hz hk hknown hnf hnm h
  have htext := S.cursorText rfl
  refine ⟨⟨acc.callId, ?_, ?_, ?_⟩, cm, hcm, htext, S.cursorState.symm, S.cursorCall.symm⟩
  · exact ⟨specCursor E z srv.key cm, List.mem_map.mpr ⟨cm, hcm, rfl⟩, htext.symm, rfl, S.cursorWho, S.cursorCall,
      S.cursorFresh⟩
  · intro hmiss
    have hh : acc.hit = false := by simpa using hmiss
    obtain ⟨_, cw, hc, _, ht⟩ := S.miss hh
    exact ⟨cw, hc, specCall Shape.extracted E z srv.key km, List.mem_map.mpr ⟨km, hkm, rfl⟩, (ht rfl).symm, rfl,
      S.callWho, S.callId, S.callFresh⟩
  · intro _
    exact ⟨specCall Shape.extracted E z srv.key km, List.mem_map.mpr ⟨km, hkm, rfl⟩, rfl, S.callWho, S.callId, S.callFresh⟩

/-- corollary (identity binding): tokens minted for another identity are never accepted -/
theorem C12_cross_identity_rejected {E : Wire} {z : Zstd} {D : Decoders} {srv : Server} {keys : List KeyId} {W : World}
    {i : Nat} {r : Req} {effs : List Effect} {acc : Accepted}
    (hz : z.Lawful) (hk : srv.key ∉ keys) (hW : Reachable Shape.extracted E z D srv keys W)
    (hknown : ReqKnown E (W.toks Shape.extracted z srv.key) keys r) (hnf : r.who.NulFreeDomain) (hnm : NulFree r.method)
    (hforeign : ∀ cm ∈ W.cursors, r.cursor = E.enc (cm.tok z srv.key) → cm.who ≠ r.who) :
    recover Shape.extracted E z D srv (W.caches i) r ≠ (effs, .ok acc) := by
  intro h
  have hinv := reachable_inv hz hk hW
  obtain ⟨cm, hcm, km, hkm, S⟩ := recover_sound hinv hz hk hknown hnf hnm h
  exact hforeign cm hcm (S.cursorText rfl) S.cursorWho

/-! ### rejection comes first -/

/-- **C12, order**: a request that is rejected (any token check, or the missing call token) has had *no* effect:
    no cache write, no state deserialisation, no `bind_call_state` / `rehydrate`; `process` / `on_cancel` only run
    after `_unpack_and_recover_state` returned.  Holds for every shape. -/
theorem C12_order (sh : Shape) (E : Wire) (z : Zstd) (D : Decoders) (srv : Server) (cache : Cache) (r : Req)
    (effs : List Effect) (res : Res Accepted)
    (h : recover sh E z D srv cache r = (effs, res)) (hrej : (∃ x, res = .reject x) ∨ res = .missingCall) :
    effs = [] := by
  have fin : ∀ st cid e hit cr effs0, finishRecover D st cid e hit cr effs0 = (effs, res) → False := by
    intro st cid e hit cr effs0 hf
    unfold finishRecover at hf
    simp only [Prod.mk.injEq] at hf
    obtain ⟨_, h2⟩ := hf
    rcases hrej with ⟨x, hx⟩ | hx
    · subst hx; split at h2 <;> cases h2
    · subst hx; split at h2 <;> cases h2
  unfold recover recoverObs at h
  cases hc : openCursorObs sh.strictB64 z srv.key (aad (r.observe E).who) srv.ttl (r.observe E).now (r.observe E).cursor with
  | ok x =>
    obtain ⟨st, cid⟩ := x
    rw [hc] at h; simp only at h
    cases hl : cache.get cid (cacheIdent (r.observe E).who) (r.observe E).now with
    | some e =>
      rw [hl] at h; simp only at h
      split at h
      · simp only [Prod.mk.injEq] at h; exact h.1.symm
      · split at h
        · simp only [Prod.mk.injEq] at h; exact h.1.symm
        · exact (fin _ _ _ _ _ _ h).elim
    | none =>
      rw [hl] at h; simp only at h
      cases hr : resolveCallFromToken sh z D srv (r.observe E) cid with
      | ok e => rw [hr] at h; simp only at h; exact (fin _ _ _ _ _ _ h).elim
      | reject _ => rw [hr] at h; simp only [Prod.mk.injEq] at h; exact h.1.symm
      | missingCall => rw [hr] at h; simp only [Prod.mk.injEq] at h; exact h.1.symm
      | decodeError => rw [hr] at h; simp only [Prod.mk.injEq] at h; exact h.1.symm
      | crash => rw [hr] at h; simp only [Prod.mk.injEq] at h; exact h.1.symm
  | reject _ => rw [hc] at h; simp only [Prod.mk.injEq] at h; exact h.1.symm
  | missingCall => rw [hc] at h; simp only [Prod.mk.injEq] at h; exact h.1.symm
  | decodeError => rw [hc] at h; simp only [Prod.mk.injEq] at h; exact h.1.symm
  | crash => rw [hc] at h; simp only [Prod.mk.injEq] at h; exact h.1.symm

/-! ### one response for every failed check -/

/-- **C12, uniformity**: every token check (17 raise sites: base64, AEAD, codec, framing, TTL, stream pairing,
    method) answers with the same status and the same message — read from the extracted raise sites, so a site
    that gets its own text again breaks this proof. -/
theorem C12_uniform :
    (∀ r : Reject, response r = some ("BAD_REQUEST:uniform", Token.uniformMessage)) ∧
    Spec.Uniform response ∧ Token.uniformHelper = true := by
  have h : ∀ r : Reject, response r = some ("BAD_REQUEST:uniform", Token.uniformMessage) := by
    intro r; cases r <;> decide
  exact ⟨h, fun a b => by rw [h a, h b], rfl⟩

/-! ### opaqueness (symbolic) -/

/-- **C12, opaque**: without the key, an envelope shows its version, nonce and length only — two tokens that differ
    in the sealed state (or identity) but not in length are indistinguishable -/
theorem C12_opaque (keys : List KeyId) (k : KeyId) (hk : k ∉ keys) (a a' : Bytes) (v n : Nat) (p p' : Bytes)
    (hlen : p.length = p'.length) : view keys (.sealed k a v n p) = view keys (.sealed k a' v n p') := by
  simp [view, hk, hlen]

/-! non-vacuity: the hypotheses of `C12_unforgeable` are satisfiable with an accepted request — one `/init`
    followed by a continuation on the same (warm) worker -/
namespace Example
def z : Zstd := ⟨fun p => p, fun p => some p⟩
def body : CallBody := ⟨[], [], [1], [2], [3]⟩
def km : CallMint := ⟨.anonymous, "gen".toList, List.replicate 16 7, 100, body, 0⟩
def cm : CursorMint := ⟨.anonymous, "gen".toList, List.replicate 16 7, 100, [9, 9], 1⟩
def E : Wire := ⟨fun t => if t = cm.tok z 1 then [65] else [66], fun w => if w = [65] then some (cm.tok z 1) else none⟩
def D : Decoders := ⟨fun _ => true, fun _ => true, fun _ => true⟩
def srv : Server := ⟨1, 3600⟩
def W : World :=
  { cursors := [cm] ++ World.empty.cursors, calls := km :: World.empty.calls,
    caches := (setCache World.empty 0 ((World.empty.caches 0).put km.callId (cacheIdent km.who)
      (cacheDeadline srv.ttl km.t 100, ⟨km.method, km.body⟩))).caches }
def req : Req := ⟨.anonymous, "gen".toList, 150, [65], none⟩
def acc : Accepted := ⟨[9, 9], List.replicate 16 7, ⟨"gen".toList, body⟩, true, 0⟩

theorem lawful : z.Lawful := fun _ => rfl

theorem reachable : Reachable Shape.extracted E z D srv [] W := by
  refine Reachable.step Reachable.start (Step.init World.empty 0 km (some (100, [9, 9], 1)) 100 ?_ ?_ ?_)
  · have f : ∀ b : Bytes, b.length < 10 → fitsLen b := fun b h => by unfold fitsLen; tok_consts; omega
    refine ⟨by decide, by decide, ⟨f _ (by decide), f _ (by decide), f _ (by decide), f _ (by decide), f _ (by decide)⟩, trivial, ?_⟩
    exact nulFree_of_chars (by decide)
  · intro k hk; cases hk
  · intro c hc; cases hc; exact ⟨by decide, by unfold fitsLen; decide⟩

theorem accepted : recover Shape.extracted E z D srv (W.caches 0) req
    = ([.stateDecode, .bindCallState, .rehydrate], .ok acc) := by decide
end Example

end VgiVerif.C12
