import VgiVerif.Model.C40
import VgiVerif.Spec.C40
import VgiVerif.Lemmas.PyInt
import VgiVerif.Lemmas.PyStr
/-
C40 property theorems.  Helper lemmas in `namespace Aux`; obligations at the bottom.
-/
namespace VgiVerif.C40
open VgiVerif.Caps VgiVerif.Gen.Caps VgiVerif.PyStr VgiVerif.PyInt

namespace Aux

/-! #### dict / header-list lemmas -/

theorem lookup_setHeader (hs : Headers) (k v h : List Char) :
    lookupExact (setHeader hs k v) h = if k = h then some v else lookupExact hs h := by
  induction hs with
  | nil =>
    simp only [setHeader, lookupExact, List.find?_cons, List.find?_nil]
    by_cases hk : k = h
    · simp [hk]
    · have : (k == h) = false := by simpa using hk
      simp [this, hk]
  | cons p r ih =>
    obtain ⟨k', v'⟩ := p
    simp only [setHeader]
    by_cases h1 : k' = k
    · simp only [h1, if_true, lookupExact, List.find?_cons]
      by_cases hk : k = h
      · simp [hk]
      · have : (k == h) = false := by simpa using hk
        simp [this, hk]
    · simp only [h1, if_false]
      unfold lookupExact at ih ⊢
      simp only [List.find?_cons]
      by_cases hk' : k' = h
      · have hb : (k' == h) = true := by simpa using hk'
        have hk : k ≠ h := fun e => h1 (hk'.trans e.symm)
        simp [hb, hk]
      · have hb : (k' == h) = false := by simpa using hk'
        simp only [hb]
        exact ih

theorem setHeader_fresh (hs : Headers) (k v : List Char) (h : ∀ p ∈ hs, p.1 ≠ k) :
    setHeader hs k v = hs ++ [(k, v)] := by
  induction hs with
  | nil => rfl
  | cons p r ih =>
    have h1 : p.1 ≠ k := h p (by simp)
    simp [setHeader, h1, ih (fun q hq => h q (by simp [hq]))]

theorem lookup_none_of_not_mem (hs : Headers) (h : List Char) (hn : ∀ p ∈ hs, p.1 ≠ h) : lookupExact hs h = none := by
  simp only [lookupExact, Option.map_eq_none_iff, List.find?_eq_none]
  intro p hp
  simpa using hn p hp

/-- rows with pairwise distinct headers: the dict built by successive assignment is the list of contributed entries -/
theorem fold_eq_filterMap (cfg : Cfg) (rows : List Row) (acc : Headers)
    (hd : ∀ r ∈ rows, ∀ p ∈ acc, p.1 ≠ r.header) (nd : (rows.map (·.header)).Nodup) :
    rows.foldl (addRow cfg) acc = acc ++ rows.filterMap (rowEntry cfg) := by
  induction rows generalizing acc with
  | nil => simp
  | cons r rs ih =>
    simp only [List.map_cons, List.nodup_cons] at nd
    simp only [List.foldl_cons, List.filterMap_cons]
    cases hre : rowEntry cfg r with
    | none =>
      simp only [addRow, hre]
      exact ih acc (fun r' hr' => hd r' (by simp [hr'])) nd.2
    | some kv =>
      have hk : kv.1 = r.header := by
        simp only [rowEntry] at hre
        split at hre
        · cases hre; rfl
        · cases hre
      simp only [addRow, hre]
      rw [setHeader_fresh acc kv.1 kv.2 (fun p hp => by rw [hk]; exact hd r (by simp) p hp)]
      rw [ih (acc ++ [(kv.1, kv.2)]) ?_ nd.2]
      · simp
      · intro r' hr' p hp
        simp only [List.mem_append, List.mem_singleton] at hp
        rcases hp with hp | rfl
        · exact hd r' (by simp [hr']) p hp
        · simp only [hk]
          intro he
          exact nd.1 (by rw [he]; exact List.mem_map_of_mem (f := (·.header)) hr')

/-- lookup in the contributed entries = the contribution of the (unique) row with that header -/
theorem lookup_filterMap (cfg : Cfg) (rows : List Row) (nd : (rows.map (·.header)).Nodup) (h : List Char) :
    lookupExact (rows.filterMap (rowEntry cfg)) h =
      (rows.find? (fun r => r.header == h)).bind (fun r => (rowEntry cfg r).map (·.2)) := by
  induction rows with
  | nil => rfl
  | cons r rs ih =>
    simp only [List.map_cons, List.nodup_cons] at nd
    have hkey : ∀ kv, rowEntry cfg r = some kv → kv.1 = r.header := by
      intro kv hre
      simp only [rowEntry] at hre
      split at hre
      · cases hre; rfl
      · cases hre
    by_cases hh : r.header = h
    · have hb : (r.header == h) = true := by simpa using hh
      simp only [List.find?_cons, hb, Option.bind_some, List.filterMap_cons]
      cases hre : rowEntry cfg r with
      | none =>
        simp only [Option.map_none]
        apply lookup_none_of_not_mem
        intro p hp
        simp only [List.mem_filterMap] at hp
        obtain ⟨r', hr', hre'⟩ := hp
        have : p.1 = r'.header := by
          simp only [rowEntry] at hre'
          split at hre'
          · cases hre'; rfl
          · cases hre'
        rw [this, ← hh]
        intro he
        exact nd.1 (by rw [← he]; exact List.mem_map_of_mem (f := (·.header)) hr')
      | some kv =>
        have := hkey kv hre
        simp [lookupExact, List.find?, this, hh]
    · have hb : (r.header == h) = false := by simpa using hh
      simp only [List.find?_cons, hb, List.filterMap_cons]
      cases hre : rowEntry cfg r with
      | none => exact ih nd.2
      | some kv =>
        have hk := hkey kv hre
        have : (kv.1 == h) = false := by rw [hk]; exact hb
        simp only [lookupExact, List.find?_cons, this]
        exact ih nd.2

theorem table_nodup : (table.map (·.header)).Nodup := by decide

theorem capHeaders_eq (cfg : Cfg) : capHeaders cfg = table.filterMap (rowEntry cfg) := by
  unfold capHeaders
  rw [fold_eq_filterMap cfg table [] (by simp) table_nodup]
  simp

theorem lookup_capHeaders (cfg : Cfg) (h : List Char) :
    lookupExact (capHeaders cfg) h =
      (table.find? (fun r => r.header == h)).bind (fun r => (rowEntry cfg r).map (·.2)) := by
  rw [capHeaders_eq]; exact lookup_filterMap cfg table table_nodup h

theorem row_hMaxRequestBytes (cfg : Cfg) :
    (table.find? (fun r => r.header == Spec.hMaxRequestBytes)).bind (fun r => (rowEntry cfg r).map (·.2))
      = (rowEntry cfg ⟨"MAX_REQUEST_BYTES_HEADER", Spec.hMaxRequestBytes, [.maxRequestBytes], .decimal .maxRequestBytes⟩).map (·.2) := rfl
theorem exp_hMaxRequestBytes (cfg : Cfg) : Spec.expected cfg Spec.hMaxRequestBytes = cfg.maxRequestBytes.map Spec.decimal := rfl
theorem row_hMaxResponseBytes (cfg : Cfg) :
    (table.find? (fun r => r.header == Spec.hMaxResponseBytes)).bind (fun r => (rowEntry cfg r).map (·.2))
      = (rowEntry cfg ⟨"MAX_RESPONSE_BYTES_HEADER", Spec.hMaxResponseBytes, [.maxResponseBytes], .decimal .maxResponseBytes⟩).map (·.2) := rfl
theorem exp_hMaxResponseBytes (cfg : Cfg) : Spec.expected cfg Spec.hMaxResponseBytes = cfg.maxResponseBytes.map Spec.decimal := rfl
theorem row_hMaxExternalizedResponseBytes (cfg : Cfg) :
    (table.find? (fun r => r.header == Spec.hMaxExternalizedResponseBytes)).bind (fun r => (rowEntry cfg r).map (·.2))
      = (rowEntry cfg ⟨"MAX_EXTERNALIZED_RESPONSE_BYTES_HEADER", Spec.hMaxExternalizedResponseBytes, [.maxExternalizedResponseBytes], .decimal .maxExternalizedResponseBytes⟩).map (·.2) := rfl
theorem exp_hMaxExternalizedResponseBytes (cfg : Cfg) : Spec.expected cfg Spec.hMaxExternalizedResponseBytes = cfg.maxExternalizedResponseBytes.map Spec.decimal := rfl
theorem row_hExternalizationEnabled (cfg : Cfg) :
    (table.find? (fun r => r.header == Spec.hExternalizationEnabled)).bind (fun r => (rowEntry cfg r).map (·.2))
      = (rowEntry cfg ⟨"EXTERNALIZATION_ENABLED_HEADER", Spec.hExternalizationEnabled, [], .storageFlag⟩).map (·.2) := rfl
theorem exp_hExternalizationEnabled (cfg : Cfg) : Spec.expected cfg Spec.hExternalizationEnabled = some (if cfg.storage then Spec.yes else Spec.no) := rfl
theorem row_hSupportedEncodings (cfg : Cfg) :
    (table.find? (fun r => r.header == Spec.hSupportedEncodings)).bind (fun r => (rowEntry cfg r).map (·.2))
      = (rowEntry cfg ⟨"SUPPORTED_ENCODINGS_HEADER", Spec.hSupportedEncodings, [], .encodings⟩).map (·.2) := rfl
theorem exp_hSupportedEncodings (cfg : Cfg) : Spec.expected cfg Spec.hSupportedEncodings = some (Spec.commaSep ((Spec.codecs cfg).map Spec.codecToken)) := rfl
theorem row_hUploadUrlSupport (cfg : Cfg) :
    (table.find? (fun r => r.header == Spec.hUploadUrlSupport)).bind (fun r => (rowEntry cfg r).map (·.2))
      = (rowEntry cfg ⟨"UPLOAD_URL_HEADER", Spec.hUploadUrlSupport, [.uploadProvider], .litTrue⟩).map (·.2) := rfl
theorem exp_hUploadUrlSupport (cfg : Cfg) : Spec.expected cfg Spec.hUploadUrlSupport = Spec.flag cfg.uploadProvider := rfl
theorem row_hMaxUploadBytes (cfg : Cfg) :
    (table.find? (fun r => r.header == Spec.hMaxUploadBytes)).bind (fun r => (rowEntry cfg r).map (·.2))
      = (rowEntry cfg ⟨"MAX_UPLOAD_BYTES_HEADER", Spec.hMaxUploadBytes, [.uploadProvider, .maxUploadBytes], .decimal .maxUploadBytes⟩).map (·.2) := rfl
theorem exp_hMaxUploadBytes (cfg : Cfg) : Spec.expected cfg Spec.hMaxUploadBytes = if cfg.uploadProvider then cfg.maxUploadBytes.map Spec.decimal else none := rfl
theorem row_hProxyProofRequired (cfg : Cfg) :
    (table.find? (fun r => r.header == Spec.hProxyProofRequired)).bind (fun r => (rowEntry cfg r).map (·.2))
      = (rowEntry cfg ⟨"PROOF_REQUIRED_HEADER", Spec.hProxyProofRequired, [.proofRequired], .litTrue⟩).map (·.2) := rfl
theorem exp_hProxyProofRequired (cfg : Cfg) : Spec.expected cfg Spec.hProxyProofRequired = Spec.flag cfg.proofRequired := rfl
theorem row_hStickyEnabled (cfg : Cfg) :
    (table.find? (fun r => r.header == Spec.hStickyEnabled)).bind (fun r => (rowEntry cfg r).map (·.2))
      = (rowEntry cfg ⟨"STICKY_ENABLED_HEADER", Spec.hStickyEnabled, [.sticky], .litTrue⟩).map (·.2) := rfl
theorem exp_hStickyEnabled (cfg : Cfg) : Spec.expected cfg Spec.hStickyEnabled = Spec.flag cfg.sticky := rfl
theorem row_hStickyDefaultTtl (cfg : Cfg) :
    (table.find? (fun r => r.header == Spec.hStickyDefaultTtl)).bind (fun r => (rowEntry cfg r).map (·.2))
      = (rowEntry cfg ⟨"STICKY_DEFAULT_TTL_HEADER", Spec.hStickyDefaultTtl, [.sticky], .truncDecimal⟩).map (·.2) := rfl
theorem exp_hStickyDefaultTtl (cfg : Cfg) : Spec.expected cfg Spec.hStickyDefaultTtl = if cfg.sticky then some (Spec.decimal cfg.stickyTtl) else none := rfl
theorem row_hStickyEchoHeaders (cfg : Cfg) :
    (table.find? (fun r => r.header == Spec.hStickyEchoHeaders)).bind (fun r => (rowEntry cfg r).map (·.2))
      = (rowEntry cfg ⟨"STICKY_ECHO_HEADERS_HEADER", Spec.hStickyEchoHeaders, [.sticky, .stickyEcho], .echoNames⟩).map (·.2) := rfl
theorem exp_hStickyEchoHeaders (cfg : Cfg) : Spec.expected cfg Spec.hStickyEchoHeaders = if cfg.sticky && !cfg.stickyEcho.isEmpty then some (Spec.commaSep cfg.stickyEcho) else none := rfl
theorem row_hTokenIntrospection (cfg : Cfg) :
    (table.find? (fun r => r.header == Spec.hTokenIntrospection)).bind (fun r => (rowEntry cfg r).map (·.2))
      = (rowEntry cfg ⟨"INTROSPECT_ENABLED_HEADER", Spec.hTokenIntrospection, [.introspect], .litTrue⟩).map (·.2) := rfl
theorem exp_hTokenIntrospection (cfg : Cfg) : Spec.expected cfg Spec.hTokenIntrospection = Spec.flag cfg.introspect := rfl

end Aux

/-! ### obligations -/

/-- shapes the model relies on, re-checked against the extraction on every run: the encoding pipeline, the stamping loop,
    the installation guard (never false: two rows are unconditional), distinct header names, and the probe's field table -/
theorem table_shape :
    encodingsRecognised = true ∧ stampsAll = true ∧ cacheControlOnOptions = true ∧ installedIfNonEmpty = true
    ∧ encodingOrder = [encName .zstd, encName .gzip]
    ∧ table.any (fun r => r.conds.isEmpty) = true
    ∧ table.map (·.header) =
        [Spec.hMaxRequestBytes, Spec.hMaxResponseBytes, Spec.hMaxExternalizedResponseBytes, Spec.hExternalizationEnabled,
         Spec.hUploadUrlSupport, Spec.hMaxUploadBytes, Spec.hSupportedEncodings, Spec.hProxyProofRequired,
         Spec.hTokenIntrospection, Spec.hStickyEnabled, Spec.hStickyDefaultTtl, Spec.hStickyEchoHeaders]
    ∧ Gen.Caps.probe.map (fun p => (p.field, p.header, p.kind)) =
        [("max_request_bytes", Spec.hMaxRequestBytes, .optInt), ("max_response_bytes", Spec.hMaxResponseBytes, .optInt),
         ("max_externalized_response_bytes", Spec.hMaxExternalizedResponseBytes, .optInt),
         ("externalization_enabled", Spec.hExternalizationEnabled, .isTrue),
         ("upload_url_support", Spec.hUploadUrlSupport, .isTrue), ("max_upload_bytes", Spec.hMaxUploadBytes, .optInt),
         ("supported_encodings", Spec.hSupportedEncodings, .encodings), ("sticky_enabled", Spec.hStickyEnabled, .isTrue),
         ("sticky_default_ttl", Spec.hStickyDefaultTtl, .optInt), ("sticky_echo_headers", Spec.hStickyEchoHeaders, .names)] := by
  refine ⟨rfl, rfl, rfl, rfl, rfl, by decide, rfl, rfl⟩

/-- **C40_exact** — for every configuration and every header name: the capability dict built by `make_wsgi_app` carries the
    header iff the documented table says so, with the documented value (absent for every other name) -/
theorem C40_exact (cfg : Cfg) (h : List Char) : lookupExact (capHeaders cfg) h = Spec.expected cfg h := by
  rw [Aux.lookup_capHeaders]
  by_cases hm : h ∈ Spec.capNames
  · simp only [Spec.capNames, List.mem_cons, List.mem_nil_iff, or_false] at hm
    rcases hm with rfl | rfl | rfl | rfl | rfl | rfl | rfl | rfl | rfl | rfl | rfl | rfl
    · rw [Aux.row_hMaxRequestBytes, Aux.exp_hMaxRequestBytes]
      cases hv : cfg.maxRequestBytes <;> simp [rowEntry, evalCond, evalVal, intParam, hv, Spec.decimal]
    · rw [Aux.row_hMaxResponseBytes, Aux.exp_hMaxResponseBytes]
      cases hv : cfg.maxResponseBytes <;> simp [rowEntry, evalCond, evalVal, intParam, hv, Spec.decimal]
    · rw [Aux.row_hMaxExternalizedResponseBytes, Aux.exp_hMaxExternalizedResponseBytes]
      cases hv : cfg.maxExternalizedResponseBytes <;> simp [rowEntry, evalCond, evalVal, intParam, hv, Spec.decimal]
    · rw [Aux.row_hExternalizationEnabled, Aux.exp_hExternalizationEnabled]
      cases hv : cfg.storage <;> simp [rowEntry, evalVal, hv, Spec.yes, Spec.no, sTrue, sFalse]
    · rw [Aux.row_hSupportedEncodings, Aux.exp_hSupportedEncodings]
      cases hc : cfg.compression <;> cases hz : cfg.zstdAvailable <;>
        simp [rowEntry, evalVal, enabledEncodings, decodable, hc, hz, Spec.commaSep, Spec.codecs, Spec.codecToken, encName, commaSpace]
    · rw [Aux.row_hUploadUrlSupport, Aux.exp_hUploadUrlSupport]
      cases hv : cfg.uploadProvider <;> simp [rowEntry, evalCond, evalVal, hv, Spec.flag, Spec.yes, sTrue]
    · rw [Aux.row_hMaxUploadBytes, Aux.exp_hMaxUploadBytes]
      cases hu : cfg.uploadProvider <;> cases hv : cfg.maxUploadBytes <;>
        simp [rowEntry, evalCond, evalVal, intParam, hu, hv, Spec.decimal]
    · rw [Aux.row_hProxyProofRequired, Aux.exp_hProxyProofRequired]
      cases hv : cfg.proofRequired <;> simp [rowEntry, evalCond, evalVal, hv, Spec.flag, Spec.yes, sTrue]
    · rw [Aux.row_hStickyEnabled, Aux.exp_hStickyEnabled]
      cases hv : cfg.sticky <;> simp [rowEntry, evalCond, evalVal, hv, Spec.flag, Spec.yes, sTrue]
    · rw [Aux.row_hStickyDefaultTtl, Aux.exp_hStickyDefaultTtl]
      cases hv : cfg.sticky <;> simp [rowEntry, evalCond, evalVal, hv, Spec.decimal]
    · rw [Aux.row_hStickyEchoHeaders, Aux.exp_hStickyEchoHeaders]
      cases hv : cfg.sticky <;> cases he : cfg.stickyEcho.isEmpty <;>
        simp [rowEntry, evalCond, evalVal, hv, he, Spec.commaSep, commaSpace]
    · rw [Aux.row_hTokenIntrospection, Aux.exp_hTokenIntrospection]
      cases hv : cfg.introspect <;> simp [rowEntry, evalCond, evalVal, hv, Spec.flag, Spec.yes, sTrue]
  · have h1 : table.find? (fun r => r.header == h) = none := by
      rw [List.find?_eq_none]
      intro r hr
      have : r.header ∈ Spec.capNames := by
        have := List.mem_map_of_mem (f := (·.header)) hr
        rw [table_shape.2.2.2.2.2.2.1] at this
        simp only [Spec.capNames, List.mem_cons, List.mem_nil_iff, or_false] at this ⊢
        rcases this with h | h | h | h | h | h | h | h | h | h | h | h <;> simp [h]
      intro he
      exact hm (by rw [← (by simpa using he : r.header = h)]; exact this)
    have h2 : (Spec.docTable cfg).find? (fun p => p.1 == h) = none := by
      rw [List.find?_eq_none]
      intro p hp he
      apply hm
      have hk : p.1 = h := by simpa using he
      simp only [Spec.docTable, List.mem_cons, List.mem_nil_iff, or_false] at hp
      simp only [Spec.capNames, List.mem_cons, List.mem_nil_iff, or_false]
      rcases hp with rfl | rfl | rfl | rfl | rfl | rfl | rfl | rfl | rfl | rfl | rfl | rfl <;> simp [← hk]
    simp [h1, Spec.expected, h2]

end VgiVerif.C40
