import VgiVerif.Model.C40
import VgiVerif.Spec.C40
import VgiVerif.Lemmas.PyInt
import VgiVerif.Lemmas.PyStr
/-
C40 property theorems.  Helper lemmas in `namespace Aux`; obligations at the bottom.
-/
namespace VgiVerif.C40
open VgiVerif.Caps VgiVerif.Gen.Caps VgiVerif.PyStr VgiVerif.PyInt

namespace Aux

/-! #### dict / header-list lemmas -/

theorem lookup_setHeader (hs : Headers) (k v h : List Char) :
    lookupExact (setHeader hs k v) h = if k = h then some v else lookupExact hs h := by
  induction hs with
  | nil =>
    simp only [setHeader, lookupExact, List.find?_cons, List.find?_nil]
    by_cases hk : k = h
    · simp [hk]
    · have : (k == h) = false := by simpa using hk
      simp [this, hk]
  | cons p r ih =>
    obtain ⟨k', v'⟩ := p
    simp only [setHeader]
    by_cases h1 : k' = k
    · simp only [h1, if_true, lookupExact, List.find?_cons]
      by_cases hk : k = h
      · simp [hk]
      · have : (k == h) = false := by simpa using hk
        simp [this, hk]
    · simp only [h1, if_false]
      unfold lookupExact at ih ⊢
      simp only [List.find?_cons]
      by_cases hk' : k' = h
      · have hb : (k' == h) = true := by simpa using hk'
        have hk : k ≠ h := fun e => h1 (hk'.trans e.symm)
        simp [hb, hk]
      · have hb : (k' == h) = false := by simpa using hk'
        simp only [hb]
        exact ih

theorem setHeader_fresh (hs : Headers) (k v : List Char) (h : ∀ p ∈ hs, p.1 ≠ k) :
    setHeader hs k v = hs ++ [(k, v)] := by
  induction hs with
  | nil => rfl
  | cons p r ih =>
    have h1 : p.1 ≠ k := h p (by simp)
    simp [setHeader, h1, ih (fun q hq => h q (by simp [hq]))]

theorem lookup_none_of_not_mem (hs : Headers) (h : List Char) (hn : ∀ p ∈ hs, p.1 ≠ h) : lookupExact hs h = none := by
  simp only [lookupExact, Option.map_eq_none_iff, List.find?_eq_none]
  intro p hp
  simpa using hn p hp

/-- rows with pairwise distinct headers: the dict built by successive assignment is the list of contributed entries -/
theorem fold_eq_filterMap (cfg : Cfg) (rows : List Row) (acc : Headers)
    (hd : ∀ r ∈ rows, ∀ p ∈ acc, p.1 ≠ r.header) (nd : (rows.map (·.header)).Nodup) :
    rows.foldl (addRow cfg) acc = acc ++ rows.filterMap (rowEntry cfg) := by
  induction rows generalizing acc with
  | nil => simp
  | cons r rs ih =>
    simp only [List.map_cons, List.nodup_cons] at nd
    simp only [List.foldl_cons, List.filterMap_cons]
    cases hre : rowEntry cfg r with
    | none =>
      simp only [addRow, hre]
      exact ih acc (fun r' hr' => hd r' (by simp [hr'])) nd.2
    | some kv =>
      have hk : kv.1 = r.header := by
        simp only [rowEntry] at hre
        split at hre
        · cases hre; rfl
        · cases hre
      simp only [addRow, hre]
      rw [setHeader_fresh acc kv.1 kv.2 (fun p hp => by rw [hk]; exact hd r (by simp) p hp)]
      rw [ih (acc ++ [(kv.1, kv.2)]) ?_ nd.2]
      · simp
      · intro r' hr' p hp
        simp only [List.mem_append, List.mem_singleton] at hp
        rcases hp with hp | rfl
        · exact hd r' (by simp [hr']) p hp
        · simp only [hk]
          intro he
          exact nd.1 (by rw [he]; exact List.mem_map_of_mem (f := (·.header)) hr')

/-- lookup in the contributed entries = the contribution of the (unique) row with that header -/
theorem lookup_filterMap (cfg : Cfg) (rows : List Row) (nd : (rows.map (·.header)).Nodup) (h : List Char) :
    lookupExact (rows.filterMap (rowEntry cfg)) h =
      (rows.find? (fun r => r.header == h)).bind (fun r => (rowEntry cfg r).map (·.2)) := by
  induction rows with
  | nil => rfl
  | cons r rs ih =>
    simp only [List.map_cons, List.nodup_cons] at nd
    have hkey : ∀ kv, rowEntry cfg r = some kv → kv.1 = r.header := by
      intro kv hre
      simp only [rowEntry] at hre
      split at hre
      · cases hre; rfl
      · cases hre
    by_cases hh : r.header = h
    · have hb : (r.header == h) = true := by simpa using hh
      simp only [List.find?_cons, hb, Option.bind_some, List.filterMap_cons]
      cases hre : rowEntry cfg r with
      | none =>
        simp only [Option.map_none]
        apply lookup_none_of_not_mem
        intro p hp
        simp only [List.mem_filterMap] at hp
        obtain ⟨r', hr', hre'⟩ := hp
        have : p.1 = r'.header := by
          simp only [rowEntry] at hre'
          split at hre'
          · cases hre'; rfl
          · cases hre'
        rw [this, ← hh]
        intro he
        exact nd.1 (by rw [← he]; exact List.mem_map_of_mem (f := (·.header)) hr')
      | some kv =>
        have := hkey kv hre
        simp [lookupExact, List.find?, this, hh]
    · have hb : (r.header == h) = false := by simpa using hh
      simp only [List.find?_cons, hb, List.filterMap_cons]
      cases hre : rowEntry cfg r with
      | none => exact ih nd.2
      | some kv =>
        have hk := hkey kv hre
        have : (kv.1 == h) = false := by rw [hk]; exact hb
        simp only [lookupExact, List.find?_cons, this]
        exact ih nd.2

theorem table_nodup : (table.map (·.header)).Nodup := by decide

theorem capHeaders_eq (cfg : Cfg) : capHeaders cfg = table.filterMap (rowEntry cfg) := by
  unfold capHeaders
  rw [fold_eq_filterMap cfg table [] (by simp) table_nodup]
  simp

theorem lookup_capHeaders (cfg : Cfg) (h : List Char) :
    lookupExact (capHeaders cfg) h =
      (table.find? (fun r => r.header == h)).bind (fun r => (rowEntry cfg r).map (·.2)) := by
  rw [capHeaders_eq]; exact lookup_filterMap cfg table table_nodup h

theorem row_hMaxRequestBytes (cfg : Cfg) :
    (table.find? (fun r => r.header == Spec.hMaxRequestBytes)).bind (fun r => (rowEntry cfg r).map (·.2))
      = (rowEntry cfg ⟨"MAX_REQUEST_BYTES_HEADER", Spec.hMaxRequestBytes, [.maxRequestBytes], .decimal .maxRequestBytes⟩).map (·.2) := rfl
theorem exp_hMaxRequestBytes (cfg : Cfg) : Spec.expected cfg Spec.hMaxRequestBytes = cfg.maxRequestBytes.map Spec.decimal := rfl
theorem row_hMaxResponseBytes (cfg : Cfg) :
    (table.find? (fun r => r.header == Spec.hMaxResponseBytes)).bind (fun r => (rowEntry cfg r).map (·.2))
      = (rowEntry cfg ⟨"MAX_RESPONSE_BYTES_HEADER", Spec.hMaxResponseBytes, [.maxResponseBytes], .decimal .maxResponseBytes⟩).map (·.2) := rfl
theorem exp_hMaxResponseBytes (cfg : Cfg) : Spec.expected cfg Spec.hMaxResponseBytes = cfg.maxResponseBytes.map Spec.decimal := rfl
theorem row_hMaxExternalizedResponseBytes (cfg : Cfg) :
    (table.find? (fun r => r.header == Spec.hMaxExternalizedResponseBytes)).bind (fun r => (rowEntry cfg r).map (·.2))
      = (rowEntry cfg ⟨"MAX_EXTERNALIZED_RESPONSE_BYTES_HEADER", Spec.hMaxExternalizedResponseBytes, [.maxExternalizedResponseBytes], .decimal .maxExternalizedResponseBytes⟩).map (·.2) := rfl
theorem exp_hMaxExternalizedResponseBytes (cfg : Cfg) : Spec.expected cfg Spec.hMaxExternalizedResponseBytes = cfg.maxExternalizedResponseBytes.map Spec.decimal := rfl
theorem row_hExternalizationEnabled (cfg : Cfg) :
    (table.find? (fun r => r.header == Spec.hExternalizationEnabled)).bind (fun r => (rowEntry cfg r).map (·.2))
      = (rowEntry cfg ⟨"EXTERNALIZATION_ENABLED_HEADER", Spec.hExternalizationEnabled, [], .storageFlag⟩).map (·.2) := rfl
theorem exp_hExternalizationEnabled (cfg : Cfg) : Spec.expected cfg Spec.hExternalizationEnabled = some (if cfg.storage then Spec.yes else Spec.no) := rfl
theorem row_hSupportedEncodings (cfg : Cfg) :
    (table.find? (fun r => r.header == Spec.hSupportedEncodings)).bind (fun r => (rowEntry cfg r).map (·.2))
      = (rowEntry cfg ⟨"SUPPORTED_ENCODINGS_HEADER", Spec.hSupportedEncodings, [], .encodings⟩).map (·.2) := rfl
theorem exp_hSupportedEncodings (cfg : Cfg) : Spec.expected cfg Spec.hSupportedEncodings = some (Spec.commaSep ((Spec.codecs cfg).map Spec.codecToken)) := rfl
theorem row_hUploadUrlSupport (cfg : Cfg) :
    (table.find? (fun r => r.header == Spec.hUploadUrlSupport)).bind (fun r => (rowEntry cfg r).map (·.2))
      = (rowEntry cfg ⟨"UPLOAD_URL_HEADER", Spec.hUploadUrlSupport, [.uploadProvider], .litTrue⟩).map (·.2) := rfl
theorem exp_hUploadUrlSupport (cfg : Cfg) : Spec.expected cfg Spec.hUploadUrlSupport = Spec.flag cfg.uploadProvider := rfl
theorem row_hMaxUploadBytes (cfg : Cfg) :
    (table.find? (fun r => r.header == Spec.hMaxUploadBytes)).bind (fun r => (rowEntry cfg r).map (·.2))
      = (rowEntry cfg ⟨"MAX_UPLOAD_BYTES_HEADER", Spec.hMaxUploadBytes, [.uploadProvider, .maxUploadBytes], .decimal .maxUploadBytes⟩).map (·.2) := rfl
theorem exp_hMaxUploadBytes (cfg : Cfg) : Spec.expected cfg Spec.hMaxUploadBytes = if cfg.uploadProvider then cfg.maxUploadBytes.map Spec.decimal else none := rfl
theorem row_hProxyProofRequired (cfg : Cfg) :
    (table.find? (fun r => r.header == Spec.hProxyProofRequired)).bind (fun r => (rowEntry cfg r).map (·.2))
      = (rowEntry cfg ⟨"PROOF_REQUIRED_HEADER", Spec.hProxyProofRequired, [.proofRequired], .litTrue⟩).map (·.2) := rfl
theorem exp_hProxyProofRequired (cfg : Cfg) : Spec.expected cfg Spec.hProxyProofRequired = Spec.flag cfg.proofRequired := rfl
theorem row_hStickyEnabled (cfg : Cfg) :
    (table.find? (fun r => r.header == Spec.hStickyEnabled)).bind (fun r => (rowEntry cfg r).map (·.2))
      = (rowEntry cfg ⟨"STICKY_ENABLED_HEADER", Spec.hStickyEnabled, [.sticky], .litTrue⟩).map (·.2) := rfl
theorem exp_hStickyEnabled (cfg : Cfg) : Spec.expected cfg Spec.hStickyEnabled = Spec.flag cfg.sticky := rfl
theorem row_hStickyDefaultTtl (cfg : Cfg) :
    (table.find? (fun r => r.header == Spec.hStickyDefaultTtl)).bind (fun r => (rowEntry cfg r).map (·.2))
      = (rowEntry cfg ⟨"STICKY_DEFAULT_TTL_HEADER", Spec.hStickyDefaultTtl, [.sticky], .truncDecimal⟩).map (·.2) := rfl
theorem exp_hStickyDefaultTtl (cfg : Cfg) : Spec.expected cfg Spec.hStickyDefaultTtl = if cfg.sticky then some (Spec.decimal cfg.stickyTtl) else none := rfl
theorem row_hStickyEchoHeaders (cfg : Cfg) :
    (table.find? (fun r => r.header == Spec.hStickyEchoHeaders)).bind (fun r => (rowEntry cfg r).map (·.2))
      = (rowEntry cfg ⟨"STICKY_ECHO_HEADERS_HEADER", Spec.hStickyEchoHeaders, [.sticky, .stickyEcho], .echoNames⟩).map (·.2) := rfl
theorem exp_hStickyEchoHeaders (cfg : Cfg) : Spec.expected cfg Spec.hStickyEchoHeaders = if cfg.sticky && !cfg.stickyEcho.isEmpty then some (Spec.commaSep cfg.stickyEcho) else none := rfl
theorem row_hTokenIntrospection (cfg : Cfg) :
    (table.find? (fun r => r.header == Spec.hTokenIntrospection)).bind (fun r => (rowEntry cfg r).map (·.2))
      = (rowEntry cfg ⟨"INTROSPECT_ENABLED_HEADER", Spec.hTokenIntrospection, [.introspect], .litTrue⟩).map (·.2) := rfl
theorem exp_hTokenIntrospection (cfg : Cfg) : Spec.expected cfg Spec.hTokenIntrospection = Spec.flag cfg.introspect := rfl

/-! #### case-insensitive names -/

def capNamesLower : List (List Char) := Spec.capNames.map lower

theorem lower_inj_capNames : ∀ a ∈ Spec.capNames, ∀ b ∈ Spec.capNames, lower a = lower b → a = b := by decide

theorem table_headers_capNames : ∀ r ∈ table, r.header ∈ Spec.capNames := by decide

theorem capHeaders_keys (cfg : Cfg) : ∀ p ∈ capHeaders cfg, p.1 ∈ Spec.capNames := by
  intro p hp
  rw [capHeaders_eq, List.mem_filterMap] at hp
  obtain ⟨r, hr, hre⟩ := hp
  have : p.1 = r.header := by
    simp only [rowEntry] at hre
    split at hre
    · cases hre; rfl
    · cases hre
  rw [this]; exact table_headers_capNames r hr

theorem find_congr {α} (l : List α) (f g : α → Bool) (h : ∀ a ∈ l, f a = g a) : l.find? f = l.find? g := by
  induction l with
  | nil => rfl
  | cons a r ih =>
    simp only [List.find?_cons, h a (by simp)]
    rw [ih (fun b hb => h b (by simp [hb]))]

/-- on the capability dict, a case-insensitive lookup of a capability name is the exact lookup -/
theorem find_lower_capHeaders (cfg : Cfg) (h : List Char) (hh : h ∈ Spec.capNames) :
    (capHeaders cfg).find? (fun p => lower p.1 == lower h) = (capHeaders cfg).find? (fun p => p.1 == h) := by
  apply find_congr
  intro p hp
  have hk := capHeaders_keys cfg p hp
  show (lower p.1 == lower h) = (p.1 == h)
  by_cases he : p.1 = h
  · subst he; simp
  · have : lower p.1 ≠ lower h := fun e => he (lower_inj_capNames _ hk _ hh e)
    have h1 : (lower p.1 == lower h) = false := by simpa using this
    have h2 : (p.1 == h) = false := by simpa using he
    rw [h1, h2]

theorem getHdr_capHeaders (cfg : Cfg) (h : List Char) (hh : h ∈ Spec.capNames) :
    getHdr (capHeaders cfg) h = lookupExact (capHeaders cfg) h := by
  simp only [getHdr, lookupExact, find_lower_capHeaders cfg h hh]

theorem lower_table_nodup : (table.map (fun r => lower r.header)).Nodup := by decide

theorem filterMap_keys_sublist (cfg : Cfg) (rows : List Row) :
    ((rows.filterMap (rowEntry cfg)).map (fun p => lower p.1)).Sublist (rows.map (fun r => lower r.header)) := by
  induction rows with
  | nil => exact List.Sublist.slnil
  | cons r rs ih =>
    simp only [List.filterMap_cons, List.map_cons]
    cases hre : rowEntry cfg r with
    | none => exact List.Sublist.cons _ ih
    | some kv =>
      have : kv.1 = r.header := by
        simp only [rowEntry] at hre
        split at hre
        · cases hre; rfl
        · cases hre
      simp only [List.map_cons, this]
      exact List.Sublist.cons_cons _ ih

/-! #### the response pipeline -/

theorem lookup_filter_ne (hs : Headers) (d k : List Char) (hne : k ≠ d) :
    lookupExact (hs.filter (fun p => !(p.1 == d))) k = lookupExact hs k := by
  induction hs with
  | nil => rfl
  | cons p r ih =>
    unfold lookupExact at ih ⊢
    by_cases hp : p.1 = d
    · have h1 : (p.1 == d) = true := by simpa using hp
      have h2 : (p.1 == k) = false := by
        have : p.1 ≠ k := fun e => hne (e.symm.trans hp)
        simpa using this
      simp only [List.filter_cons, h1, Bool.not_true, Bool.false_eq_true, if_false, List.find?_cons, h2]
      exact ih
    · have h1 : (p.1 == d) = false := by simpa using hp
      simp only [List.filter_cons, h1, Bool.not_false, if_true, List.find?_cons]
      cases (p.1 == k)
      · exact ih
      · rfl

theorem applyOp_preserves (hs : Headers) (op : Op) (k : List Char) (hne : lower op.name ≠ k) :
    lookupExact (applyOp hs op) k = lookupExact hs k := by
  cases op with
  | set k' v => simp only [applyOp, respSet, lookup_setHeader]; simp only [Op.name] at hne; simp [hne]
  | append k' v =>
    simp only [Op.name] at hne
    simp only [applyOp]
    split <;> simp [respSet, lookup_setHeader, hne]
  | delete k' =>
    simp only [Op.name] at hne
    exact lookup_filter_ne hs (lower k') k (fun e => hne e.symm)

theorem later_preserves (hs : Headers) (later : List Op) (k : List Char) (hne : ∀ op ∈ later, lower op.name ≠ k) :
    lookupExact (later.foldl applyOp hs) k = lookupExact hs k := by
  induction later generalizing hs with
  | nil => rfl
  | cons op r ih =>
    simp only [List.foldl_cons]
    rw [ih (applyOp hs op) (fun o ho => hne o (by simp [ho]))]
    exact applyOp_preserves hs op k (hne op (by simp))

/-- stamping: the last (here: only) entry with that lower-cased name wins, otherwise the responder's header stays -/
theorem fold_stamp (caps : Headers) (nd : (caps.map (fun p => lower p.1)).Nodup) (base : Headers) (k : List Char) :
    lookupExact (caps.foldl (fun acc kv => respSet acc kv.1 kv.2) base) k =
      match caps.find? (fun kv => lower kv.1 == k) with
      | some kv => some kv.2
      | none => lookupExact base k := by
  induction caps generalizing base with
  | nil => rfl
  | cons kv rest ih =>
    simp only [List.map_cons, List.nodup_cons] at nd
    simp only [List.foldl_cons, List.find?_cons]
    rw [ih nd.2]
    by_cases hk : lower kv.1 = k
    · have hb : (lower kv.1 == k) = true := by simpa using hk
      have hnone : rest.find? (fun kv' => lower kv'.1 == k) = none := by
        rw [List.find?_eq_none]
        intro q hq he
        have : lower q.1 = k := by simpa using he
        exact nd.1 (by rw [hk, ← this]; exact List.mem_map_of_mem (f := fun p => lower p.1) hq)
      simp [hnone, respSet, lookup_setHeader, hk]
    · have hb : (lower kv.1 == k) = false := by simpa using hk
      simp only [hb]
      cases rest.find? (fun kv' => lower kv'.1 == k) with
      | some q => rfl
      | none => simp [respSet, lookup_setHeader, hk]

theorem cacheControl_not_cap : lower cacheControl ∉ capNamesLower := by decide

/-! #### probe round trips -/

theorem strip_space_cons (c : Char) (s : List Char) (hc : isSpace c = true) : strip (c :: s) = strip s := by
  simp [strip, stripBy, List.dropWhile, hc]

theorem map_strip_splitOn_space (J : List Char) :
    (splitOn ',' (' ' :: J)).map strip = (splitOn ',' J).map strip := by
  cases hs : splitOn ',' J with
  | nil => exact absurd hs (splitOn_ne_nil _ _)
  | cons h t =>
    have : splitOn ',' (' ' :: J) = (' ' :: h) :: t := by
      simp [splitOn, hs]
    rw [this]
    simp [strip_space_cons ' ' h (by decide)]

theorem token_strip (n : List Char) (hn : Spec.TokenName n) : strip n = n :=
  strip_no_space n (fun c hc => (hn.2 c hc).2)

theorem names_roundtrip (l : List (List Char)) (hl : ∀ n ∈ l, Spec.TokenName n) (hne : l ≠ []) :
    ((splitOn ',' (join commaSpace l)).map strip).filter (fun n => !n.isEmpty) = l := by
  induction l with
  | nil => exact absurd rfl hne
  | cons n r ih =>
    have hn := hl n (by simp)
    have hnocomma : ∀ x ∈ n, x ≠ ',' := fun x hx => (hn.2 x hx).1
    have hnemp : n.isEmpty = false := by
      cases n with
      | nil => exact absurd rfl hn.1
      | cons _ _ => rfl
    cases r with
    | nil =>
      simp [join, splitOn_noSep ',' n hnocomma, token_strip n hn, hnemp]
    | cons m r' =>
      have e : join commaSpace (n :: m :: r') = n ++ ',' :: (' ' :: join commaSpace (m :: r')) := by
        simp [join, commaSpace]
      rw [e, splitOn_append ',' n _ hnocomma]
      simp only [List.map_cons, map_strip_splitOn_space, token_strip n hn, List.filter_cons, hnemp, Bool.not_false, if_true]
      rw [ih (fun x hx => hl x (by simp [hx])) (by simp)]

theorem join_isEmpty (l : List (List Char)) (hl : ∀ n ∈ l, Spec.TokenName n) (hne : l ≠ []) :
    (join commaSpace l).isEmpty = false := by
  cases l with
  | nil => exact absurd rfl hne
  | cons n r =>
    have hn := hl n (by simp)
    cases n with
    | nil => exact absurd rfl hn.1
    | cons c cs => cases r <;> simp [join]

theorem enc_roundtrip (cfg : Cfg) :
    encodingsOfRaw (Spec.commaSep ((Spec.codecs cfg).map Spec.codecToken)) = Spec.codecs cfg := by
  cases hc : cfg.compression <;> cases hz : cfg.zstdAvailable <;> simp only [Spec.codecs, hc, hz] <;> decide

end Aux

/-! ### obligations -/

/-- shapes the model relies on, re-checked against the extraction on every run: the encoding pipeline, the stamping loop,
    the installation guard (never false: two rows are unconditional), distinct header names, and the probe's field table -/
theorem table_shape :
    encodingsRecognised = true ∧ stampsAll = true ∧ cacheControlOnOptions = true ∧ installedIfNonEmpty = true
    ∧ probeStateless = true
    ∧ encodingOrder = [encName .zstd, encName .gzip]
    ∧ table.any (fun r => r.conds.isEmpty) = true
    ∧ table.map (·.header) =
        [Spec.hMaxRequestBytes, Spec.hMaxResponseBytes, Spec.hMaxExternalizedResponseBytes, Spec.hExternalizationEnabled,
         Spec.hUploadUrlSupport, Spec.hMaxUploadBytes, Spec.hSupportedEncodings, Spec.hProxyProofRequired,
         Spec.hTokenIntrospection, Spec.hStickyEnabled, Spec.hStickyDefaultTtl, Spec.hStickyEchoHeaders]
    ∧ Gen.Caps.probe.map (fun p => (p.field, p.header, p.kind)) =
        [("max_request_bytes", Spec.hMaxRequestBytes, .optInt), ("max_response_bytes", Spec.hMaxResponseBytes, .optInt),
         ("max_externalized_response_bytes", Spec.hMaxExternalizedResponseBytes, .optInt),
         ("externalization_enabled", Spec.hExternalizationEnabled, .isTrue),
         ("upload_url_support", Spec.hUploadUrlSupport, .isTrue), ("max_upload_bytes", Spec.hMaxUploadBytes, .optInt),
         ("supported_encodings", Spec.hSupportedEncodings, .encodings), ("sticky_enabled", Spec.hStickyEnabled, .isTrue),
         ("sticky_default_ttl", Spec.hStickyDefaultTtl, .optInt), ("sticky_echo_headers", Spec.hStickyEchoHeaders, .names)] := by
  refine ⟨rfl, rfl, rfl, rfl, rfl, rfl, by decide, rfl, rfl⟩

/-- **C40_exact** — for every configuration and every header name: the capability dict built by `make_wsgi_app` carries the
    header iff the documented table says so, with the documented value (absent for every other name) -/
theorem C40_exact (cfg : Cfg) (h : List Char) : lookupExact (capHeaders cfg) h = Spec.expected cfg h := by
  rw [Aux.lookup_capHeaders]
  by_cases hm : h ∈ Spec.capNames
  · simp only [Spec.capNames, List.mem_cons, List.mem_nil_iff, or_false] at hm
    rcases hm with rfl | rfl | rfl | rfl | rfl | rfl | rfl | rfl | rfl | rfl | rfl | rfl
    · rw [Aux.row_hMaxRequestBytes, Aux.exp_hMaxRequestBytes]
      cases hv : cfg.maxRequestBytes <;> simp [rowEntry, evalCond, evalVal, intParam, hv, Spec.decimal]
    · rw [Aux.row_hMaxResponseBytes, Aux.exp_hMaxResponseBytes]
      cases hv : cfg.maxResponseBytes <;> simp [rowEntry, evalCond, evalVal, intParam, hv, Spec.decimal]
    · rw [Aux.row_hMaxExternalizedResponseBytes, Aux.exp_hMaxExternalizedResponseBytes]
      cases hv : cfg.maxExternalizedResponseBytes <;> simp [rowEntry, evalCond, evalVal, intParam, hv, Spec.decimal]
    · rw [Aux.row_hExternalizationEnabled, Aux.exp_hExternalizationEnabled]
      cases hv : cfg.storage <;> simp [rowEntry, evalVal, hv, Spec.yes, Spec.no, sTrue, sFalse]
    · rw [Aux.row_hSupportedEncodings, Aux.exp_hSupportedEncodings]
      cases hc : cfg.compression <;> cases hz : cfg.zstdAvailable <;>
        simp [rowEntry, evalVal, enabledEncodings, decodable, hc, hz, Spec.commaSep, Spec.codecs, Spec.codecToken, encName, commaSpace]
    · rw [Aux.row_hUploadUrlSupport, Aux.exp_hUploadUrlSupport]
      cases hv : cfg.uploadProvider <;> simp [rowEntry, evalCond, evalVal, hv, Spec.flag, Spec.yes, sTrue]
    · rw [Aux.row_hMaxUploadBytes, Aux.exp_hMaxUploadBytes]
      cases hu : cfg.uploadProvider <;> cases hv : cfg.maxUploadBytes <;>
        simp [rowEntry, evalCond, evalVal, intParam, hu, hv, Spec.decimal]
    · rw [Aux.row_hProxyProofRequired, Aux.exp_hProxyProofRequired]
      cases hv : cfg.proofRequired <;> simp [rowEntry, evalCond, evalVal, hv, Spec.flag, Spec.yes, sTrue]
    · rw [Aux.row_hStickyEnabled, Aux.exp_hStickyEnabled]
      cases hv : cfg.sticky <;> simp [rowEntry, evalCond, evalVal, hv, Spec.flag, Spec.yes, sTrue]
    · rw [Aux.row_hStickyDefaultTtl, Aux.exp_hStickyDefaultTtl]
      cases hv : cfg.sticky <;> simp [rowEntry, evalCond, evalVal, hv, Spec.decimal]
    · rw [Aux.row_hStickyEchoHeaders, Aux.exp_hStickyEchoHeaders]
      cases hv : cfg.sticky <;> cases he : cfg.stickyEcho.isEmpty <;>
        simp [rowEntry, evalCond, evalVal, hv, he, Spec.commaSep, commaSpace]
    · rw [Aux.row_hTokenIntrospection, Aux.exp_hTokenIntrospection]
      cases hv : cfg.introspect <;> simp [rowEntry, evalCond, evalVal, hv, Spec.flag, Spec.yes, sTrue]
  · have h1 : table.find? (fun r => r.header == h) = none := by
      rw [List.find?_eq_none]
      intro r hr
      have : r.header ∈ Spec.capNames := by
        have := List.mem_map_of_mem (f := (·.header)) hr
        rw [table_shape.2.2.2.2.2.2.2.1] at this
        simp only [Spec.capNames, List.mem_cons, List.mem_nil_iff, or_false] at this ⊢
        rcases this with h | h | h | h | h | h | h | h | h | h | h | h <;> simp [h]
      intro he
      exact hm (by rw [← (by simpa using he : r.header = h)]; exact this)
    have h2 : (Spec.docTable cfg).find? (fun p => p.1 == h) = none := by
      rw [List.find?_eq_none]
      intro p hp he
      apply hm
      have hk : p.1 = h := by simpa using he
      simp only [Spec.docTable, List.mem_cons, List.mem_nil_iff, or_false] at hp
      simp only [Spec.capNames, List.mem_cons, List.mem_nil_iff, or_false]
      rcases hp with rfl | rfl | rfl | rfl | rfl | rfl | rfl | rfl | rfl | rfl | rfl | rfl <;> simp [← hk]
    simp [h1, Spec.expected, h2]

/-- each capability header appears at most once, also up to case -/
theorem C40_unique (cfg : Cfg) : ((capHeaders cfg).map (fun p => lower p.1)).Nodup := by
  rw [Aux.capHeaders_eq]
  exact List.Nodup.sublist (Aux.filterMap_keys_sublist cfg table) Aux.lower_table_nodup

/-- nothing else under vgi_rpc/http writes a capability header: neither a statically named header nor a member of a
    dynamically named family (`VGI-Echo-<name>`) collides with a capability name, case-insensitively -/
theorem others_disjoint :
    otherHeaders.all (fun n => !(Aux.capNamesLower.contains (lower n))) = true
    ∧ otherHeaderFamilies.all (fun f => Aux.capNamesLower.all (fun c => !((lower f).isPrefixOf c))) = true := by
  constructor <;> decide

/-- **C40_every** — on *every* response (any verb, any responder / error serializer output `base`, any sequence `later` of
    header mutations by the hooks that run after the stamp) each capability header is on the wire iff configured, with
    the configured value — provided `base` and `later` do not themselves write capability headers (`others_disjoint`) -/
theorem C40_every (cfg : Cfg) (verb : List Char) (base : Headers) (later : List Op)
    (hbase : ∀ p ∈ base, p.1 ∉ Aux.capNamesLower)
    (hlater : ∀ op ∈ later, lower op.name ∉ Aux.capNamesLower) :
    ∀ h ∈ Spec.capNames, respGet (respond cfg verb base later) h = Spec.expected cfg h := by
  intro h hh
  have hl : lower h ∈ Aux.capNamesLower := List.mem_map_of_mem (f := lower) hh
  unfold respGet respond
  rw [Aux.later_preserves _ later (lower h) (fun op ho e => hlater op ho (e ▸ hl))]
  have hstamp : lookupExact ((capHeaders cfg).foldl (fun acc kv => respSet acc kv.1 kv.2) base) (lower h)
      = Spec.expected cfg h := by
    rw [Aux.fold_stamp _ (C40_unique cfg), Aux.find_lower_capHeaders cfg h hh, ← C40_exact]
    unfold lookupExact
    cases hf : (capHeaders cfg).find? (fun p => p.1 == h) with
    | some kv => rfl
    | none =>
      simp only [Option.map_none]
      exact Aux.lookup_none_of_not_mem base (lower h) (fun p hp e => hbase p hp (e ▸ hl))
  unfold stamp
  simp only []
  split
  · rw [respSet, Aux.lookup_setHeader]
    have : lower cacheControl ≠ lower h := fun e => Aux.cacheControl_not_cap (e ▸ hl)
    simp only [this, if_false]
    exact hstamp
  · exact hstamp

/-- the probe reads the configuration back from *any* header set on which every capability header has its
    documented value under case-insensitive lookup -/
theorem probe_of_expected (cfg : Cfg) (hs : Headers)
    (g : ∀ h ∈ Spec.capNames, getHdr hs h = Spec.expected cfg h)
    (hecho : ∀ n ∈ cfg.stickyEcho, Spec.TokenName n) : probe hs = Spec.capsOf cfg := by
  have m : ∀ {h}, h ∈ Spec.capNames → h ∈ Spec.capNames := id
  unfold probe Spec.capsOf
  congr 1
  · show probeOptInt _ Spec.hMaxRequestBytes = _
    rw [probeOptInt, g _ (by decide), Aux.exp_hMaxRequestBytes]
    cases cfg.maxRequestBytes <;> simp [Spec.decimal, pyIntParse_pyStrInt]
  · show probeOptInt _ Spec.hMaxResponseBytes = _
    rw [probeOptInt, g _ (by decide), Aux.exp_hMaxResponseBytes]
    cases cfg.maxResponseBytes <;> simp [Spec.decimal, pyIntParse_pyStrInt]
  · show probeOptInt _ Spec.hMaxExternalizedResponseBytes = _
    rw [probeOptInt, g _ (by decide), Aux.exp_hMaxExternalizedResponseBytes]
    cases cfg.maxExternalizedResponseBytes <;> simp [Spec.decimal, pyIntParse_pyStrInt]
  · show probeIsTrue _ Spec.hExternalizationEnabled = _
    rw [probeIsTrue, g _ (by decide), Aux.exp_hExternalizationEnabled]
    cases cfg.storage <;> decide
  · show probeIsTrue _ Spec.hUploadUrlSupport = _
    rw [probeIsTrue, g _ (by decide), Aux.exp_hUploadUrlSupport]
    cases cfg.uploadProvider <;> decide
  · show probeOptInt _ Spec.hMaxUploadBytes = _
    rw [probeOptInt, g _ (by decide), Aux.exp_hMaxUploadBytes]
    cases cfg.uploadProvider <;> cases cfg.maxUploadBytes <;> simp [Spec.decimal, pyIntParse_pyStrInt]
  · show probeEncodings _ Spec.hSupportedEncodings = _
    rw [probeEncodings, g _ (by decide), Aux.exp_hSupportedEncodings]
    exact Aux.enc_roundtrip cfg
  · show probeIsTrue _ Spec.hStickyEnabled = _
    rw [probeIsTrue, g _ (by decide), Aux.exp_hStickyEnabled]
    cases cfg.sticky <;> decide
  · show probeOptInt _ Spec.hStickyDefaultTtl = _
    rw [probeOptInt, g _ (by decide), Aux.exp_hStickyDefaultTtl]
    cases cfg.sticky <;> simp [Spec.decimal, pyIntParse_pyStrInt]
  · show probeNames _ Spec.hStickyEchoHeaders = _
    rw [probeNames, g _ (by decide), Aux.exp_hStickyEchoHeaders]
    cases hs : cfg.sticky
    · simp
    · by_cases he : cfg.stickyEcho = []
      · simp [he]
      · have hemp : cfg.stickyEcho.isEmpty = false := by
          cases hl : cfg.stickyEcho with
          | nil => exact absurd hl he
          | cons _ _ => rfl
        simp only [hemp, Bool.not_false, Bool.and_self, if_true, Spec.commaSep]
        have h1 := Aux.join_isEmpty cfg.stickyEcho hecho he
        have h2 := Aux.names_roundtrip cfg.stickyEcho hecho he
        simp only [commaSpace] at h1 h2
        simp [h1, h2]

/-- **C40_probe** — the client's probe applied to the advertised headers reads the configuration back -/
theorem C40_probe (cfg : Cfg) (hecho : ∀ n ∈ cfg.stickyEcho, Spec.TokenName n) :
    probe (capHeaders cfg) = Spec.capsOf cfg :=
  probe_of_expected cfg (capHeaders cfg)
    (fun h hh => by rw [Aux.getHdr_capHeaders cfg h hh, C40_exact]) hecho

/-! ### the probe on a whole response -/

namespace Aux

theorem ofNat_add32_toNat : ∀ n < 91, 65 ≤ n → (Char.ofNat (n + 32)).toNat = n + 32 := by decide

theorem asciiLower_idem (c : Char) : asciiLower (asciiLower c) = asciiLower c := by
  have e : ∀ d : Char, ¬ (65 ≤ d.toNat ∧ d.toNat ≤ 90) → asciiLower d = d :=
    fun d hd => by unfold asciiLower; rw [if_neg hd]
  by_cases h : 65 ≤ c.toNat ∧ c.toNat ≤ 90
  · have h1 : (asciiLower c).toNat = c.toNat + 32 := by
      unfold asciiLower; rw [if_pos h]; exact ofNat_add32_toNat _ (by omega) h.1
    exact e _ (by omega)
  · rw [e c h, e c h]

theorem lower_idem (s : List Char) : lower (lower s) = lower s := by
  unfold lower
  rw [List.map_map]
  apply List.map_congr_left
  intro c _
  exact asciiLower_idem c

/-- header names as Falcon's `resp` keeps them: already lower-cased -/
def LowerKeys (hs : Headers) : Prop := ∀ p ∈ hs, lower p.1 = p.1

theorem getHdr_eq_respGet (hs : Headers) (hk : LowerKeys hs) (name : List Char) :
    getHdr hs name = respGet hs name := by
  unfold getHdr respGet lookupExact
  rw [find_congr hs (fun p => lower p.1 == lower name) (fun p => p.1 == lower name)
    (fun p hp => by show (lower p.1 == lower name) = (p.1 == lower name); rw [hk p hp])]

theorem setHeader_mem (hs : Headers) (k v : List Char) (p : List Char × List Char)
    (hp : p ∈ setHeader hs k v) : p ∈ hs ∨ p = (k, v) := by
  induction hs with
  | nil => simp only [setHeader, List.mem_singleton] at hp; exact Or.inr hp
  | cons q r ih =>
    obtain ⟨k', v'⟩ := q
    simp only [setHeader] at hp
    split at hp
    · rcases List.mem_cons.mp hp with h | h
      · exact Or.inr h
      · exact Or.inl (List.mem_cons_of_mem _ h)
    · rcases List.mem_cons.mp hp with h | h
      · exact Or.inl (h ▸ List.mem_cons_self ..)
      · rcases ih h with h | h
        · exact Or.inl (List.mem_cons_of_mem _ h)
        · exact Or.inr h

theorem respSet_lower (hs : Headers) (k v : List Char) (hk : LowerKeys hs) : LowerKeys (respSet hs k v) := by
  intro p hp
  rcases setHeader_mem hs (lower k) v p hp with h | h
  · exact hk p h
  · subst h; exact lower_idem k

theorem applyOp_lower (hs : Headers) (op : Op) (hk : LowerKeys hs) : LowerKeys (applyOp hs op) := by
  cases op with
  | set k v => exact respSet_lower hs k v hk
  | append k v =>
    simp only [applyOp]
    split
    · exact respSet_lower hs k _ hk
    · exact respSet_lower hs k _ hk
  | delete k => exact fun p hp => hk p (List.mem_filter.mp hp).1

theorem later_lower (later : List Op) (hs : Headers) (hk : LowerKeys hs) : LowerKeys (later.foldl applyOp hs) := by
  induction later generalizing hs with
  | nil => exact hk
  | cons op r ih => exact ih _ (applyOp_lower hs op hk)

theorem stampFold_lower (caps : Headers) (hs : Headers) (hk : LowerKeys hs) :
    LowerKeys (caps.foldl (fun acc kv => respSet acc kv.1 kv.2) hs) := by
  induction caps generalizing hs with
  | nil => exact hk
  | cons kv r ih => exact ih _ (respSet_lower hs kv.1 kv.2 hk)

theorem respond_lower (cfg : Cfg) (verb : List Char) (base : Headers) (later : List Op) (hk : LowerKeys base) :
    LowerKeys (respond cfg verb base later) := by
  unfold respond
  apply later_lower
  unfold stamp
  simp only []
  split
  · exact respSet_lower _ _ _ (stampFold_lower _ _ hk)
  · exact stampFold_lower _ _ hk

end Aux

/-- **C40_probe_response** — the probe applied to the headers of *any* response of the server (any verb, any responder /
    error output `base` as Falcon keeps it, i.e. keyed by lower-cased names, any later hooks that leave capability
    headers alone) reads the configuration back: server stamp and client probe compose end to end -/
theorem C40_probe_response (cfg : Cfg) (verb : List Char) (base : Headers) (later : List Op)
    (hlow : Aux.LowerKeys base)
    (hbase : ∀ p ∈ base, p.1 ∉ Aux.capNamesLower)
    (hlater : ∀ op ∈ later, lower op.name ∉ Aux.capNamesLower)
    (hecho : ∀ n ∈ cfg.stickyEcho, Spec.TokenName n) :
    probe (respond cfg verb base later) = Spec.capsOf cfg :=
  probe_of_expected cfg _
    (fun h hh => by
      rw [Aux.getHdr_eq_respGet _ (Aux.respond_lower cfg verb base later hlow) h]
      exact C40_every cfg verb base later hbase hlater h hh) hecho

/-! ### non-vacuity -/

def exampleCfg : Cfg :=
  { maxRequestBytes := some 1048576, maxResponseBytes := none, maxExternalizedResponseBytes := some (-1), maxUploadBytes := some 5,
    storage := true, uploadProvider := true, compression := true, zstdAvailable := true, proofRequired := false,
    introspect := true, sticky := true, stickyTtl := 300, stickyEcho := [['X', '-', 'A'], ['f', 'l', 'y']] }

example : lookupExact (capHeaders exampleCfg) Spec.hMaxRequestBytes = some (pyStrInt 1048576) := by rw [C40_exact]; rfl
example : pyStrInt 1048576 = ['1', '0', '4', '8', '5', '7', '6'] := by simp [pyStrInt, natDigits, digitChar]
example : probe (capHeaders exampleCfg) = Spec.capsOf exampleCfg :=
  C40_probe exampleCfg (by
    intro n hn
    simp only [exampleCfg, List.mem_cons, List.mem_nil_iff, or_false] at hn
    rcases hn with rfl | rfl <;> exact ⟨by decide, by decide⟩)
example : lookupExact (capHeaders exampleCfg) Spec.hMaxResponseBytes = none := by decide
/-- authentication that depends on proxy-injected headers, proof not required: the proof header stays absent -/
example : lookupExact (capHeaders { exampleCfg with proxyHint := true }) Spec.hProxyProofRequired = none := by decide
example : lookupExact (capHeaders exampleCfg) Spec.hStickyEchoHeaders = some ['X', '-', 'A', ',', ' ', 'f', 'l', 'y'] := by decide
example : ∀ n ∈ exampleCfg.stickyEcho, Spec.TokenName n := by
  intro n hn
  simp only [exampleCfg, List.mem_cons, List.mem_nil_iff, or_false] at hn
  rcases hn with rfl | rfl <;> exact ⟨by decide, by decide⟩
/-- a 401 carrying `WWW-Authenticate`, followed by a CORS hook: the capability headers are still exactly the configured ones -/
example : respGet (respond exampleCfg ['P', 'O', 'S', 'T'] [(['w', 'w', 'w', '-', 'a', 'u', 't', 'h', 'e', 'n', 't', 'i', 'c', 'a', 't', 'e'], ['B'])]
      [.set ['V', 'a', 'r', 'y'] ['O']]) Spec.hStickyEchoHeaders = some ['X', '-', 'A', ',', ' ', 'f', 'l', 'y'] := by decide

/-- non-vacuity of `C40_probe_response`: the same 401 + CORS response, read by the client's probe -/
example : probe (respond exampleCfg ['P', 'O', 'S', 'T'] [(['w', 'w', 'w', '-', 'a', 'u', 't', 'h', 'e', 'n', 't', 'i', 'c', 'a', 't', 'e'], ['B'])]
      [.set ['V', 'a', 'r', 'y'] ['O']]) = Spec.capsOf exampleCfg :=
  C40_probe_response exampleCfg _ _ _
    (by intro p hp; simp only [List.mem_singleton] at hp; subst hp; decide)
    (by intro p hp; simp only [List.mem_singleton] at hp; subst hp; decide)
    (by intro op ho; simp only [List.mem_singleton] at ho; subst ho; decide)
    (by
      intro n hn
      simp only [exampleCfg, List.mem_cons, List.mem_nil_iff, or_false] at hn
      rcases hn with rfl | rfl <;> exact ⟨by decide, by decide⟩)

end VgiVerif.C40
