import VgiVerif.Model.C39
import VgiVerif.Spec.C39
import VgiVerif.Lemmas.Framing
/-
C39 — proofs.  Helper lemmas live in `namespace Aux`; the property theorems (the obligations audited by the check) are at
the bottom.  Everything is stated over the *extracted* `Gen.Describe` program / constants / guards, so a source edit
re-checks (or breaks) these proofs.
-/
namespace VgiVerif.C39
open VgiVerif.Framing VgiVerif.Gen.Describe VgiVerif.C39.Spec
namespace Aux

def fb (b : Bool) : UInt8 := if b then 49 else 48
def fo : Option Bool → UInt8
  | none => 45
  | some true => 49
  | some false => 48

theorem fb_inj {a b : Bool} (h : fb a = fb b) : a = b := by
  cases a <;> cases b <;> first | rfl | exact absurd h (by decide)
theorem fo_inj {a b : Option Bool} (h : fo a = fo b) : a = b := by
  rcases a with _ | _ | _ <;> rcases b with _ | _ | _ <;> first | rfl | exact absurd h (by decide)

theorem rowBytes_eq (r : Row) : rowBytes r =
    31 :: (utf8 r.name ++ 30 :: (utf8 r.methodType ++ 30 :: fb r.hasReturn :: 30 :: fb r.hasHeader :: 30 ::
      fo r.isExchange :: 30 :: (r.params ++ 30 :: (r.result ++ 30 :: r.header.getD [])))) := by
  rcases r with ⟨n, mt, hr, p, res, hh, hd, ie⟩
  cases hr <;> cases hh <;> rcases ie with _ | _ | _ <;> cases hd <;>
    simp [rowBytes, rowOps, rop, strCol, boolCol, binCol, fb, fo]

theorem prefix_shape (n : List Char) :
    prefixOps.flatMap (hop n) = (prefixOps.take 5).flatMap (hop []) ++ (utf8 n ++ [124]) := by
  simp [prefixOps, hop]

/-- serialized schemas: a prefix code none of whose members starts with the row separator -/
structure SelfDelimiting (S : Bytes → Prop) : Prop where
  prefixCode : PrefixCode S
  head : ∀ b, S b → ∃ x t, b = x :: t ∧ x ≠ 31

/-- what the framing needs of one row -/
structure RowOK (S : Bytes → Prop) (r : Row) : Prop where
  name : (30 : UInt8) ∉ utf8 r.name
  methodType : (30 : UInt8) ∉ utf8 r.methodType
  params : S r.params
  result : S r.result
  header : ∀ h, r.header = some h → S h

/-- the tail after a row: end of input or the next row -/
def RowStart (t : Bytes) : Prop := t = [] ∨ ∃ t', t = 31 :: t'

theorem rows_start (l : List Row) : RowStart (l.flatMap rowBytes) := by
  cases l with
  | nil => exact .inl rfl
  | cons r l => exact .inr ⟨_, by rw [List.flatMap_cons, rowBytes_eq]; rfl⟩

theorem row_cut {S : Bytes → Prop} (hS : SelfDelimiting S) {r₁ r₂ : Row} (h₁ : RowOK S r₁) (h₂ : RowOK S r₂)
    {t₁ t₂ : Bytes} (ht₁ : RowStart t₁) (ht₂ : RowStart t₂)
    (h : rowBytes r₁ ++ t₁ = rowBytes r₂ ++ t₂) : r₁ = r₂ ∧ t₁ = t₂ := by
  rw [rowBytes_eq, rowBytes_eq] at h
  simp only [List.cons_append, List.append_assoc, List.cons.injEq, true_and] at h
  obtain ⟨en, h⟩ := split_at_sep h₁.name h₂.name h
  obtain ⟨emt, h⟩ := split_at_sep h₁.methodType h₂.methodType h
  simp only [List.cons.injEq, true_and] at h
  obtain ⟨ehr, ehh, eie, h⟩ := h
  obtain ⟨ep, h⟩ := hS.prefixCode _ _ _ _ h₁.params h₂.params h
  simp only [List.cons.injEq, true_and] at h
  obtain ⟨er, h⟩ := hS.prefixCode _ _ _ _ h₁.result h₂.result h
  simp only [List.cons.injEq, true_and] at h
  have hhd : r₁.header = r₂.header ∧ t₁ = t₂ := by
    cases e₁ : r₁.header with
    | none =>
      cases e₂ : r₂.header with
      | none => simpa [e₁, e₂] using h
      | some b =>
        exfalso
        simp only [e₁, e₂, Option.getD_none, Option.getD_some, List.nil_append] at h
        obtain ⟨x, t, rfl, hx⟩ := hS.head b (h₂.header b e₂)
        rcases ht₁ with rfl | ⟨t', rfl⟩
        · simp at h
        · simp only [List.cons_append, List.cons.injEq] at h; exact hx h.1.symm
    | some a =>
      cases e₂ : r₂.header with
      | none =>
        exfalso
        simp only [e₁, e₂, Option.getD_none, Option.getD_some, List.nil_append] at h
        obtain ⟨x, t, rfl, hx⟩ := hS.head a (h₁.header a e₁)
        rcases ht₂ with rfl | ⟨t', rfl⟩
        · simp at h
        · simp only [List.cons_append, List.cons.injEq] at h; exact hx h.1
      | some b =>
        simp only [e₁, e₂, Option.getD_some] at h
        obtain ⟨e, t⟩ := hS.prefixCode _ _ _ _ (h₁.header a e₁) (h₂.header b e₂) h
        exact ⟨by rw [e], t⟩
  refine ⟨?_, hhd.2⟩
  rcases r₁ with ⟨n₁, m₁, a₁, p₁, q₁, b₁, d₁, i₁⟩
  rcases r₂ with ⟨n₂, m₂, a₂, p₂, q₂, b₂, d₂, i₂⟩
  simp only at en emt ehr ehh eie ep er hhd
  rw [utf8_inj en, utf8_inj emt, fb_inj ehr, fb_inj ehh, fo_inj eie, ep, er, hhd.1]

theorem rows_inj {S : Bytes → Prop} (hS : SelfDelimiting S) : ∀ (l₁ l₂ : List Row),
    (∀ r ∈ l₁, RowOK S r) → (∀ r ∈ l₂, RowOK S r) → l₁.flatMap rowBytes = l₂.flatMap rowBytes → l₁ = l₂
  | [], [], _, _, _ => rfl
  | [], r :: l, _, _, h => by
    rw [List.flatMap_cons, rowBytes_eq] at h; simp at h
  | r :: l, [], _, _, h => by
    rw [List.flatMap_cons, rowBytes_eq] at h; simp at h
  | r₁ :: l₁, r₂ :: l₂, h₁, h₂, h => by
    rw [List.flatMap_cons, List.flatMap_cons] at h
    obtain ⟨e, t⟩ := row_cut hS (h₁ r₁ List.mem_cons_self) (h₂ r₂ List.mem_cons_self) (rows_start l₁) (rows_start l₂) h
    rw [e, rows_inj hS l₁ l₂ (fun r hr => h₁ r (List.mem_cons_of_mem _ hr)) (fun r hr => h₂ r (List.mem_cons_of_mem _ hr)) t]

/-- `compute_protocol_hash` on arbitrary batches: the pre-image determines protocol name and rows -/
theorem preimage_inj {S : Bytes → Prop} (hS : SelfDelimiting S) {n₁ n₂ : List Char} {l₁ l₂ : List Row}
    (hn₁ : (31 : UInt8) ∉ utf8 n₁) (hn₂ : (31 : UInt8) ∉ utf8 n₂)
    (h₁ : ∀ r ∈ l₁, RowOK S r) (h₂ : ∀ r ∈ l₂, RowOK S r)
    (h : preimage n₁ l₁ = preimage n₂ l₂) : n₁ = n₂ ∧ l₁ = l₂ := by
  unfold preimage at h
  rw [prefix_shape, prefix_shape] at h
  simp only [List.append_assoc, List.cons_append, List.nil_append] at h
  have h := List.append_cancel_left h
  obtain ⟨e, t⟩ := split_at_sep_then (t := (124 : UInt8)) (u := 31) (by decide) hn₁ hn₂ (rows_start l₁) (rows_start l₂) h
  exact ⟨utf8_inj e, rows_inj hS l₁ l₂ h₁ h₂ t⟩


/-! ### name order -/

theorem leName_total : ∀ a b : List Char, (leName a b || leName b a) = true
  | [], _ => by simp [leName]
  | _ :: _, [] => by simp [leName]
  | a :: as, b :: bs => by
    have := leName_total as bs
    simp only [leName]
    by_cases h1 : a.toNat < b.toNat
    · simp [h1]
    · by_cases h2 : b.toNat < a.toNat
      · simp [h1, h2]
      · simpa [h1, h2] using this

theorem leName_trans : ∀ a b c : List Char, leName a b = true → leName b c = true → leName a c = true
  | [], _, _, _, _ => by simp [leName]
  | _ :: _, [], _, h, _ => by simp [leName] at h
  | _ :: _, _ :: _, [], _, h => by simp [leName] at h
  | a :: as, b :: bs, c :: cs, h₁, h₂ => by
    simp only [leName] at h₁ h₂ ⊢
    by_cases ab : a.toNat < b.toNat
    · by_cases bc : b.toNat < c.toNat
      · have : a.toNat < c.toNat := by omega
        simp [this]
      · by_cases cb : c.toNat < b.toNat
        · simp [bc, cb] at h₂
        · have : a.toNat < c.toNat := by omega
          simp [this]
    · by_cases ba : b.toNat < a.toNat
      · simp [ab, ba] at h₁
      · simp only [ab, ba, if_false] at h₁
        have eab : a.toNat = b.toNat := by omega
        by_cases bc : b.toNat < c.toNat
        · have : a.toNat < c.toNat := by omega
          simp [this]
        · by_cases cb : c.toNat < b.toNat
          · simp [bc, cb] at h₂
          · simp only [bc, cb, if_false] at h₂
            have h1 : ¬ a.toNat < c.toNat := by omega
            have h2 : ¬ c.toNat < a.toNat := by omega
            simp only [h1, h2, if_false]
            exact leName_trans as bs cs h₁ h₂

theorem leName_antisymm : ∀ a b : List Char, leName a b = true → leName b a = true → a = b
  | [], [], _, _ => rfl
  | [], _ :: _, _, h => by simp [leName] at h
  | _ :: _, [], h, _ => by simp [leName] at h
  | a :: as, b :: bs, h₁, h₂ => by
    simp only [leName] at h₁ h₂
    by_cases ab : a.toNat < b.toNat
    · have : ¬ b.toNat < a.toNat := by omega
      simp [ab, this] at h₂
    · by_cases ba : b.toNat < a.toNat
      · simp [ab, ba] at h₁
      · simp only [ab, ba, if_false] at h₁ h₂
        have : a = b := Char.toNat_inj.mp (by omega)
        rw [this, leName_antisymm as bs h₁ h₂]

/-! ### sorting -/

theorem sort_perm {σ : Type} (ms : List (Method σ)) : (sortMethods ms).Perm ms := List.mergeSort_perm _ _

theorem sort_mem {σ : Type} {ms : List (Method σ)} {m : Method σ} : m ∈ sortMethods ms ↔ m ∈ ms :=
  (sort_perm ms).mem_iff

theorem sort_sorted {σ : Type} (ms : List (Method σ)) :
    (sortMethods ms).Pairwise (fun a b => leName a.name b.name = true) :=
  List.pairwise_mergeSort (fun a b c => leName_trans a.name b.name c.name) (fun a b => leName_total a.name b.name) ms

theorem eq_of_nodup_map {α β : Type} (f : α → β) : ∀ {l : List α}, (l.map f).Nodup → ∀ {x y}, x ∈ l → y ∈ l → f x = f y → x = y
  | [], _, _, _, hx, _, _ => by simp at hx
  | a :: l, h, x, y, hx, hy, e => by
    simp only [List.map_cons, List.nodup_cons, List.mem_map, not_exists, not_and] at h
    simp only [List.mem_cons] at hx hy
    rcases hx with rfl | hx <;> rcases hy with rfl | hy
    · rfl
    · exact absurd e.symm (h.1 y hy)
    · exact absurd e (h.1 x hx)
    · exact eq_of_nodup_map f h.2 hx hy e

theorem view_name {σ : Type} (m : Method σ) : m.view.name = m.name := rfl

theorem nodup_of_map {α β : Type} (f : α → β) {l : List α} (h : (l.map f).Nodup) : l.Nodup := by
  unfold List.Nodup at h ⊢
  rw [List.pairwise_map] at h
  exact h.imp (fun hne e => hne (by rw [e]))

theorem views_nodup {σ : Type} {ms : List (Method σ)} (h : (ms.map (·.name)).Nodup) : (ms.map Method.view).Nodup := by
  apply nodup_of_map (fun v : MethodView σ => v.name)
  simpa [List.map_map, Function.comp_def, view_name] using h

/-- sorted views of two method tables with the same set of views coincide -/
theorem sorted_views_eq {σ : Type} {a b : List (Method σ)} (ha : (a.map (·.name)).Nodup) (hb : (b.map (·.name)).Nodup)
    (h : ∀ v, v ∈ a.map Method.view ↔ v ∈ b.map Method.view) :
    (sortMethods a).map Method.view = (sortMethods b).map Method.view := by
  have pa : ((sortMethods a).map Method.view).Perm (a.map Method.view) := (sort_perm a).map _
  have pb : ((sortMethods b).map Method.view).Perm (b.map Method.view) := (sort_perm b).map _
  have pab : (a.map Method.view).Perm (b.map Method.view) :=
    (List.perm_ext_iff_of_nodup (views_nodup ha) (views_nodup hb)).mpr h
  have p : ((sortMethods a).map Method.view).Perm ((sortMethods b).map Method.view) := pa.trans (pab.trans pb.symm)
  have nd : (((sortMethods a).map Method.view).map (fun v : MethodView σ => v.name)).Nodup := by
    have : (((sortMethods a).map Method.view).map (fun v : MethodView σ => v.name)).Perm (a.map (·.name)) := by
      simpa [List.map_map, Function.comp_def, view_name] using (sort_perm a).map (·.name)
    exact this.nodup_iff.mpr ha
  refine List.Perm.eq_of_pairwise (le := fun x y : MethodView σ => leName x.name y.name = true) ?_ ?_ ?_ p
  · intro x y hx hy h1 h2
    exact eq_of_nodup_map (fun v : MethodView σ => v.name) nd hx (p.symm.subset hy) (leName_antisymm _ _ h1 h2)
  · exact List.Pairwise.map _ (fun _ _ h => h) (sort_sorted a)
  · exact List.Pairwise.map _ (fun _ _ h => h) (sort_sorted b)

theorem wireView_of_sameWire {σ : Type} {a b : Service σ} (ha : a.WellFormed) (hb : b.WellFormed) (h : SameWire a b) :
    wireView a = wireView b := by
  unfold wireView
  rw [h.1, sorted_views_eq ha hb h.2]

theorem sameWire_of_wireView {σ : Type} {a b : Service σ} (h : wireView a = wireView b) : SameWire a b := by
  unfold wireView at h
  simp only [Prod.mk.injEq] at h
  refine ⟨h.1, fun v => ?_⟩
  have ma : v ∈ (sortMethods a.methods).map Method.view ↔ v ∈ a.methods.map Method.view := ((sort_perm a.methods).map _).mem_iff
  have mb : v ∈ (sortMethods b.methods).map Method.view ↔ v ∈ b.methods.map Method.view := ((sort_perm b.methods).map _).mem_iff
  rw [← ma, ← mb, h.2]


/-! ### environment laws -/

/-- laws assumed of pyarrow (checked at run time on every schema the harness sees) -/
structure Lawful {σ : Type} (env : Env σ) : Prop where
  de_ser : ∀ s, env.de (env.ser s) = some s
  encapsulated : ∀ s, isEncapsulated (env.ser s) = true

/-- the set of serialized schemas -/
def Ser {σ : Type} (env : Env σ) (b : Bytes) : Prop := ∃ s, env.ser s = b

theorem ser_inj {σ : Type} {env : Env σ} (h : Lawful env) {a b : σ} (e : env.ser a = env.ser b) : a = b := by
  have := h.de_ser a
  rw [e, h.de_ser b] at this
  exact (Option.some.inj this).symm

theorem selfDelimiting_of_lawful {σ : Type} {env : Env σ} (h : Lawful env) : SelfDelimiting (Ser env) where
  prefixCode := by
    intro a b r s ⟨x, hx⟩ ⟨y, hy⟩ e
    exact encapsulated_prefixCode a b r s (hx ▸ h.encapsulated x) (hy ▸ h.encapsulated y) e
  head := by
    intro b ⟨x, hx⟩
    obtain ⟨t, ht⟩ := encapsulated_head (hx ▸ h.encapsulated x)
    exact ⟨0xFF, t, ht, by decide⟩

/-! ### rows ↔ views -/

theorem kindValue_inj {a b : Kind} (h : kindValue a = kindValue b) : a = b := by
  cases a <;> cases b <;> first | rfl | exact absurd h (by decide)

theorem kindValue_sep (k : Kind) : (30 : UInt8) ∉ utf8 (kindValue k) := by
  apply not_mem_utf8_of_ascii (by decide)
  cases k <;> decide

theorem parseKind_kindValue (k : Kind) : parseKind (kindValue k) = some k := by
  cases k <;> decide

theorem rowOf_eq_rowOfView {σ : Type} (env : Env σ) (m : Method σ) : rowOf env m = rowOfView env m.view := rfl

theorem rows_eq {σ : Type} (env : Env σ) (svc : Service σ) : rows env svc = (wireView svc).2.map (rowOfView env) := by
  simp [rows, wireView, List.map_map, Function.comp_def, rowOf_eq_rowOfView]

theorem rowOfView_inj {σ : Type} {env : Env σ} (h : ∀ x y, env.ser x = env.ser y → x = y) {a b : MethodView σ}
    (ha : a.hasHeader = a.header.isSome) (hb : b.hasHeader = b.header.isSome)
    (e : rowOfView env a = rowOfView env b) : a = b := by
  rcases a with ⟨n₁, k₁, r₁, p₁, q₁, hh₁, hd₁, i₁⟩
  rcases b with ⟨n₂, k₂, r₂, p₂, q₂, hh₂, hd₂, i₂⟩
  simp only [rowOfView, Row.mk.injEq] at e
  obtain ⟨e1, e2, e3, e4, e5, e6, e7, e8⟩ := e
  have : hd₁ = hd₂ := by
    cases hd₁ <;> cases hd₂ <;> simp at e7 ⊢
    exact h _ _ e7
  rw [e1, kindValue_inj e2, e3, h _ _ e4, h _ _ e5, e6, this, e8]

theorem map_rowOfView_inj {σ : Type} {env : Env σ} (h : ∀ x y, env.ser x = env.ser y → x = y) : ∀ {l₁ l₂ : List (MethodView σ)},
    (∀ v ∈ l₁, v.hasHeader = v.header.isSome) → (∀ v ∈ l₂, v.hasHeader = v.header.isSome) →
    l₁.map (rowOfView env) = l₂.map (rowOfView env) → l₁ = l₂
  | [], [], _, _, _ => rfl
  | [], _ :: _, _, _, e => by simp at e
  | _ :: _, [], _, _, e => by simp at e
  | a :: l₁, b :: l₂, h₁, h₂, e => by
    simp only [List.map_cons, List.cons.injEq] at e
    rw [rowOfView_inj h (h₁ a List.mem_cons_self) (h₂ b List.mem_cons_self) e.1,
      map_rowOfView_inj h (fun v hv => h₁ v (List.mem_cons_of_mem _ hv)) (fun v hv => h₂ v (List.mem_cons_of_mem _ hv)) e.2]

theorem wireView_flags {σ : Type} (svc : Service σ) : ∀ v ∈ (wireView svc).2, v.hasHeader = v.header.isSome := by
  intro v hv
  simp only [wireView, List.mem_map] at hv
  obtain ⟨m, _, rfl⟩ := hv
  rfl

/-! ### names -/

/-- no framing separator in a position where it would be ambiguous:
the protocol name has no U+001F, no method name has U+001E -/
def NamesOK {σ : Type} (svc : Service σ) : Prop :=
  (∀ c ∈ svc.name, c.toNat ≠ 31) ∧ ∀ m ∈ svc.methods, ∀ c ∈ m.name, c.toNat ≠ 30

theorem nameAllowed_spec {forb : List Nat} {s : List Char} (h : nameAllowed forb s = true) {n : Nat} (hn : n ∈ forb) :
    ∀ c ∈ s, c.toNat ≠ n := by
  intro c hc e
  simp only [nameAllowed, List.all_eq_true] at h
  have := h c hc
  simp [e, hn] at this

/-- the extracted guards cover the two dangerous positions (fails to compile if the source loses a guard) -/
theorem guard_protocol : 31 ∈ forbiddenProtocolName := by decide
theorem guard_method : 30 ∈ forbiddenMethodName := by decide

theorem namesOK_of_accepted {σ : Type} {env : Env σ} {svc : Service σ} (h : Accepted env svc) : NamesOK svc := by
  simp only [Accepted, namesAllowed, Bool.and_eq_true, List.all_eq_true] at h
  refine ⟨nameAllowed_spec h.1 guard_protocol, fun m hm => ?_⟩
  have : rowOf env m ∈ rows env svc := List.mem_map.mpr ⟨m, sort_mem.mpr hm, rfl⟩
  exact nameAllowed_spec (h.2 _ this) guard_method

theorem rowsOK {σ : Type} {env : Env σ} {svc : Service σ} (h : NamesOK svc) : ∀ r ∈ rows env svc, RowOK (Ser env) r := by
  intro r hr
  simp only [rows, List.mem_map] at hr
  obtain ⟨m, hm, rfl⟩ := hr
  exact {
    name := not_mem_utf8_of_ascii (by decide) (h.2 m (sort_mem.mp hm))
    methodType := kindValue_sep m.kind
    params := ⟨_, rfl⟩
    result := ⟨_, rfl⟩
    header := by
      intro b hb
      simp only [rowOf, Option.map_eq_some_iff] at hb
      obtain ⟨s, _, rfl⟩ := hb
      exact ⟨_, rfl⟩ }


/-! ### dicts -/

theorem dictGet_dictSet_same {κ ν : Type} [DecidableEq κ] : ∀ (d : List (κ × ν)) (k : κ) (v : ν),
    dictGet (dictSet d k v) k = some v
  | [], k, v => by simp [dictSet, dictGet]
  | (k', v') :: t, k, v => by
    by_cases h : k' = k
    · simp [dictSet, dictGet, h]
    · simp [dictSet, dictGet, h, dictGet_dictSet_same t k v]

theorem dictGet_dictSet_other {κ ν : Type} [DecidableEq κ] : ∀ (d : List (κ × ν)) {k k' : κ} (_ : k ≠ k') (v : ν),
    dictGet (dictSet d k v) k' = dictGet d k'
  | [], k, k', h, v => by simp [dictSet, dictGet, h]
  | (k₀, v₀) :: t, k, k', h, v => by
    by_cases h0 : k₀ = k
    · subst h0; simp [dictSet, dictGet, h]
    · by_cases h1 : k₀ = k'
      · subst h1; simp [dictSet, dictGet, h0]
      · simp [dictSet, dictGet, h0, h1, dictGet_dictSet_other t h v]

theorem dictSet_fresh {κ ν : Type} [DecidableEq κ] : ∀ {d : List (κ × ν)} {k : κ}, k ∉ d.map (·.1) → ∀ v : ν,
    dictSet d k v = d ++ [(k, v)]
  | [], _, _, _ => rfl
  | (k', v') :: t, k, h, v => by
    simp only [List.map_cons, List.mem_cons, not_or] at h
    have : k' ≠ k := fun e => h.1 e.symm
    simp [dictSet, this, dictSet_fresh h.2 v]

/-! ### metadata -/

theorem keys_distinct :
    protocolNameKey ≠ requestVersionKey ∧ protocolNameKey ≠ describeVersionKey ∧ protocolNameKey ≠ protocolHashKey ∧
    protocolNameKey ≠ serverIdKey ∧ protocolNameKey ≠ protocolVersionKey ∧ requestVersionKey ≠ describeVersionKey ∧
    requestVersionKey ≠ protocolHashKey ∧ requestVersionKey ≠ serverIdKey ∧ requestVersionKey ≠ protocolVersionKey ∧
    describeVersionKey ≠ protocolHashKey ∧ describeVersionKey ≠ serverIdKey ∧ describeVersionKey ≠ protocolVersionKey ∧
    protocolHashKey ≠ serverIdKey ∧ protocolHashKey ≠ protocolVersionKey ∧ serverIdKey ≠ protocolVersionKey := by
  decide

theorem requestVersion_text : utf8 requestVersionText = requestVersion := by decide

set_option linter.unusedSimpArgs false in
theorem md_values {σ : Type} (svc : Service σ) (h : List Char) :
    mdGet (buildMetadata svc h) protocolNameKey = utf8 svc.name ∧
    mdGet (buildMetadata svc h) requestVersionKey = utf8 requestVersionText ∧
    mdGet (buildMetadata svc h) describeVersionKey = utf8 describeVersion ∧
    mdGet (buildMetadata svc h) protocolHashKey = utf8 h ∧
    mdGet (buildMetadata svc h) serverIdKey = utf8 svc.serverId ∧
    mdGet (buildMetadata svc h) protocolVersionKey = utf8 (svc.protocolVersion.getD []) := by
  obtain ⟨k1, k2, k3, k4, k5, k6, k7, k8, k9, k10, k11, k12, k13, k14, k15⟩ := keys_distinct
  rw [requestVersion_text]
  cases hv : svc.protocolVersion <;>
    simp [buildMetadata, hv, dictOf, mdGet, dictGet_dictSet_same, dictGet_dictSet_other, dictGet,
      k1, k2, k3, k4, k5, k6, k7, k8, k9, k10, k11, k12, k13, k14, k15,
      k1.symm, k2.symm, k3.symm, k4.symm, k5.symm, k6.symm, k7.symm, k8.symm, k9.symm, k10.symm, k11.symm, k12.symm,
      k13.symm, k14.symm, k15.symm]

theorem decodeMd_of {md : Metadata} {k : Bytes} {s : List Char} (h : mdGet md k = utf8 s) : decodeMd md k = .ok s := by
  simp [decodeMd, h, decode_utf8]

/-! ### rows -/

theorem parseRow_rowOf {σ : Type} {env : Env σ} (hl : Lawful env) (m : Method σ) :
    parseRow env (rowOf env m) = .ok m.view := by
  rcases m with ⟨n, k, r, p, q, hd, ie, _, _, _, _⟩
  cases hd <;>
    simp [parseRow, rowOf, parseKind_kindValue, readSchema, hl.de_ser, Method.view, bind, Except.bind, pure, Except.pure]

theorem parseRows_rows {σ : Type} {env : Env σ} (hl : Lawful env) : ∀ (l : List (Method σ)) (acc : List (List Char × MethodView σ)),
    (l.map (·.name)).Nodup → (∀ m ∈ l, m.name ∉ acc.map (·.1)) →
    parseRows env (l.map (rowOf env)) acc = .ok (acc ++ l.map (fun m => (m.name, m.view)))
  | [], acc, _, _ => by simp [parseRows]
  | m :: l, acc, hn, hd => by
    simp only [List.map_cons, List.nodup_cons, List.mem_map, not_exists, not_and] at hn
    have hm : m.name ∉ acc.map (·.1) := hd m List.mem_cons_self
    have hr : (rowOf env m).name = m.name := rfl
    simp only [List.map_cons, parseRows, parseRow_rowOf hl, hr, dictSet_fresh hm]
    rw [parseRows_rows hl l _ hn.2]
    · simp
    · intro x hx
      simp only [List.map_append, List.map_cons, List.map_nil, List.mem_append, List.mem_singleton, not_or]
      exact ⟨hd x (List.mem_cons_of_mem _ hx), fun e => hn.1 x hx e⟩

/-- what the client parses from what the server built -/
theorem parse_build {σ : Type} {env : Env σ} (hl : Lawful env) (svc : Service σ) (hwf : svc.WellFormed) (h : List Char) :
    parseDescribe env (rows env svc) (buildMetadata svc h) = .ok
      { protocolName := svc.name, requestVersion := requestVersionText, describeVersion := describeVersion,
        protocolHash := h, serverId := svc.serverId,
        methods := (sortMethods svc.methods).map (fun m => (m.name, m.view)),
        protocolVersion := svc.protocolVersion.getD [] } := by
  obtain ⟨m1, m2, m3, m4, m5, m6⟩ := md_values svc h
  have hn : ((sortMethods svc.methods).map (·.name)).Nodup :=
    (((sort_perm svc.methods).map (fun m : Method σ => m.name)).nodup_iff).mpr hwf
  have := parseRows_rows hl (sortMethods svc.methods) [] hn (by simp)
  simp only [rows, parseDescribe, decodeMd_of m1, decodeMd_of m2, decodeMd_of m3, decodeMd_of m4, decodeMd_of m5,
    decodeMd_of m6, this, bind, Except.bind, pure, Except.pure, List.nil_append]

/-! ### schema cache -/

/-- every cached entry of a class is that class's own generated schema -/
def CacheOK (cache : SchemaCache) : Prop := ∀ c k, dictGet cache c = some k → k = c

theorem cacheOK_nil : CacheOK [] := by intro c k h; simp [dictGet] at h

theorem touch_own (cs : Classes) {cache : SchemaCache} (h : CacheOK cache) (c : Nat) :
    (touchSchema .ownDict cs cache c).1 = c ∧ CacheOK (touchSchema .ownDict cs cache c).2 := by
  unfold touchSchema cacheLookup
  cases e : dictGet cache c with
  | some k => exact ⟨h c k e, h⟩
  | none =>
    refine ⟨rfl, ?_⟩
    intro c' k hk
    by_cases hc : c = c'
    · subst hc
      rw [dictGet_dictSet_same] at hk
      exact (Option.some.inj hk).symm
    · rw [dictGet_dictSet_other _ hc] at hk
      exact h c' k hk

theorem touchAll_own (cs : Classes) : ∀ (touches : List Nat) (cache : SchemaCache), CacheOK cache →
    touchAll .ownDict cs cache touches = touches
  | [], _, _ => rfl
  | c :: rest, cache, h => by
    obtain ⟨h1, h2⟩ := touch_own cs h c
    simp only [touchAll, h1, touchAll_own cs rest _ h2]

end Aux
open Aux

/-! ## Obligations -/

/-- the code shapes the model transliterates are the ones in the source (row order, column ← attribute, metadata dict,
what `parse_describe_batch` reads, what the server hashes / registers / writes, the 8 columns, the `h.update` program) -/
theorem C39_shapes :
    buildShape = [
  ("for", "(name, info) in sorted(methods.items())"),
  ("name", "name"),
  ("method_type", "info.method_type.value"),
  ("has_return", "info.has_return"),
  ("params_schema_ipc", "info.params_schema.serialize().to_pybytes()"),
  ("result_schema_ipc", "info.result_schema.serialize().to_pybytes()"),
  ("has_header", "info.header_type is not None"),
  ("header_schema_ipc", "info.header_type.ARROW_SCHEMA.serialize().to_pybytes() if info.header_type is not None else None"),
  ("is_exchange", "info.is_exchange"),
  ("schema", "_DESCRIBE_SCHEMA"),
  ("protocol_hash", "compute_protocol_hash(protocol_name, batch)"),
  ("return", "(batch, custom_metadata)")
] ∧
    metadataShape = [
  ("PROTOCOL_NAME_KEY", "protocol_name.encode()"),
  ("REQUEST_VERSION_KEY", "REQUEST_VERSION"),
  ("DESCRIBE_VERSION_KEY", "DESCRIBE_VERSION.encode()"),
  ("PROTOCOL_HASH_KEY", "protocol_hash.encode()"),
  ("SERVER_ID_KEY", "server_id.encode()"),
  ("if protocol_version is not None", "md_dict[PROTOCOL_VERSION_KEY] = protocol_version.encode()")
] ∧
    parseShape = [
  ("for", "i in range(batch.num_rows)"),
  ("md", "dict(custom_metadata) if custom_metadata is not None else {}"),
  ("protocol_name", "md.get(PROTOCOL_NAME_KEY, b'').decode()"),
  ("request_version", "md.get(REQUEST_VERSION_KEY, b'').decode()"),
  ("describe_version", "md.get(DESCRIBE_VERSION_KEY, b'').decode()"),
  ("protocol_hash", "md.get(PROTOCOL_HASH_KEY, b'').decode()"),
  ("server_id", "md.get(SERVER_ID_KEY, b'').decode()"),
  ("protocol_version", "md.get(PROTOCOL_VERSION_KEY, b'').decode()"),
  ("method_map", "{}"),
  ("key", "batch.column('name')[i].as_py()"),
  ("ctor", "MethodDescription"),
  ("field:name", "batch.column('name')[i].as_py()"),
  ("field:method_type", "MethodType(batch.column('method_type')[i].as_py())"),
  ("field:has_return", "batch.column('has_return')[i].as_py()"),
  ("field:params_schema", "pa.ipc.read_schema(pa.py_buffer(batch.column('params_schema_ipc')[i].as_py()))"),
  ("field:result_schema", "pa.ipc.read_schema(pa.py_buffer(batch.column('result_schema_ipc')[i].as_py()))"),
  ("field:has_header", "batch.column('has_header')[i].as_py()"),
  ("field:header_schema", "pa.ipc.read_schema(pa.py_buffer(batch.column('header_schema_ipc')[i].as_py())) if batch.column('header_schema_ipc')[i].as_py() is not None else None"),
  ("field:is_exchange", "batch.column('is_exchange')[i].as_py()"),
  ("return", "ServiceDescription"),
  ("ret:protocol_name", "protocol_name"),
  ("ret:request_version", "request_version"),
  ("ret:describe_version", "describe_version"),
  ("ret:protocol_hash", "protocol_hash"),
  ("ret:server_id", "server_id"),
  ("ret:methods", "method_map"),
  ("ret:protocol_version", "protocol_version")
] ∧
    serverShape = [
  ("property:protocol_hash", "self._protocol_hash"),
  ("methods", "rpc_methods(protocol)"),
  ("hashed", "(_hash_batch, _hash_md) = build_describe_batch(protocol.__name__, self._methods, self._server_id, self._protocol_version)"),
  ("self._protocol_hash", "_hash_md.get(PROTOCOL_HASH_KEY, b'').decode()"),
  ("enable:self._describe_batch", "_hash_batch"),
  ("enable:self._describe_metadata", "_hash_md"),
  ("enable:registers", "**self._methods,DESCRIBE_METHOD_NAME"),
  ("enable:info.name", "DESCRIBE_METHOD_NAME"),
  ("enable:info.params_schema", "_EMPTY_SCHEMA"),
  ("enable:info.method_type", "MethodType.UNARY"),
  ("enable:info.has_return", "True"),
  ("disable:self._describe_batch", "None"),
  ("disable:self._describe_metadata", "None"),
  ("pipe:if", "self._describe_batch is not None and info.name == '__describe__'"),
  ("pipe:writes", "writer.write_batch(self._describe_batch, custom_metadata=self._describe_metadata)"),
  ("pipe:returns", "True"),
  ("http:if", "describe_batch is not None and method_name == '__describe__'"),
  ("http:writes", "writer.write_batch(describe_batch, custom_metadata=app._server._describe_metadata)"),
  ("http:describe_batch", "app._server._describe_batch")
] ∧
    describeFields = [("name", "string", true), ("method_type", "string", true), ("has_return", "bool", true), ("params_schema_ipc", "binary", true), ("result_schema_ipc", "binary", true), ("has_header", "bool", true), ("header_schema_ipc", "binary", true), ("is_exchange", "bool", true)] ∧
    prefixOps.drop 5 = [.protocolName, .lit [124]] ∧ (prefixOps.take 5).all (fun op => match op with | .lit _ => true | .protocolName => false) = true ∧
    rowOps = [
  .lit [31],
  .str .name,
  .lit [30],
  .str .methodType,
  .lit [30],
  .bool .hasReturn [49] [48],
  .lit [30],
  .bool .hasHeader [49] [48],
  .lit [30],
  .optBool [45] [49] [48],
  .lit [30],
  .bin .params,
  .lit [30],
  .bin .result,
  .lit [30],
  .optBin
] := by
  refine ⟨rfl, rfl, rfl, rfl, rfl, rfl, rfl, rfl⟩

/-- **faithful**: what a client parses from the server's response describes exactly the service's method table
(names, kinds, has_return, parameter/result/header schemas, header flag, exchange flag), its name, server id and version -/
theorem C39_faithful {σ : Type} (env : Env σ) (hl : Lawful env) : Spec.Faithful (Accepted env) (describe env) := by
  intro s hwf hacc
  have hacc' : namesAllowed s.name (rows env s) = true := hacc
  have hb : buildDescribe env s = .ok (rows env s, buildMetadata s (env.shaHex (preimage s.name (rows env s)))) := by
    simp [buildDescribe, computeProtocolHash, hacc']
  refine ⟨{ protocolName := s.name, requestVersion := requestVersionText, describeVersion := describeVersion,
            protocolHash := env.shaHex (preimage s.name (rows env s)), serverId := s.serverId,
            methods := (sortMethods s.methods).map (fun m => (m.name, m.view)),
            protocolVersion := s.protocolVersion.getD [] },
    by simp only [describe, hb, parse_build hl s hwf], rfl, rfl, rfl, ?_, ?_⟩
  · have : ((sortMethods s.methods).map (fun m => (m.name, m.view))).map (·.1) = (sortMethods s.methods).map (·.name) := by
      simp [List.map_map, Function.comp_def]
    simp only [this]
    exact (((sort_perm s.methods).map (fun m : Method σ => m.name)).nodup_iff).mpr hwf
  · intro n v
    simp only [List.mem_map, Prod.mk.injEq]
    constructor
    · rintro ⟨m, hm, rfl, rfl⟩
      exact ⟨m, sort_mem.mp hm, rfl, rfl⟩
    · rintro ⟨m, hm, rfl, rfl⟩
      exact ⟨m, sort_mem.mpr hm, rfl, rfl⟩

/-- the hash a client reads from the description is the server's `protocol_hash`, and the description carries the
library's describe / request versions -/
theorem C39_describe_hash {σ : Type} (env : Env σ) (hl : Lawful env) (s : Service σ) (hwf : s.WellFormed)
    (d : Description σ) (h : describe env s = .ok d) :
    serverProtocolHash env s = .ok d.protocolHash ∧ d.describeVersion = describeVersion ∧
      utf8 d.requestVersion = requestVersion := by
  unfold describe buildDescribe serverProtocolHash at *
  cases hc : computeProtocolHash env s.name (rows env s) with
  | error e => simp [hc] at h
  | ok hh =>
    simp only [hc, parse_build hl s hwf, Except.ok.injEq] at h
    subst h
    exact ⟨rfl, rfl, requestVersion_text⟩

/-- **exempt**: at each of the three extracted call sites of the protocol-version gate, `__describe__` passes for every
server version and whatever the client declared (absent, undecodable, malformed, mismatched) -/
theorem C39_exempt : ∀ site ∈ Gen.Semver.gateSites, site.recognised = true ∧
    ∀ (srv : Option (Nat × Nat × Nat)) (md : C09.ClientMd), describeGate site srv md = .pass := by
  have h : ∀ site ∈ Gen.Semver.gateSites, site.recognised = true ∧ site.exempt = describeMethodName := by decide
  intro site hs
  refine ⟨(h site hs).1, fun srv md => ?_⟩
  cases srv with
  | none => rfl
  | some v => simp [describeGate, C09.gate, (h site hs).2]

/-- the schema a record class contributes (header schema, nested parameter types) is a function of the class definition
only: with the *extracted* cache lookup, whatever classes (ancestors, subclasses, siblings) were touched before and in
whatever order, every access of `cls.ARROW_SCHEMA` yields `cls`'s own generated schema — so `Method.header` /
`Method.params` are well-defined inputs of the model -/
theorem C39_schema_definition_only (cs : Classes) (touches : List Nat) :
    touchAll schemaCacheLookup cs [] touches = touches := by
  have h : schemaCacheLookup = .ownDict := rfl
  rw [h]
  exact touchAll_own cs touches [] cacheOK_nil

/-- **insensitive**: the pre-image (and acceptance) is a function of the canonical wire view -/
theorem C39_insensitive {σ : Type} (env : Env σ) (a b : Service σ) (h : wireView a = wireView b) :
    servicePreimage env a = servicePreimage env b ∧ serverProtocolHash env a = serverProtocolHash env b := by
  have ha : a.name = (wireView a).1 := rfl
  have hb : b.name = (wireView b).1 := rfl
  simp only [servicePreimage, serverProtocolHash, rows_eq, ha, hb, h, and_self]

/-- **stable**: the server's hash (including whether it is computed at all) depends on the wire-relevant details only -/
theorem C39_stable {σ : Type} (env : Env σ) : Spec.Stable (serverProtocolHash env) := by
  intro a b ha hb h
  exact (C39_insensitive env a b (wireView_of_sameWire ha hb h)).2

/-- server id, protocol_version, docstrings, defaults, Python type names, parameter docs and the order of the method
table are not inputs: any service with the same protocol name whose method views are a permutation hashes identically -/
theorem C39_not_inputs {σ : Type} (env : Env σ) (svc : Service σ) (hwf : svc.WellFormed)
    (serverId : List Char) (protocolVersion : Option (List Char)) (methods : List (Method σ))
    (hp : (methods.map Method.view).Perm (svc.methods.map Method.view)) :
    serverProtocolHash env { name := svc.name, methods := methods, serverId := serverId, protocolVersion := protocolVersion }
      = serverProtocolHash env svc := by
  have : (methods.map (·.name)).Perm (svc.methods.map (·.name)) := by
    simpa [List.map_map, Function.comp_def, view_name] using hp.map (fun v : MethodView σ => v.name)
  exact C39_stable env ⟨svc.name, methods, serverId, protocolVersion⟩ svc (this.nodup_iff.mpr hwf) hwf
    ⟨rfl, fun v => hp.mem_iff⟩

/-- serialized schemas as produced by pyarrow (encapsulated IPC messages) are self-delimiting and never start with the
row separator -/
theorem encapsulated_selfDelimiting {σ : Type} (env : Env σ) (hl : Lawful env) : SelfDelimiting (Ser env) :=
  selfDelimiting_of_lawful hl

/-- **sensitive**, framing core (holds whatever guards the source has): if serialized schemas are self-delimiting and
`serialize` is injective, the pre-image determines the wire view of every service whose protocol name has no U+001F and
whose method names have no U+001E -/
theorem C39_sensitive_names {σ : Type} (env : Env σ) (hS : SelfDelimiting (Ser env))
    (hinj : ∀ x y, env.ser x = env.ser y → x = y) (a b : Service σ) (ha : NamesOK a) (hb : NamesOK b)
    (h : servicePreimage env a = servicePreimage env b) : wireView a = wireView b := by
  obtain ⟨en, er⟩ := preimage_inj hS (not_mem_utf8_of_ascii (by decide) ha.1) (not_mem_utf8_of_ascii (by decide) hb.1)
    (rowsOK ha) (rowsOK hb) h
  rw [rows_eq, rows_eq] at er
  exact Prod.ext en (map_rowOfView_inj hinj (wireView_flags a) (wireView_flags b) er)

/-- **sensitive**, FULL statement: for every pair of service definitions the server accepts, equal pre-images imply
agreement in every wire-relevant detail (uses the extracted name guards) -/
theorem C39_sensitive {σ : Type} (env : Env σ) (hl : Lawful env) : Spec.Sensitive (Accepted env) (servicePreimage env) := by
  intro a b _ _ ha hb h
  exact sameWire_of_wireView (C39_sensitive_names env (selfDelimiting_of_lawful hl) (fun _ _ => ser_inj hl) a b
    (namesOK_of_accepted ha) (namesOK_of_accepted hb) h)

/-- **identity**: with SHA-256 collision-free *as a hypothesis*, two accepted services have the same `protocol_hash`
iff they agree in every wire-relevant detail -/
theorem C39_hash_identity {σ : Type} (env : Env σ) (hl : Lawful env)
    (hsha : ∀ x y, env.shaHex x = env.shaHex y → x = y)
    (a b : Service σ) (hwa : a.WellFormed) (hwb : b.WellFormed) (ha : Accepted env a) (hb : Accepted env b) :
    serverProtocolHash env a = serverProtocolHash env b ↔ SameWire a b := by
  constructor
  · intro h
    have ha' : namesAllowed a.name (rows env a) = true := ha
    have hb' : namesAllowed b.name (rows env b) = true := hb
    simp only [serverProtocolHash, computeProtocolHash, ha', hb', if_true, Except.ok.injEq] at h
    exact C39_sensitive env hl a b hwa hwb ha hb (hsha _ _ h)
  · exact C39_stable env a b hwa hwb

/-! ## Non-vacuity -/

namespace Example

/-- a lawful environment with two schemas, and an injective stand-in for the hash -/
def env : Env Bool where
  ser b := [255, 255, 255, 255, 1, 0, 0, 0, if b then 1 else 0]
  de
    | [255, 255, 255, 255, 1, 0, 0, 0, x] => some (x == 1)
    | _ => none
  shaHex b := b.map (fun x => Char.ofNat x.toNat)

theorem lawful : Lawful env where
  de_ser := by intro s; cases s <;> rfl
  encapsulated := by intro s; cases s <;> rfl

theorem collisionFree : ∀ x y, env.shaHex x = env.shaHex y → x = y := by
  have inv : ∀ n, n < 256 → (Char.ofNat n).toNat = n := by
    intro n hn
    have hv : n.isValidChar := Or.inl (by omega)
    simp [Char.ofNat, hv, Char.ofNatAux, Char.toNat]
  intro x y h
  have h2 := congrArg (List.map (fun c : Char => UInt8.ofNat c.toNat)) h
  have key : ∀ l : List UInt8, (env.shaHex l).map (fun c : Char => UInt8.ofNat c.toNat) = l := by
    intro l
    induction l with
    | nil => rfl
    | cons a l ih =>
      have ih' : List.map (fun c : Char => UInt8.ofNat c.toNat) (List.map (fun x : UInt8 => Char.ofNat x.toNat) l) = l := ih
      simp only [env, List.map_cons, inv a.toNat a.toNat_lt, ih', UInt8.ofNat_toNat]
  rw [key, key] at h2
  exact h2

def svc : Service Bool :=
  { name := "Calc".toList
    methods := [
      { name := "gen".toList, kind := .stream, hasReturn := false, params := true, result := false, header := some true,
        isExchange := some false, doc := some "doc".toList },
      { name := "add".toList, kind := .unary, hasReturn := true, params := true, result := true, header := none,
        isExchange := none } ]
    serverId := "srv".toList
    protocolVersion := some "1.2.3".toList }

example : svc.WellFormed := by unfold Service.WellFormed; decide
example : Accepted env svc := by
  have : sortMethods svc.methods = svc.methods.reverse := by
    simp [sortMethods, svc, List.mergeSort, leName]
  simp [Accepted, rows, this]
  decide

/-- the hypotheses of `C39_hash_identity` are jointly satisfiable -/
example (a b : Service Bool) (hwa : a.WellFormed) (hwb : b.WellFormed) (ha : Accepted env a) (hb : Accepted env b) :
    serverProtocolHash env a = serverProtocolHash env b ↔ SameWire a b :=
  C39_hash_identity env lawful collisionFree a b hwa hwb ha hb

/-- the hypotheses of `C39_sensitive_names` / `C39_faithful` are satisfiable (and the latter yields a description of `svc`) -/
example : NamesOK svc := by
  refine ⟨by decide, ?_⟩
  intro m hm
  simp only [svc, List.mem_cons, List.not_mem_nil, or_false] at hm
  rcases hm with rfl | rfl <;> decide

example (hacc : Accepted env svc) : ∃ d, describe env svc = .ok d ∧ Describes d svc :=
  C39_faithful env lawful svc (by unfold Service.WellFormed; decide) hacc

/-- a retype of one parameter schema is wire relevant … -/
def svcRetyped : Service Bool := { svc with methods := svc.methods.map fun m => if m.name = "add".toList then { m with params := false } else m }

example : ¬ SameWire svc svcRetyped := by
  intro h
  have := (h.2 { name := "add".toList, kind := .unary, hasReturn := true, params := true, result := true,
                 hasHeader := false, header := none, isExchange := none }).mp (by decide)
  revert this
  decide

/-- … while docstrings, defaults, server id, version and method order are not -/
example : serverProtocolHash env
    { name := svc.name, methods := svc.methods.reverse.map (fun m => { m with doc := none, paramDefaults := [("a".toList, "1".toList)] }),
      serverId := "other".toList, protocolVersion := none } = serverProtocolHash env svc := by
  apply C39_not_inputs env svc (by unfold Service.WellFormed; decide)
  decide

end Example

end VgiVerif.C39
