import VgiVerif.Model.C24Stack
import VgiVerif.Spec.C24
import VgiVerif.Proofs.C22
/-
C24 — precondition gates compose with AND semantics.
Helper lemmas in `namespace Aux`; the property theorems (obligations) are below.
-/
set_option linter.unusedSimpArgs false
namespace VgiVerif.C24
open VgiVerif.PP VgiVerif.Auth

namespace Aux

theorem gen_facts :
    Gen.C24.unverifiedAnonymous = true ∧ Gen.C24.unverifiedKey = "verified".toList ∧
    Gen.C24.unverifiedValue = "false".toList ∧ Gen.C24.gateOnlyAuthenticated = true ∧
    Gen.C24.requireAllTypeGuard = true ∧ Gen.C24.chainEmptyGuard = true ∧ Gen.C24.chainGateGuard = true ∧
    Gen.C24.chainSwallows = ["ValueError"] ∧ Gen.C24.okVerified = "true".toList ∧
    Gen.C24.failVerified = "false".toList ∧ Gen.C24.gateRunsFirst = true ∧ Gen.C24.innerIdentityKept = true := by
  refine ⟨rfl, by decide, by decide, rfl, rfl, rfl, rfl, rfl, by decide, by decide, rfl, rfl⟩

theorem dropKey_map_set (d : List (Str × ClaimVal)) (k : Str) (v : ClaimVal) :
    dropKey (d.map (fun e => if e.1 == k then (k, v) else e)) k = dropKey d k := by
  induction d with
  | nil => rfl
  | cons e r ih =>
    simp only [dropKey, List.map_cons, List.filter_cons] at ih ⊢
    by_cases h : (e.1 == k) = true
    · simp only [h, if_true, beq_self_eq_true, Bool.not_true, Bool.false_eq_true, if_false]
      exact ih
    · have h' : (e.1 == k) = false := by simpa using h
      simp only [h', Bool.false_eq_true, if_false, Bool.not_false, if_true]
      rw [ih]

theorem dropKey_setKey (d : List (Str × ClaimVal)) (k : Str) (v : ClaimVal) :
    dropKey (setKey d k v) k = dropKey d k := by
  unfold setKey
  split
  · exact dropKey_map_set d k v
  · simp [dropKey, List.filter_append]

end Aux
open Aux

/-! ## Property theorems (obligations) -/

/-- **AND**: the composed callback hands the method an *authenticated* context only if the gate verified the
request (no inner authenticator) or the inner authenticator accepted it as authenticated. -/
theorem C24_and (g : Gate) (inner : Option AuthOut) (ctx : AuthCtx)
    (h : (requireAll g inner).out = .ok ctx) (ha : ctx.authenticated = true) :
    (inner = none → Spec.gateVerified g) ∧ (∀ i, inner = some i → Spec.innerAccepted i) := by
  obtain ⟨g1, g2, g3, g4, -⟩ := gen_facts
  unfold requireAll requireAllWith at h
  rw [g1, g2, g3, g4] at h
  cases hg : g.res with
  | raises e => rw [hg] at h; cases h
  | claims c =>
    rw [hg] at h
    cases inner with
    | none =>
      refine ⟨fun _ => ?_, fun i hi => by cases hi⟩
      simp only [Bool.true_and] at h
      by_cases hv : (c.get "verified".toList == some "false".toList) = true
      · rw [if_pos hv] at h
        simp only [AuthOut.ok.injEq] at h
        rw [← h] at ha
        cases ha
      · refine ⟨c, hg, ?_⟩
        intro hc
        rw [hc] at hv
        exact hv (by decide)
    | some i =>
      refine ⟨fun hn => (by cases hn), fun i' hi => ?_⟩
      cases hi
      cases i with
      | err e => cases h
      | ok ctx' =>
        simp only [AuthOut.ok.injEq] at h
        refine ⟨ctx', rfl, ?_⟩
        rw [← h] at ha
        exact ha

/-- **allow mode**: when the gate lets a request through without verifying it, the composed callback answers
exactly as the same deployment without the gate would — `inner`'s answer (consulted exactly once), or the
anonymous context — up to the attribution entry under the gate's claims key. -/
theorem C24_allow (g : Gate) (inner : Option AuthOut) (h : Spec.gatePassedUnverified g) :
    Spec.sameUpToAttribution g.claimsKey (requireAll g inner).out (Spec.withoutGate inner) ∧
    (requireAll g inner).innerCalls = (if inner.isSome then 1 else 0) := by
  obtain ⟨g1, g2, g3, g4, -⟩ := gen_facts
  obtain ⟨c, hc, hv⟩ := h
  unfold requireAll requireAllWith
  rw [g1, g2, g3, g4, hc]
  cases inner with
  | none =>
    have : (c.get "verified".toList == some "false".toList) = true := by rw [hv]; decide
    simp only [Bool.true_and, this, if_true, Spec.withoutGate, Spec.sameUpToAttribution, anonymous, Option.isSome_none,
      Bool.false_eq_true, if_false, and_true, true_and]
    simp [dropKey]
  | some i =>
    cases i with
    | err e => simp [Spec.withoutGate, Spec.sameUpToAttribution]
    | ok ctx =>
      simp only [Spec.withoutGate, Spec.sameUpToAttribution, Option.isSome_some, if_true, and_true, true_and]
      exact dropKey_setKey ctx.claims g.claimsKey (.map c)

/-- **require mode**: when the gate refuses, the composed callback raises the gate's own error and the inner
authenticator is never invoked. -/
theorem C24_require (g : Gate) (inner : Option AuthOut) (h : Spec.gateRefused g) :
    (requireAll g inner).innerCalls = 0 ∧ ∃ e, g.res = .raises e ∧ (requireAll g inner).out = .err e := by
  obtain ⟨e, he⟩ := h
  unfold requireAll requireAllWith
  rw [he]
  exact ⟨rfl, e, rfl, rfl⟩

/-- a refusal that is a `PermissionError` ends an OR chain at once (later members are not tried) and becomes a 401 -/
theorem C24_refusal_not_swallowed (what : Str) (rest : List AuthOut) :
    chainRun (.err (.permission what) :: rest) = (.err (.permission what), 1) ∧
    middleware (.err (.permission what)) = .status401 := ⟨rfl, rfl⟩

/-- **no OR**: a `PreconditionGate` anywhere in the argument list makes `chain_authenticate` fail at construction -/
theorem C24_no_or (ms : List Member) (h : ∃ m ∈ ms, m.isGate = true) : chainConstruct ms = .error .typeError := by
  obtain ⟨-, -, -, -, -, g6, g7, -⟩ := gen_facts
  obtain ⟨m, hm, hg⟩ := h
  unfold chainConstruct
  rw [g6, g7]
  have hne : ms.isEmpty = false := by cases ms with
    | nil => cases hm
    | cons _ _ => rfl
  have hany : ms.any Member.isGate = true := List.any_eq_true.2 ⟨m, hm, hg⟩
  simp [hne, hany]

/-- and `require_all` accepts nothing but a gate in the gate position -/
theorem C24_require_all_needs_gate (m : Member) (h : m.isGate = false) : requireAllConstruct m = .error .typeError := by
  obtain ⟨-, -, -, -, g5, -⟩ := gen_facts
  cases m with
  | gate g => cases h
  | fn o => simp [requireAllConstruct, g5]
  | other => simp [requireAllConstruct, g5]

/-- the chain swallows `ValueError` only (so a `PermissionError` refusal cannot be bypassed by a later member) -/
theorem C24_chain_swallows : Gen.C24.chainSwallows = ["ValueError"] := gen_facts.2.2.2.2.2.2.2.1

/-! ### the real stack: `require_all(proxy_proof_gate(cfg), inner)` and the §6 table -/

/-- The proxy-proof gate realises the three abstract gate behaviours exactly along the C22 table:
accepted proof → verified; refused by the table → passed-unverified in allow mode, refused with a
`PermissionError` in require mode. -/
theorem C24_proof_gate (hmac : Hmac) (cfg : Config) (sep : Str) (hsep : ',' ∈ sep) (vals : List Str) (now : Int)
    (cache : Option NonceState) (mono : Int) (hinv : C22.Aux.InvO cache mono) (mode : C22.Mode) :
    ((∃ c, (C22.Spec.table hmac cfg vals now cache mono).1 = .ok c) →
        Spec.gateVerified (proofGate hmac mode cfg (C22.wsgiJoin sep vals) now cache mono).1) ∧
    ((∃ r, (C22.Spec.table hmac cfg vals now cache mono).1 = .err r) →
        (mode = .allow → Spec.gatePassedUnverified (proofGate hmac mode cfg (C22.wsgiJoin sep vals) now cache mono).1) ∧
        (mode = .require → ∃ w, (proofGate hmac mode cfg (C22.wsgiJoin sep vals) now cache mono).1.res
            = .raises (.permission w))) := by
  have hperm : Gen.C22.proofErrorIsPermissionError = true := rfl
  constructor
  · rintro ⟨c, hc⟩
    obtain ⟨label, kid, hlk⟩ := C22.C22_ok_claims hmac cfg vals now cache mono c hc
    have hgate : (C22.gate hmac mode cfg (C22.wsgiJoin sep vals) now cache mono).1 = .claims c := by
      unfold C22.gate
      rw [C22.C22 hmac cfg sep hsep vals now cache mono hinv, hc]
    refine ⟨c, ?_, ?_⟩
    · simp only [proofGate, hgate, ofProofGate]
    · rw [hlk]; show some "true".toList ≠ some "false".toList; decide
  · rintro ⟨r, hr⟩
    have hv : (C22.gateVerify hmac cfg (C22.wsgiJoin sep vals) now cache mono).1 = .done (.err r) := by
      rw [C22.C22 hmac cfg sep hsep vals now cache mono hinv, hr]
    constructor
    · rintro rfl
      refine ⟨C22.failClaims cfg.origin r, ?_, rfl⟩
      simp only [proofGate, C22.gate]
      rw [C22.C22 hmac cfg sep hsep vals now cache mono hinv, hr]
      rfl
    · rintro rfl
      refine ⟨(C22.ProofError.mk r Gen.C22.requireDetail).str, ?_⟩
      simp only [proofGate, C22.gate]
      rw [C22.C22 hmac cfg sep hsep vals now cache mono hinv, hr]
      simp only [ofProofGate, hperm, if_true]

/-- **C24 on the real stack**: behind `_AuthMiddleware`, a method is dispatched with an authenticated context only
if the §6 table accepted the proof (no inner authenticator) or the inner authenticator accepted the caller;
in require mode a proof the table refuses gives 401 with zero inner invocations. -/
theorem C24_stack (hmac : Hmac) (cfg : Config) (sep : Str) (hsep : ',' ∈ sep) (vals : List Str) (now : Int)
    (cache : Option NonceState) (mono : Int) (hinv : C22.Aux.InvO cache mono) (mode : C22.Mode) (inner : Option AuthOut) :
    (∀ ctx, (stack hmac mode cfg (C22.wsgiJoin sep vals) now cache mono inner).1 = .dispatch ctx →
        ctx.authenticated = true →
        (inner = none → ∃ c, (C22.Spec.table hmac cfg vals now cache mono).1 = .ok c) ∧
        (∀ i, inner = some i → Spec.innerAccepted i)) ∧
    (mode = .require → (∃ r, (C22.Spec.table hmac cfg vals now cache mono).1 = .err r) →
        (stack hmac mode cfg (C22.wsgiJoin sep vals) now cache mono inner).1 = .status401 ∧
        (stack hmac mode cfg (C22.wsgiJoin sep vals) now cache mono inner).2.1 = 0) := by
  have hpg := C24_proof_gate hmac cfg sep hsep vals now cache mono hinv mode
  constructor
  · intro ctx hd ha
    simp only [stack] at hd
    generalize hg : (proofGate hmac mode cfg (C22.wsgiJoin sep vals) now cache mono).1 = g at hd hpg
    cases ho : (requireAll g inner).out with
    | err e => rw [ho] at hd; cases e <;> cases hd
    | ok ctx' =>
      rw [ho] at hd
      simp only [middleware, Served.dispatch.injEq] at hd
      subst hd
      obtain ⟨h1, h2⟩ := C24_and g inner ctx' ho ha
      refine ⟨fun hn => ?_, h2⟩
      obtain ⟨c, hc, hv⟩ := h1 hn
      -- the gate verified: the table cannot have refused (a refusal gives unverified claims or raises)
      cases ht : (C22.Spec.table hmac cfg vals now cache mono).1 with
      | ok c' => exact ⟨c', rfl⟩
      | err r =>
        exfalso
        obtain ⟨hallow, hreq⟩ := hpg.2 ⟨r, ht⟩
        cases mode with
        | allow =>
          obtain ⟨c2, hc2, hv2⟩ := hallow rfl
          rw [hc] at hc2
          cases hc2
          exact hv hv2
        | require =>
          obtain ⟨w, hw⟩ := hreq rfl
          rw [hc] at hw
          cases hw
  · intro hm hr
    obtain ⟨w, hw⟩ := (hpg.2 hr).2 hm
    have href : Spec.gateRefused (proofGate hmac mode cfg (C22.wsgiJoin sep vals) now cache mono).1 := ⟨_, hw⟩
    obtain ⟨h0, e, he, hout⟩ := C24_require _ inner href
    rw [hw] at he
    cases he
    simp only [stack, hout, h0, middleware, and_self]

/-- non-vacuity: the three gate behaviours exist, and the composed results are as claimed -/
example : requireAll ⟨"g".toList, "k".toList, .claims [("verified".toList, "false".toList)]⟩ none
    = ⟨.ok ⟨none, false, none, [("k".toList, .map [("verified".toList, "false".toList)])]⟩, 0⟩ := by decide
example : requireAll ⟨"g".toList, "k".toList, .claims [("verified".toList, "true".toList), ("proxy".toList, "p".toList)]⟩ none
    = ⟨.ok ⟨some "g".toList, true, some "p".toList,
        [("k".toList, .map [("verified".toList, "true".toList), ("proxy".toList, "p".toList)])]⟩, 0⟩ := by decide
example : (requireAll ⟨"g".toList, "k".toList, .raises (.permission "x".toList)⟩ (some (.ok anonymous))).innerCalls = 0 := by
  decide
example : chainConstruct [.fn (.ok anonymous), .gate ⟨[], [], .claims []⟩] = .error .typeError := rfl

end VgiVerif.C24
