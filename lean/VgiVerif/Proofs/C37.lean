import VgiVerif.Model.C37
import VgiVerif.Spec.C37
import VgiVerif.Lemmas.UrlPy
import VgiVerif.Lemmas.UrlWhatwg
/-
C37 property theorems.  Helper lemmas are in `namespace Aux`; the obligations audited by the check are the theorems
`C37_*` at the end of each section.
-/
set_option linter.unusedSimpArgs false
namespace VgiVerif.C37
open VgiVerif.PyStr VgiVerif.UrlPy VgiVerif.UrlWhatwg Spec

namespace Aux

/-! ## facts about the extracted constants (re-checked whenever the source changes) -/

theorem shape_rt : Gen.Pkce.returnToShape = .repaired := by rfl
theorem shape_ou : Gen.Pkce.originalUrlShape = .repaired := by rfl

def loopHost (h : Str) : Bool :=
  match hostParse h with
  | .ok host => host == .domain localhostDomain || host == .ipv4 2130706433
  | _ => false

theorem localhost_facts : ∀ h ∈ Gen.Pkce.localhostNames,
    h.contains '%' = false ∧ h ≠ [] ∧ (h.contains '[' = false → loopHost h = true) := by decide

theorem scheme_facts : ∀ s ∈ Gen.Pkce.returnToSchemes,
    defaultPortOf s = UrlWhatwg.defaultPort s ∧ isSpecial s = true ∧ isFile s = false ∧ (defaultPortOf s).isSome = true
      ∧ s.map asciiLower = s ∧ s.all isSchemeChar = true
      ∧ (match s with | c :: _ => isAsciiAlpha c | [] => false) = true := by decide

theorem forbidden_facts : Gen.Pkce.netlocForbidden.contains '@' = true ∧ Gen.Pkce.netlocForbidden.contains '[' = true
    ∧ Gen.Pkce.netlocForbidden.contains ']' = true := by decide

/-- what `_has_unsafe_url_chars` refuses: everything but printable ASCII without the backslash -/
theorem safe_char {c : Char} (h : isUnsafeChar c = false) : 0x20 < c.toNat ∧ c.toNat < 0x7F ∧ c ≠ '\\' := by
  have h1 : Gen.Pkce.unsafeLo = 32 := by rfl
  have h2 : Gen.Pkce.unsafeHi = 127 := by rfl
  have h3 : Gen.Pkce.unsafeExtra = ['\\'] := by rfl
  unfold isUnsafeChar at h
  rw [h1, h2, h3] at h
  simp only [Bool.or_eq_false_iff, decide_eq_false_iff_not, List.contains_cons, List.contains_nil, Bool.or_false,
    beq_eq_false_iff_ne] at h
  exact ⟨by omega, by omega, h.2⟩

theorem clean_of_safe {u : Str} (h : hasUnsafeChars u = false) : Clean u ∧ ∀ c ∈ u, isAscii c = true := by
  unfold hasUnsafeChars at h
  rw [List.any_eq_false] at h
  refine ⟨fun c hc => ?_, fun c hc => ?_⟩
  · have := safe_char (by simpa using h c hc)
    exact ⟨this.1, this.2.2⟩
  · have := safe_char (by simpa using h c hc)
    simp [isAscii]; omega

/-! ## what an accepting run of the repaired `_validate_return_to` has established -/

theorem repaired_accepts {env : Env} {u : Str} {allow : List Str} {r : Str}
    (h : validateReturnToRepaired env u allow = .ok r) (hr : r ≠ []) :
    r = u ∧ u ≠ [] ∧ hasUnsafeChars u = false ∧ ∃ sp prt, urlsplit env u = some sp ∧ port sp.netloc = some prt ∧
      Gen.Pkce.returnToSchemes.contains sp.scheme = true ∧ sp.netloc ≠ [] ∧
      sp.netloc.any (fun ch => Gen.Pkce.netlocForbidden.contains ch) = false ∧
      ((isLocalhost ((hostname sp.netloc).getD []) = true ∧ sp.scheme = sHttp) ∨
        ∃ dflt, defaultPortOf sp.scheme = some dflt ∧
          originString sp.scheme ((hostname sp.netloc).getD []) prt dflt ∈ allow) := by
  unfold validateReturnToRepaired at h
  split at h
  · simp only [Except.ok.injEq] at h; exact absurd h.symm hr
  rename_i h0
  split at h
  · simp only [Except.ok.injEq] at h; exact absurd h.symm hr
  rename_i h1
  split at h
  · simp only [Except.ok.injEq] at h; exact absurd h.symm hr
  rename_i sp hsp
  split at h
  · simp only [Except.ok.injEq] at h; exact absurd h.symm hr
  rename_i prt hprt
  split at h
  · simp only [Except.ok.injEq] at h; exact absurd h.symm hr
  rename_i h2
  split at h
  · simp only [Except.ok.injEq] at h; exact absurd h.symm hr
  rename_i h3
  split at h
  · simp only [Except.ok.injEq] at h; exact absurd h.symm hr
  rename_i h4
  have hu : u ≠ [] := by
    intro hu
    simp [hu] at h0
  have base : hasUnsafeChars u = false ∧ Gen.Pkce.returnToSchemes.contains sp.scheme = true ∧ sp.netloc ≠ [] ∧
      sp.netloc.any (fun ch => Gen.Pkce.netlocForbidden.contains ch) = false := by
    refine ⟨by simpa using h1, by simpa using h2, ?_, by simpa using h4⟩
    intro hn; simp [hn] at h3
  dsimp only at h
  split at h
  · rename_i h5
    simp only [Except.ok.injEq] at h
    simp only [Bool.and_eq_true, beq_iff_eq] at h5
    exact ⟨h.symm, hu, base.1, sp, prt, hsp, hprt, base.2.1, base.2.2.1, base.2.2.2, Or.inl h5⟩
  · split at h
    · cases h
    · rename_i dflt hd
      split at h
      · rename_i h6
        simp only [Except.ok.injEq] at h
        exact ⟨h.symm, hu, base.1, sp, prt, hsp, hprt, base.2.1, base.2.2.1, base.2.2.2,
          Or.inr ⟨dflt, hd, by simpa using h6⟩⟩
      · simp only [Except.ok.injEq] at h; exact absurd h.symm hr

/-! ## agreement of the two parsers on the authority -/

theorem authEnd_of_netlocEnd {c : Char} (h : isNetlocEnd c = true) : isAuthEnd c = true := by
  simp only [isNetlocEnd, Bool.or_eq_true] at h
  simp only [isAuthEnd, Bool.or_eq_true]
  rcases h with (h | h) | h
  · exact Or.inl (Or.inl (Or.inl h))
  · exact Or.inl (Or.inl (Or.inr h))
  · exact Or.inl (Or.inr h)

theorem not_authEnd {c : Char} (h1 : isNetlocEnd c = false) (h2 : c ≠ '\\') : isAuthEnd c = false := by
  simp only [isNetlocEnd, Bool.or_eq_false_iff] at h1
  simp [isAuthEnd, h1.1.1, h1.1.2, h1.2, h2]

theorem separator_visible (u : Str) : 0x20 < (separator u).toNat := by
  unfold separator; split <;> decide

/-- the common core of `C37_agree` and `C37_return_to`: a clean URL that `urlsplit` gives a special scheme and a plain
netloc, optionally followed by the fragment separator and anything — the browser runs its host parser on the text
before the first `:` of Python's netloc and its port state on the text after it. -/
theorem agree_core (env : Env) (base : Url) (u : Str) (sp : Split) (hc : Clean u) (hsplit : urlsplit env u = some sp)
    (hsp : isSpecial sp.scheme = true) (hnf : isFile sp.scheme = false) (hn : sp.netloc ≠ [])
    (h0 : '@' ∉ sp.netloc) (h1 : '[' ∉ sp.netloc) (h2 : ']' ∉ sp.netloc)
    (w : Str) (hw : w = [] ∨ ∃ t, w = separator u :: t) :
    ∃ R, parse base (u ++ w) =
      hostPort sp.scheme [] [] (sp.netloc.takeWhile (· != ':')) (afterColon sp.netloc) R := by
  have hs : sp.scheme ≠ [] := by
    intro h; rw [h] at hsp; revert hsp; decide
  obtain ⟨S, R, hu, hsch, hall, hhead, hN, hR⟩ := urlsplit_shape hc hsplit hs hn
  have hune : u ≠ [] := by
    obtain ⟨c, t, rfl, _⟩ := hhead
    rw [hu]; simp
  have hcN : Clean sp.netloc := by
    intro c hcm
    exact hc c (by rw [hu]; simp [hcm])
  have hN' : ∀ c ∈ sp.netloc, isAuthEnd c = false := fun c hcm => not_authEnd (hN c hcm) (hcN c hcm).2
  have hR' : R = [] ∨ ∃ c R', R = c :: R' ∧ isAuthEnd c = true := by
    rcases hR with h | ⟨c, R', h, hcend⟩
    · exact Or.inl h
    · exact Or.inr ⟨c, R', h, authEnd_of_netlocEnd hcend⟩
  rcases hw with rfl | ⟨t, rfl⟩
  · refine ⟨R, ?_⟩
    rw [List.append_nil]
    rw [parse_absolute base u S sp.netloc R (by rw [UrlWhatwg.preprocess_clean hc]; exact hu) hhead hall
      (by rw [← hsch]; exact hsp) (by rw [← hsch]; exact hnf) (Or.inl hn) hN' hR', ← hsch]
    exact authorityParts_plain _ _ _ h0 h1 h2
  · obtain ⟨t', ht'⟩ := preprocess_clean_append hc hune (separator u) (separator_visible u) t
    refine ⟨R ++ separator u :: t', ?_⟩
    have hpre : UrlWhatwg.preprocess (u ++ separator u :: t) = S ++ ':' :: '/' :: '/' :: (sp.netloc ++ (R ++ separator u :: t')) := by
      rw [ht']
      have := congrArg (fun x => x ++ separator u :: t') hu
      simpa only [List.append_assoc, List.cons_append] using this
    have hR'' : (R ++ separator u :: t') = [] ∨ ∃ c R', (R ++ separator u :: t') = c :: R' ∧ isAuthEnd c = true := by
      right
      rcases hR' with rfl | ⟨c, R', rfl, hcend⟩
      · refine ⟨separator u, t', rfl, ?_⟩
        have hnc : u.contains '#' = false := by
          rw [Bool.eq_false_iff]
          intro hcon
          have hmem : '#' ∈ u := by simpa using hcon
          rw [hu] at hmem
          simp only [List.append_nil, List.mem_append, List.mem_cons] at hmem
          rcases hmem with hS | h | h | h | hNm
          · have := hall _ hS; revert this; decide
          · revert h; decide
          · revert h; decide
          · revert h; decide
          · have := hN _ hNm; revert this; decide
        unfold separator
        rw [hnc]
        decide
      · exact ⟨c, R' ++ separator u :: t', rfl, hcend⟩
    rw [parse_absolute base _ S sp.netloc _ hpre hhead hall (by rw [← hsch]; exact hsp) (by rw [← hsch]; exact hnf)
      (Or.inl hn) hN' hR'', ← hsch]
    exact authorityParts_plain _ _ _ h0 h1 h2

end Aux

end VgiVerif.C37
