import VgiVerif.Model.C37
namespace VgiVerif.C37
end VgiVerif.C37
