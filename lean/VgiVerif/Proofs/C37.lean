import VgiVerif.Model.C37
import VgiVerif.Spec.C37
import VgiVerif.Lemmas.UrlPy
import VgiVerif.Lemmas.UrlWhatwg
import VgiVerif.Lemmas.C37Cookie
/-
C37 property theorems.  Helper lemmas are in `namespace Aux`; the obligations audited by the check are the theorems
`C37_*` at the end of each section.
-/
set_option linter.unusedSimpArgs false
namespace VgiVerif.C37
open VgiVerif.PyStr VgiVerif.UrlPy VgiVerif.UrlWhatwg Spec

namespace Aux

/-! ## facts about the extracted constants (re-checked whenever the source changes) -/

theorem shape_rt : Gen.Pkce.returnToShape = .repaired := by rfl
theorem shape_ou : Gen.Pkce.originalUrlShape = .repaired := by rfl

def loopHost (h : Str) : Bool :=
  match hostParse h with
  | .ok host => host == .domain localhostDomain || host == .ipv4 2130706433
  | _ => false

theorem localhost_facts : ∀ h ∈ Gen.Pkce.localhostNames,
    h.contains '%' = false ∧ h ≠ [] ∧ (h.contains '[' = false → loopHost h = true) := by decide

theorem scheme_facts : ∀ s ∈ Gen.Pkce.returnToSchemes,
    defaultPortOf s = UrlWhatwg.defaultPort s ∧ isSpecial s = true ∧ isFile s = false ∧ (defaultPortOf s).isSome = true
      ∧ s.map asciiLower = s ∧ s.all isSchemeChar = true
      ∧ (match s with | c :: _ => isAsciiAlpha c | [] => false) = true := by decide

theorem forbidden_facts : Gen.Pkce.netlocForbidden.contains '@' = true ∧ Gen.Pkce.netlocForbidden.contains '[' = true
    ∧ Gen.Pkce.netlocForbidden.contains ']' = true := by decide

/-- what `_has_unsafe_url_chars` refuses: everything but printable ASCII without the backslash -/
theorem safe_char {c : Char} (h : isUnsafeChar c = false) : 0x20 < c.toNat ∧ c.toNat < 0x7F ∧ c ≠ '\\' := by
  have h1 : Gen.Pkce.unsafeLo = 32 := by rfl
  have h2 : Gen.Pkce.unsafeHi = 127 := by rfl
  have h3 : Gen.Pkce.unsafeExtra = ['\\'] := by rfl
  unfold isUnsafeChar at h
  rw [h1, h2, h3] at h
  simp only [Bool.or_eq_false_iff, decide_eq_false_iff_not, List.contains_cons, List.contains_nil, Bool.or_false,
    beq_eq_false_iff_ne] at h
  exact ⟨by omega, by omega, h.2⟩

theorem clean_of_safe {u : Str} (h : hasUnsafeChars u = false) : Clean u ∧ ∀ c ∈ u, isAscii c = true := by
  unfold hasUnsafeChars at h
  rw [List.any_eq_false] at h
  refine ⟨fun c hc => ?_, fun c hc => ?_⟩
  · have := safe_char (by simpa using h c hc)
    exact ⟨this.1, this.2.2⟩
  · have := safe_char (by simpa using h c hc)
    simp [isAscii]; omega

/-! ## what an accepting run of the repaired `_validate_return_to` has established -/

theorem repaired_accepts {env : Env} {u : Str} {allow : List Str} {r : Str}
    (h : validateReturnToRepaired env u allow = .ok r) (hr : r ≠ []) :
    r = u ∧ u ≠ [] ∧ hasUnsafeChars u = false ∧ ∃ sp prt, urlsplit env u = some sp ∧ port sp.netloc = some prt ∧
      Gen.Pkce.returnToSchemes.contains sp.scheme = true ∧ sp.netloc ≠ [] ∧
      sp.netloc.any (fun ch => Gen.Pkce.netlocForbidden.contains ch) = false ∧
      ((isLocalhost ((hostname sp.netloc).getD []) = true ∧ sp.scheme = sHttp) ∨
        ∃ dflt, defaultPortOf sp.scheme = some dflt ∧
          originString sp.scheme ((hostname sp.netloc).getD []) prt dflt ∈ allow) := by
  unfold validateReturnToRepaired at h
  split at h
  · simp only [Except.ok.injEq] at h; exact absurd h.symm hr
  rename_i h0
  split at h
  · simp only [Except.ok.injEq] at h; exact absurd h.symm hr
  rename_i h1
  split at h
  · simp only [Except.ok.injEq] at h; exact absurd h.symm hr
  rename_i sp hsp
  split at h
  · simp only [Except.ok.injEq] at h; exact absurd h.symm hr
  rename_i prt hprt
  split at h
  · simp only [Except.ok.injEq] at h; exact absurd h.symm hr
  rename_i h2
  split at h
  · simp only [Except.ok.injEq] at h; exact absurd h.symm hr
  rename_i h3
  split at h
  · simp only [Except.ok.injEq] at h; exact absurd h.symm hr
  rename_i h4
  have hu : u ≠ [] := by
    intro hu
    simp [hu] at h0
  have base : hasUnsafeChars u = false ∧ Gen.Pkce.returnToSchemes.contains sp.scheme = true ∧ sp.netloc ≠ [] ∧
      sp.netloc.any (fun ch => Gen.Pkce.netlocForbidden.contains ch) = false := by
    refine ⟨by simpa using h1, by simpa using h2, ?_, by simpa using h4⟩
    intro hn; simp [hn] at h3
  dsimp only at h
  split at h
  · rename_i h5
    simp only [Except.ok.injEq] at h
    simp only [Bool.and_eq_true, beq_iff_eq] at h5
    exact ⟨h.symm, hu, base.1, sp, prt, hsp, hprt, base.2.1, base.2.2.1, base.2.2.2, Or.inl h5⟩
  · split at h
    · cases h
    · rename_i dflt hd
      split at h
      · rename_i h6
        simp only [Except.ok.injEq] at h
        exact ⟨h.symm, hu, base.1, sp, prt, hsp, hprt, base.2.1, base.2.2.1, base.2.2.2,
          Or.inr ⟨dflt, hd, by simpa using h6⟩⟩
      · simp only [Except.ok.injEq] at h; exact absurd h.symm hr

/-! ## agreement of the two parsers on the authority -/

theorem authEnd_of_netlocEnd {c : Char} (h : isNetlocEnd c = true) : isAuthEnd c = true := by
  simp only [isNetlocEnd, Bool.or_eq_true] at h
  simp only [isAuthEnd, Bool.or_eq_true]
  rcases h with (h | h) | h
  · exact Or.inl (Or.inl (Or.inl h))
  · exact Or.inl (Or.inl (Or.inr h))
  · exact Or.inl (Or.inr h)

theorem not_authEnd {c : Char} (h1 : isNetlocEnd c = false) (h2 : c ≠ '\\') : isAuthEnd c = false := by
  simp only [isNetlocEnd, Bool.or_eq_false_iff] at h1
  simp [isAuthEnd, h1.1.1, h1.1.2, h1.2, h2]

theorem separator_visible (u : Str) : 0x20 < (separator u).toNat := by
  unfold separator; split <;> decide

/-- the common core of `C37_agree` and `C37_return_to`: a clean URL that `urlsplit` gives a special scheme and a plain
netloc, optionally followed by the fragment separator and anything — the browser runs its host parser on the text
before the first `:` of Python's netloc and its port state on the text after it. -/
theorem agree_core (env : Env) (base : Url) (u : Str) (sp : Split) (hc : Clean u) (hsplit : urlsplit env u = some sp)
    (hsp : isSpecial sp.scheme = true) (hnf : isFile sp.scheme = false) (hn : sp.netloc ≠ [])
    (h0 : '@' ∉ sp.netloc) (h1 : '[' ∉ sp.netloc) (h2 : ']' ∉ sp.netloc)
    (w : Str) (hw : w = [] ∨ ∃ t, w = separator u :: t) :
    ∃ R, parse base (u ++ w) =
      hostPort sp.scheme [] [] (sp.netloc.takeWhile (· != ':')) (afterColon sp.netloc) R := by
  have hs : sp.scheme ≠ [] := by
    intro h; rw [h] at hsp; revert hsp; decide
  obtain ⟨S, R, hu, hsch, hall, hhead, hN, hR⟩ := urlsplit_shape hc hsplit hs hn
  have hune : u ≠ [] := by
    obtain ⟨c, t, rfl, _⟩ := hhead
    rw [hu]; simp
  have hcN : Clean sp.netloc := by
    intro c hcm
    exact hc c (by rw [hu]; simp [hcm])
  have hN' : ∀ c ∈ sp.netloc, isAuthEnd c = false := fun c hcm => not_authEnd (hN c hcm) (hcN c hcm).2
  have hR' : R = [] ∨ ∃ c R', R = c :: R' ∧ isAuthEnd c = true := by
    rcases hR with h | ⟨c, R', h, hcend⟩
    · exact Or.inl h
    · exact Or.inr ⟨c, R', h, authEnd_of_netlocEnd hcend⟩
  rcases hw with rfl | ⟨t, rfl⟩
  · refine ⟨R, ?_⟩
    rw [List.append_nil]
    rw [parse_absolute base u S sp.netloc R (by rw [UrlWhatwg.preprocess_clean hc]; exact hu) hhead hall
      (by rw [← hsch]; exact hsp) (by rw [← hsch]; exact hnf) (Or.inl hn) hN' hR', ← hsch]
    exact authorityParts_plain _ _ _ h0 h1 h2
  · obtain ⟨t', ht'⟩ := preprocess_clean_append hc hune (separator u) (separator_visible u) t
    refine ⟨R ++ separator u :: t', ?_⟩
    have hpre : UrlWhatwg.preprocess (u ++ separator u :: t) = S ++ ':' :: '/' :: '/' :: (sp.netloc ++ (R ++ separator u :: t')) := by
      rw [ht']
      have := congrArg (fun x => x ++ separator u :: t') hu
      simpa only [List.append_assoc, List.cons_append] using this
    have hR'' : (R ++ separator u :: t') = [] ∨ ∃ c R', (R ++ separator u :: t') = c :: R' ∧ isAuthEnd c = true := by
      right
      rcases hR' with rfl | ⟨c, R', rfl, hcend⟩
      · refine ⟨separator u, t', rfl, ?_⟩
        have hnc : u.contains '#' = false := by
          rw [Bool.eq_false_iff]
          intro hcon
          have hmem : '#' ∈ u := by simpa using hcon
          rw [hu] at hmem
          simp only [List.append_nil, List.mem_append, List.mem_cons] at hmem
          rcases hmem with hS | h | h | h | hNm
          · have := hall _ hS; revert this; decide
          · revert h; decide
          · revert h; decide
          · revert h; decide
          · have := hN _ hNm; revert this; decide
        unfold separator
        rw [hnc]
        decide
      · exact ⟨c, R' ++ separator u :: t', rfl, hcend⟩
    rw [parse_absolute base _ S sp.netloc _ hpre hhead hall (by rw [← hsch]; exact hsp) (by rw [← hsch]; exact hnf)
      (Or.inl hn) hN' hR'', ← hsch]
    exact authorityParts_plain _ _ _ h0 h1 h2

/-! ## small facts about characters -/

theorem not_mem_lower (x : Char) (hx : ¬ (97 ≤ x.toNat ∧ x.toNat ≤ 122)) (s : Str) (h : x ∉ s) : x ∉ s.map asciiLower := by
  intro hm
  simp only [List.mem_map] at hm
  obtain ⟨c, hc, heq⟩ := hm
  have hne : c ≠ x := by rintro rfl; exact h hc
  exact asciiLower_ne x hx hne heq

theorem mem_lower_of_mem (x : Char) (hx : asciiLower x = x) (s : Str) (h : x ∈ s) : x ∈ s.map asciiLower := by
  simp only [List.mem_map]
  exact ⟨x, h, hx⟩

theorem not_authEnd_lower {c : Char} (h : isAuthEnd c = false) : isAuthEnd (asciiLower c) = false := by
  simp only [isAuthEnd, Bool.or_eq_false_iff, beq_eq_false_iff_ne, ne_eq] at h ⊢
  obtain ⟨⟨⟨a, b⟩, d⟩, e⟩ := h
  exact ⟨⟨⟨asciiLower_ne '/' (by decide) a, asciiLower_ne '?' (by decide) b⟩, asciiLower_ne '#' (by decide) d⟩,
    asciiLower_ne '\\' (by decide) e⟩

theorem clean_map_lower {s : Str} (h : Clean s) : Clean (s.map asciiLower) := by
  intro c hc
  simp only [List.mem_map] at hc
  obtain ⟨x, hx, rfl⟩ := hc
  obtain ⟨h1, h2⟩ := h x hx
  refine ⟨?_, asciiLower_ne '\\' (by decide) h2⟩
  rw [asciiLower_toNat]
  split <;> omega

theorem digit_props {c : Char} (h : isAsciiDigit c = true) :
    0x20 < c.toNat ∧ c ≠ '\\' ∧ isAuthEnd c = false ∧ c ≠ '@' ∧ c ≠ '[' ∧ c ≠ ']' ∧ c ≠ ':' := by
  have hr : 48 ≤ c.toNat ∧ c.toNat ≤ 57 := by simpa [isAsciiDigit] using h
  have ne : ∀ x : Char, ¬ (48 ≤ x.toNat ∧ x.toNat ≤ 57) → c ≠ x := by
    intro x hx heq; subst heq; exact hx hr
  refine ⟨by omega, ne _ (by decide), ?_, ne _ (by decide), ne _ (by decide), ne _ (by decide), ne _ (by decide)⟩
  simp only [isAuthEnd, Bool.or_eq_false_iff, beq_eq_false_iff_ne, ne_eq]
  exact ⟨⟨⟨ne _ (by decide), ne _ (by decide)⟩, ne _ (by decide)⟩, ne _ (by decide)⟩

theorem originFrom_congr (scheme H H' P P' : Str) (h1 : hostParse H = hostParse H') (h2 : H.isEmpty = H'.isEmpty)
    (h3 : portParse scheme P = portParse scheme P') : originFrom scheme H P = originFrom scheme H' P' := by
  unfold originFrom
  rw [h1, h2, h3]

theorem sCSS : sColonSlashSlash = [':', '/', '/'] := by decide
theorem sHttp_eq : sHttp = "http".toList := rfl

/-! ## what the browser makes of the origin string Python compares with the allow-list -/

theorem clean_scheme : ∀ s ∈ Gen.Pkce.returnToSchemes, ∀ c ∈ s, 0x20 < c.toNat ∧ c ≠ '\\' := by decide

theorem parse_scheme_authority (base : Url) (scheme N : Str) (hs : scheme ∈ Gen.Pkce.returnToSchemes) (hcl : Clean N)
    (hae : ∀ c ∈ N, isAuthEnd c = false) (h0 : '@' ∉ N) (h1 : '[' ∉ N) (h2 : ']' ∉ N) :
    parse base (scheme ++ sColonSlashSlash ++ N) =
      hostPort scheme [] [] (N.takeWhile (· != ':')) (afterColon N) [] := by
  obtain ⟨_, hsp, hnf, _, hlow, hall, hhead⟩ := scheme_facts scheme hs
  have hclean : Clean (scheme ++ sColonSlashSlash ++ N) := by
    intro c hc
    simp only [List.mem_append, sCSS, List.mem_cons, List.not_mem_nil, or_false] at hc
    rcases hc with (hc | hc) | hc
    · exact clean_scheme scheme hs c hc
    · rcases hc with rfl | rfl | rfl <;> decide
    · exact hcl c hc
  have hhead' : ∃ c t, scheme = c :: t ∧ isAsciiAlpha c = true := by
    cases scheme with
    | nil => simp at hhead
    | cons c t => exact ⟨c, t, rfl, hhead⟩
  have hpre : UrlWhatwg.preprocess (scheme ++ sColonSlashSlash ++ N) = scheme ++ ':' :: '/' :: '/' :: (N ++ []) := by
    rw [UrlWhatwg.preprocess_clean hclean, sCSS]
    simp
  rw [parse_absolute base _ scheme N [] hpre hhead' (fun c hc => List.all_eq_true.1 hall c hc) (by rw [hlow]; exact hsp)
    (by rw [hlow]; exact hnf) (Or.inr rfl) hae (Or.inl rfl), hlow]
  exact authorityParts_plain _ _ _ h0 h1 h2

theorem origin_string_parse (base : Url) (scheme hn : Str) (prt : Option Nat) (dflt : Nat)
    (hs : scheme ∈ Gen.Pkce.returnToSchemes) (hcl : Clean hn) (hae : ∀ c ∈ hn, isAuthEnd c = false)
    (h0 : '@' ∉ hn) (h1 : '[' ∉ hn) (h2 : ']' ∉ hn) (h3 : ':' ∉ hn) :
    parse base (originString scheme hn prt dflt) =
      hostPort scheme [] [] hn (match prt with | none => [] | some p => if p = dflt then [] else decimal p) [] := by
  have hcolon : ∀ x ∈ hn, (x != ':') = true := by
    intro x hx
    simp only [bne_iff_ne, ne_eq]
    rintro rfl
    exact h3 hx
  have plain : parse base (scheme ++ sColonSlashSlash ++ hn) = hostPort scheme [] [] hn [] [] := by
    rw [parse_scheme_authority base scheme hn hs hcl hae h0 h1 h2, takeWhile_all _ _ hcolon]
    unfold afterColon partition
    rw [dropWhile_all _ _ hcolon]
  unfold originString
  cases prt with
  | none => exact plain
  | some p =>
    simp only
    split
    · exact plain
    · have hd := decimal_digits p
      have hN : hn ++ ':' :: decimal p = hn ++ (':' :: decimal p) := rfl
      have hcl' : Clean (hn ++ ':' :: decimal p) := by
        intro c hc
        simp only [List.mem_append, List.mem_cons] at hc
        rcases hc with hc | rfl | hc
        · exact hcl c hc
        · decide
        · exact ⟨(digit_props (hd c hc)).1, (digit_props (hd c hc)).2.1⟩
      have hae' : ∀ c ∈ hn ++ ':' :: decimal p, isAuthEnd c = false := by
        intro c hc
        simp only [List.mem_append, List.mem_cons] at hc
        rcases hc with hc | rfl | hc
        · exact hae c hc
        · decide
        · exact (digit_props (hd c hc)).2.2.1
      have nm : ∀ x : Char, x ∉ hn → x ≠ ':' → (∀ c, isAsciiDigit c = true → c ≠ x) → x ∉ hn ++ ':' :: decimal p := by
        intro x hx hx2 hx3 hm
        simp only [List.mem_append, List.mem_cons] at hm
        rcases hm with hm | hm | hm
        · exact hx hm
        · exact hx2 hm
        · exact hx3 x (hd x hm) rfl
      have hne : (':' != ':') = false := by decide
      rw [List.append_assoc]
      rw [parse_scheme_authority base scheme (hn ++ ':' :: decimal p) hs hcl' hae'
        (nm '@' h0 (by decide) (fun c hc => (digit_props hc).2.2.2.1))
        (nm '[' h1 (by decide) (fun c hc => (digit_props hc).2.2.2.2.1))
        (nm ']' h2 (by decide) (fun c hc => (digit_props hc).2.2.2.2.2.1))]
      rw [takeWhile_append_stop _ _ _ _ hcolon hne]
      unfold afterColon partition
      rw [dropWhile_append_stop _ _ _ _ hcolon hne]

/-! ## the return-to theorem -/

/-- the browser's port (null = default) for Python's `.port` value -/
def wport (scheme : Str) (prt : Option Nat) : Option Nat :=
  match prt with
  | none => none
  | some n => if UrlWhatwg.defaultPort scheme = some n then none else some n

theorem portParse_of_py (scheme P : Str) (prt : Option Nat) (hPd : P.all isAsciiDigit = true)
    (hPcase : (P = [] ∧ prt = none) ∨ (P ≠ [] ∧ decimalVal P ≤ 65535 ∧ prt = some (decimalVal P))) :
    portParse scheme P = some (wport scheme prt) := by
  rcases hPcase with ⟨rfl, rfl⟩ | ⟨hne, hle, rfl⟩
  · exact portParse_nil scheme
  · exact portParse_digits scheme P hPd hne hle

theorem return_to_core (env : Env) (base : Url) (u : Str) (allow : List Str) (r : Str)
    (hallow : AllowOK base allow) (h : validateReturnToRepaired env u allow = .ok r) (hr : r ≠ []) (t : Str) :
    SafeExternal base allow (redirectTarget r t) := by
  obtain ⟨rfl, hune, hsafe, sp, prt, hsplit, hport, hsch, hnet, hforb, hcase⟩ := repaired_accepts h hr
  obtain ⟨hc, hascii⟩ := clean_of_safe hsafe
  have hmem : sp.scheme ∈ Gen.Pkce.returnToSchemes := by simpa using hsch
  obtain ⟨hdp, hsp, hnf, hsome, hlow, hall, hhead⟩ := scheme_facts _ hmem
  have hnot : ∀ x, Gen.Pkce.netlocForbidden.contains x = true → x ∉ sp.netloc := by
    intro x hx hm
    rw [List.any_eq_false] at hforb
    exact hforb x hm hx
  have h0 := hnot '@' forbidden_facts.1
  have h1 := hnot '[' forbidden_facts.2.1
  have h2 := hnot ']' forbidden_facts.2.2
  obtain ⟨R, hparse⟩ := agree_core env base r sp hc hsplit hsp hnf hnet h0 h1 h2 (separator r :: t) (Or.inr ⟨t, rfl⟩)
  have hs : sp.scheme ≠ [] := by intro h; rw [h] at hsp; revert hsp; decide
  obtain ⟨S, R0, hu, _, _, _, hN, _⟩ := urlsplit_shape hc hsplit hs hnet
  have hNsub : ∀ c ∈ sp.netloc, c ∈ r := by intro c hcm; rw [hu]; simp [hcm]
  have hHsub : ∀ c ∈ sp.netloc.takeWhile (· != ':'), c ∈ sp.netloc := fun c hcm => mem_of_mem_takeWhile _ _ c hcm
  have hHascii : ∀ c ∈ sp.netloc.takeWhile (· != ':'), isAscii c = true := fun c hcm => hascii c (hNsub c (hHsub c hcm))
  have hHclean : Clean (sp.netloc.takeWhile (· != ':')) := fun c hcm => hc c (hNsub c (hHsub c hcm))
  have hHae : ∀ c ∈ sp.netloc.takeWhile (· != ':'), isAuthEnd c = false :=
    fun c hcm => not_authEnd (hN c (hHsub c hcm)) (hHclean c hcm).2
  have hH0 : '@' ∉ sp.netloc.takeWhile (· != ':') := fun hm => h0 (hHsub _ hm)
  have hH1 : '[' ∉ sp.netloc.takeWhile (· != ':') := fun hm => h1 (hHsub _ hm)
  have hH2 : ']' ∉ sp.netloc.takeWhile (· != ':') := fun hm => h2 (hHsub _ hm)
  have hH3 : ':' ∉ sp.netloc.takeWhile (· != ':') := by
    intro hm
    have := mem_takeWhile _ _ _ hm
    simp at this
  obtain ⟨hPd, hPcase⟩ := port_plain h0 h1 hport
  have hpp := portParse_of_py sp.scheme _ prt hPd hPcase
  -- it suffices to find the origin the two buffers produce
  suffices hsuff : ∃ o, originFrom sp.scheme (sp.netloc.takeWhile (· != ':')) (afterColon sp.netloc) = some o ∧
      (o.isLoopbackHttp = true ∨ ∃ a ∈ allow, ∃ uo, parse base a = .ok uo ∧ originOf uo = o) by
    obtain ⟨o, ho, hos⟩ := hsuff
    obtain ⟨url, hurl, horigin⟩ := (hostPort_origin sp.scheme [] [] _ _ R o).1 ho
    refine ⟨url, ?_, ?_⟩
    · rw [show redirectTarget r t = r ++ separator r :: t from rfl, hparse]; exact hurl
    · rw [horigin]; exact hos
  -- facts about Python's hostname once it is known to contain no `%`
  have hostfacts : '%' ∉ (hostname sp.netloc).getD [] →
      (hostname sp.netloc).getD [] = (sp.netloc.takeWhile (· != ':')).map asciiLower ∧
      hostParse ((hostname sp.netloc).getD []) = hostParse (sp.netloc.takeWhile (· != ':')) := by
    intro hp
    have heq := hostname_plain h0 h1 hHascii hp
    refine ⟨heq, ?_⟩
    rw [heq]
    apply hostParse_lower _ _ _ hHascii
    · intro r' hr'
      apply hH1
      rw [hr']; simp
    · intro hm
      apply hp
      rw [heq]
      exact mem_lower_of_mem '%' (by decide) _ hm
  rcases hcase with ⟨hloc, hhttp⟩ | ⟨dflt, hdflt, hin⟩
  · -- loopback
    obtain ⟨hpct, hne, hloop⟩ := localhost_facts _ (by simpa [isLocalhost] using hloc)
    obtain ⟨heq, hhp⟩ := hostfacts (by simpa using hpct)
    have hbr : ((hostname sp.netloc).getD []).contains '[' = false := by
      rw [Bool.eq_false_iff]
      intro hcon
      have : '[' ∈ (hostname sp.netloc).getD [] := by simpa using hcon
      rw [heq] at this
      exact not_mem_lower '[' (by decide) _ hH1 this
    have hl := hloop hbr
    unfold loopHost at hl
    rw [hhp] at hl
    have hHne : (sp.netloc.takeWhile (· != ':')).isEmpty = false := by
      rw [heq] at hne
      cases hh : sp.netloc.takeWhile (· != ':') with
      | nil => rw [hh] at hne; simp at hne
      | cons => rfl
    cases hhost : hostParse (sp.netloc.takeWhile (· != ':')) with
    | failure => rw [hhost] at hl; simp at hl
    | unsupported => rw [hhost] at hl; simp at hl
    | ok host =>
      rw [hhost] at hl
      simp only at hl
      refine ⟨⟨sp.scheme, host, (wport sp.scheme prt).getD ((UrlWhatwg.defaultPort sp.scheme).getD 0)⟩, ?_, Or.inl ?_⟩
      · unfold originFrom
        rw [hHne, hhost, hpp]
        simp only [Bool.false_eq_true, if_false]
      · unfold Origin.isLoopbackHttp
        simp only [hhttp, sHttp_eq, beq_self_eq_true, Bool.true_and]
        rw [Bool.or_eq_true] at hl
        rcases hl with hl | hl
        · simp [hl]
        · simp [hl]
  · -- allow-listed
    obtain ⟨hpcto, uo, huo⟩ := hallow _ hin
    have hpct : '%' ∉ (hostname sp.netloc).getD [] := by
      intro hm
      apply hpcto
      unfold originString
      cases prt with
      | none => simp [hm]
      | some p => simp only; split <;> simp [hm]
    obtain ⟨heq, hhp⟩ := hostfacts hpct
    have hdflt' : UrlWhatwg.defaultPort sp.scheme = some dflt := by rw [← hdp]; exact hdflt
    have hop := origin_string_parse base sp.scheme ((hostname sp.netloc).getD []) prt dflt hmem
      (by rw [heq]; exact clean_map_lower hHclean)
      (by rw [heq]; intro c hcm; simp only [List.mem_map] at hcm; obtain ⟨x, hx, rfl⟩ := hcm; exact not_authEnd_lower (hHae x hx))
      (by rw [heq]; exact not_mem_lower '@' (by decide) _ hH0)
      (by rw [heq]; exact not_mem_lower '[' (by decide) _ hH1)
      (by rw [heq]; exact not_mem_lower ']' (by decide) _ hH2)
      (by rw [heq]; exact not_mem_lower ':' (by decide) _ hH3)
    rw [hop] at huo
    have ho := (hostPort_origin sp.scheme [] [] _ _ [] (originOf uo)).2 ⟨uo, huo, rfl⟩
    refine ⟨originOf uo, ?_, Or.inr ⟨_, hin, uo, by rw [hop]; exact huo, rfl⟩⟩
    rw [← ho]
    apply originFrom_congr
    · exact hhp.symm
    · rw [heq]; cases sp.netloc.takeWhile (· != ':') <;> rfl
    · rw [hpp]
      cases prt with
      | none => exact (portParse_nil _).symm
      | some n =>
        simp only [wport]
        by_cases hn : n = dflt
        · subst hn
          rw [if_pos hdflt', if_pos rfl, portParse_nil]
        · rw [if_neg hn]
          have hle : n ≤ 65535 := by
            rcases hPcase with ⟨_, h⟩ | ⟨_, hle, h⟩
            · cases h
            · simp only [Option.some.injEq] at h; rw [h]; exact hle
          rw [portParse_digits _ _ (List.all_eq_true.2 (decimal_digits n)) (decimal_ne_nil n) (by rw [decimalVal_decimal]; exact hle),
            decimalVal_decimal]

/-! ## the original-URL theorem -/

theorem takeWhile_both (l : Str) :
    (l.takeWhile (· != '#')).takeWhile (· != '?') = l.takeWhile (fun c => !isPathEnd c) := by
  induction l with
  | nil => rfl
  | cons c r ih =>
    by_cases h1 : c = '#'
    · subst h1; simp [List.takeWhile, isPathEnd]
    · by_cases h2 : c = '?'
      · subst h2; simp [List.takeWhile, isPathEnd]
      · have a : (c != '#') = true := by simp [h1]
        have b : (c != '?') = true := by simp [h2]
        have e : (!isPathEnd c) = true := by simp [isPathEnd, h1, h2]
        rw [List.takeWhile_cons, if_pos a, List.takeWhile_cons, if_pos b,
          List.takeWhile_cons (p := fun c => !isPathEnd c), if_pos e, ih]

theorem dot_members : ".".toList ∈ Gen.Pkce.dotSegments ∧ "%2e".toList ∈ Gen.Pkce.dotSegments ∧
    "..".toList ∈ Gen.Pkce.dotSegments ∧ ".%2e".toList ∈ Gen.Pkce.dotSegments ∧ "%2e.".toList ∈ Gen.Pkce.dotSegments ∧
    "%2e%2e".toList ∈ Gen.Pkce.dotSegments := by decide

theorem dots_of_not_contains (b : Str) (h : Gen.Pkce.dotSegments.contains (b.map asciiLower) = false) :
    isSingleDot b = false ∧ isDoubleDot b = false := by
  have hn : ∀ x ∈ Gen.Pkce.dotSegments, (b.map asciiLower == x) = false := by
    intro x hx
    rw [beq_eq_false_iff_ne]
    intro heq
    rw [Bool.eq_false_iff] at h
    apply h
    rw [heq]
    simpa using hx
  obtain ⟨d1, d2, d3, d4, d5, d6⟩ := dot_members
  unfold isSingleDot isDoubleDot
  simp only [hn _ d1, hn _ d2, hn _ d3, hn _ d4, hn _ d5, hn _ d6, Bool.or_self, and_self]

theorem repairedOU_accepts {env : Env} {u0 pfx l : Str} (h : validateOriginalUrlRepaired env u0 pfx = .ok l) :
    l = fallback pfx ∨
      (hasUnsafeChars l = false ∧ sSlash.isPrefixOf l = true ∧ ['/', '/'].isPrefixOf l = false ∧
        hasDotSegment (pathPart l) = false ∧ (pfx = [] ∨ pfx.isPrefixOf l = true)) := by
  unfold validateOriginalUrlRepaired at h
  dsimp only at h
  split at h
  · simp only [Except.ok.injEq] at h; exact Or.inl h.symm
  rename_i h1
  split at h
  · simp only [Except.ok.injEq] at h; exact Or.inl h.symm
  split at h
  · simp only [Except.ok.injEq] at h; exact Or.inl h.symm
  split at h
  · simp only [Except.ok.injEq] at h; exact Or.inl h.symm
  rename_i h2
  split at h
  · simp only [Except.ok.injEq] at h; exact Or.inl h.symm
  rename_i h3
  split at h
  · simp only [Except.ok.injEq] at h; exact Or.inl h.symm
  rename_i h4
  simp only [Except.ok.injEq] at h
  subst h
  right
  have hA : sSlash.isPrefixOf (truncateUrl u0) = true ∧ ['/', '/'].isPrefixOf (truncateUrl u0) = false := by
    cases ha : sSlash.isPrefixOf (truncateUrl u0) <;> cases hb : ['/', '/'].isPrefixOf (truncateUrl u0) <;>
      simp only [ha, hb] at h2 <;> simp at h2 ⊢
  refine ⟨by simpa using h1, hA.1, hA.2, by simpa using h3, ?_⟩
  simp only [Bool.and_eq_true, Bool.not_eq_true', not_and, Bool.not_eq_false] at h4
  by_cases hp : pfx = []
  · exact Or.inl hp
  · right
    apply h4
    cases pfx with
    | nil => exact absurd rfl hp
    | cons => rfl

theorem plain_not_pathSet {c : Char} (h : PlainPathChar c) : inPathSet c = false := by
  obtain ⟨h1, h2, _, h4, h5, h6, h7, h8, h9, h10, h11, h12⟩ := h
  have hsp : c ≠ ' ' := by rintro rfl; revert h1; decide
  simp only [inPathSet, inQuerySet, inC0Set, Bool.or_eq_false_iff, decide_eq_false_iff_not, beq_eq_false_iff_ne, ne_eq]
  repeat' apply And.intro
  all_goals first | assumption | omega

theorem plain_not_pathEnd {c : Char} (h : PlainPathChar c) : (!isPathEnd c) = true := by
  obtain ⟨_, _, _, h4, h5, _⟩ := h
  simp [isPathEnd, h4, h5]

/-- Python's dot-segment test on `/g'` covers every segment the path state will see -/
theorem dots_of_python (g' : Str) (hdots : hasDotSegment (pathPart ('/' :: g')) = false) :
    ∀ seg ∈ splitOn '/' (g'.takeWhile (fun c => !isPathEnd c)), isSingleDot seg = false ∧ isDoubleDot seg = false := by
  intro seg hseg
  apply dots_of_not_contains
  unfold hasDotSegment pathPart at hdots
  rw [takeWhile_both, List.any_eq_false] at hdots
  have hpe : (!isPathEnd '/') = true := by decide
  rw [List.takeWhile_cons, if_pos hpe] at hdots
  have : seg ∈ splitOn '/' ('/' :: g'.takeWhile (fun c => !isPathEnd c)) := by
    unfold splitOn
    simp [hseg]
  simpa using hdots seg this

/-- a clean absolute path `/g'` (not `//…`, no dot segments) that starts with the prefix resolves same-origin under it -/
theorem abspath_safe (base : Url) (pfx g' : Str) (hcl : Clean ('/' :: g')) (hns' : ∀ r, g' ≠ '/' :: r)
    (hd : ∀ seg ∈ splitOn '/' (g'.takeWhile (fun c => !isPathEnd c)), isSingleDot seg = false ∧ isDoubleDot seg = false)
    (hpfxc : ∀ c ∈ pfx, PlainPathChar c) (hp : pfx = [] ∨ pfx.isPrefixOf ('/' :: g') = true) :
    SafeSameOrigin base pfx ('/' :: g') := by
  obtain ⟨url, hparse, hs, hh, hpo, hpath⟩ := parse_abspath base g' hcl hns' hd
  refine ⟨url, hparse, hs, hh, hpo, ?_⟩
  rw [hpath]
  rcases hp with rfl | hp
  · exact List.nil_prefix
  · obtain ⟨rest, hrest⟩ := List.isPrefixOf_iff_prefix.1 hp
    rw [← hrest]
    have hall : ∀ c ∈ pfx, (!isPathEnd c) = true := fun c hc => plain_not_pathEnd (hpfxc c hc)
    have htw : (pfx ++ rest).takeWhile (fun c => !isPathEnd c) = pfx ++ rest.takeWhile (fun c => !isPathEnd c) := by
      clear hrest hp
      induction pfx with
      | nil => rfl
      | cons c cs ih =>
        have hc := hall c (by simp)
        simp only [List.cons_append, List.takeWhile_cons, hc, if_true]
        rw [ih (fun x hx => hpfxc x (by simp [hx])) (fun x hx => hall x (by simp [hx]))]
    rw [htw, encodeWith_append, encodeWith_id _ pfx (fun c hc => plain_not_pathSet (hpfxc c hc))]
    exact List.prefix_append _ _

theorem slash_shape {g : Str} (hsl : sSlash.isPrefixOf g = true) (hns : ['/', '/'].isPrefixOf g = false) :
    ∃ g', g = '/' :: g' ∧ ∀ r, g' ≠ '/' :: r := by
  cases g with
  | nil => simp [sSlash] at hsl
  | cons c r =>
    simp only [sSlash, List.isPrefixOf, Bool.and_eq_true, beq_iff_eq] at hsl
    refine ⟨r, by rw [← hsl.1], ?_⟩
    rintro r' rfl
    rw [← hsl.1] at hns
    simp [List.isPrefixOf] at hns

theorem original_core (env : Env) (base : Url) (u0 pfx l : Str) (hp : PrefixOK pfx)
    (h : validateOriginalUrlRepaired env u0 pfx = .ok l) : SafeSameOrigin base pfx l := by
  rcases repairedOU_accepts h with rfl | ⟨hsafe, hsl, hns, hdots, hpre⟩
  · -- the fallback: the prefix itself, or "/"
    rcases hp with rfl | ⟨⟨r, rfl, hr⟩, hplain, hsegs⟩
    · have : fallback [] = '/' :: [] := rfl
      rw [this]
      exact abspath_safe base [] [] (by intro c hc; simp at hc; subst hc; decide) (by intro r h; cases h)
        (by intro seg hseg; simp [splitOn] at hseg; subst hseg; decide) (by simp) (Or.inl rfl)
    · have hf : fallback ('/' :: r) = '/' :: r := rfl
      rw [hf]
      have hcl : Clean ('/' :: r) := fun c hc => ⟨(hplain c hc).1, (hplain c hc).2.2.1⟩
      have hall : ∀ c ∈ r, (!isPathEnd c) = true := fun c hc => plain_not_pathEnd (hplain c (by simp [hc]))
      refine abspath_safe base ('/' :: r) r hcl hr ?_ hplain (Or.inr (by simp))
      rw [takeWhile_all _ _ hall]
      intro seg hseg
      apply hsegs
      unfold splitOn
      simp [hseg]
  · obtain ⟨g', rfl, hg'⟩ := slash_shape hsl hns
    have hcl := (clean_of_safe hsafe).1
    have hpfxc : ∀ c ∈ pfx, PlainPathChar c := by
      rcases hp with rfl | ⟨_, hplain, _⟩
      · simp
      · exact hplain
    exact abspath_safe base pfx g' hcl hg' (dots_of_python g' hdots) hpfxc hpre

/-! ## the dispatching validators are the repaired ones -/

theorem validateReturnTo_eq (env : Env) (u : Str) (allow : List Str) :
    validateReturnTo env u allow = validateReturnToRepaired env u allow := by
  unfold validateReturnTo; rw [shape_rt]

theorem validateOriginalUrl_eq (env : Env) (u pfx : Str) :
    validateOriginalUrl env u pfx = validateOriginalUrlRepaired env u pfx := by
  unfold validateOriginalUrl; rw [shape_ou]

theorem repaired_total (env : Env) (u : Str) (allow : List Str) :
    ∃ r, validateReturnToRepaired env u allow = .ok r ∧ (r = [] ∨ r = u) := by
  unfold validateReturnToRepaired
  split
  · exact ⟨[], rfl, Or.inl rfl⟩
  split
  · exact ⟨[], rfl, Or.inl rfl⟩
  split
  · exact ⟨[], rfl, Or.inl rfl⟩
  rename_i sp hsp
  split
  · exact ⟨[], rfl, Or.inl rfl⟩
  split
  · exact ⟨[], rfl, Or.inl rfl⟩
  rename_i hsch
  split
  · exact ⟨[], rfl, Or.inl rfl⟩
  split
  · exact ⟨[], rfl, Or.inl rfl⟩
  dsimp only
  split
  · exact ⟨u, rfl, Or.inr rfl⟩
  split
  · rename_i hnone
    exfalso
    have hmem : sp.scheme ∈ Gen.Pkce.returnToSchemes := by simpa using hsch
    have := (scheme_facts _ hmem).2.2.2.1
    rw [hnone] at this
    simp at this
  · split
    · exact ⟨u, rfl, Or.inr rfl⟩
    · exact ⟨[], rfl, Or.inl rfl⟩

theorem repairedOU_total (env : Env) (u pfx : Str) : ∃ l, validateOriginalUrlRepaired env u pfx = .ok l := by
  unfold validateOriginalUrlRepaired
  dsimp only
  repeat (first | exact ⟨_, rfl⟩ | split)

/-! ## the callback -/

theorem parsePayload_age (env : CEnv) (now maxAge : Int) (p : Bytes) (f : Fields)
    (h : parsePayload env now maxAge p = .ok f) :
    leVal (p.take Gen.Pkce.widthVersion) = Gen.Pkce.sessionCookieVersion ∧
      (maxAge > 0 → 0 ≤ now - (leVal ((p.drop Gen.Pkce.widthVersion).take Gen.Pkce.widthCreated) : Int) ∧
        now - (leVal ((p.drop Gen.Pkce.widthVersion).take Gen.Pkce.widthCreated) : Int) ≤ maxAge) := by
  unfold parsePayload at h
  split at h
  · cases h
  rename_i hv
  dsimp only at h
  split at h
  · cases h
  rename_i ha
  refine ⟨by simpa using hv, ?_⟩
  intro hpos
  simp only [Bool.and_eq_true, Bool.or_eq_true, decide_eq_true_eq, not_and, not_or, Int.not_lt] at ha
  have := ha hpos
  omega

/-- the callback issued a redirect -/
def Completes (o : Outcome) : Prop := ∃ loc, o = .redirectExternal loc ∨ o = .redirectOriginal loc

theorem callback_facts (uenv : Env) (cenv : CEnv) (cfg : Cfg) (key : Bytes) (now : Int) (req : CbReq)
    (disc : Option Str) (ex : Exchange) (h : Completes (callback uenv cenv cfg key now req disc ex)) :
    truthy req.error = false ∧ truthy req.code = true ∧ truthy req.state = true ∧ truthy req.sessionCookie = true ∧
    ∃ f te token refresh, unpack cenv key now Gen.Pkce.sessionMaxAge (req.sessionCookie.getD []) = .ok f ∧
      req.state.getD [] = f.stateNonce ∧ disc = some te ∧ ex = .ok token refresh ∧
      ((f.returnTo ≠ [] ∧ callback uenv cenv cfg key now req disc ex =
          .redirectExternal (redirectTarget f.returnTo (callbackParams cfg te token refresh))) ∨
       (f.returnTo = [] ∧ ∃ loc, validateOriginalUrl uenv f.originalUrl cfg.pfx = .ok loc ∧
          callback uenv cenv cfg key now req disc ex = .redirectOriginal loc)) := by
  obtain ⟨loc0, h⟩ := h
  unfold callback at h ⊢
  split at h
  · rcases h with h | h <;> cases h
  rename_i h1
  split at h
  · rcases h with h | h <;> cases h
  rename_i h2
  split at h
  · rcases h with h | h <;> cases h
  rename_i h3
  simp only [Bool.or_eq_true, Bool.not_eq_true', not_or, Bool.not_eq_false] at h2
  simp only [Bool.not_eq_true', Bool.not_eq_false] at h3
  refine ⟨by simpa using h1, h2.1, h2.2, h3, ?_⟩
  simp only [h1, h2.1, h2.2, h3, Bool.not_true, Bool.or_self, Bool.false_eq_true, if_false]
  split at h
  · rcases h with h | h <;> cases h
  · rcases h with h | h <;> cases h
  rename_i f hf
  rw [hf]
  dsimp only at h ⊢
  split at h
  · rcases h with h | h <;> cases h
  rename_i h4
  split at h
  · rcases h with h | h <;> cases h
  rename_i h5
  rw [if_neg h4, if_neg h5]
  split at h
  · rcases h with h | h <;> cases h
  rename_i te
  split at h
  · rcases h with h | h <;> cases h
  rename_i token refresh
  refine ⟨f, te, token, refresh, rfl, by simpa using h5, rfl, rfl, ?_⟩
  split at h
  · rename_i h6
    left
    refine ⟨by simpa using h6, ?_⟩
    rw [if_pos h6]
  · rename_i h6
    right
    refine ⟨by simpa using h6, ?_⟩
    rw [if_neg h6]
    split at h
    · rcases h with h | h <;> cases h
    · rename_i loc hloc
      exact ⟨loc, hloc, rfl⟩

end Aux

open Aux

/-! # Property theorems (obligations) -/

/-- the source has the repaired shape of both validators (extracted on every run; everything below depends on it) -/
theorem C37_shapes : Gen.Pkce.returnToShape = .repaired ∧ Gen.Pkce.originalUrlShape = .repaired := ⟨shape_rt, shape_ou⟩

/-- the constants of the running interpreter's `urllib.parse` / `str.lower` are the ones `Prelude/UrlPy` mirrors, and the
extracted cookie layout is the one of the model -/
theorem C37_mirror :
    Gen.Pkce.schemeChars.map Char.toNat = (List.range 128).filter (fun n => isSchemeChar (Char.ofNat n)) ∧
    Gen.Pkce.c0OrSpace.map Char.toNat = List.range 33 ∧
    Gen.Pkce.unsafeUrlBytes = ['\t', '\n', '\r'] ∧
    Gen.Pkce.lowerToAscii = [(0x130, [105, 0x307]), (0x212A, [107])] ∧
    (Gen.Pkce.widthVersion, Gen.Pkce.widthCreated, Gen.Pkce.widthLen, Gen.Pkce.hmacLen) = (1, 8, 2, 32) := by
  decide

/-- **configuration**: the middleware validates against the allow-list the operator configured — an explicit list,
the empty one included, is used as given; the built-in default only stands in for an absent one -/
theorem C37_allow_config (configured : Option (List Str)) :
    effectiveAllow configured = AllowInForce Gen.Pkce.defaultAllowedReturnOrigins configured := by
  have h : Gen.Pkce.allowDefaulting = .isNotNone := by rfl
  unfold effectiveAllow AllowInForce
  rw [h]
  cases configured <;> rfl

/-- in particular an explicitly empty allow-list admits nothing but loopback -/
theorem C37_allow_empty : effectiveAllow (some []) = [] := C37_allow_config (some [])

/-- **agreement lemma**: on a URL free of C0 controls, space and backslash, with a special scheme and a netloc without
userinfo and brackets, the browser runs its host parser on exactly the text Python takes as host (before lower-casing)
and its port state on exactly Python's port text. -/
theorem C37_agree (env : Env) (base : Url) (u : Str) (sp : Split) (hc : Clean u) (hsplit : urlsplit env u = some sp)
    (hsp : isSpecial sp.scheme = true) (hnf : isFile sp.scheme = false) (hn : sp.netloc ≠ [])
    (h0 : '@' ∉ sp.netloc) (h1 : '[' ∉ sp.netloc) (h2 : ']' ∉ sp.netloc) :
    ∃ R, parse base u = hostPort sp.scheme [] [] (hostinfo sp.netloc).1 ((hostinfo sp.netloc).2.getD []) R := by
  obtain ⟨R, h⟩ := agree_core env base u sp hc hsplit hsp hnf hn h0 h1 h2 [] (Or.inl rfl)
  refine ⟨R, ?_⟩
  rw [List.append_nil] at h
  rw [h, hostinfo_plain h0 h1]
  dsimp only
  split
  · rename_i he
    have : afterColon sp.netloc = [] := by simpa using he
    rw [this]; rfl
  · rfl

/-- **return-to**: whatever `_validate_return_to` accepts is the URL itself, and with *any* token fragment appended the
browser resolves it to an allow-listed origin or to an http loopback origin. -/
theorem C37_return_to (env : Env) (base : Url) (u : Str) (allow : List Str) (r : Str) (hallow : AllowOK base allow)
    (h : validateReturnTo env u allow = .ok r) (hr : r ≠ []) :
    r = u ∧ ∀ t, SafeExternal base allow (redirectTarget r t) := by
  rw [validateReturnTo_eq] at h
  exact ⟨(repaired_accepts h hr).1, return_to_core env base u allow r hallow h hr⟩

/-- `_validate_return_to` never raises and returns `""` or its argument -/
theorem C37_return_to_total (env : Env) (u : Str) (allow : List Str) :
    ∃ r, validateReturnTo env u allow = .ok r ∧ (r = [] ∨ r = u) := by
  rw [validateReturnTo_eq]; exact repaired_total env u allow

/-- **original URL**: `_validate_original_url` never raises, and what it returns is resolved by the browser to the
service's own origin with a path under the prefix — for every input string. -/
theorem C37_original (env : Env) (base : Url) (u pfx : Str) (hp : PrefixOK pfx) :
    ∃ l, validateOriginalUrl env u pfx = .ok l ∧ SafeSameOrigin base pfx l := by
  rw [validateOriginalUrl_eq]
  obtain ⟨l, hl⟩ := repairedOU_total env u pfx
  exact ⟨l, hl, original_core env base u pfx l hp hl⟩

/-- **cookie round trip ⇔ age within bounds** -/
theorem C37_cookie (env : CEnv) (hl : CEnvLaws env) (key : Bytes) (t : Nat) (f : Fields) (c : Str) (now maxAge : Int)
    (hc : pack env key t f = some c) :
    (unpack env key now maxAge c = .ok f ↔ (maxAge > 0 → 0 ≤ now - (t : Int) ∧ now - (t : Int) ≤ maxAge)) ∧
    (¬ (maxAge > 0 → 0 ≤ now - (t : Int) ∧ now - (t : Int) ≤ maxAge) → unpack env key now maxAge c = .error .expired) := by
  rw [unpack_pack env hl key t f c now maxAge hc]
  by_cases hexp : expired now maxAge t
  · rw [if_pos hexp]
    unfold expired at hexp
    refine ⟨⟨fun h => ?_, fun h => ?_⟩, fun _ => rfl⟩
    · cases h
    · have := h hexp.1
      omega
  · rw [if_neg hexp]
    unfold expired at hexp
    have hin : maxAge > 0 → 0 ≤ now - (t : Int) ∧ now - (t : Int) ≤ maxAge := by
      intro hpos
      have : ¬ (now - (t : Int) < 0 ∨ now - (t : Int) > maxAge) := fun h => hexp ⟨hpos, h⟩
      omega
    exact ⟨⟨fun _ => hin, fun _ => rfl⟩, fun hn => absurd hin hn⟩

/-- **any other bytes → error**: `unpack` succeeds exactly on `base64(payload ‖ HMAC(key, payload))` whose payload has
the version byte, an age within bounds and four well-formed fields. -/
theorem C37_cookie_authentic (env : CEnv) (hl : CEnvLaws env) (key : Bytes) (now maxAge : Int) (c : Str) (f : Fields) :
    unpack env key now maxAge c = .ok f ↔
      ∃ payload, env.b64dec c = some (payload ++ env.mac key payload) ∧
        Gen.Pkce.minCookieLen ≤ (payload ++ env.mac key payload).length ∧ parsePayload env now maxAge payload = .ok f :=
  unpack_ok_iff env hl key now maxAge c f

/-- with an unforgeable MAC (the only payloads for which a valid tag can be presented are the ones the server signed)
an accepted cookie carries exactly the fields the server signed, and is not older than `maxAge` -/
theorem C37_cookie_minted (env : CEnv) (hl : CEnvLaws env) (key : Bytes) (now maxAge : Int) (c : Str) (f : Fields)
    (minted : Nat → Fields → Prop)
    (hunf : ∀ payload, env.b64dec c = some (payload ++ env.mac key payload) →
      ∃ t f', minted t f' ∧ packPayload env t f' = some payload)
    (h : unpack env key now maxAge c = .ok f) :
    ∃ t, minted t f ∧ (maxAge > 0 → 0 ≤ now - (t : Int) ∧ now - (t : Int) ≤ maxAge) := by
  obtain ⟨payload, hdec, _, hparse⟩ := (unpack_ok_iff env hl key now maxAge c f).1 h
  obtain ⟨t, f', hm, hp⟩ := hunf payload hdec
  rw [parse_pack env hl t f' payload now maxAge hp] at hparse
  by_cases hexp : expired now maxAge t
  · rw [if_pos hexp] at hparse; cases hparse
  · rw [if_neg hexp] at hparse
    simp only [Except.ok.injEq] at hparse
    subst hparse
    refine ⟨t, hm, fun hpos => ?_⟩
    unfold expired at hexp
    omega

/-- **callback**: it completes (issues a 302) only with a session cookie that is `base64(payload ‖ HMAC(key, payload))`
(untampered), whose age is within `_SESSION_MAX_AGE` (unexpired), and whose state equals the `state` parameter. -/
theorem C37_callback (uenv : Env) (cenv : CEnv) (hl : CEnvLaws cenv) (cfg : Cfg) (key : Bytes) (now : Int) (req : CbReq)
    (disc : Option Str) (ex : Exchange) (h : Completes (callback uenv cenv cfg key now req disc ex)) :
    ∃ cookie payload f, req.sessionCookie = some cookie ∧
      cenv.b64dec cookie = some (payload ++ cenv.mac key payload) ∧
      parsePayload cenv now Gen.Pkce.sessionMaxAge payload = .ok f ∧
      (0 ≤ now - (leVal ((payload.drop Gen.Pkce.widthVersion).take Gen.Pkce.widthCreated) : Int) ∧
        now - (leVal ((payload.drop Gen.Pkce.widthVersion).take Gen.Pkce.widthCreated) : Int) ≤ Gen.Pkce.sessionMaxAge) ∧
      req.state = some f.stateNonce := by
  obtain ⟨_, _, hst, hck, f, te, token, refresh, hun, hstate, _⟩ := callback_facts uenv cenv cfg key now req disc ex h
  cases hc : req.sessionCookie with
  | none => rw [hc] at hck; simp [truthy] at hck
  | some cookie =>
    rw [hc] at hun
    simp only [Option.getD_some] at hun
    obtain ⟨payload, hdec, _, hparse⟩ := (unpack_ok_iff cenv hl key now _ cookie f).1 hun
    refine ⟨cookie, payload, f, rfl, hdec, hparse, (parsePayload_age cenv now _ payload f hparse).2 (by decide), ?_⟩
    cases hs : req.state with
    | none => rw [hs] at hst; simp [truthy] at hst
    | some s => rw [hs] at hstate; simp only [Option.getD_some] at hstate; rw [hstate]

/-- what `process_response` signs into a session cookie -/
def Issued (uenv : Env) (cfg : Cfg) (f : Fields) : Prop :=
  ∃ path query rtParam, processResponse uenv cfg sGet true true true path query rtParam = .ok (some (f.originalUrl, f.returnTo))

/-- **the flow**: with an unforgeable MAC (a presented `payload ‖ tag` verifies only for payloads `process_response`
signed), every `Location` the browser flow issues is safe: the callback's external redirect and the immediate redirect of
`process_request` resolve to an allow-listed or loopback origin whatever tokens are appended; the callback's same-origin
redirect and the logout redirect resolve to the service origin under the prefix. -/
theorem C37_flow (uenv : Env) (cenv : CEnv) (hl : CEnvLaws cenv) (cfg : Cfg) (key : Bytes) (now : Int) (req : CbReq)
    (disc : Option Str) (ex : Exchange) (base : Url) (hp : PrefixOK cfg.pfx) (ha : AllowOK base cfg.allow)
    (hmac : ∀ payload, cenv.b64dec (req.sessionCookie.getD []) = some (payload ++ cenv.mac key payload) →
      ∃ t f', Issued uenv cfg f' ∧ packPayload cenv t f' = some payload) :
    (∀ loc, callback uenv cenv cfg key now req disc ex = .redirectExternal loc → SafeExternal base cfg.allow loc) ∧
    (∀ loc, callback uenv cenv cfg key now req disc ex = .redirectOriginal loc → SafeSameOrigin base cfg.pfx loc) ∧
    (∀ method rt ac je loc, processRequest uenv cfg method rt ac je = .ok (some loc) → SafeExternal base cfg.allow loc) ∧
    SafeSameOrigin base cfg.pfx (logoutLocation cfg) := by
  refine ⟨?_, ?_, ?_, ?_⟩
  · intro loc hloc
    obtain ⟨_, _, _, _, f, te, token, refresh, hun, _, _, _, hcase⟩ :=
      callback_facts uenv cenv cfg key now req disc ex ⟨loc, Or.inl hloc⟩
    rcases hcase with ⟨hrt, heq⟩ | ⟨_, loc', _, heq⟩
    · rw [hloc] at heq
      simp only [Outcome.redirectExternal.injEq] at heq
      obtain ⟨t, hissued, _⟩ := C37_cookie_minted cenv hl key now _ _ f (fun _ f' => Issued uenv cfg f') hmac hun
      obtain ⟨path, query, rtParam, hpr⟩ := hissued
      unfold processResponse at hpr
      simp only [bne_self_eq_false, Bool.false_eq_true, if_false, Bool.not_true] at hpr
      split at hpr
      · cases hpr
      split at hpr
      · cases hpr
      rename_i rt hrt'
      simp only [Except.ok.injEq, Option.some.injEq, Prod.mk.injEq] at hpr
      rw [hpr.2] at hrt'
      rw [heq]
      exact (C37_return_to uenv base _ cfg.allow f.returnTo ha hrt' hrt).2 _
    · rw [hloc] at heq; cases heq
  · intro loc hloc
    obtain ⟨_, _, _, _, f, te, token, refresh, _, _, _, _, hcase⟩ :=
      callback_facts uenv cenv cfg key now req disc ex ⟨loc, Or.inr hloc⟩
    rcases hcase with ⟨_, heq⟩ | ⟨_, loc', hval, heq⟩
    · rw [hloc] at heq; cases heq
    · rw [hloc] at heq
      simp only [Outcome.redirectOriginal.injEq] at heq
      subst heq
      rw [validateOriginalUrl_eq] at hval
      exact original_core uenv base _ _ _ hp hval
  · intro method rt ac je loc h
    unfold processRequest at h
    split at h
    · cases h
    split at h
    · cases h
    rename_i r hr
    split at h
    · cases h
    rename_i hne
    split at h
    · cases h
    split at h
    · cases h
    simp only [Except.ok.injEq, Option.some.injEq] at h
    rw [← h]
    exact (C37_return_to uenv base _ cfg.allow r ha hr (by simpa using hne)).2 _
  · obtain ⟨l, hl, hs⟩ := C37_original uenv base [] cfg.pfx hp
    -- the fallback is what the validator returns for the empty string
    have : l = fallback cfg.pfx := by
      rw [validateOriginalUrl_eq] at hl
      rcases repairedOU_accepts hl with h | ⟨_, hsl, _⟩
      · exact h
      · have : truncateUrl [] = [] := rfl
        unfold validateOriginalUrlRepaired at hl
        simp [this, hasUnsafeChars, sSlash, urlsplit, UrlPy.preprocess, splitScheme, netlocOf, splitPQF, partition] at hl
        exact hl.symm
    rw [this] at hs
    exact hs

/-! ## non-vacuity: the hypotheses are satisfiable on the shipped configuration, and each accepting branch is reachable -/

/-- a decidable sufficient condition for `AllowOK` of one entry: `scheme://authority` with a plain authority that the
browser's host and port states accept -/
def entryOK (o : Str) : Bool :=
  !o.contains '%' &&
  Gen.Pkce.returnToSchemes.any (fun s =>
    (s ++ sColonSlashSlash).isPrefixOf o &&
      (let n := o.drop (s.length + 3)
       n.all (fun c => decide (0x20 < c.toNat) && c != '\\' && !isAuthEnd c && c != '@' && c != '[' && c != ']') &&
         (match hostPort s [] [] (n.takeWhile (· != ':')) (afterColon n) [] with | .ok _ => true | _ => false)))

theorem entryOK_sound (base : Url) (o : Str) (h : entryOK o = true) : '%' ∉ o ∧ ∃ uo, parse base o = .ok uo := by
  unfold entryOK at h
  simp only [Bool.and_eq_true, Bool.not_eq_true', List.any_eq_true] at h
  obtain ⟨hpct, s, hs, hpre, hall, hok⟩ := h
  refine ⟨by simpa using hpct, ?_⟩
  obtain ⟨n, hn⟩ := List.isPrefixOf_iff_prefix.1 hpre
  have hdrop : o.drop (s.length + 3) = n := by
    rw [← hn]
    have : (s ++ sColonSlashSlash).length = s.length + 3 := by simp [sCSS]
    rw [← this, List.drop_left]
  rw [hdrop] at hall hok
  rw [List.all_eq_true] at hall
  have hc : ∀ c ∈ n, (0x20 < c.toNat ∧ c ≠ '\\') ∧ isAuthEnd c = false ∧ c ≠ '@' ∧ c ≠ '[' ∧ c ≠ ']' := by
    intro c hcm
    have := hall c hcm
    simp only [Bool.and_eq_true, decide_eq_true_eq, bne_iff_ne, ne_eq, Bool.not_eq_true'] at this
    obtain ⟨⟨⟨⟨⟨a, b⟩, d⟩, e⟩, f⟩, g⟩ := this
    exact ⟨⟨a, b⟩, d, e, f, g⟩
  rw [← hn, parse_scheme_authority base s n hs (fun c hcm => (hc c hcm).1) (fun c hcm => (hc c hcm).2.1)
    (fun hm => (hc _ hm).2.2.1 rfl) (fun hm => (hc _ hm).2.2.2.1 rfl) (fun hm => (hc _ hm).2.2.2.2 rfl)]
  split at hok
  · rename_i uo huo; exact ⟨uo, huo⟩
  · cases hok

/-- the shipped default allow-list satisfies the hypothesis of `C37_return_to` / `C37_flow`, for every base URL -/
theorem allowOK_default (base : Url) : AllowOK base Gen.Pkce.defaultAllowedReturnOrigins := by
  intro o ho
  have : Gen.Pkce.defaultAllowedReturnOrigins.all entryOK = true := by decide
  exact entryOK_sound base o (List.all_eq_true.1 this o ho)

def envTrue : Env := ⟨fun _ => true, fun _ => true⟩

deriving instance DecidableEq for Except

example : PrefixOK "/vgi".toList := by
  right
  refine ⟨⟨_, rfl, by intro r h; cases h⟩, by decide, by decide⟩
example : PrefixOK [] := Or.inl rfl

-- both accepting branches of `_validate_return_to` are reachable, and the three reported inputs are refused
example : validateReturnTo envTrue "https://cupola.query-farm.services/x?y#z".toList Gen.Pkce.defaultAllowedReturnOrigins
    = .ok "https://cupola.query-farm.services/x?y#z".toList := by decide
example : validateReturnTo envTrue "http://LocalHost:5173/cb".toList [] = .ok "http://LocalHost:5173/cb".toList := by decide
example : validateReturnTo envTrue "https://evil.com\\@cupola.query-farm.services/".toList Gen.Pkce.defaultAllowedReturnOrigins
    = .ok [] := by decide
example : validateReturnTo envTrue "https://cupola.query-farm.services:8443/".toList Gen.Pkce.defaultAllowedReturnOrigins
    = .ok [] := by decide
example : validateOriginalUrl envTrue "/\\evil.com".toList [] = .ok ['/'] := by decide
example : validateOriginalUrl envTrue "/vgi/describe?a=b".toList "/vgi".toList = .ok "/vgi/describe?a=b".toList := by decide
example : validateOriginalUrl envTrue "/vgi/../../x".toList "/vgi".toList = .ok "/vgi".toList := by decide

end VgiVerif.C37
