import VgiVerif.Model.C41
import VgiVerif.Spec.C41
import VgiVerif.Lemmas.SchedProd
import VgiVerif.Gen.C41
/-
C41 proofs: isolation of connections (through the generic projection lemma of products of independent components),
the `max_connections` bound, and the tie of the per-tick producer steps to `Engine.Pipe.iterate`.
-/
namespace VgiVerif.C41
open VgiVerif.Sched VgiVerif.Engine

namespace Aux

/-! ### the single ticks compose to `Engine.Pipe.iterate` -/

/-- tick a session until it is over (at most `fuel` ticks) and concatenate what the client saw -/
def drainP : Nat → Sess → List Ev
  | 0, _ => []
  | n + 1, .prod c st => (tickP c st).1 ++ drainP n (tickP c st).2
  | _ + 1, _ => []

theorem drainP_over (n : Nat) : drainP n .over = [] := by cases n <;> rfl

theorem iterate_ticks (carry : List Item) (steps : List Step) :
    Pipe.iterate carry steps = drainP (steps.length + 2) (.prod carry steps) := by
  induction steps generalizing carry with
  | nil => simp [Pipe.iterate, drainP, tickP]
  | cons s r ih =>
    simp only [Pipe.iterate, List.length_cons, drainP, tickP]
    cases hps : processStep s with
    | cont items =>
      simp only
      cases hr : readUntilData (carry ++ items) with
      | mk evs e =>
        cases e with
        | gotData rest => simp only; rw [ih rest]
        | raised => simp [drainP_over]
        | eos => simp [drainP_over]
        | gotToken p rest => simp [drainP_over]
    | done items =>
      simp only
      cases hr : readUntilData (carry ++ items) with
      | mk evs e =>
        cases e with
        | gotData rest => simp [drainP, tickP, drainP_over]
        | raised => simp [drainP_over]
        | eos => simp [drainP_over]
        | gotToken p rest => simp [drainP_over]
    | fail items => simp [drainP_over]

/-! ### inversion of the component step -/

theorem cstep_accept {capped : Bool} {c c' : Conn} (h : cstep capped c .accept = some c') :
    c.phase = .pending ∧ c' = { c with phase := .accepted } := by
  simp only [cstep] at h; split at h
  · next hp => cases h; exact ⟨hp, rfl⟩
  · cases h

theorem cstep_semAcq {capped : Bool} {c c' : Conn} (h : cstep capped c .semAcq = some c') :
    capped = true ∧ c.phase = .accepted ∧ c' = { c with phase := .admitted } := by
  simp only [cstep] at h; split at h
  · next hp => cases h; exact ⟨hp.1, hp.2, rfl⟩
  · cases h

theorem cstep_begin {capped : Bool} {c c' : Conn} (h : cstep capped c .begin = some c') :
    c.phase = beginFrom capped ∧ c' = { c with phase := .serving } := by
  simp only [cstep] at h; split at h
  · next hp => cases h; exact ⟨hp, rfl⟩
  · cases h

theorem cstep_end {capped : Bool} {c c' : Conn} (h : cstep capped c .end_ = some c') :
    c.phase = .serving ∧ c' = { c with phase := endTo capped } := by
  simp only [cstep] at h; split at h
  · next hp => cases h; exact ⟨hp, rfl⟩
  · cases h

theorem cstep_semRel {capped : Bool} {c c' : Conn} (h : cstep capped c .semRel = some c') :
    capped = true ∧ c.phase = .ended ∧ c' = { c with phase := .released } := by
  simp only [cstep] at h; split at h
  · next hp => cases h; exact ⟨hp.1, hp.2, rfl⟩
  · cases h

theorem cstep_op {capped : Bool} {c c' : Conn} {evs : List Ev} (h : cstep capped c (.op evs) = some c') :
    ∃ o r ss', c.script = o :: r ∧ opStep c.sess o = some (evs, ss') ∧
      (evs = [] ∨ c.phase = .serving ∨ (o.isCrash = true ∧ c.phase.started = true)) ∧
      c' = { c with script := r, sess := ss', obs := c.obs ++ [evs] } := by
  simp only [cstep] at h
  split at h
  · cases h
  · next o r hs =>
    split at h
    · cases h
    · next e ss' ho =>
      split at h
      · next hc =>
        cases h
        refine ⟨o, r, ss', hs, ?_, hc.2, rfl⟩
        rw [ho, hc.1]
      · cases h

/-! ### a component step keeps "observed so far ++ what a solo server would still deliver" -/

theorem cstep_solo {capped : Bool} {c c' : Conn} {l : CL} (h : cstep capped c l = some c') :
    c.obs ++ solo c.sess c.script = c'.obs ++ solo c'.sess c'.script := by
  cases l with
  | accept => obtain ⟨_, rfl⟩ := cstep_accept h; rfl
  | semAcq => obtain ⟨_, _, rfl⟩ := cstep_semAcq h; rfl
  | begin => obtain ⟨_, rfl⟩ := cstep_begin h; rfl
  | end_ => obtain ⟨_, rfl⟩ := cstep_end h; rfl
  | semRel => obtain ⟨_, _, rfl⟩ := cstep_semRel h; rfl
  | op evs =>
    obtain ⟨o, r, ss', hs, ho, _, rfl⟩ := cstep_op h
    simp only [hs, solo, ho, List.append_assoc, List.singleton_append]

theorem comp_runFrom_solo {capped : Bool} {c0 c c' : Conn} {ls : List CL}
    (h : ((prod capped).compTS c0).runFrom c ls = some c') :
    c.obs ++ solo c.sess c.script = c'.obs ++ solo c'.sess c'.script :=
  TS.invariant_runFrom ((prod capped).compTS c0)
    (fun x => c.obs ++ solo c.sess c.script = x.obs ++ solo x.sess x.script)
    (fun _ _ _ hi hst => hi.trans (cstep_solo hst)) rfl h

/-! ### the semaphore invariant -/

/-- with `max_connections = n`: permits are conserved, the holders are distinct, and they are exactly the
connections between `semaphore.acquire()` and `semaphore.release()` -/
structure MInv (n : Nat) (s : St) : Prop where
  sem : ∃ sm, s.shared = some sm ∧ sm.WF n ∧ sm.holders.Nodup ∧ ∀ i, i ∈ sm.holders ↔ (s.comp i).phase.holds = true

theorem minv_init (n : Nat) (prog : Tid → List Op) : MInv n (initSt (some n) prog) :=
  ⟨⟨Sem.mk' n, rfl, Sem.wf_mk' n, List.nodup_nil, fun i => by simp [Sem.mk', initSt, Phase.holds]⟩⟩

/-- a step of connection `j` that does not change whether `j` holds a permit, and leaves the semaphore alone -/
theorem minv_frame {n : Nat} {s : St} {j : Tid} {c' : Conn} (h : MInv n s)
    (hh : c'.phase.holds = (s.comp j).phase.holds) : MInv n ⟨s.shared, upd s.comp j c'⟩ := by
  obtain ⟨sm, hs, hw, hn, hm⟩ := h.sem
  refine ⟨⟨sm, hs, hw, hn, fun i => ?_⟩⟩
  by_cases hij : i = j
  · subst hij; simp only [upd_same]; rw [hh]; exact hm i
  · simp only [upd_other _ _ hij]; exact hm i

theorem minv_step {n : Nat} {s s' : St} {il : Label} (h : MInv n s) (hst : (prod true).step s il = some s') :
    MInv n s' := by
  obtain ⟨i, l⟩ := il
  obtain ⟨sh', c', hsh, hc, rfl⟩ := (prod true).step_eq_some hst
  obtain ⟨sm, hs, hw, hn, hm⟩ := h.sem
  have hsh' : sstep s.shared i l (s.comp i) = some sh' := hsh
  have hc' : cstep true (s.comp i) l = some c' := hc
  cases l with
  | accept =>
    obtain ⟨hp, rfl⟩ := cstep_accept hc'
    have : sh' = s.shared := by simp only [sstep, hs] at hsh'; cases hsh'; rw [hs]
    subst this
    exact minv_frame h (by simp only [hp]; rfl)
  | begin =>
    obtain ⟨hp, rfl⟩ := cstep_begin hc'
    have : sh' = s.shared := by simp only [sstep, hs] at hsh'; cases hsh'; rw [hs]
    subst this
    exact minv_frame h (by simp only [hp]; rfl)
  | end_ =>
    obtain ⟨hp, rfl⟩ := cstep_end hc'
    have : sh' = s.shared := by simp only [sstep, hs] at hsh'; cases hsh'; rw [hs]
    subst this
    exact minv_frame h (by simp only [hp]; rfl)
  | op evs =>
    obtain ⟨o, r, ss', _, _, _, rfl⟩ := cstep_op hc'
    have : sh' = s.shared := by simp only [sstep, hs] at hsh'; cases hsh'; rw [hs]
    subst this
    exact minv_frame h rfl
  | semAcq =>
    obtain ⟨_, hp, rfl⟩ := cstep_semAcq hc'
    simp only [sstep, hs] at hsh'
    cases ha : sm.acquire i with
    | none => rw [ha] at hsh'; cases hsh'
    | some sm' =>
      rw [ha] at hsh'; simp only [Option.map_some, Option.some.injEq] at hsh'; subst hsh'
      have hhold := Sem.acquire_holders ha
      have hnot : i ∉ sm.holders := fun hi => by
        have := (hm i).1 hi; rw [hp] at this; cases this
      refine ⟨⟨sm', rfl, Sem.acquire_wf hw ha, ?_, fun x => ?_⟩⟩
      · rw [hhold]; exact List.nodup_cons.2 ⟨hnot, hn⟩
      · rw [hhold]
        by_cases hxi : x = i
        · subst hxi; simp [upd_same, Phase.holds]
        · simp only [upd_other _ _ hxi, List.mem_cons, hxi, false_or]; exact hm x
  | semRel =>
    obtain ⟨_, hp, rfl⟩ := cstep_semRel hc'
    simp only [sstep, hs] at hsh'
    cases ha : sm.release i with
    | none => rw [ha] at hsh'; cases hsh'
    | some sm' =>
      rw [ha] at hsh'; simp only [Option.map_some, Option.some.injEq] at hsh'; subst hsh'
      have hhold : sm'.holders = sm.holders.erase i := by
        unfold Sem.release at ha; split at ha
        · cases ha; rfl
        · cases ha
      refine ⟨⟨sm', rfl, Sem.release_wf hw ha, ?_, fun x => ?_⟩⟩
      · rw [hhold]; exact hn.erase i
      · rw [hhold, hn.mem_erase_iff]
        by_cases hxi : x = i
        · subst hxi; simp [upd_same, Phase.holds]
        · simp only [upd_other _ _ hxi, ne_eq, hxi, not_false_eq_true, true_and]; exact hm x

theorem minv_reachable {n : Nat} {prog : Tid → List Op} {s : St} (h : (ts (some n) prog).Reachable s) : MInv n s :=
  TS.invariant_of_step (ts (some n) prog) (MInv n) (minv_init n prog) (fun _ _ _ hi hst => minv_step hi hst) s h

end Aux

/-! ## the obligations -/

/-- the structural facts of the source that the model relies on: `_handle` is
`semaphore.acquire ; transport_factory(conn) ; serve ; transport.close ; semaphore.release ; conn_count -= 1`, the
accept loop starts one `_handle` thread per accepted connection, the semaphore exists exactly when `max_connections`
is set and has that many permits, `serve_unix` / `serve_tcp` hand `max_connections` through, and `RpcServer.serve` /
`serve_one` keep no per-connection state on the (shared) server object -/
theorem C41_shape :
    Gen.C41.handleProg = [.semAcq, .factory, .serve, .close, .semRel, .countDown] ∧
    Gen.C41.acceptProg = [.accept, .countUp, .thread, .start] ∧ Gen.C41.semaphoreFromMax = true ∧
    Gen.C41.callers = true ∧ Gen.C41.serveStoresNothingOnSelf = true ∧ Gen.C41.connShmIsLocal = true := by decide

/-- the per-tick steps of a producer stream compose to `Engine.Pipe.iterate`: ticking a freshly opened session
until it is over delivers exactly what the Engine's pipe model delivers for the whole stream (so the per-connection
server of this model IS an `Engine.Pipe` server, observed tick by tick) -/
theorem C41_ticks_are_iterate (carry : List Item) (steps : List Step) :
    Aux.drainP (steps.length + 2) (.prod carry steps) = Pipe.iterate carry steps :=
  (Aux.iterate_ticks carry steps).symm

/-- an exchange session: one `Pipe.exchangeOne` per input, `drainLogs` at close — `Pipe.exchangeAll` by definition -/
theorem C41_sends_are_exchangeAll (carry : List Item) (s : Step) (r : List Step) :
    Pipe.exchangeAll carry (s :: r) =
      (match Pipe.exchangeOne carry s with
       | (evs, some rest) => evs ++ Pipe.exchangeAll rest r
       | (evs, none) => evs) ∧ Pipe.exchangeAll carry [] = drainLogs carry := ⟨rfl, rfl⟩

/-- **isolation**: in EVERY run of the threaded server — any number of connections, any scripts on the other
connections, any interleaving, any `max_connections` — what connection `i` has observed so far, followed by what a
server serving `i` ALONE would still deliver from `i`'s current session state, is exactly the observation of `i`
served alone from the start -/
theorem C41_isolation (cap : Option Nat) (prog : Tid → List Op) {ls : List Label} {s : St}
    (h : (ts cap prog).run ls = some s) (i : Tid) :
    Spec.Isolated (solo none (prog i)) (s.comp i).obs (solo (s.comp i).sess (s.comp i).script) := by
  have hp := (prod cap.isSome).proj_runFrom (init := initSt cap prog) h i ((initSt cap prog).comp i)
  have := Aux.comp_runFrom_solo hp
  exact this

/-- a connection whose script is finished has observed exactly what it observes when served alone -/
theorem C41_isolation_done (cap : Option Nat) (prog : Tid → List Op) {ls : List Label} {s : St}
    (h : (ts cap prog).run ls = some s) (i : Tid) (hdone : (s.comp i).script = []) :
    (s.comp i).obs = solo none (prog i) := by
  have := C41_isolation cap prog h i
  rw [hdone] at this
  exact Spec.Isolated.done (by simpa [solo] using this)

/-- independence from everything else: two runs of two servers (different `max_connections`, different scripts on
all OTHER connections, different interleavings) in which connection `i` has the same script and has completed the
same number of operations have given `i` the same observation -/
theorem C41_alone (cap cap' : Option Nat) (prog prog' : Tid → List Op) {ls ls' : List Label} {s s' : St}
    (h : (ts cap prog).run ls = some s) (h' : (ts cap' prog').run ls' = some s') (i : Tid)
    (hprog : prog i = prog' i) (hlen : (s.comp i).obs.length = (s'.comp i).obs.length) :
    (s.comp i).obs = (s'.comp i).obs := by
  have a := C41_isolation cap prog h i
  have b := C41_isolation cap' prog' h' i
  unfold Spec.Isolated at a b
  rw [hprog, b] at a
  exact (List.append_inj a hlen.symm).1.symm

/-- **max_connections**: with `max_connections = n`, in every reachable state at most `n` connections are being
served (between `transport_factory(conn)` and `transport.close()`), indeed at most `n` are between
`semaphore.acquire()` and `semaphore.release()` -/
theorem C41_max (n : Nat) (prog : Tid → List Op) {s : St} (h : (ts (some n) prog).Reachable s) :
    Spec.AtMost (fun i => (s.comp i).phase = .serving) n ∧
    Spec.AtMost (fun i => (s.comp i).phase.holds = true) n := by
  obtain ⟨sm, _, hw, _, hm⟩ := (Aux.minv_reachable h).sem
  have key : Spec.AtMost (fun i => (s.comp i).phase.holds = true) n := by
    intro l hl hall
    have hsub : l ⊆ sm.holders := fun x hx => (hm x).2 (hall x hx)
    exact Nat.le_trans (hl.length_le_of_subset hsub) (Sem.holders_le hw)
  refine ⟨fun l hl hall => key l hl (fun i hi => ?_), key⟩
  have hs : (s.comp i).phase = .serving := hall i hi
  show (s.comp i).phase.holds = true
  rw [hs]; rfl

/-- what a connection observes needs a server: a non-empty observation is only ever recorded while the connection is
in `serving` (after the semaphore, before `transport.close()`) — or, for the transport failure that ends a connection
whose handler crashed, once the handler has at least begun to serve -/
theorem C41_served_while_serving (cap : Option Nat) (prog : Tid → List Op) {s s' : St} {i : Tid} {evs : List Ev}
    (hst : (ts cap prog).step s (i, .op evs) = some s') (hne : evs ≠ []) :
    (s.comp i).phase = .serving ∨
    ((s.comp i).phase.started = true ∧ ∃ o r, (s.comp i).script = o :: r ∧ o.isCrash = true) := by
  have : cstep cap.isSome (s.comp i) (.op evs) = some (s'.comp i) := (prod cap.isSome).step_comp_self hst
  obtain ⟨o, r, _, hs, _, hph, _⟩ := Aux.cstep_op this
  rcases hph with h | h | ⟨h1, h2⟩
  · exact absurd h hne
  · exact Or.inl h
  · exact Or.inr ⟨h2, o, r, hs, h1⟩

/-- steps of two different connections commute as long as at most one of them is a semaphore operation
(instance of the generic commutation lemma of products) -/
theorem C41_steps_commute (capped : Bool) {s s1 s2 : St} {i j : Tid} {l m : CL} (hne : i ≠ j)
    (hsem : (l ≠ .semAcq ∧ l ≠ .semRel) ∨ (m ≠ .semAcq ∧ m ≠ .semRel))
    (h1 : (prod capped).step s (i, l) = some s1) (h2 : (prod capped).step s1 (j, m) = some s2) :
    ∃ s1', (prod capped).step s (j, m) = some s1' ∧ (prod capped).step s1' (i, l) = some s2 := by
  refine (prod capped).step_comm hne h1 h2 ?_
  intro sh1 sh2 ha hb
  have ha' : sstep s.shared i l (s.comp i) = some sh1 := ha
  have hb' : sstep sh1 j m (s.comp j) = some sh2 := hb
  show ∃ sh1', sstep s.shared j m (s.comp j) = some sh1' ∧ sstep sh1' i l (s.comp i) = some sh2
  rcases hsem with ⟨hl1, hl2⟩ | ⟨hm1, hm2⟩
  · have e1 : sh1 = s.shared := by
      cases l <;> first | (exact absurd rfl hl1) | (exact absurd rfl hl2) |
        (cases hsh : s.shared <;> simp only [sstep, hsh] at ha' <;> cases ha' <;> rfl)
    subst e1
    refine ⟨sh2, hb', ?_⟩
    cases l <;> first | (exact absurd rfl hl1) | (exact absurd rfl hl2) | (cases sh2 <;> rfl)
  · have e2 : sh2 = sh1 := by
      cases m <;> first | (exact absurd rfl hm1) | (exact absurd rfl hm2) |
        (cases sh1 <;> simp only [sstep] at hb' <;> cases hb' <;> rfl)
    subst e2
    refine ⟨s.shared, ?_, ha'⟩
    cases m <;> first | (exact absurd rfl hm1) | (exact absurd rfl hm2) | (cases s.shared <;> rfl)

/-- what the driver's `accepts` accepts is a run of the model, hence ends in a reachable state -/
theorem C41_accepts_sound (cap : Option Nat) (prog : Tid → List Op) {ls : List Label}
    (h : (ts cap prog).accepts ls = true) : ∃ s, (ts cap prog).run ls = some s ∧ (ts cap prog).Reachable s := by
  obtain ⟨s, hs⟩ := ((ts cap prog).accepts_iff ls).1 h
  exact ⟨s, hs, (ts cap prog).reachable_of_run hs⟩

end VgiVerif.C41
