import VgiVerif.Model.C20
import VgiVerif.Spec.C20
import VgiVerif.Lemmas.PyStrSplit
/-
C20 property theorems.  Helper lemmas live in `namespace Aux`; the obligations are at the bottom.

The model is parametric in the extracted exemption shape: `C20_exact` is proved for *every* shape satisfying the decidable
soundness criterion `ShapeOk`, and `shape_ok` checks (by evaluation) that the shape extracted from the current source
satisfies it.  The pinned tree's shape (`startswith` on `{prefix}/health`) does not: see `Findings/C20.lean`.
-/
namespace VgiVerif.C20
open VgiVerif.Gen.Exempt VgiVerif.PyStr

/-! ### soundness criterion on extracted shapes -/

/-- an exempt entry is either the health endpoint compared *exactly*, or the PKCE subtree `…/_oauth/` -/
def entryOk (e : Entry) : Bool :=
  (decide (e.cmp = .exact) && decide (e.suffix = Spec.healthSuffix) && decide (e.cond = .health))
  || (decide (e.cmp ≠ .unknown) && decide (e.suffix = Spec.oauthSuffix) && decide (e.cond = .pkce))

/-- a literal disjunct may only be about `/.well-known/` -/
def literalOk (cl : Cmp × List Char) : Bool :=
  decide (cl.1 ≠ .unknown) && decide (cl.2 = Spec.wellKnown)

def ShapeOk (sh : AuthShape) : Bool :=
  sh.recognised && sh.stateless && sh.literals.all literalOk && sh.entries.all entryOk

/-- the configurations the property quantifies over -/
structure WF (cfg : Cfg) : Prop where
  prefixOk : Spec.PrefixOk cfg.pfx
  identLike : ∀ a ∈ cfg.attrs, Spec.IdentLike a

namespace Aux

theorem cmpMatch_prefix {c : Cmp} {p path : List Char} (hc : c ≠ .unknown) (h : cmpMatch c p path = true) :
    p <+: path := by
  cases c with
  | startsWith => exact List.isPrefixOf_iff_prefix.mp h
  | exact =>
    simp only [cmpMatch, decide_eq_true_eq] at h
    subst h
    exact List.prefix_refl _
  | exactOrSlash =>
    simp only [cmpMatch, Bool.or_eq_true, decide_eq_true_eq] at h
    rcases h with h | h
    · subst h; exact List.prefix_refl _
    · exact (List.prefix_append p ['/']).trans (List.isPrefixOf_iff_prefix.mp h)
  | unknown => exact absurd rfl hc

theorem options_runs_nothing (cfg : Cfg) (r : Route) : serviceCode cfg verbOptions r = [] := by
  cases r <;> simp [serviceCode, verbOptions, verbPost, verbGet, verbDelete]

theorem stripSegs_append (p s : List (List Char)) : stripSegs p (p ++ s) = some s := by
  induction p with
  | nil => cases s <;> rfl
  | cons a p ih => simp [stripSegs, ih]

theorem stripSegs_head {a b : List Char} {p s rest : List (List Char)}
    (h : stripSegs (a :: p) (b :: s) = some rest) : a = b := by
  simp only [stripSegs] at h
  split at h
  · assumption
  · cases h

/-- either nothing can run, or the route is decided below the prefix -/
theorem route_cases (cfg : Cfg) (verb path : List Char) :
    serviceCode cfg verb (route cfg path) = [] ∨
      ∃ rest, stripSegs (pfxSegs cfg) (pathSegs path) = some rest ∧ route cfg path = routeRest cfg rest := by
  unfold route
  simp only []
  by_cases h1 : cfg.oauthMeta = true ∧ pathSegs path = wkSegs
  · left; rw [if_pos h1]; rfl
  · rw [if_neg h1]
    by_cases h2 : cfg.oauthMeta = true ∧ cfg.pfx ≠ [] ∧ cfg.pfx ≠ ['/'] ∧ pathSegs path = wkSegs ++ pfxSegs cfg
    · left; rw [if_pos h2]; rfl
    · rw [if_neg h2]
      by_cases h3 : cfg.landing = true ∧ pathSegs path = (if cfg.pfx = [] then [[]] else pfxSegs cfg)
      · left; rw [if_pos h3]; rfl
      · rw [if_neg h3]
        cases h : stripSegs (pfxSegs cfg) (pathSegs path) with
        | none => left; rfl
        | some rest => right; exact ⟨rest, rfl, rfl⟩

theorem dropWhile_slash_cons {c : Char} (r : List Char) (hc : c ≠ '/') :
    (c :: r).dropWhile (· = '/') = c :: r := by
  simp [List.dropWhile, hc]

/-- segments of `prefix ++ "/" ++ r` when `r` does not start with a slash -/
theorem pathSegs_under_prefix (cfg : Cfg) (hp : Spec.PrefixOk cfg.pfx) (c : Char) (r : List Char) (hc : c ≠ '/') :
    pathSegs (cfg.pfx ++ '/' :: c :: r) = pfxSegs cfg ++ splitOn '/' (c :: r) := by
  rcases hp with h0 | ⟨t, ht, hne, hhead, _⟩
  · simp [pathSegs, pfxSegs, h0, List.dropWhile, hc]
  · cases t with
    | nil => exact absurd rfl hne
    | cons d t' =>
      have hd : d ≠ '/' := by
        intro hd; apply hhead; simp [hd]
      have e1 : pathSegs (cfg.pfx ++ '/' :: c :: r) = splitOn '/' ((d :: t') ++ '/' :: c :: r) := by
        simp [pathSegs, ht, List.dropWhile, hd]
      have e2 : pfxSegs cfg = splitOn '/' (d :: t') := by
        simp [pfxSegs, pathSegs, ht, List.dropWhile, hd]
      rw [e1, e2, splitOn_append_sep]

theorem describe_ne_oauth : describeName ≠ sOauth := by decide

theorem not_mem_methods_of_underscore (cfg : Cfg) (m : List Char) (hu : ['_'] <+: m) (hd : m ≠ describeName) :
    m ∉ serverMethods cfg := by
  intro hm
  simp only [serverMethods, rpcMethods, List.mem_append] at hm
  rcases hm with hm | hm
  · have : underscoreSkipped = true := rfl
    simp only [this, if_true, List.mem_filter] at hm
    have h2 := hm.2
    simp only [Bool.not_eq_true', ] at h2
    have : List.isPrefixOf ['_'] m = true := List.isPrefixOf_iff_prefix.mpr hu
    rw [this] at h2
    cases h2
  · split at hm
    · simp at hm; exact hd hm
    · cases hm

theorem not_mem_methods_of_dot (cfg : Cfg) (wf : WF cfg) (m : List Char) (hdot : '.' ∈ m) (hd : m ≠ describeName) :
    m ∉ serverMethods cfg := by
  intro hm
  simp only [serverMethods, rpcMethods, List.mem_append] at hm
  rcases hm with hm | hm
  · have : underscoreSkipped = true := rfl
    simp only [this, if_true, List.mem_filter] at hm
    exact (wf.identLike m hm.1 '.' hdot).1 rfl
  · split at hm
    · simp at hm; exact hd hm
    · cases hm

def sWk : List Char := ['.', 'w', 'e', 'l', 'l', '-', 'k', 'n', 'o', 'w', 'n']

/-- nothing runs below the prefix when the first segment is `_oauth` and at least one more follows -/
theorem routeRest_oauth (cfg : Cfg) (verb : List Char) (y : List Char) (ys : List (List Char)) :
    serviceCode cfg verb (routeRest cfg (sOauth :: y :: ys)) = [] := by
  have hno : sOauth ∉ serverMethods cfg :=
    not_mem_methods_of_underscore cfg sOauth ⟨['o', 'a', 'u', 't', 'h'], rfl⟩ (by decide)
  cases ys with
  | cons z zs => simp [routeRest, serviceCode]
  | nil =>
    have h1 : sOauth ≠ sUpload := by decide
    simp only [routeRest, h1, false_and, if_false, true_and]
    split
    · rfl
    · split
      · rfl
      · split
        · rfl
        · split
          · simp [serviceCode, hno]
          · split
            · simp [serviceCode, hno]
            · rfl

/-- nothing runs when the first segment is `.well-known` and at least one more follows -/
theorem routeRest_wk (cfg : Cfg) (wf : WF cfg) (verb : List Char) (y : List Char) (ys : List (List Char)) :
    serviceCode cfg verb (routeRest cfg (sWk :: y :: ys)) = [] := by
  have hno : sWk ∉ serverMethods cfg :=
    not_mem_methods_of_dot cfg wf sWk (by decide) (by decide)
  cases ys with
  | cons z zs => simp [routeRest, serviceCode]
  | nil =>
    have h1 : sWk ≠ sUpload := by decide
    have h2 : sWk ≠ sOauth := by decide
    simp only [routeRest, h1, h2, false_and, if_false]
    split
    · simp [serviceCode, hno]
    · split
      · simp [serviceCode, hno]
      · rfl

theorem splitOn_two (x : List Char) : ∃ y ys, splitOn '/' x = y :: ys := by
  cases h : splitOn '/' x with
  | nil => exact absurd h (splitOn_ne_nil _ _)
  | cons y ys => exact ⟨y, ys, rfl⟩

end Aux

/-! ### obligations -/

/-- the shape extracted from the current source is fully recognised and satisfies the soundness criterion -/
theorem shape_ok : ShapeOk Gen.Exempt.auth = true := by decide

/-- the routes registered by `make_wsgi_app` are exactly the ones `Model.route` resolves (templates, resources, conditions) -/
theorem routes_shape :
    Gen.Exempt.routes =
      [ ⟨.absolute, '/' :: (Aux.sWk ++ '/' :: wkSegs[1]!), "well_known", .oauthMeta⟩,
        ⟨.absoluteThenPrefix, '/' :: (Aux.sWk ++ '/' :: wkSegs[1]!), "well_known", .oauthMeta⟩,
        ⟨.prefixed, ['/', '{', 'm', 'e', 't', 'h', 'o', 'd', '}'], "_RpcResource", .always⟩,
        ⟨.prefixed, ['/', '{', 'm', 'e', 't', 'h', 'o', 'd', '}', '/'] ++ sInit, "_StreamInitResource", .always⟩,
        ⟨.prefixed, ['/', '{', 'm', 'e', 't', 'h', 'o', 'd', '}', '/'] ++ sExchange, "_ExchangeResource", .always⟩,
        ⟨.prefixed, '/' :: (sUpload ++ '/' :: sInit), "_UploadUrlResource", .upload⟩,
        ⟨.prefixed, '/' :: sSession, "_SessionResource", .sticky⟩,
        ⟨.prefixed, '/' :: (sOauth ++ '/' :: sCallback), "_OAuthCallbackResource", .pkce⟩,
        ⟨.prefixed, '/' :: (sOauth ++ '/' :: sLogout), "_OAuthLogoutResource", .pkce⟩,
        ⟨.prefixed, '/' :: (sOauth ++ '/' :: sToken), "_OAuthTokenProxyResource", .pkce⟩,
        ⟨.prefixed, '/' :: sDescribe, "_DescribePageResource", .describePage⟩,
        ⟨.prefixed, '/' :: sIntrospect, "_TokenIntrospectionResource", .always⟩,
        ⟨.prefixed, '/' :: sHealth, "_HealthResource", .health⟩,
        ⟨.prefixOrRoot, [], "_LandingPageResource", .landing⟩ ]
    ∧ Gen.Exempt.hasSink = true := by
  constructor <;> rfl

/-- **C20_exact** — for every extracted shape that passes `ShapeOk`: a request the middleware exempts is OPTIONS, under
    `/.well-known/`, exactly the health path (health enabled) or under the PKCE `/_oauth/` subtree (PKCE active) -/
theorem C20_exact (sh : AuthShape) (cfg : Cfg) (verb path : List Char) (hs : ShapeOk sh = true)
    (h : exempt sh cfg verb path = true) :
    Spec.Bypass cfg.pfx cfg.health cfg.pkce verb path := by
  simp only [ShapeOk, Bool.and_eq_true, List.all_eq_true] at hs
  obtain ⟨⟨⟨_, _⟩, hlit⟩, hent⟩ := hs
  simp only [exempt, Bool.or_eq_true, Bool.and_eq_true, decide_eq_true_eq, List.any_eq_true] at h
  rcases h with (⟨_, hv⟩ | ⟨cl, hcl, hm⟩) | ⟨e, he, hcond, hm⟩
  · exact Or.inl hv
  · have := hlit cl hcl
    simp only [literalOk, Bool.and_eq_true, decide_eq_true_eq] at this
    right; left
    rw [← this.2]
    exact Aux.cmpMatch_prefix this.1 hm
  · have := hent e he
    simp only [entryOk, Bool.or_eq_true, Bool.and_eq_true, decide_eq_true_eq] at this
    rcases this with ⟨⟨hc, hsuf⟩, hcd⟩ | ⟨⟨hc, hsuf⟩, hcd⟩
    · right; right; left
      rw [hcd] at hcond
      rw [hc, hsuf] at hm
      simp only [cmpMatch, decide_eq_true_eq] at hm
      exact ⟨hcond, hm⟩
    · right; right; right
      rw [hcd] at hcond
      rw [hsuf] at hm
      exact ⟨hcond, Aux.cmpMatch_prefix hc hm⟩

/-- for the shape of the current source the exemption is *exactly* the bypass class of the property -/
theorem C20_exact_iff (cfg : Cfg) (verb path : List Char) :
    exempt Gen.Exempt.auth cfg verb path = true ↔ Spec.Bypass cfg.pfx cfg.health cfg.pkce verb path := by
  constructor
  · exact C20_exact _ cfg verb path shape_ok
  · intro h
    simp only [exempt, Gen.Exempt.auth, List.any_cons, List.any_nil, Bool.or_false, cmpMatch, condHolds,
      Bool.or_eq_true, Bool.and_eq_true, decide_eq_true_eq, Bool.true_and, List.isPrefixOf_iff_prefix]
    rcases h with h | h | h | h
    · left; left; exact h
    · left; right; exact h
    · right; left; exact h
    · right; right; exact h

/-- no RPC method can live under an exempt prefix: every dispatchable name is `__describe__` or does not start with `_`
    (so `{prefix}/_oauth/init` and `{prefix}/_oauth/exchange` resolve to no method) -/
theorem no_method_under_exempt (cfg : Cfg) :
    ∀ m ∈ serverMethods cfg, m = describeName ∨ ¬ (['_'] <+: m) := by
  intro m hm
  by_cases hd : m = describeName
  · exact Or.inl hd
  · right
    intro hu
    exact Aux.not_mem_methods_of_underscore cfg m hu hd hm

/-- a request of the bypass class never reaches service code, whatever the method names and the prefix -/
theorem exempt_route_runs_nothing (cfg : Cfg) (wf : WF cfg) (verb path : List Char)
    (h : Spec.Bypass cfg.pfx cfg.health cfg.pkce verb path) :
    serviceCode cfg verb (route cfg path) = [] := by
  rcases h with h | h | ⟨hh, h⟩ | ⟨hk, h⟩
  · -- OPTIONS: no responder that runs service code answers it
    subst h
    exact Aux.options_runs_nothing cfg _
  · -- /.well-known/…
    obtain ⟨x, rfl⟩ := h
    rcases Aux.route_cases cfg verb (Spec.wellKnown ++ x) with h0 | ⟨rest, hstrip, hroute⟩
    · exact h0
    · obtain ⟨y, ys, hy⟩ := Aux.splitOn_two x
      have hsegs : pathSegs (Spec.wellKnown ++ x) = Aux.sWk :: y :: ys := by
        have : pathSegs (Spec.wellKnown ++ x) = splitOn '/' (Aux.sWk ++ '/' :: x) := by
          simp [pathSegs, Spec.wellKnown, Aux.sWk, List.dropWhile]
        rw [this, splitOn_append _ _ _ (by decide), hy]
      rw [hsegs] at hstrip
      rw [hroute]
      rcases wf.prefixOk with h0 | ⟨t, ht, hne, hhead, hwk⟩
      · have : pfxSegs cfg = [] := by simp [pfxSegs, h0]
        rw [this] at hstrip
        simp only [stripSegs, Option.some.injEq] at hstrip
        rw [← hstrip]
        exact Aux.routeRest_wk cfg wf verb y ys
      · exfalso
        cases t with
        | nil => exact hne rfl
        | cons d t' =>
          have hd : d ≠ '/' := by
            intro hd; apply hhead; simp [hd]
          have e2 : pfxSegs cfg = splitOn '/' (d :: t') := by
            simp [pfxSegs, pathSegs, ht, List.dropWhile, hd]
          rw [e2] at hstrip
          cases hsp : splitOn '/' (d :: t') with
          | nil => exact splitOn_ne_nil _ _ hsp
          | cons a ps =>
            rw [hsp] at hstrip
            have ha : a = Aux.sWk := Aux.stripSegs_head hstrip
            subst ha
            exact hwk (splitOn_head_prefix '/' (d :: t') Aux.sWk ps hsp)
  · -- exactly {prefix}/health with the health endpoint enabled
    subst h
    rcases Aux.route_cases cfg verb (cfg.pfx ++ Spec.healthSuffix) with h0 | ⟨rest, hstrip, hroute⟩
    · exact h0
    · have hsegs : pathSegs (cfg.pfx ++ Spec.healthSuffix) = pfxSegs cfg ++ [sHealth] := by
        have := Aux.pathSegs_under_prefix cfg wf.prefixOk 'h' ['e', 'a', 'l', 't', 'h'] (by decide)
        rw [show Spec.healthSuffix = '/' :: 'h' :: ['e', 'a', 'l', 't', 'h'] from rfl, this]
        rfl
      rw [hsegs, Aux.stripSegs_append] at hstrip
      simp only [Option.some.injEq] at hstrip
      rw [hroute, ← hstrip]
      simp [routeRest, hh, serviceCode]
  · -- under {prefix}/_oauth/ with PKCE active
    obtain ⟨x, rfl⟩ := h
    rcases Aux.route_cases cfg verb (cfg.pfx ++ Spec.oauthSuffix ++ x) with h0 | ⟨rest, hstrip, hroute⟩
    · exact h0
    · obtain ⟨y, ys, hy⟩ := Aux.splitOn_two x
      have hsegs : pathSegs (cfg.pfx ++ Spec.oauthSuffix ++ x) = pfxSegs cfg ++ (sOauth :: y :: ys) := by
        have := Aux.pathSegs_under_prefix cfg wf.prefixOk '_' (['o', 'a', 'u', 't', 'h', '/'] ++ x) (by decide)
        have e : cfg.pfx ++ Spec.oauthSuffix ++ x = cfg.pfx ++ '/' :: '_' :: (['o', 'a', 'u', 't', 'h', '/'] ++ x) := by
          simp [Spec.oauthSuffix]
        rw [e, this]
        have : ('_' :: (['o', 'a', 'u', 't', 'h', '/'] ++ x)) = sOauth ++ '/' :: x := by simp [sOauth]
        rw [this, splitOn_append _ _ _ (by decide), hy]
      rw [hsegs, Aux.stripSegs_append] at hstrip
      simp only [Option.some.injEq] at hstrip
      rw [hroute, ← hstrip]
      exact Aux.routeRest_oauth cfg verb y ys

/-- **C20** — with an authenticator configured, a request it rejects runs no service code: not a unary method, not a
    stream init or exchange, not `__describe__`, not the upload-URL provider, not the token-introspection resolver, not a
    session hook — for every method set, prefix, verb and path -/
theorem C20 (cfg : Cfg) (wf : WF cfg) (rq : Req) (hauth : cfg.authConfigured = true) (hrej : rq.authOk = false) :
    (respond Gen.Exempt.auth cfg rq).code = [] := by
  unfold respond
  by_cases hex : exempt Gen.Exempt.auth cfg rq.verb rq.path = true
  · simp only [hauth, hex, Bool.not_true, Bool.and_false, Bool.false_eq_true, if_false]
    exact exempt_route_runs_nothing cfg wf rq.verb rq.path ((C20_exact_iff cfg rq.verb rq.path).mp hex)
  · have hex' : exempt Gen.Exempt.auth cfg rq.verb rq.path = false := by
      cases h : exempt Gen.Exempt.auth cfg rq.verb rq.path
      · rfl
      · exact absurd h hex
    simp [hauth, hex', hrej]

/-- outside the bypass class the callback is always consulted, and its rejection is a 401 that runs nothing -/
theorem C20_consulted (cfg : Cfg) (rq : Req) (hauth : cfg.authConfigured = true)
    (hnb : ¬ Spec.Bypass cfg.pfx cfg.health cfg.pkce rq.verb rq.path) :
    (respond Gen.Exempt.auth cfg rq).authCalled = true ∧
      (rq.authOk = false → (respond Gen.Exempt.auth cfg rq).unauthorized = true ∧ (respond Gen.Exempt.auth cfg rq).code = []) := by
  have hex' : exempt Gen.Exempt.auth cfg rq.verb rq.path = false := by
    cases h : exempt Gen.Exempt.auth cfg rq.verb rq.path
    · rfl
    · exact absurd ((C20_exact_iff cfg rq.verb rq.path).mp h) hnb
  unfold respond
  cases hok : rq.authOk <;> simp [hauth, hex']

/-- **C20 over histories** — on one app instance, whatever requests came before (preflights, health probes, accepted
    calls on the same path, …): every request of the history that the callback rejects runs no service code -/
theorem C20_history (cfg : Cfg) (wf : WF cfg) (hauth : cfg.authConfigured = true) (history : List Req) :
    ∀ p ∈ history.zip (respondAll Gen.Exempt.auth cfg history), p.1.authOk = false → p.2.code = [] := by
  intro p hp hrej
  unfold respondAll at hp
  rw [List.zip_map_right] at hp
  simp only [List.mem_map] at hp
  obtain ⟨q, hq, rfl⟩ := hp
  obtain ⟨a, b⟩ := q
  have hab : a = b := by
    have := List.of_mem_zip hq
    clear hrej
    induction history with
    | nil => cases hq
    | cons x xs ih =>
      simp only [List.zip_cons_cons, List.mem_cons] at hq
      rcases hq with h | h
      · cases h; rfl
      · exact ih h (List.of_mem_zip h)
  subst hab
  exact C20 cfg wf a hauth hrej

/-! ### non-vacuity -/

def exampleCfg : Cfg :=
  { pfx := ['/', 'v', 'g', 'i'], authConfigured := true, health := true, pkce := true, oauthMeta := true, upload := true,
    sticky := true, sizeCap := false, describePage := true, landing := true, introspect := true,
    attrs := [['h', 'e', 'a', 'l', 't', 'h', 'c', 'h', 'e', 'c', 'k'], ['h', 'e', 'a', 'l', 't', 'h'], ['_', 'o', 'a', 'u', 't', 'h']],
    describe := true }

example : WF exampleCfg :=
  ⟨Or.inr ⟨['v', 'g', 'i'], rfl, by decide, by decide, by decide⟩, by
    intro a ha
    simp only [exampleCfg, List.mem_cons, List.mem_nil_iff, or_false] at ha
    rcases ha with rfl | rfl | rfl <;> (unfold Spec.IdentLike; decide)⟩

/-- the repaired gate rejects `POST /vgi/healthcheck`, and an accepted credential does reach the method -/
example : respond Gen.Exempt.auth exampleCfg ⟨verbPost, ['/', 'v', 'g', 'i', '/'] ++ ['h', 'e', 'a', 'l', 't', 'h', 'c', 'h', 'e', 'c', 'k'], false⟩
    = ⟨true, true, []⟩ := by decide
example : respond Gen.Exempt.auth exampleCfg ⟨verbPost, ['/', 'v', 'g', 'i', '/'] ++ ['h', 'e', 'a', 'l', 't', 'h', 'c', 'h', 'e', 'c', 'k'], true⟩
    = ⟨true, false, [.unary ['h', 'e', 'a', 'l', 't', 'h', 'c', 'h', 'e', 'c', 'k']]⟩ := by decide
/-- the health endpoint itself is exempt and resolves to the health resource -/
example : respond Gen.Exempt.auth exampleCfg ⟨verbGet, ['/', 'v', 'g', 'i', '/', 'h', 'e', 'a', 'l', 't', 'h'], false⟩
    = ⟨false, false, []⟩ := by decide
example : route exampleCfg ['/', 'v', 'g', 'i', '/', 'h', 'e', 'a', 'l', 't', 'h'] = .health := by decide

end VgiVerif.C20
