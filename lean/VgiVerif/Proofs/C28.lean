import VgiVerif.Lemmas.C28
/-
C28 property theorems (obligations).  Helper lemmas: `Lemmas/C28.lean` (namespace `Aux`).

Everything is stated over the extracted constants (`Gen.C28Shm`): `HEADER_SIZE`, `MAX_ALLOCS`, the struct
layouts, the comparison operators of `allocate` / `free`, and the shape of the sink and of
`allocate_and_write`.  A source edit that changes one of them changes these statements or breaks their proofs.
-/
namespace VgiVerif.C28
open VgiVerif.Gen.C28Shm

/-- the table invariant of the property at the extracted constants: sorted, non-overlapping, every entry a
    non-empty region inside `[HEADER_SIZE, total]`, at most `MAX_ALLOCS` entries -/
abbrev TInv (total : Nat) (t : Table) : Prop := Spec.Inv headerSize total maxAllocs t

namespace Aux

theorem tinv_wf {total : Nat} {t : Table} (ht : headerSize ≤ total) :
    TInv total t ↔ WF total headerSize t ∧ t.length ≤ maxAllocs := by
  constructor
  · intro h; exact ⟨spec_WF ht h.nonOverlap h.within, h.count⟩
  · intro ⟨w, c⟩
    obtain ⟨a, b, d⟩ := WF_spec w
    exact ⟨a, b, d, c⟩

theorem sizeGuard_eval (a b : Int) : sizeGuardCmp.eval a b = decide (a ≤ b) := rfl
theorem full_eval (a b : Int) : fullCmp.eval a b = decide (b ≤ a) := rfl

/-- `allocate` in arithmetic form (the extracted guards plugged in) -/
theorem allocate_eq (t : Table) (n : Int) (total : Nat) :
    allocate t n total =
      if n ≤ 0 then (.valueError, t)
      else if maxAllocs ≤ t.length then (.none, t)
      else match scan n.toNat total headerSize t with
        | none => (.none, t)
        | some (o, t') => (.some o, t') := by
  unfold allocate
  simp only [sizeGuard_eval, full_eval, decide_eq_true_eq]
  by_cases h1 : n ≤ 0
  · rw [if_pos h1, if_pos h1]
  · rw [if_neg h1, if_neg h1]
    by_cases h2 : maxAllocs ≤ t.length
    · rw [if_pos h2, if_pos (by omega)]
    · rw [if_neg h2, if_neg (by omega)]
      cases scan n.toNat total headerSize t with
      | none => rfl
      | some p => cases p; rfl

/-- what a successful `allocate` means in terms of `scan` -/
theorem allocate_some {t : Table} {n : Int} {total o : Nat} {t' : Table} (h : allocate t n total = (.some o, t')) :
    0 < n ∧ t.length < maxAllocs ∧ scan n.toNat total headerSize t = some (o, t') := by
  rw [allocate_eq] at h
  split at h
  · cases h
  · split at h
    · cases h
    · split at h
      · cases h
      · rename_i x t'' hs
        injection h with h1 h2; injection h1 with h1; subst h1; subst h2
        exact ⟨by omega, by omega, hs⟩

end Aux

/-! ## Shapes the model relies on (any unrecognised source shape makes this fail) -/

theorem C28_shapes :
    allocateBodyRecognised = true ∧ freeBodyRecognised = true ∧ tableAccessRecognised = true ∧
    countSitesAgree = true ∧ littleEndian = true ∧ resetRecognised = true ∧ initializeRecognised = true ∧
    sinkShapeRecognised = true ∧ sinkBounded = true ∧ sinkSticky = true ∧ sinkLimitIsEstimate = true ∧
    estimateIsBatchPlusOverhead = true ∧ overflowFrees = true ∧ returnsBytesWritten = true ∧ dictPathExact = true ∧
    -- no allocator call the model does not have, and no allocator state outside the header bytes (so the byte-level
    -- machine `cStep`, whose only state is the segment's memory, is the allocator of every handle on the segment)
    allocateAndWriteExact = true ∧ allocatorStateIsHeaderOnly = true ∧ allocatorApiRecognised = true ∧
    -- the count field the accessors use is the `num_allocs` field of the header layout, the table starts right after
    -- the fixed header, and `MAX_ALLOCS` entries end inside the header
    countOffset = (headerFields.take 3).sum ∧ countWidth = headerFields.getD 3 0 ∧ tableBase = headerFields.sum ∧
    entryFields = [8, 8] ∧ entrySize = entryFields.sum ∧ tableBase + entrySize * maxAllocs ≤ headerSize ∧
    maxAllocs < 256 ^ countWidth := by
  decide

/-! ## The allocation table -/

/-- **allocate preserves the invariant**: a successful `allocate(n)` had `n > 0`, adds exactly the entry `(o, n)`,
    the new region lies in the data region and is disjoint from every region that was live -/
theorem alloc_inv {total : Nat} {t t' : Table} {n : Int} {o : Nat} (ht : headerSize ≤ total) (hi : TInv total t)
    (h : allocate t n total = (.some o, t')) :
    TInv total t' ∧ 0 < n ∧ Spec.Inserted t (o, n.toNat) t' ∧ headerSize ≤ o ∧ o + n.toNat ≤ total ∧
      ∀ e ∈ t, Spec.Disjoint o n.toNat e.1 e.2 := by
  obtain ⟨hn, hlen, hs⟩ := Aux.allocate_some h
  obtain ⟨w, c⟩ := (Aux.tinv_wf ht).1 hi
  obtain ⟨w', p, lb, ub, fr⟩ := Aux.scan_some (by omega) w hs
  refine ⟨(Aux.tinv_wf ht).2 ⟨w', ?_⟩, hn, p, lb, ub, fr⟩
  rw [Aux.scan_length hs]; omega

/-- an `allocate` that does not return an offset leaves the table as it was -/
theorem alloc_unchanged (t : Table) (n : Int) (total : Nat) (h : ∀ o, (allocate t n total).1 ≠ .some o) :
    (allocate t n total).2 = t := by
  rw [Aux.allocate_eq] at h ⊢
  split
  · rfl
  · split
    · rfl
    · split
      · rfl
      · rename_i x t'' hs
        rw [if_neg (by assumption), if_neg (by assumption), hs] at h
        exact absurd rfl (h x)

/-- **free preserves the invariant**: `free(x)` succeeds exactly when an entry starts at `x`, and removes that entry only -/
theorem free_inv {total : Nat} {t t' : Table} {x : Int} (ht : headerSize ≤ total) (hi : TInv total t)
    (h : free t x = some t') :
    TInv total t' ∧ ∃ a l : Nat, x = (a : Int) ∧ t.Perm ((a, l) :: t') := by
  obtain ⟨w, c⟩ := (Aux.tinv_wf ht).1 hi
  obtain ⟨w', a, l, hx, p⟩ := Aux.free_some w h
  refine ⟨(Aux.tinv_wf ht).2 ⟨w', ?_⟩, a, l, hx, p⟩
  have := p.length_eq
  simp only [List.length_cons] at this
  omega

/-- `free(x)` raises `ValueError` exactly when no entry starts at `x` (and then nothing changes) -/
theorem free_fails_iff (t : Table) (x : Int) : free t x = none ↔ ∀ e ∈ t, (e.1 : Int) ≠ x := Aux.free_none

/-- **completeness**: for a positive size, `allocate` returns `None` only when the table is full or no gap is large enough -/
theorem alloc_complete {total : Nat} {t : Table} {n : Int} (hn : 0 < n) :
    (allocate t n total).1 = .none ↔
      maxAllocs ≤ t.length ∨ ∀ g ∈ Spec.gaps headerSize total t, g.2 < n.toNat := by
  have hf := Aux.scan_find (n := n.toNat) (total := total) (by omega) headerSize t
  rw [Aux.allocate_eq, if_neg (by omega)]
  by_cases h2 : maxAllocs ≤ t.length
  · rw [if_pos h2]; exact ⟨fun _ => Or.inl h2, fun _ => rfl⟩
  · rw [if_neg h2]
    unfold Spec.gaps
    cases hs : scan n.toNat total headerSize t with
    | none =>
      rw [hs] at hf
      simp only [Option.map_none, eq_comm (a := none), Option.map_eq_none_iff, List.find?_eq_none, decide_eq_true_eq] at hf
      exact ⟨fun _ => Or.inr (fun g hg => by have := hf g hg; omega), fun _ => rfl⟩
    | some p =>
      obtain ⟨o, t'⟩ := p
      rw [hs] at hf
      simp only [Option.map_some] at hf
      constructor
      · intro h; cases h
      · intro h
        rcases h with h | h
        · exact absurd h h2
        · cases hfind : (Spec.gapsFrom total headerSize t).find? (fun g => decide (n.toNat ≤ g.2)) with
          | none => rw [hfind] at hf; cases hf
          | some g =>
            have hm := List.mem_of_find?_eq_some hfind
            have hp := List.find?_some hfind
            simp only [decide_eq_true_eq] at hp
            have := h g hm
            omega

/-- **first fit**: the offset returned is the start of the first gap (in address order) that is large enough, and
    no fitting gap starts lower -/
theorem alloc_firstfit {total : Nat} {t t' : Table} {n : Int} {o : Nat} (ht : headerSize ≤ total) (hi : TInv total t)
    (h : allocate t n total = (.some o, t')) :
    (∃ sz, (Spec.gaps headerSize total t).find? (fun g => decide (n.toNat ≤ g.2)) = some (o, sz)) ∧
      ∀ g ∈ Spec.gaps headerSize total t, n.toNat ≤ g.2 → o ≤ g.1 := by
  obtain ⟨hn, _, hs⟩ := Aux.allocate_some h
  obtain ⟨w, _⟩ := (Aux.tinv_wf ht).1 hi
  have hf := Aux.scan_find (n := n.toNat) (total := total) (by omega) headerSize t
  rw [hs] at hf
  unfold Spec.gaps
  cases hfind : (Spec.gapsFrom total headerSize t).find? (fun g => decide (n.toNat ≤ g.2)) with
  | none => rw [hfind] at hf; cases hf
  | some g =>
    rw [hfind] at hf
    simp only [Option.map_some, Option.some.injEq] at hf
    obtain ⟨g1, g2⟩ := g
    simp only at hf
    subst hf
    exact ⟨⟨g2, rfl⟩, Aux.find_lowest w hfind⟩

/-! ## Histories of the table -/

theorem tinv_nil (total : Nat) : TInv total [] :=
  ⟨List.Pairwise.nil, List.Pairwise.nil, fun _ he => (by cases he), Nat.zero_le _⟩

/-- the invariant survives an `allocate`, whatever it returns -/
theorem alloc_inv' {total : Nat} {t : Table} (n : Int) (ht : headerSize ≤ total) (hi : TInv total t) :
    TInv total (allocate t n total).2 := by
  cases h : allocate t n total with
  | mk r t' =>
    cases r with
    | some o => exact (alloc_inv ht hi h).1
    | none =>
      have := alloc_unchanged t n total (by rw [h]; intro o ho; cases ho)
      rw [h] at this; simp only at this; rw [this]; exact hi
    | valueError =>
      have := alloc_unchanged t n total (by rw [h]; intro o ho; cases ho)
      rw [h] at this; simp only at this; rw [this]; exact hi

theorem free_inv' {total : Nat} {t : Table} (x : Int) (ht : headerSize ≤ total) (hi : TInv total t) :
    TInv total ((free t x).getD t) := by
  cases h : free t x with
  | none => exact hi
  | some t' => exact (free_inv ht hi h).1

/-- one table-level step preserves the invariant -/
theorem tStep_inv {total : Nat} {t : Table} (op : Op) (ht : headerSize ≤ total) (hi : TInv total t) :
    TInv total (tStep total t op) := by
  cases op with
  | alloc n => exact alloc_inv' n ht hi
  | free x => exact free_inv' x ht hi
  | reset => exact tinv_nil total
  | write rb chunks =>
    simp only [tStep]
    have h1 := alloc_inv' (estimate rb) ht hi
    cases h : allocate t (estimate rb) total with
    | mk r t' =>
      rw [h] at h1
      cases r with
      | some o =>
        simp only
        split
        · split
          · exact free_inv' _ ht h1
          · exact h1
        · exact h1
      | none => exact h1
      | valueError => exact h1
  | writeDict data => exact alloc_inv' _ ht hi

/-- **every reachable table satisfies the invariant**: any sequence of `allocate` (any size, also ≤ 0), `free` (any
    offset, also never allocated), `reset` and batch writes, of any length, from the empty table -/
theorem C28_histories (total : Nat) (ht : headerSize ≤ total) (ops : List Op) : TInv total (tRun total [] ops) := by
  suffices h : ∀ t, TInv total t → TInv total (tRun total t ops) from h [] (tinv_nil total)
  induction ops with
  | nil => intro t h; exact h
  | cons op r ih => intro t h; exact ih _ (tStep_inv op ht h)

/-! ## Helper lemmas for the byte-level segment -/

namespace Aux

theorem pow_count : 256 ^ countWidth = 4294967296 := by decide
theorem pow_off : 256 ^ offWidth = 2 ^ 64 := by decide
theorem pow_len : 256 ^ lenWidth = 2 ^ 64 := by decide
theorem max_small : maxAllocs < 4294967296 := by decide

/-- a table satisfying the invariant of a segment below 2^64 bytes survives the header round trip -/
theorem codec_of_inv {total : Nat} {t : Table} (m : Mem) (h64 : total < 2 ^ 64) (hi : TInv total t) :
    readAllocs (writeAllocs m t) = t := by
  apply readAllocs_writeAllocs
  · rw [pow_count]; have := hi.count; have := max_small; omega
  · intro e he
    have := hi.within e he
    rw [pow_off, pow_len]
    omega

/-- the data region is the same in `m` and `m'` -/
def SameData (m m' : Mem) : Prop := ∀ i, headerSize ≤ i → m' i = m i

theorem SameData.refl (m : Mem) : SameData m m := fun _ _ => rfl
theorem SameData.trans {a b c : Mem} (h1 : SameData a b) (h2 : SameData b c) : SameData a c :=
  fun i hi => (h2 i hi).trans (h1 i hi)

theorem cAllocate_some {total : Nat} {m : Mem} {n : Int} {o : Nat} {t' : Table}
    (h : allocate (readAllocs m) n total = (.some o, t')) : cAllocate total m n = (writeAllocs m t', .some o) := by
  unfold cAllocate; rw [h]

theorem cAllocate_other {total : Nat} {m : Mem} {n : Int} {r : AllocOut} {t' : Table}
    (h : allocate (readAllocs m) n total = (r, t')) (hr : ∀ o, r ≠ .some o) : cAllocate total m n = (m, r) := by
  unfold cAllocate; rw [h]
  cases r with
  | some o => exact absurd rfl (hr o)
  | none => rfl
  | valueError => rfl

/-- `allocator.allocate` against the segment = `allocate` on the decoded table, and only the header changes -/
theorem cAllocate_spec {total : Nat} {m : Mem} (n : Int) (ht : headerSize ≤ total) (h64 : total < 2 ^ 64)
    (hi : TInv total (readAllocs m)) :
    readAllocs (cAllocate total m n).1 = (allocate (readAllocs m) n total).2 ∧
      (cAllocate total m n).2 = (allocate (readAllocs m) n total).1 ∧ SameData m (cAllocate total m n).1 := by
  cases h : allocate (readAllocs m) n total with
  | mk r t' =>
    cases r with
    | some o =>
      rw [cAllocate_some h]
      have hi' := (alloc_inv ht hi h).1
      exact ⟨codec_of_inv m h64 hi', rfl, fun i hi => writeAllocs_data m t' i hi'.count hi⟩
    | none =>
      rw [cAllocate_other h (by intro o ho; cases ho)]
      have := alloc_unchanged (readAllocs m) n total (by rw [h]; intro o ho; cases ho)
      rw [h] at this
      exact ⟨this.symm, rfl, SameData.refl m⟩
    | valueError =>
      rw [cAllocate_other h (by intro o ho; cases ho)]
      have := alloc_unchanged (readAllocs m) n total (by rw [h]; intro o ho; cases ho)
      rw [h] at this
      exact ⟨this.symm, rfl, SameData.refl m⟩

theorem cFree_spec {total : Nat} {m : Mem} (x : Int) (ht : headerSize ≤ total) (h64 : total < 2 ^ 64)
    (hi : TInv total (readAllocs m)) :
    readAllocs (cFree m x).1 = (free (readAllocs m) x).getD (readAllocs m) ∧
      ((cFree m x).2 = if (free (readAllocs m) x).isSome then .ok else .valueError) ∧ SameData m (cFree m x).1 := by
  unfold cFree
  cases h : free (readAllocs m) x with
  | none => exact ⟨rfl, rfl, SameData.refl m⟩
  | some t' =>
    have hi' := (free_inv ht hi h).1
    exact ⟨codec_of_inv m h64 hi', rfl, fun i hi => writeAllocs_data m t' i hi'.count hi⟩

theorem resetMem_spec (m : Mem) : readAllocs (resetMem m) = [] ∧ SameData m (resetMem m) := by
  constructor
  · unfold readAllocs readCount resetMem
    have := readBytes_writeAt m countOffset (leBytes countWidth 0)
    rw [leBytes_length] at this
    rw [this, leVal_leBytes]
    rfl
  · intro i hi
    unfold resetMem
    apply writeAt_outside
    rw [leBytes_length]
    have := table_fits; have := count_before_table
    omega

theorem sinkFor_eq (total o rb : Nat) : sinkFor total o rb = ⟨o, o, o + estimate rb⟩ := rfl

theorem feed_no_valueError {bufLen : Nat} : ∀ (chunks : List (List UInt8)) (s : Sink) (m : Mem),
    s.end_ ≤ bufLen → (feed bufLen s m chunks).2.2 ≠ .valueError
  | [], _, _, _ => by intro h; cases h
  | d :: r, s, m, hb => by
    rw [feed_cons]
    by_cases h1 : s.end_ < s.pos + d.length
    · rw [if_pos h1]; intro h; cases h
    · rw [if_neg h1, if_neg (by omega)]
      exact feed_no_valueError r _ _ hb

theorem readBytes_append (m : Mem) : ∀ (a p b : Nat), readBytes m p (a + b) = readBytes m p a ++ readBytes m (p + a) b
  | 0, p, b => by simp only [Nat.zero_add, readBytes, List.nil_append, Nat.add_zero]
  | a + 1, p, b => by
    have : a + 1 + b = (a + b) + 1 := by omega
    rw [this]
    simp only [readBytes, List.cons_append]
    rw [readBytes_append m a (p + 1) b]
    have : p + 1 + a = p + (a + 1) := by omega
    rw [this]

/-- after a completed write the region holds exactly the bytes that were handed over, in order -/
theorem feed_ok_content {bufLen : Nat} : ∀ (chunks : List (List UInt8)) {s : Sink} {m : Mem}, SinkOK s →
    (feed bufLen s m chunks).2.2 = .ok →
      readBytes (feed bufLen s m chunks).2.1 s.pos (nbytes chunks) = chunks.flatten
  | [], _, _, _, _ => rfl
  | d :: r, s, m, hs, h => by
    rw [feed_cons] at h ⊢
    by_cases h1 : s.end_ < s.pos + d.length
    · rw [if_pos h1] at h; cases h
    · rw [if_neg h1] at h ⊢
      by_cases h2 : s.pos + d.length > bufLen ∧ d.length ≠ 0
      · rw [if_pos h2] at h; cases h
      · rw [if_neg h2] at h ⊢
        have hs' : SinkOK { s with pos := s.pos + d.length } := ⟨by show s.start ≤ s.pos + d.length; have := hs.1; omega,
          by show s.pos + d.length ≤ s.end_; omega⟩
        have ih := feed_ok_content r hs' h
        have hc := (feed_contained (bufLen := bufLen) r (m := writeAt m s.pos d) hs').2.2
        simp only [nbytes, List.map_cons, List.sum_cons, List.flatten_cons]
        rw [readBytes_append]
        simp only [nbytes] at ih
        rw [ih]
        congr 1
        rw [readBytes_congr (m' := writeAt m s.pos d)]
        · exact readBytes_writeAt m s.pos d
        · intro i h3 h4
          exact hc i (Or.inl h4)

theorem readCount_init (m : Mem) (total : Nat) : readCount (initHeader m total) = 0 := by
  unfold readCount initHeader
  have hw : countWidth = 4 := rfl
  have ho : countOffset = 16 := rfl
  rw [hw, ho]
  simp only [readBytes]
  have h1 : headerFields.getD 1 0 = 4 := rfl
  have h2 : headerFields.getD 2 0 = 8 := rfl
  have h3 : headerFields.getD 3 0 = 4 := rfl
  have h4 : headerFields.getD 4 0 = 4 := rfl
  rw [h1, h2, h3, h4]
  simp [writeAt, leBytes, leVal]

theorem readAllocs_init (m : Mem) (total : Nat) : readAllocs (initHeader m total) = [] := by
  unfold readAllocs
  rw [readCount_init]
  rfl

theorem free_scan {n total : Nat} (hn : 0 < n) : ∀ {lo : Nat} {t : Table} {o : Nat} {t' : Table},
    WF total lo t → scan n total lo t = some (o, t') → free t' (o : Int) = some t
  | lo, [], o, t', h, hs => by
    rw [scan_nil] at hs
    split at hs
    · injection hs with hs; injection hs with h1 h2; subst h1; subst h2
      simp only [free, freeCmp_eval, decide_true, if_true]
    · cases hs
  | lo, (a, l) :: r, o, t', h, hs => by
    obtain ⟨h1, h2, h3⟩ := h
    rw [scan_cons] at hs
    split at hs
    · injection hs with hs; injection hs with e1 e2; subst e1; subst e2
      simp only [free, freeCmp_eval, decide_true, if_true]
    · split at hs
      · cases hs
      · rename_i x t'' hsc
        injection hs with hs; injection hs with e1 e2; subst e1; subst e2
        have ih := free_scan hn h3 hsc
        obtain ⟨_, _, lb, _, _⟩ := scan_some hn h3 hsc
        have hne : ¬ ((a : Int) = (x : Int)) := by omega
        simp only [free, freeCmp_eval, hne, decide_false, Bool.false_eq_true, if_false, ih, Option.map_some]

/-- result of the non-dictionary write path once `allocate` has returned `o` -/
structure FinishSpec (total : Nat) (m1 : Mem) (o rb : Nat) (chunks : List (List UInt8)) (t' : Table) (r : Mem × Out) : Prop where
  /-- nothing in the data region outside the new allocation changes -/
  contained : ∀ i, headerSize ≤ i → ¬ Spec.InRegion o (estimate rb) i → r.1 i = m1 i
  /-- either the batch fitted: it is stored, the table keeps the allocation; or it did not: allocation released, `None` -/
  outcome : (nbytes chunks ≤ estimate rb ∧ r.2 = .region o (nbytes chunks) ∧ readAllocs r.1 = t' ∧
                readBytes r.1 o (nbytes chunks) = chunks.flatten) ∨
            (estimate rb < nbytes chunks ∧ r.2 = .none ∧ readAllocs r.1 = (free t' o).getD t')
  /-- the outcome is the one `tStep` computes -/
  flag : (feed total (sinkFor total o rb) (fun _ => 0) chunks).2.2 = if nbytes chunks ≤ estimate rb then .ok else .overflow

theorem finishWrite_spec {total : Nat} {m1 : Mem} {o rb : Nat} {chunks : List (List UInt8)} {t' : Table}
    (ht : headerSize ≤ total) (h64 : total < 2 ^ 64) (hr : readAllocs m1 = t') (hi : TInv total t')
    (hmem : (o, estimate rb) ∈ t') : FinishSpec total m1 o rb chunks t' (finishWrite total m1 o rb chunks) := by
  have hw := hi.within _ hmem
  simp only at hw
  have hs0 : SinkOK (sinkFor total o rb) := ⟨Nat.le_refl _, by rw [sinkFor_eq]; show o ≤ o + estimate rb; omega⟩
  have hcont := feed_contained (bufLen := total) chunks (m := m1) hs0
  have hnv := feed_no_valueError (bufLen := total) chunks (sinkFor total o rb) m1 (by rw [sinkFor_eq]; exact hw.2.1)
  have hind := feed_indep (bufLen := total) chunks (sinkFor total o rb) m1 (fun _ => 0)
  have hfits := fun h => feed_fits (bufLen := total) chunks (s := sinkFor total o rb) (m := m1) h (by rw [sinkFor_eq]; exact hw.2.1)
  have hokfits := feed_ok_fits (bufLen := total) (chunks := chunks) (m := m1) hs0
  have hokpos := feed_ok_pos (bufLen := total) chunks (s := sinkFor total o rb) (m := m1)
  have hokcont := feed_ok_content (bufLen := total) chunks (m := m1) hs0
  unfold finishWrite
  generalize feed total (sinkFor total o rb) m1 chunks = w at *
  obtain ⟨s, m2, res⟩ := w
  simp only [sinkFor_eq] at hcont hfits hokfits hokpos hokcont
  simp only at hcont hnv hind hfits hokfits hokpos hokcont
  obtain ⟨_, hstart, hm2⟩ := hcont
  -- the header (hence the table) is untouched by the data write
  have hhdr : readAllocs m2 = t' := by
    rw [← hr]
    symm
    apply readAllocs_congr
    · intro i hi'; exact (hm2 i (Or.inl (by omega))).symm
    · rw [← readAllocs_length, hr]; exact hi.count
  have hdata : ∀ i, headerSize ≤ i → ¬ Spec.InRegion o (estimate rb) i → m2 i = m1 i := by
    intro i _ hni
    apply hm2
    unfold Spec.InRegion at hni
    omega
  cases res with
  | valueError => exact absurd rfl hnv
  | ok =>
    have hfit := hokfits rfl
    obtain ⟨hp, _⟩ := hokpos rfl
    have hlen : s.pos - s.start = nbytes chunks := by rw [hp, hstart]; omega
    refine ⟨hdata, Or.inl ⟨by omega, ?_, hhdr, hokcont rfl⟩, ?_⟩
    · show (if returnsBytesWritten then Out.region o (s.pos - s.start) else Out.valueError) = _
      rw [hlen]; rfl
    · rw [← hind.2, if_pos (by omega)]
  | overflow =>
    have hnf : ¬ o + nbytes chunks ≤ o + estimate rb := by
      intro h; have := hfits h; cases this
    have hfree : (free t' (o : Int)).isSome = true := by
      cases hfr : free t' (o : Int) with
      | some _ => rfl
      | none => exact absurd rfl ((free_fails_iff _ _).1 hfr _ hmem)
    obtain ⟨f1, f2, f3⟩ := cFree_spec (m := m2) (o : Int) ht h64 (by rw [hhdr]; exact hi)
    rw [hhdr, hfree] at f2
    rw [hhdr] at f1
    simp only [if_true] at f2
    refine ⟨?_, Or.inr ⟨by omega, ?_, ?_⟩, ?_⟩
    · intro i h1 h2
      show (if overflowFrees then (match cFree m2 o with | (m3, .ok) => (m3, Out.none) | (m3, _) => (m3, Out.valueError))
        else (m2, Out.valueError)).1 i = m1 i
      rw [if_pos (show overflowFrees = true from rfl)]
      generalize cFree m2 (o : Int) = c at f1 f2 f3
      obtain ⟨m3, oc⟩ := c
      simp only at f2; subst f2
      exact (f3 i h1).trans (hdata i h1 h2)
    · show (if overflowFrees then (match cFree m2 o with | (m3, .ok) => (m3, Out.none) | (m3, _) => (m3, Out.valueError))
        else (m2, Out.valueError)).2 = Out.none
      rw [if_pos (show overflowFrees = true from rfl)]
      generalize cFree m2 (o : Int) = c at f1 f2 f3
      obtain ⟨m3, oc⟩ := c
      simp only at f2; subst f2; rfl
    · show readAllocs (if overflowFrees then (match cFree m2 o with | (m3, .ok) => (m3, Out.none) | (m3, _) => (m3, Out.valueError))
        else (m2, Out.valueError)).1 = _
      rw [if_pos (show overflowFrees = true from rfl)]
      generalize cFree m2 (o : Int) = c at f1 f2 f3
      obtain ⟨m3, oc⟩ := c
      simp only at f2; subst f2; exact f1
    · rw [← hind.2, if_neg (by omega)]

end Aux

namespace Aux

theorem estimate_pos (rb : Nat) : (0 : Int) < (estimate rb : Nat) := by
  unfold estimate
  have : 0 < streamOverhead := by decide
  omega

theorem allocate_not_valueError {t : Table} {n : Int} {total : Nat} (hn : 0 < n) : (allocate t n total).1 ≠ .valueError := by
  rw [allocate_eq, if_neg (by omega)]
  split
  · intro h; cases h
  · split
    · intro h; cases h
    · intro h; cases h

/-- live regions lie in the data region, so a step that only rewrites the header preserves them -/
theorem live_of_sameData {total : Nat} {t : Table} {m m' : Mem} (hi : TInv total t) (h : SameData m m') :
    Spec.LivePreserved t m m' := by
  intro e he i hin
  have := hi.within e he
  exact h i (by unfold Spec.InRegion at hin; omega)

end Aux

/-! ## The byte-level segment -/

/-- **table encode/decode round trip**: what `_write_allocs` stores, `_read_allocs` reads back — for every table of at
    most 2^32-1 entries whose offsets and lengths fit 64 bits, in any memory -/
theorem table_codec_rt (m : Mem) (t : Table) (hc : t.length < 2 ^ 32) (he : ∀ e ∈ t, e.1 < 2 ^ 64 ∧ e.2 < 2 ^ 64) :
    readAllocs (writeAllocs m t) = t := by
  apply Aux.readAllocs_writeAllocs
  · rw [Aux.pow_count]; omega
  · rw [Aux.pow_off, Aux.pow_len]; exact he

/-- **the header table never spills into the data region**: `_write_allocs` of at most `MAX_ALLOCS` entries changes
    bytes below `HEADER_SIZE` only (the count field and `[24, 24 + 16·len)`) -/
theorem table_write_footprint (m : Mem) (t : Table) (hl : t.length ≤ maxAllocs) (i : Nat) (hi : headerSize ≤ i) :
    writeAllocs m t i = m i := Aux.writeAllocs_data m t i hl hi

/-- **extent of the header write**: `_write_allocs` changes nothing outside the count field and
    `[tableBase, tableBase + entrySize·(len + writeTrailingSlots))` — the entry loop and any trailing write included -/
theorem table_write_extent (m : Mem) (t : Table) (i : Nat)
    (h1 : i < countOffset ∨ countOffset + countWidth ≤ i)
    (h2 : i < tableBase ∨ tableBase + entrySize * (t.length + writeTrailingSlots) ≤ i) :
    writeAllocs m t i = m i := Aux.writeAllocs_outside m t i h1 h2

/-- **header region and data region are disjoint, over the extracted layout constants**: the count field lies before
    the table, and the table write of a full table (`MAX_ALLOCS` entries plus every trailing slot the source writes)
    ends at or before `HEADER_SIZE`, where the data region starts -/
theorem header_data_disjoint :
    countOffset + countWidth ≤ tableBase ∧
      tableBase + entrySize * (maxAllocs + writeTrailingSlots) ≤ headerSize :=
  ⟨Aux.count_before_table, Aux.write_extent_fits⟩

/-- **the table is a function of the header bytes only**: bytes at or above `HEADER_SIZE` never influence `_read_allocs`
    while the count is within `MAX_ALLOCS` -/
theorem table_read_footprint (m m' : Mem) (h : ∀ i, i < headerSize → m i = m' i) (hc : readCount m ≤ maxAllocs) :
    readAllocs m = readAllocs m' := Aux.readAllocs_congr h hc

/-! ## The sink -/

/-- **write containment, for every caller**: a sink created for the region `[o, o + limit)` never changes a byte
    outside that region — whatever buffers are passed to `write`, however many, even after a refusal -/
theorem sink_contained (bufLen o limit : Nat) (m : Mem) (chunks : List (List UInt8)) :
    Spec.UnchangedOutside m (feedAll bufLen ⟨o, o, o + limit⟩ m chunks).2 o limit := by
  intro i hi
  apply Aux.feedAll_contained chunks (s := ⟨o, o, o + limit⟩) ⟨Nat.le_refl _, Nat.le_add_right _ _⟩
  unfold Spec.InRegion at hi
  simp only
  omega

/-- **the bound refuses nothing that fits**: if the bytes handed over fit the region (and the region lies in the
    buffer) every `write` succeeds and the region then holds exactly those bytes -/
theorem sink_accepts_fitting (bufLen o limit : Nat) (m : Mem) (chunks : List (List UInt8))
    (hfit : Aux.nbytes chunks ≤ limit) (hb : o + limit ≤ bufLen) :
    (feed bufLen ⟨o, o, o + limit⟩ m chunks).2.2 = .ok ∧
      readBytes (feed bufLen ⟨o, o, o + limit⟩ m chunks).2.1 o (Aux.nbytes chunks) = chunks.flatten := by
  have h := Aux.feed_fits (bufLen := bufLen) chunks (s := ⟨o, o, o + limit⟩) (m := m) (by simp only; omega) hb
  exact ⟨h, Aux.feed_ok_content chunks (s := ⟨o, o, o + limit⟩) ⟨Nat.le_refl _, Nat.le_add_right _ _⟩ h⟩

/-! ## `allocate_and_write` and whole histories of the segment -/

/-- **a batch write never alters another live batch, never leaves its own allocation, never corrupts the table**
    (non-dictionary path; `chunks` = whatever Arrow's writer passes to the sink, `rb` = whatever
    `get_record_batch_size` returned — no assumption relates them).  Either the batch fitted its allocation — it is
    stored at `o`, reads back byte for byte, the table gained exactly `(o, rb + _STREAM_OVERHEAD)`, and no byte of the
    data region outside that allocation changed — or `None` is returned, the table is exactly what it was, and that
    happens only if the batch was larger than its allocation, or `allocate` found the table full / no gap. -/
theorem C28_write {total : Nat} {m : Mem} (rb : Nat) (chunks : List (List UInt8)) (ht : headerSize ≤ total)
    (h64 : total < 2 ^ 64) (hi : TInv total (readAllocs m)) :
    Spec.LivePreserved (readAllocs m) m (cWrite total m rb chunks).1 ∧
    TInv total (readAllocs (cWrite total m rb chunks).1) ∧
    readAllocs (cWrite total m rb chunks).1 = tStep total (readAllocs m) (.write rb chunks) ∧
    ((∃ o, (cWrite total m rb chunks).2 = .region o (Aux.nbytes chunks) ∧ Aux.nbytes chunks ≤ estimate rb ∧
          Spec.Inserted (readAllocs m) (o, estimate rb) (readAllocs (cWrite total m rb chunks).1) ∧
          readBytes (cWrite total m rb chunks).1 o (Aux.nbytes chunks) = chunks.flatten ∧
          ∀ i, headerSize ≤ i → ¬ Spec.InRegion o (estimate rb) i → (cWrite total m rb chunks).1 i = m i) ∨
     ((cWrite total m rb chunks).2 = .none ∧ readAllocs (cWrite total m rb chunks).1 = readAllocs m ∧
          (estimate rb < Aux.nbytes chunks ∨ (allocate (readAllocs m) (estimate rb) total).1 = .none))) := by
  obtain ⟨a1, a2, a3⟩ := Aux.cAllocate_spec (m := m) (estimate rb) ht h64 hi
  have hpos := Aux.estimate_pos rb
  have hnv := Aux.allocate_not_valueError (t := readAllocs m) (total := total) hpos
  unfold cWrite
  simp only [tStep]
  cases h : allocate (readAllocs m) (estimate rb) total with
  | mk r t' =>
    rw [h] at a1 a2 hnv
    simp only at a1 a2 hnv
    cases r with
    | valueError => exact absurd rfl hnv
    | none =>
      have hu := alloc_unchanged (readAllocs m) (estimate rb) total (by rw [h]; intro o ho; cases ho)
      rw [h] at hu; simp only at hu; subst hu
      generalize cAllocate total m (estimate rb) = c at a1 a2 a3
      obtain ⟨m1, r1⟩ := c
      simp only at a1 a2 a3; subst a2
      simp only
      exact ⟨Aux.live_of_sameData hi a3, by rw [a1]; exact hi, a1, Or.inr ⟨trivial, a1, Or.inr trivial⟩⟩
    | some o =>
      obtain ⟨hi', hn, hins, hlo, hhi, hfresh⟩ := alloc_inv ht hi h
      have hest : ((estimate rb : Nat) : Int).toNat = estimate rb := by omega
      rw [hest] at hins hhi hfresh
      have hmem : (o, estimate rb) ∈ t' := hins.mem_iff.2 (List.mem_cons_self ..)
      generalize cAllocate total m (estimate rb) = c at a1 a2 a3
      obtain ⟨m1, r1⟩ := c
      simp only at a1 a2 a3; subst a2
      simp only
      have fs := Aux.finishWrite_spec (chunks := chunks) ht h64 a1 hi' hmem
      obtain ⟨w, _⟩ := (Aux.tinv_wf ht).1 hi
      have hfree := Aux.free_scan (by omega) w (Aux.allocate_some h).2.2
      have hlive : Spec.LivePreserved (readAllocs m) m (finishWrite total m1 o rb chunks).1 := by
        intro e he i hin
        have hw := hi.within e he
        have hd := hfresh e he
        unfold Spec.InRegion at hin
        have hge : headerSize ≤ i := by omega
        rw [fs.contained i hge (by unfold Spec.InRegion Spec.Disjoint at *; omega)]
        exact a3 i hge
      rw [fs.flag]
      rcases fs.outcome with ⟨f1, f2, f3, f4⟩ | ⟨f1, f2, f3⟩
      · rw [if_pos f1]
        refine ⟨hlive, by rw [f3]; exact hi', f3, Or.inl ⟨o, f2, f1, by rw [f3]; exact hins, f4, ?_⟩⟩
        intro i h1 h2
        rw [fs.contained i h1 h2]
        exact a3 i h1
      · rw [if_neg (by omega)]
        rw [hfree] at f3
        simp only [Option.getD_some] at f3
        refine ⟨hlive, by rw [f3]; exact hi, ?_, Or.inr ⟨f2, f3, Or.inl f1⟩⟩
        rw [f3, if_pos (show overflowFrees = true from rfl), hfree]
        rfl

/-- **dictionary path**: `allocate(len(data))` then one slice assignment of exactly `len(data)` bytes — same guarantees -/
theorem C28_write_dict {total : Nat} {m : Mem} (data : List UInt8) (ht : headerSize ≤ total)
    (h64 : total < 2 ^ 64) (hi : TInv total (readAllocs m)) :
    Spec.LivePreserved (readAllocs m) m (cWriteDict total m data).1 ∧
    TInv total (readAllocs (cWriteDict total m data).1) ∧
    readAllocs (cWriteDict total m data).1 = tStep total (readAllocs m) (.writeDict data) ∧
    (∀ o len, (cWriteDict total m data).2 = .region o len → len = data.length ∧
        Spec.Inserted (readAllocs m) (o, data.length) (readAllocs (cWriteDict total m data).1) ∧
        readBytes (cWriteDict total m data).1 o data.length = data ∧
        ∀ i, headerSize ≤ i → ¬ Spec.InRegion o data.length i → (cWriteDict total m data).1 i = m i) := by
  obtain ⟨a1, a2, a3⟩ := Aux.cAllocate_spec (m := m) (data.length : Int) ht h64 hi
  have hinv := alloc_inv' (data.length : Int) ht hi
  unfold cWriteDict
  simp only [tStep]
  cases h : allocate (readAllocs m) (data.length : Int) total with
  | mk r t' =>
    rw [h] at a1 a2 hinv
    simp only at a1 a2 hinv
    generalize cAllocate total m (data.length : Int) = c at a1 a2 a3
    obtain ⟨m1, r1⟩ := c
    simp only at a1 a2 a3; subst a2
    simp only
    cases r1 with
    | valueError =>
      exact ⟨Aux.live_of_sameData hi a3, by rw [a1]; exact hinv, a1, fun o len ho => by cases ho⟩
    | none =>
      exact ⟨Aux.live_of_sameData hi a3, by rw [a1]; exact hinv, a1, fun o len ho => by cases ho⟩
    | some o =>
      obtain ⟨hi', hn, hins, hlo, hhi, hfresh⟩ := alloc_inv ht hi h
      have hest : ((data.length : Nat) : Int).toNat = data.length := by omega
      rw [hest] at hins hhi hfresh
      simp only
      have hhdr : readAllocs (writeAt m1 o data) = t' := by
        rw [← a1]; symm
        apply Aux.readAllocs_congr
        · intro i hi''; exact (Aux.writeAt_outside (Or.inl (by omega))).symm
        · rw [← Aux.readAllocs_length, a1]; exact hi'.count
      refine ⟨?_, by rw [hhdr]; exact hi', hhdr, ?_⟩
      · intro e he i hin
        have hw := hi.within e he
        have hd := hfresh e he
        unfold Spec.InRegion at hin
        rw [Aux.writeAt_outside (by unfold Spec.Disjoint at hd; omega)]
        exact a3 i (by omega)
      · intro o' len ho
        injection ho with h1 h2
        subst h1; subst h2
        refine ⟨rfl, by rw [hhdr]; exact hins, Aux.readBytes_writeAt m1 o data, ?_⟩
        intro i h1 h2
        rw [Aux.writeAt_outside (by unfold Spec.InRegion at h2; omega)]
        exact a3 i h1

/-- **every call on the segment refines the table-level step and alters no live batch**: for `allocate`, `free`, `reset`
    and both write paths, the table decoded from the header afterwards is the table-level result, and every byte of
    every region that was live before the call is unchanged -/
theorem C28_step {total : Nat} {m : Mem} (op : Op) (ht : headerSize ≤ total) (h64 : total < 2 ^ 64)
    (hi : TInv total (readAllocs m)) :
    readAllocs (cStep total m op).1 = tStep total (readAllocs m) op ∧
      Spec.LivePreserved (readAllocs m) m (cStep total m op).1 := by
  cases op with
  | alloc n =>
    obtain ⟨a1, a2, a3⟩ := Aux.cAllocate_spec (m := m) n ht h64 hi
    simp only [cStep, tStep]
    generalize cAllocate total m n = c at a1 a2 a3
    obtain ⟨m1, r1⟩ := c
    cases r1 <;> exact ⟨a1, Aux.live_of_sameData hi a3⟩
  | free x =>
    obtain ⟨a1, _, a3⟩ := Aux.cFree_spec (m := m) x ht h64 hi
    exact ⟨a1, Aux.live_of_sameData hi a3⟩
  | reset =>
    obtain ⟨a1, a3⟩ := Aux.resetMem_spec m
    exact ⟨a1, Aux.live_of_sameData hi a3⟩
  | write rb chunks =>
    obtain ⟨a, _, c, _⟩ := C28_write rb chunks ht h64 hi
    exact ⟨c, a⟩
  | writeDict data =>
    obtain ⟨a, _, c, _⟩ := C28_write_dict data ht h64 hi
    exact ⟨c, a⟩

/-- **all histories of a real segment**: from `initialize`, after any sequence of calls (any sizes, any offsets, any
    batches, any length), the table decoded from the header is the table-level history and satisfies the invariant -/
theorem C28_reachable (total : Nat) (ht : headerSize ≤ total) (h64 : total < 2 ^ 64) (m0 : Mem) (ops : List Op) :
    readAllocs (cRun total (initHeader m0 total) ops) = tRun total [] ops ∧
      TInv total (readAllocs (cRun total (initHeader m0 total) ops)) := by
  suffices h : ∀ (m : Mem) (t : Table), readAllocs m = t → TInv total t →
      readAllocs (cRun total m ops) = tRun total t ops ∧ TInv total (readAllocs (cRun total m ops)) from
    h _ _ (Aux.readAllocs_init m0 total) (tinv_nil total)
  induction ops with
  | nil => intro m t h hi; exact ⟨h, by show TInv total (readAllocs m); rw [h]; exact hi⟩
  | cons op r ih =>
    intro m t h hi
    subst h
    have hs := (C28_step op ht h64 hi).1
    exact ih _ _ hs (tStep_inv op ht hi)

/-! ## Non-vacuity: the hypotheses are satisfiable and the operations do something -/

/-- a segment of 64 data bytes with two live regions and a 16-byte hole between them -/
example : TInv 65600 [(65536, 16), (65568, 16)] :=
  (Aux.tinv_wf (by decide)).2 ⟨⟨by decide, by decide, by decide, by decide, show 65568 + 16 ≤ 65600 by decide⟩, by decide⟩
/-- first fit takes the hole, the tail gap would fit too -/
example : allocate [(65536, 16), (65568, 16)] 16 65616 = (.some 65552, [(65536, 16), (65552, 16), (65568, 16)]) := by decide
example : Spec.gaps headerSize 65616 [(65536, 16), (65568, 16)] = [(65536, 0), (65552, 16), (65584, 32)] := by decide
/-- one byte more than the largest gap: `None`, although 48 bytes are free in total -/
example : allocate [(65536, 16), (65568, 16)] 33 65616 = (.none, [(65536, 16), (65568, 16)]) := by decide
example : allocate [(65536, 16)] 0 65616 = (.valueError, [(65536, 16)]) := by decide
example : free [(65536, 16), (65552, 16), (65568, 16)] 65552 = some [(65536, 16), (65568, 16)] := by decide
example : free [(65536, 16), (65568, 16)] 65552 = none := by decide
/-- a full table refuses even though the whole data region is free behind it -/
example : (allocate (List.replicate maxAllocs (65536, 0)) 1 1000000).1 = .none := by decide +kernel
/-- a history that exercises every kind of step -/
example : tRun 65616 [] [.alloc 16, .alloc 16, .alloc 16, .free 65552, .alloc 0, .free 1, .alloc 8, .alloc 9] =
    [(65536, 16), (65552, 8), (65568, 16), (65584, 9)] := by decide
/-- the bounded sink: 6 bytes into a 4-byte region are refused, 4 bytes are accepted -/
example : ((⟨100, 100, 104⟩ : Sink).write 1000 (fun _ => 0) [1, 2, 3, 4, 5, 6]).2.2 = .overflow := by decide
example : ((⟨100, 100, 104⟩ : Sink).write 1000 (fun _ => 0) [1, 2, 3, 4]).2.2 = .ok := by decide
/-- a write whose stream is larger than `rb + _STREAM_OVERHEAD` is refused and the table is what it was -/
example : tStep 200000 [(65536, 100)] (.write 4 [List.replicate 4000 0, List.replicate 200 0]) = [(65536, 100)] := by decide +kernel
example : tStep 200000 [(65536, 100)] (.write 4 [List.replicate 4000 0, List.replicate 100 0]) = [(65536, 100), (65636, 4100)] := by
  decide +kernel

end VgiVerif.C28
