import VgiVerif.Lemmas.C28
/-
C28 property theorems (obligations).  Helper lemmas: `Lemmas/C28.lean` (namespace `Aux`).

Everything is stated over the extracted constants (`Gen.C28Shm`): `HEADER_SIZE`, `MAX_ALLOCS`, the struct
layouts, the comparison operators of `allocate` / `free`, and the shape of the sink and of
`allocate_and_write`.  A source edit that changes one of them changes these statements or breaks their proofs.
-/
namespace VgiVerif.C28
open VgiVerif.Gen.C28Shm

/-- the table invariant of the property at the extracted constants: sorted, non-overlapping, every entry a
    non-empty region inside `[HEADER_SIZE, total]`, at most `MAX_ALLOCS` entries -/
abbrev TInv (total : Nat) (t : Table) : Prop := Spec.Inv headerSize total maxAllocs t

namespace Aux

theorem tinv_wf {total : Nat} {t : Table} (ht : headerSize ≤ total) :
    TInv total t ↔ WF total headerSize t ∧ t.length ≤ maxAllocs := by
  constructor
  · intro h; exact ⟨spec_WF ht h.nonOverlap h.within, h.count⟩
  · intro ⟨w, c⟩
    obtain ⟨a, b, d⟩ := WF_spec w
    exact ⟨a, b, d, c⟩

theorem sizeGuard_eval (a b : Int) : sizeGuardCmp.eval a b = decide (a ≤ b) := rfl
theorem full_eval (a b : Int) : fullCmp.eval a b = decide (b ≤ a) := rfl

/-- `allocate` in arithmetic form (the extracted guards plugged in) -/
theorem allocate_eq (t : Table) (n : Int) (total : Nat) :
    allocate t n total =
      if n ≤ 0 then (.valueError, t)
      else if maxAllocs ≤ t.length then (.none, t)
      else match scan n.toNat total headerSize t with
        | none => (.none, t)
        | some (o, t') => (.some o, t') := by
  unfold allocate
  simp only [sizeGuard_eval, full_eval, decide_eq_true_eq]
  by_cases h1 : n ≤ 0
  · rw [if_pos h1, if_pos h1]
  · rw [if_neg h1, if_neg h1]
    by_cases h2 : maxAllocs ≤ t.length
    · rw [if_pos h2, if_pos (by omega)]
    · rw [if_neg h2, if_neg (by omega)]
      cases scan n.toNat total headerSize t with
      | none => rfl
      | some p => cases p; rfl

/-- what a successful `allocate` means in terms of `scan` -/
theorem allocate_some {t : Table} {n : Int} {total o : Nat} {t' : Table} (h : allocate t n total = (.some o, t')) :
    0 < n ∧ t.length < maxAllocs ∧ scan n.toNat total headerSize t = some (o, t') := by
  rw [allocate_eq] at h
  split at h
  · cases h
  · split at h
    · cases h
    · split at h
      · cases h
      · rename_i x t'' hs
        injection h with h1 h2; injection h1 with h1; subst h1; subst h2
        exact ⟨by omega, by omega, hs⟩

end Aux

/-! ## Shapes the model relies on (any unrecognised source shape makes this fail) -/

theorem C28_shapes :
    allocateBodyRecognised = true ∧ freeBodyRecognised = true ∧ tableAccessRecognised = true ∧
    countSitesAgree = true ∧ littleEndian = true ∧ resetRecognised = true ∧ initializeRecognised = true ∧
    sinkShapeRecognised = true ∧ sinkBounded = true ∧ sinkSticky = true ∧ sinkLimitIsEstimate = true ∧
    estimateIsBatchPlusOverhead = true ∧ overflowFrees = true ∧ returnsBytesWritten = true ∧ dictPathExact = true ∧
    -- the count field the accessors use is the `num_allocs` field of the header layout, the table starts right after
    -- the fixed header, and `MAX_ALLOCS` entries end inside the header
    countOffset = (headerFields.take 3).sum ∧ countWidth = headerFields.getD 3 0 ∧ tableBase = headerFields.sum ∧
    entryFields = [8, 8] ∧ entrySize = entryFields.sum ∧ tableBase + entrySize * maxAllocs ≤ headerSize ∧
    maxAllocs < 256 ^ countWidth := by
  decide

/-! ## The allocation table -/

/-- **allocate preserves the invariant**: a successful `allocate(n)` had `n > 0`, adds exactly the entry `(o, n)`,
    the new region lies in the data region and is disjoint from every region that was live -/
theorem alloc_inv {total : Nat} {t t' : Table} {n : Int} {o : Nat} (ht : headerSize ≤ total) (hi : TInv total t)
    (h : allocate t n total = (.some o, t')) :
    TInv total t' ∧ 0 < n ∧ Spec.Inserted t (o, n.toNat) t' ∧ headerSize ≤ o ∧ o + n.toNat ≤ total ∧
      ∀ e ∈ t, Spec.Disjoint o n.toNat e.1 e.2 := by
  obtain ⟨hn, hlen, hs⟩ := Aux.allocate_some h
  obtain ⟨w, c⟩ := (Aux.tinv_wf ht).1 hi
  obtain ⟨w', p, lb, ub, fr⟩ := Aux.scan_some (by omega) w hs
  refine ⟨(Aux.tinv_wf ht).2 ⟨w', ?_⟩, hn, p, lb, ub, fr⟩
  rw [Aux.scan_length hs]; omega

/-- an `allocate` that does not return an offset leaves the table as it was -/
theorem alloc_unchanged (t : Table) (n : Int) (total : Nat) (h : ∀ o, (allocate t n total).1 ≠ .some o) :
    (allocate t n total).2 = t := by
  rw [Aux.allocate_eq] at h ⊢
  split
  · rfl
  · split
    · rfl
    · split
      · rfl
      · rename_i x t'' hs
        rw [if_neg (by assumption), if_neg (by assumption), hs] at h
        exact absurd rfl (h x)

/-- **free preserves the invariant**: `free(x)` succeeds exactly when an entry starts at `x`, and removes that entry only -/
theorem free_inv {total : Nat} {t t' : Table} {x : Int} (ht : headerSize ≤ total) (hi : TInv total t)
    (h : free t x = some t') :
    TInv total t' ∧ ∃ a l : Nat, x = (a : Int) ∧ t.Perm ((a, l) :: t') := by
  obtain ⟨w, c⟩ := (Aux.tinv_wf ht).1 hi
  obtain ⟨w', a, l, hx, p⟩ := Aux.free_some w h
  refine ⟨(Aux.tinv_wf ht).2 ⟨w', ?_⟩, a, l, hx, p⟩
  have := p.length_eq
  simp only [List.length_cons] at this
  omega

/-- `free(x)` raises `ValueError` exactly when no entry starts at `x` (and then nothing changes) -/
theorem free_fails_iff (t : Table) (x : Int) : free t x = none ↔ ∀ e ∈ t, (e.1 : Int) ≠ x := Aux.free_none

/-- **completeness**: for a positive size, `allocate` returns `None` only when the table is full or no gap is large enough -/
theorem alloc_complete {total : Nat} {t : Table} {n : Int} (hn : 0 < n) :
    (allocate t n total).1 = .none ↔
      maxAllocs ≤ t.length ∨ ∀ g ∈ Spec.gaps headerSize total t, g.2 < n.toNat := by
  have hf := Aux.scan_find (n := n.toNat) (total := total) (by omega) headerSize t
  rw [Aux.allocate_eq, if_neg (by omega)]
  by_cases h2 : maxAllocs ≤ t.length
  · rw [if_pos h2]; exact ⟨fun _ => Or.inl h2, fun _ => rfl⟩
  · rw [if_neg h2]
    unfold Spec.gaps
    cases hs : scan n.toNat total headerSize t with
    | none =>
      rw [hs] at hf
      simp only [Option.map_none, eq_comm (a := none), Option.map_eq_none_iff, List.find?_eq_none, decide_eq_true_eq] at hf
      exact ⟨fun _ => Or.inr (fun g hg => by have := hf g hg; omega), fun _ => rfl⟩
    | some p =>
      obtain ⟨o, t'⟩ := p
      rw [hs] at hf
      simp only [Option.map_some] at hf
      constructor
      · intro h; cases h
      · intro h
        rcases h with h | h
        · exact absurd h h2
        · cases hfind : (Spec.gapsFrom total headerSize t).find? (fun g => decide (n.toNat ≤ g.2)) with
          | none => rw [hfind] at hf; cases hf
          | some g =>
            have hm := List.mem_of_find?_eq_some hfind
            have hp := List.find?_some hfind
            simp only [decide_eq_true_eq] at hp
            have := h g hm
            omega

/-- **first fit**: the offset returned is the start of the first gap (in address order) that is large enough, and
    no fitting gap starts lower -/
theorem alloc_firstfit {total : Nat} {t t' : Table} {n : Int} {o : Nat} (ht : headerSize ≤ total) (hi : TInv total t)
    (h : allocate t n total = (.some o, t')) :
    (∃ sz, (Spec.gaps headerSize total t).find? (fun g => decide (n.toNat ≤ g.2)) = some (o, sz)) ∧
      ∀ g ∈ Spec.gaps headerSize total t, n.toNat ≤ g.2 → o ≤ g.1 := by
  obtain ⟨hn, _, hs⟩ := Aux.allocate_some h
  obtain ⟨w, _⟩ := (Aux.tinv_wf ht).1 hi
  have hf := Aux.scan_find (n := n.toNat) (total := total) (by omega) headerSize t
  rw [hs] at hf
  unfold Spec.gaps
  cases hfind : (Spec.gapsFrom total headerSize t).find? (fun g => decide (n.toNat ≤ g.2)) with
  | none => rw [hfind] at hf; cases hf
  | some g =>
    rw [hfind] at hf
    simp only [Option.map_some, Option.some.injEq] at hf
    obtain ⟨g1, g2⟩ := g
    simp only at hf
    subst hf
    exact ⟨⟨g2, rfl⟩, Aux.find_lowest w hfind⟩

end VgiVerif.C28
