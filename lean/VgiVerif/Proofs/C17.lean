import VgiVerif.Model.C17
import VgiVerif.Spec.C17
import VgiVerif.Proofs.C18
/-
C17 theorems.  Helper lemmas in `Aux`; obligations at the bottom.  `_partial` = proved for requests that carry a
Content-Length (see Spec/C17.lean for the full statements and Findings/C17.lean for why they fail without one).
-/
namespace VgiVerif.C17
open VgiVerif.Codec VgiVerif.HdrStr Spec

namespace Aux

/-! ### extracted shapes -/
theorem guard_post : Gen.ReqBody.exemptGuard = "method_not_post" := by decide
theorem cl_gt (a b : Nat) : cmp Gen.ReqBody.contentLengthCmp a b = decide (b < a) := by simp [cmp, Gen.ReqBody.contentLengthCmp]
theorem chunked_gt (a b : Nat) : cmp Gen.ReqBody.chunkedCmp a b = decide (b < a) := by simp [cmp, Gen.ReqBody.chunkedCmp]
theorem st_wire : Gen.ReqBody.wireTooLargeStatus = 413 := rfl
theorem st_decoded : Gen.ReqBody.decodedTooLargeStatus = 413 := rfl
theorem st_unknown : Gen.ReqBody.unknownStatus = 415 := rfl
theorem st_disabled : Gen.ReqBody.disabledStatus = 415 := rfl
theorem st_undecodable : Gen.ReqBody.undecodableStatus = 400 := rfl
theorem identity_pass : Gen.ReqBody.identityPassThrough = true := rfl
theorem limit_first : Gen.ReqBody.limitHandlerFirst = true := rfl
theorem decoded_cap : Gen.ReqBody.decodedCapIsRequestCap = true := rfl
theorem wiring : Gen.ReqBody.wireCapBeforeDecode = true ∧ Gen.ReqBody.requestStreamOrderOk = true ∧
    Gen.ReqBody.capMiddlewareConditional = true := by decide

theorem ofValue_nil : Enc.ofValue [] = none := by decide

theorem not_exempt_post (cfg : Cfg) (r : Req) (h : r.verb = post) : exempted cfg r = false := by
  simp [exempted, guard_post, h]

/-- the wire cap lets a request with Content-Length `n ≤ c` (or an uncapped server) through, untouched -/
theorem wireCap_ok (cfg : Cfg) (r : Req) (n : Nat) (hcl : r.contentLength = some n)
    (hn : ∀ c, cfg.cap = some c → n ≤ c) : wireCap cfg r = .ok none := by
  unfold wireCap
  cases hc : cfg.cap with
  | none => rfl
  | some c =>
    have := hn c hc
    simp only [hcl, cl_gt]
    split
    · rfl
    · have : ¬ c < n := by omega
      simp [this]

theorem refusal_ends : Gen.ReqBody.refusalEndsRequest = true := rfl

end Aux

/-- `process` once the extracted fact "a refusal ends the request" is used -/
def processCore (L : Libs) (cfg : Cfg) (r : Req) : Result :=
  match wireCap cfg r with
  | .error st => ⟨.status st, 0, []⟩
  | .ok capped =>
    let d := decodeStage L cfg r capped
    ⟨match d.res with
      | .error st => .status st
      | .ok (some b) => .toRpc b
      | .ok none => .toRpc (match capped with | some b => b | none => bounded r),
     d.peak, d.reads⟩

theorem process_eq (L : Libs) (cfg : Cfg) (r : Req) : process L cfg r = processCore L cfg r := by
  simp only [process, processCore, Aux.refusal_ends, if_true]
  cases wireCap cfg r with
  | error st => rfl
  | ok capped =>
    simp only
    cases (decodeStage L cfg r capped).res with
    | error st => rfl
    | ok o => cases o <;> rfl

/-! ## Obligations -/

/-- **C17_413_wire (partial: requests with Content-Length)** — every POST (no path is exempt for POST) whose Content-Length
exceeds the cap is refused with 413 before anything is read or decoded. -/
theorem C17_413_wire_partial (L : Libs) (cfg : Cfg) (r : Req) (c n : Nat) (hcap : cfg.cap = some c) (hpost : r.verb = post)
    (hcl : r.contentLength = some n) (hbig : c < n) :
    process L cfg r = ⟨.status 413, 0, []⟩ := by
  simp [process_eq, processCore, wireCap, hcap, Aux.not_exempt_post cfg r hpost, hcl, Aux.cl_gt, hbig, Aux.st_wire]

/-- the decode stage for a request that passed the wire cap with a Content-Length, in an enabled real coding -/
theorem decode_enabled (L : Libs) (cfg : Cfg) (r : Req) (n : Nat) (e : Enc)
    (hcl : r.contentLength = some n) (hn : ∀ c, cfg.cap = some c → n ≤ c)
    (hce : Enc.ofValue (normalisedCoding r) = some e) (hid : e ≠ .identity) (hen : cfg.decode.contains e = true) :
    process L cfg r =
      ⟨match (C18.decompress L e (bounded r) cfg.cap).out with
        | .ok b => .toRpc b
        | .limit => .status 413
        | _ => .status 400,
       (C18.decompress L e (bounded r) cfg.cap).peak, (C18.decompress L e (bounded r) cfg.cap).reads⟩ := by
  have hne : (normalisedCoding r).isEmpty = false := by
    cases h : normalisedCoding r with
    | nil => rw [h, Aux.ofValue_nil] at hce; exact absurd hce (by simp)
    | cons a t => rfl
  simp only [process_eq, processCore, Aux.wireCap_ok cfg r n hcl hn, decodeStage, hne, Bool.false_eq_true, if_false, hce, Aux.identity_pass,
    Bool.true_and, hid, decide_false, hen, Bool.not_true, Aux.decoded_cap, if_true, Aux.limit_first, Aux.st_decoded,
    Aux.st_undecodable]
  cases (C18.decompress L e (bounded r) cfg.cap).out <;> rfl

/-- **C17_413_decoded** — a body in an enabled coding that is a complete frame of `x` with `|x|` over the cap is refused
with 413 (whatever its size on the wire, whatever the reader's chunking). -/
theorem C17_413_decoded (L : Libs) (cfg : Cfg) (r : Req) (c n : Nat) (e : Enc) (x : Bytes)
    (hcap : cfg.cap = some c) (hcl : r.contentLength = some n) (hn : n ≤ c)
    (hce : Enc.ofValue (normalisedCoding r) = some e) (hen : cfg.decode.contains e = true)
    (hframe : (e = .zstd ∧ C18.Spec.HonestZ (L.zstdView (bounded r)) x) ∨ (e = .gzip ∧ C18.Spec.HonestG (L.gzipView (bounded r)) x))
    (hbig : c < x.length) :
    (process L cfg r).outcome = .status 413 := by
  have hid : e ≠ .identity := by rcases hframe with ⟨h, _⟩ | ⟨h, _⟩ <;> simp [h]
  rw [decode_enabled L cfg r n e hcl (fun c' hc' => by rw [hcap] at hc'; cases hc'; exact hn) hce hid hen, hcap]
  have hnot : ¬ x.length ≤ c := by omega
  rcases hframe with ⟨rfl, hz⟩ | ⟨rfl, hg⟩
  · have := (C18.C18_cap_zstd _ x hz).2 c
    simp only [C18.decompress, C18.Aux.mem_decompressDispatch, List.contains_eq_mem, decide_true, if_true] at this ⊢
    simp only [this, hnot, if_false]
  · have := (C18.C18_cap_gzip _ x hg).2 c
    simp only [C18.decompress, C18.Aux.mem_decompressDispatch, List.contains_eq_mem, decide_true, if_true] at this ⊢
    simp only [this, hnot, if_false]

/-- **C17_decoded_identity** — a body in an enabled coding that is a complete frame of `x` with `|x|` within the cap (or no
cap) reaches the RPC layer as exactly `x`. -/
theorem C17_decoded_identity (L : Libs) (cfg : Cfg) (r : Req) (n : Nat) (e : Enc) (x : Bytes)
    (hcl : r.contentLength = some n) (hn : ∀ c, cfg.cap = some c → n ≤ c)
    (hce : Enc.ofValue (normalisedCoding r) = some e) (hen : cfg.decode.contains e = true)
    (hframe : (e = .zstd ∧ C18.Spec.HonestZ (L.zstdView (bounded r)) x) ∨ (e = .gzip ∧ C18.Spec.HonestG (L.gzipView (bounded r)) x))
    (hfit : ∀ c, cfg.cap = some c → x.length ≤ c) :
    (process L cfg r).outcome = .toRpc x := by
  have hid : e ≠ .identity := by rcases hframe with ⟨h, _⟩ | ⟨h, _⟩ <;> simp [h]
  rw [decode_enabled L cfg r n e hcl hn hce hid hen]
  have hout : (C18.decompress L e (bounded r) cfg.cap).out = .ok x := by
    rcases hframe with ⟨rfl, hz⟩ | ⟨rfl, hg⟩
    · have hc := C18.C18_cap_zstd _ x hz
      cases hcap : cfg.cap with
      | none => simpa [C18.decompress, C18.Aux.mem_decompressDispatch] using hc.1
      | some c =>
        have := hc.2 c
        simp only [hfit c hcap, if_true] at this
        simpa [C18.decompress, C18.Aux.mem_decompressDispatch] using this
    · have hc := C18.C18_cap_gzip _ x hg
      cases hcap : cfg.cap with
      | none => simpa [C18.decompress, C18.Aux.mem_decompressDispatch] using hc.1
      | some c =>
        have := hc.2 c
        simp only [hfit c hcap, if_true] at this
        simpa [C18.decompress, C18.Aux.mem_decompressDispatch] using this
  simp only [hout]

/-- **C17_400** — in an enabled coding, a body on which the library raises (anything but the limit error) is answered 400;
the limit error is answered 413 (handler order as extracted). -/
theorem C17_400 (L : Libs) (cfg : Cfg) (r : Req) (n : Nat) (e : Enc)
    (hcl : r.contentLength = some n) (hn : ∀ c, cfg.cap = some c → n ≤ c)
    (hce : Enc.ofValue (normalisedCoding r) = some e) (hid : e ≠ .identity) (hen : cfg.decode.contains e = true) :
    ((C18.decompress L e (bounded r) cfg.cap).out = .corrupt → (process L cfg r).outcome = .status 400) ∧
    ((C18.decompress L e (bounded r) cfg.cap).out = .limit → (process L cfg r).outcome = .status 413) := by
  rw [decode_enabled L cfg r n e hcl hn hce hid hen]
  constructor <;> intro h <;> simp only [h]

/-- **C17_415** — a request that passed the wire cap and names a coding that is unknown, or known but not enabled (and not
`identity`), is refused with 415 and nothing is decoded. -/
theorem C17_415 (L : Libs) (cfg : Cfg) (r : Req) (n : Nat)
    (hcl : r.contentLength = some n) (hn : ∀ c, cfg.cap = some c → n ≤ c)
    (hne : normalisedCoding r ≠ [])
    (hbad : Enc.ofValue (normalisedCoding r) = none ∨
      ∃ e, Enc.ofValue (normalisedCoding r) = some e ∧ e ≠ .identity ∧ cfg.decode.contains e = false) :
    process L cfg r = ⟨.status 415, 0, []⟩ := by
  have hne' : (normalisedCoding r).isEmpty = false := by
    cases h : normalisedCoding r with
    | nil => exact absurd h hne
    | cons a t => rfl
  rcases hbad with h | ⟨e, h, hid, hdis⟩
  · simp [process_eq, processCore, Aux.wireCap_ok cfg r n hcl hn, decodeStage, hne', h, Aux.st_unknown]
  · have hnm : e ∉ cfg.decode := by simpa using hdis
    simp [process_eq, processCore, Aux.wireCap_ok cfg r n hcl hn, decodeStage, hne', h, Aux.identity_pass, hid, hnm, Aux.st_disabled]

/-- **C17_identity (partial: requests with Content-Length)** — with no coding, an empty coding or `identity` (any case, any
surrounding whitespace — the token is compared after `strip().lower()`), a body within the cap reaches the RPC layer
byte-for-byte: the first Content-Length bytes of the stream, i.e. the whole body when the length is honest. -/
theorem C17_identity_partial (L : Libs) (cfg : Cfg) (r : Req) (n : Nat)
    (hcl : r.contentLength = some n) (hn : ∀ c, cfg.cap = some c → n ≤ c)
    (hce : normalisedCoding r = [] ∨ Enc.ofValue (normalisedCoding r) = some .identity) :
    process L cfg r = ⟨.toRpc (r.wire.take n), 0, []⟩ ∧ (n = r.wire.length → (process L cfg r).outcome = .toRpc r.wire) := by
  have h1 : process L cfg r = ⟨.toRpc (r.wire.take n), 0, []⟩ := by
    rcases hce with h | h
    · simp [process_eq, processCore, Aux.wireCap_ok cfg r n hcl hn, decodeStage, h, bounded, hcl]
    · have hne' : (normalisedCoding r).isEmpty = false := by
        cases hh : normalisedCoding r with
        | nil => rw [hh, Aux.ofValue_nil] at h; exact absurd h (by simp)
        | cons a t => rfl
      simp [process_eq, processCore, Aux.wireCap_ok cfg r n hcl hn, decodeStage, hne', h, Aux.identity_pass, bounded, hcl]
  refine ⟨h1, fun hlen => ?_⟩
  rw [h1, hlen]; simp

theorem decodeStage_peak (L : Libs) (cfg : Cfg) (r : Req) (capped : Option Bytes) (c : Nat) (hcap : cfg.cap = some c)
    (key : ∀ e d, (C18.decompress L e d (some c)).peak ≤ c + Gen.Codec.chunkBytes) :
    (decodeStage L cfg r capped).peak ≤ c + Gen.Codec.chunkBytes := by
  unfold decodeStage
  simp only [Aux.decoded_cap, if_true, hcap]
  split
  · simp
  · split
    · simp
    · split
      · simp
      · split
        · simp
        · exact key _ _

/-- **C17_alloc** — whatever the body is and whatever it claims: with libraries that never return more than requested (and a
zlib `flush()` of at most CHUNK bytes), a capped server never holds more than `cap + CHUNK` decoded bytes. -/
theorem C17_alloc (L : Libs) (cfg : Cfg) (r : Req) (c : Nat) (hcap : cfg.cap = some c)
    (hZ : ∀ d, C18.Spec.BoundedReads (L.zstdView d).R)
    (hG : ∀ d, C18.Spec.BoundedDec (L.gzipView d).Z ∧
      ∀ s t s', (L.gzipView d).Z.flush s = some (t, s') → t.length ≤ Gen.Codec.chunkBytes) :
    (process L cfg r).materialised ≤ c + Gen.Codec.chunkBytes := by
  have hchunk := C18.Aux.chunk_pos
  have key : ∀ e d, (C18.decompress L e d (some c)).peak ≤ c + Gen.Codec.chunkBytes := by
    intro e d
    cases e with
    | identity =>
      simp only [C18.decompress, C18.Aux.mem_decompressDispatch, List.contains_eq_mem, decide_true, if_true]
      split <;> simp
    | zstd =>
      have := (C18.C18_alloc_zstd (L.zstdView d) (hZ d) c).1
      simp only [C18.decompress, C18.Aux.mem_decompressDispatch, List.contains_eq_mem, decide_true, if_true]
      omega
    | gzip =>
      have := C18.C18_alloc_gzip (L.gzipView d) (hG d).1 Gen.Codec.chunkBytes hchunk (hG d).2 c
      simp only [C18.decompress, C18.Aux.mem_decompressDispatch, List.contains_eq_mem, decide_true, if_true]
      exact this
  rw [process_eq]
  unfold processCore
  split
  · simp
  · exact decodeStage_peak L cfg r _ c hcap key

theorem wireCap_error (cfg : Cfg) (r : Req) (st : Nat) (h : wireCap cfg r = .error st) : st = 413 := by
  unfold wireCap at h
  cases hc : cfg.cap with
  | none => simp [hc] at h
  | some c =>
    simp only [hc] at h
    by_cases hx : exempted cfg r = true
    · simp [hx] at h
    · simp only [hx, Bool.false_eq_true, if_false] at h
      cases hcl : r.contentLength with
      | some cl =>
        simp only [hcl] at h
        by_cases hb : cmp Gen.ReqBody.contentLengthCmp cl c = true
        · simp only [hb, if_true, Except.error.injEq, Aux.st_wire] at h; exact h.symm
        · simp [hb] at h
      | none =>
        simp only [hcl] at h
        split at h
        · simp only [Except.error.injEq, Aux.st_wire] at h; exact h.symm
        · simp at h

theorem decodeStage_error (L : Libs) (cfg : Cfg) (r : Req) (capped : Option Bytes) (st : Nat)
    (h : (decodeStage L cfg r capped).res = .error st) : st = 413 ∨ st = 415 ∨ st = 400 := by
  unfold decodeStage at h
  simp only [Aux.limit_first, Aux.decoded_cap, if_true, Aux.identity_pass, Bool.true_and, Aux.st_unknown, Aux.st_disabled,
    Aux.st_decoded, Aux.st_undecodable] at h
  by_cases h0 : (normalisedCoding r).isEmpty = true
  · simp [h0] at h
  · simp only [h0, Bool.false_eq_true, if_false] at h
    cases hv : Enc.ofValue (normalisedCoding r) with
    | none => simp only [hv, Except.error.injEq] at h; omega
    | some e =>
      simp only [hv] at h
      by_cases hid : e = .identity
      · simp [hid] at h
      · simp only [hid, decide_false, Bool.false_eq_true, if_false] at h
        by_cases hen : cfg.decode.contains e = true
        · simp only [hen, Bool.not_true, Bool.false_eq_true, if_false] at h
          generalize (C18.decompress L e _ cfg.cap).out = o at h
          cases o <;> simp only [Except.error.injEq, reduceCtorEq] at h <;> omega
        · simp only [Bool.not_eq_true] at hen
          simp only [hen, Bool.not_false, if_true, Except.error.injEq] at h
          omega

/-- **C17_total** — every request ends in one of: 413, 415, 400, or bytes handed to the RPC layer. -/
theorem C17_total (L : Libs) (cfg : Cfg) (r : Req) :
    (∃ b, (process L cfg r).outcome = .toRpc b) ∨ (process L cfg r).outcome = .status 413 ∨
    (process L cfg r).outcome = .status 415 ∨ (process L cfg r).outcome = .status 400 := by
  rw [process_eq]
  unfold processCore
  split
  · rename_i st h
    rw [wireCap_error cfg r st h]; simp
  · rename_i capped _
    simp only
    cases hres : (decodeStage L cfg r capped).res with
    | error st =>
      rcases decodeStage_error L cfg r capped st hres with h | h | h <;> simp [h]
    | ok o => cases o <;> simp

/-- **C17_decode_wiring** — which request codings a server decodes: exactly zstd / gzip, if the runtime has them, minus zstd
when `VGI_HTTP_DISABLE_ZSTD` is `"1"` — for every `compression_level` (response compression on or off). -/
theorem C17_decode_wiring (runtime : List Enc) (env : Option (List Char)) (lvl : Option Int) (e : Enc) :
    e ∈ mkDecode runtime env lvl ↔
      (e = .zstd ∨ e = .gzip) ∧ e ∈ runtime ∧ ¬ (env = some "1".toList ∧ e = .zstd) := by
  have hd : Gen.ReqBody.decodable.filterMap Enc.ofName = [.zstd, .gzip] := by decide
  have hv : Gen.ReqBody.disableZstdValue.toList = "1".toList := by decide
  simp only [mkDecode, zstdDisabled, hd, hv, List.mem_filter, List.mem_cons, List.not_mem_nil, or_false,
    List.contains_eq_mem, decide_eq_true_eq, Bool.and_eq_true, Bool.not_eq_true', Bool.and_eq_false_iff, beq_iff_eq,
    beq_eq_false_iff_ne, ne_eq]
  constructor
  · rintro ⟨⟨h1, h2, h3⟩, _⟩
    exact ⟨h1, h2, fun ⟨ha, hb⟩ => by rcases h3 with h3 | h3 <;> simp_all⟩
  · rintro ⟨h1, h2, h3⟩
    refine ⟨⟨h1, h2, ?_⟩, h2⟩
    by_cases ha : env = some "1".toList
    · right; intro hb; exact h3 ⟨ha, hb⟩
    · left; exact ha

/-- **C17_415_disabled** — with the switch set, a zstd request body that passed the wire cap is refused with 415 whatever
`compression_level` is. -/
theorem C17_415_disabled (L : Libs) (cap : Option Nat) (exempt : List (List Char)) (runtime : List Enc) (lvl : Option Int)
    (r : Req) (n : Nat) (hcl : r.contentLength = some n) (hn : ∀ c, cap = some c → n ≤ c)
    (hce : Enc.ofValue (normalisedCoding r) = some .zstd) :
    process L ⟨cap, mkDecode runtime (some "1".toList) lvl, exempt⟩ r = ⟨.status 415, 0, []⟩ := by
  have hne : normalisedCoding r ≠ [] := by
    intro h; rw [h, Aux.ofValue_nil] at hce; exact absurd hce (by simp)
  apply C17_415 L _ r n hcl hn hne
  refine Or.inr ⟨.zstd, hce, by simp, ?_⟩
  have hnot : Enc.zstd ∉ mkDecode runtime (some "1".toList) lvl := by
    intro hm
    have := (C17_decode_wiring runtime (some "1".toList) lvl .zstd).mp hm
    exact this.2.2 ⟨rfl, rfl⟩
  simpa using hnot

/-- **C17_terminates** — the decode stage always returns: zstd for every library behaviour, gzip for every decompress object
that does not stall (empty chunk ⇒ input consumed or end of member). -/
theorem C17_terminates (L : Libs) (hG : ∀ d, C18.Spec.NoStall (L.gzipView d).Z) (e : Enc) (d : Bytes) (cap : Option Nat) :
    (C18.decompress L e d cap).out ≠ .fuel := by
  cases e with
  | identity => simp [C18.decompress]; split <;> (try split) <;> simp
  | zstd =>
    simp only [C18.decompress, C18.Aux.mem_decompressDispatch, List.contains_eq_mem, decide_true, if_true]
    exact C18.C18_terminates_zstd _ cap
  | gzip =>
    simp only [C18.decompress, C18.Aux.mem_decompressDispatch, List.contains_eq_mem, decide_true, if_true]
    exact C18.C18_terminates_gzip _ (hG d) cap

end VgiVerif.C17
