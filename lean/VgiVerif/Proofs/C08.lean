import VgiVerif.Spec.C08
import VgiVerif.Model.C08
import VgiVerif.Lemmas.LogWire
import VgiVerif.Proofs.Engine
/-
C08 — proofs.
(a) delivery: for ALL step scripts, init logs and HTTP break decisions, on the socket family the client's event list IS
    the emitted sequence (exact order); on HTTP every emitted log is delivered exactly once, in emission order, and not
    later than the batch / result / error it precedes (the eager parse of `/init` and the trailing-batch dispatch of an
    exchange only move logs EARLIER).  Failing steps and failing inits included (repaired code).
(b) robustness: for EVERY batch a peer can send, `_dispatch_log_or_error` (over the extracted shape) never fails the
    call; fields: a log written by the server is delivered with its level, text and extras.
-/
namespace VgiVerif.C08
open VgiVerif.Engine VgiVerif.Engine.Aux VgiVerif.LogWire
open Spec (emittedProducer emittedExchange emittedUnary emittedInitFail marks Pointwise NotLater Delivered)

namespace Aux

theorem lg_eq (ls : List Log) : Spec.lg ls = Sem.lg ls := rfl
theorem logsOf_eq (evs : List Ev) : Spec.logsOf evs = logsOf evs := rfl

/-! ### marks -/

theorem marks_lg (n : Nat) (ls : List Log) (xs : List Ev) :
    marks n (Sem.lg ls ++ xs) = marks (n + ls.length) xs := by
  induction ls generalizing n with
  | nil => simp [Sem.lg]
  | cons l r ih =>
    simp only [Sem.lg, List.map_cons, List.cons_append, marks, List.length_cons] at ih ⊢
    rw [ih]; congr 1; omega

theorem marks_data (n : Nat) (b : Batch) (xs : List Ev) : marks n (.data b :: xs) = (n, .data b) :: marks n xs := rfl

theorem pointwise_mono (e : List Ev) : ∀ n m, n ≤ m → Pointwise (marks n e) (marks m e) := by
  induction e with
  | nil => intro n m _; trivial
  | cons x r ih =>
    intro n m h
    cases x with
    | log l => simp only [marks]; exact ih _ _ (by omega)
    | data b => exact ⟨rfl, h, ih _ _ h⟩
    | value v => exact ⟨rfl, h, ih _ _ h⟩
    | header v => exact ⟨rfl, h, ih _ _ h⟩
    | error a b c => exact ⟨rfl, h, ih _ _ h⟩
    | fin => exact ⟨rfl, h, ih _ _ h⟩

theorem notLater_refl (e : List Ev) : NotLater e e := pointwise_mono e 0 0 (Nat.le_refl 0)

theorem delivered_refl (e : List Ev) : Delivered e e := ⟨rfl, notLater_refl e⟩

/-! ### sockets: exact order -/

theorem pipe_iterate (c : List Log) (steps : List Step) :
    PipeR.iterate (logItems c) steps = Sem.lg c ++ emittedProducer steps := by
  induction steps generalizing c with
  | nil => simp [PipeR.iterate, emittedProducer, read_logs_only]
  | cons s r ih =>
    cases hact : s.act with
    | emit b =>
      simp only [PipeR.iterate, processStep, hact, emittedProducer, lg_eq]
      rw [regroup, read_logs_data]
      simp only [ih, lg_append, List.append_assoc]
    | finish =>
      simp only [PipeR.iterate, processStep, hact, emittedProducer, lg_eq]
      rw [← logItems_append, ← logItems_append, read_logs_only]
      simp [lg_append]
    | emitFinish b =>
      simp only [PipeR.iterate, processStep, hact, emittedProducer, lg_eq]
      rw [regroup, read_logs_data]
      simp only [read_logs_only, lg_append, List.append_assoc]
    | raise e =>
      simp only [PipeR.iterate, processStep, hact, emittedProducer, lg_eq]
      rw [← List.append_assoc, ← logItems_append, read_logs_err]
      simp [lg_append]
    | nothing =>
      simp only [PipeR.iterate, processStep, hact, emittedProducer, lg_eq]
      rw [← List.append_assoc, ← logItems_append, read_logs_err]
      simp [lg_append]

theorem pipe_exchange (c : List Log) (steps : List Step) :
    PipeR.exchangeAll (logItems c) steps = Sem.lg c ++ emittedExchange steps := by
  induction steps generalizing c with
  | nil => simp [PipeR.exchangeAll, emittedExchange, drainLogs_logs]
  | cons s r ih =>
    cases hact : s.act with
    | emit b =>
      simp only [PipeR.exchangeAll, PipeR.exchangeOne, processExchangeStep, processStep, hact, emittedExchange, lg_eq]
      rw [regroup, read_logs_data]
      simp only [ih, lg_append, List.append_assoc]
    | finish =>
      simp only [PipeR.exchangeAll, PipeR.exchangeOne, processExchangeStep, hact, emittedExchange, lg_eq]
      rw [← List.append_assoc, ← List.append_assoc, ← logItems_append, ← logItems_append, read_logs_err]
      simp [lg_append]
    | emitFinish b =>
      simp only [PipeR.exchangeAll, PipeR.exchangeOne, processExchangeStep, hact, emittedExchange, lg_eq]
      rw [← List.append_assoc, ← List.append_assoc, ← logItems_append, ← logItems_append, read_logs_err]
      simp [lg_append]
    | raise e =>
      simp only [PipeR.exchangeAll, PipeR.exchangeOne, processExchangeStep, processStep, hact, emittedExchange, lg_eq]
      rw [← List.append_assoc, ← logItems_append, read_logs_err]
      simp [lg_append]
    | nothing =>
      simp only [PipeR.exchangeAll, PipeR.exchangeOne, processExchangeStep, processStep, hact, emittedExchange, lg_eq]
      rw [← List.append_assoc, ← logItems_append, read_logs_err]
      simp [lg_append]

/-! ### HTTP producer: a continuation followed lazily yields the emitted sequence exactly -/

theorem follow_turn (brk : Nat → Bool) (steps : List Step) :
    ∀ (rest : List Step) (pos fuel : Nat), steps.drop pos = rest → rest.length ≤ fuel →
      Http.follow (HttpR.serveContinuation brk steps) fuel (HttpR.turn brk pos rest) = emittedProducer rest := by
  intro rest
  induction rest with
  | nil => intro pos fuel _ _; simp [HttpR.turn, emittedProducer, follow_nil]
  | cons s r ih =>
    intro pos fuel hdrop hfuel
    have hr : steps.drop (pos + 1) = r := drop_succ_of_drop steps pos s r hdrop
    simp only [List.length_cons] at hfuel
    cases hact : s.act with
    | emit b =>
      simp only [HttpR.turn, processStep, hact, emittedProducer, lg_eq]
      rw [List.append_assoc, List.append_assoc, follow_logs, List.singleton_append, follow_data, follow_logs]
      cases hb : brk pos with
      | true =>
        simp only [if_true]
        obtain ⟨f, rfl⟩ : ∃ f, fuel = f + 1 := ⟨fuel - 1, by omega⟩
        simp only [Http.follow]
        have e : HttpR.serveContinuation brk steps (pos + 1) = HttpR.turn brk (pos + 1) r := by
          simp [HttpR.serveContinuation, hr]
        rw [e, ih (pos + 1) f hr (by omega)]
        simp [List.append_assoc]
      | false =>
        simp only [Bool.false_eq_true, if_false]
        rw [ih (pos + 1) fuel hr (by omega)]
        simp [List.append_assoc]
    | finish =>
      simp only [HttpR.turn, processStep, hact, emittedProducer, lg_eq]
      rw [follow_logs, ← List.append_nil (logItems s.post), follow_logs, follow_nil]
      simp [List.append_assoc]
    | emitFinish b =>
      simp only [HttpR.turn, processStep, hact, emittedProducer, lg_eq]
      rw [List.append_assoc, follow_logs, List.singleton_append, follow_data,
        ← List.append_nil (logItems s.post), follow_logs, follow_nil]
      simp [List.append_assoc]
    | raise e =>
      simp only [HttpR.turn, processStep, hact, emittedProducer, lg_eq]
      rw [follow_logs, follow_err]
    | nothing =>
      simp only [HttpR.turn, processStep, hact, emittedProducer, lg_eq]
      rw [follow_logs, follow_err]

/-- the logs the eager parse hands to the callback at open -/
theorem parse_evs_lg (xs : List Item) : ∃ L, (Http.parseInit xs).evs = Sem.lg L := by
  induction xs with
  | nil => exact ⟨[], rfl⟩
  | cons x r ih =>
    obtain ⟨L, hL⟩ := ih
    cases x with
    | log l => exact ⟨l :: L, by simp [Http.parseInit, hL, Sem.lg]⟩
    | data b => exact ⟨L, by simp [Http.parseInit, hL]⟩
    | err e => exact ⟨[], rfl⟩
    | token p => exact ⟨[], rfl⟩

/-- **the extra lemma for HTTP's eager init parse**: parsing the body eagerly (logs → callback at open, data → pending)
and then following the cursor delivers the same batches / terminal event in the same order as reading the body lazily,
and at each of them at least as many logs have been delivered -/
theorem assemble_notLater (server : Nat → List Item) (fuel : Nat) (xs : List Item) :
    ∀ n m, n ≤ m →
      Pointwise (marks n (Http.follow server (fuel + 1) xs))
        (marks m (Http.assemble (Http.parseInit xs) (fun pos => Http.follow server fuel (server pos)))) := by
  induction xs with
  | nil => intro n m h; simp [Http.parseInit, Http.assemble, Http.follow, marks, Pointwise, h]
  | cons x r ih =>
    intro n m h
    cases x with
    | log l =>
      simp only [Http.parseInit, Http.follow]
      have : Http.assemble { Http.parseInit r with evs := Ev.log l :: (Http.parseInit r).evs }
            (fun pos => Http.follow server fuel (server pos))
          = Ev.log l :: Http.assemble (Http.parseInit r) (fun pos => Http.follow server fuel (server pos)) := by
        simp [Http.assemble]
      rw [this]
      simp only [marks]
      exact ih _ _ (by omega)
    | data b =>
      obtain ⟨L, hL⟩ := parse_evs_lg r
      have ih' := ih n m h
      simp only [Http.parseInit, Http.follow]
      simp only [Http.assemble, hL, List.map_cons, List.append_assoc, List.cons_append] at ih' ⊢
      rw [marks_lg] at ih'
      rw [marks_lg, marks_data, marks_data]
      exact ⟨rfl, by omega, ih'⟩
    | err e =>
      simp only [Http.parseInit, Http.assemble, Http.follow, List.nil_append, List.map_nil]
      exact pointwise_mono _ _ _ h
    | token p =>
      simp only [Http.parseInit, Http.assemble, Http.follow, List.nil_append, List.map_nil]
      exact pointwise_mono _ _ _ h

/-! ### HTTP exchange: trailing logs of a response are dispatched before its batch is returned -/

theorem http_exchange_logs (steps : List Step) :
    logsOf (HttpR.exchangeAll steps) = logsOf (emittedExchange steps) := by
  induction steps with
  | nil => rfl
  | cons s r ih =>
    cases hact : s.act with
    | emit b =>
      simp only [HttpR.exchangeAll, HttpR.exchangeOne, processExchangeStep, processStep, hact, emittedExchange, lg_eq]
      rw [List.append_assoc, readExchange_logs]
      simp only [List.singleton_append, Http.readExchange, trailing_logs]
      simp [logsOf_append, ih]
    | finish =>
      simp only [HttpR.exchangeAll, HttpR.exchangeOne, processExchangeStep, hact, emittedExchange, lg_eq]
      rw [← logItems_append, readExchange_logs]; simp [Http.readExchange, lg_append]
    | emitFinish b =>
      simp only [HttpR.exchangeAll, HttpR.exchangeOne, processExchangeStep, hact, emittedExchange, lg_eq]
      rw [← logItems_append, readExchange_logs]; simp [Http.readExchange, lg_append]
    | raise e =>
      simp only [HttpR.exchangeAll, HttpR.exchangeOne, processExchangeStep, processStep, hact, emittedExchange, lg_eq]
      rw [readExchange_logs]; simp [Http.readExchange]
    | nothing =>
      simp only [HttpR.exchangeAll, HttpR.exchangeOne, processExchangeStep, processStep, hact, emittedExchange, lg_eq]
      rw [readExchange_logs]; simp [Http.readExchange]

theorem http_exchange_marks (steps : List Step) :
    ∀ n m, n ≤ m → Pointwise (marks n (emittedExchange steps)) (marks m (HttpR.exchangeAll steps)) := by
  induction steps with
  | nil => intro n m _; trivial
  | cons s r ih =>
    intro n m h
    cases hact : s.act with
    | emit b =>
      simp only [HttpR.exchangeAll, HttpR.exchangeOne, processExchangeStep, processStep, hact, emittedExchange, lg_eq,
        List.append_assoc]
      rw [readExchange_logs]
      simp only [List.singleton_append, Http.readExchange, trailing_logs, List.append_assoc, List.cons_append,
        List.nil_append]
      rw [marks_lg, marks_lg, marks_data, marks_lg, marks_lg, marks_data]
      exact ⟨rfl, by omega, ih _ _ (by omega)⟩
    | finish =>
      simp only [HttpR.exchangeAll, HttpR.exchangeOne, processExchangeStep, hact, emittedExchange, lg_eq]
      rw [← logItems_append, readExchange_logs]
      simp only [Http.readExchange, ← lg_append]
      rw [marks_lg, marks_lg]
      exact pointwise_mono _ _ _ (by omega)
    | emitFinish b =>
      simp only [HttpR.exchangeAll, HttpR.exchangeOne, processExchangeStep, hact, emittedExchange, lg_eq]
      rw [← logItems_append, readExchange_logs]
      simp only [Http.readExchange, ← lg_append]
      rw [marks_lg, marks_lg]
      exact pointwise_mono _ _ _ (by omega)
    | raise e =>
      simp only [HttpR.exchangeAll, HttpR.exchangeOne, processExchangeStep, processStep, hact, emittedExchange, lg_eq]
      rw [readExchange_logs]
      simp only [Http.readExchange]
      rw [marks_lg, marks_lg]
      exact pointwise_mono _ _ _ (by omega)
    | nothing =>
      simp only [HttpR.exchangeAll, HttpR.exchangeOne, processExchangeStep, processStep, hact, emittedExchange, lg_eq]
      rw [readExchange_logs]
      simp only [Http.readExchange]
      rw [marks_lg, marks_lg]
      exact pointwise_mono _ _ _ (by omega)

end Aux

open Aux

/-! ## (a) delivery — obligations -/

/-- **sockets, producer**: the client's event sequence IS the init logs followed by the emitted sequence — every log
(those of failing steps included) exactly once, in emission order, immediately where it was emitted -/
theorem C08_pipe_producer_exact (il : List Log) (steps : List Step) :
    PipeR.iterate (logItems il) steps = Spec.lg il ++ emittedProducer steps := pipe_iterate il steps

theorem C08_pipe_producer (il : List Log) (steps : List Step) :
    Delivered (Spec.lg il ++ emittedProducer steps) (PipeR.iterate (logItems il) steps) := by
  rw [C08_pipe_producer_exact]; exact delivered_refl _

/-- **sockets, exchange** -/
theorem C08_pipe_exchange_exact (il : List Log) (steps : List Step) :
    PipeR.exchangeAll (logItems il) steps = Spec.lg il ++ emittedExchange steps := pipe_exchange il steps

theorem C08_pipe_exchange (il : List Log) (steps : List Step) :
    Delivered (Spec.lg il ++ emittedExchange steps) (PipeR.exchangeAll (logItems il) steps) := by
  rw [C08_pipe_exchange_exact]; exact delivered_refl _

/-- **HTTP, producer**, every cap / codec / number of turns (`brk` arbitrary): exactly once, in order, not later -/
theorem C08_http_producer (brk : Nat → Bool) (il : List Log) (steps : List Step) :
    Delivered (Spec.lg il ++ emittedProducer steps) (HttpR.iterate brk il steps) := by
  have hfollow : Http.follow (HttpR.serveContinuation brk steps) (steps.length + 1 + 1) (HttpR.initBody brk il steps)
      = Spec.lg il ++ emittedProducer steps := by
    unfold HttpR.initBody
    rw [follow_logs, VgiVerif.C08.Aux.follow_turn brk steps steps 0 (steps.length + 1 + 1) (by simp) (by omega)]
    rfl
  constructor
  · have h := assemble_obs (HttpR.serveContinuation brk steps) (steps.length + 1) (HttpR.initBody brk il steps)
    rw [hfollow] at h
    exact congrArg Obs.logs h
  · have h := assemble_notLater (HttpR.serveContinuation brk steps) (steps.length + 1) (HttpR.initBody brk il steps) 0 0
      (Nat.le_refl 0)
    rw [hfollow] at h
    exact h

/-- **HTTP, exchange**: one request per input; the logs emitted after the batch are delivered before the batch is
returned (earlier than required), everything else in emission order -/
theorem C08_http_exchange (steps : List Step) :
    Delivered (emittedExchange steps) (HttpR.exchangeAll steps) :=
  ⟨http_exchange_logs steps, http_exchange_marks steps 0 0 (Nat.le_refl 0)⟩

/-- **unary**, sockets and HTTP: the logs (also those emitted before a raise), then the result / error -/
theorem C08_unary (logs : List Log) (out : Except Exn Nat) :
    Delivered (emittedUnary logs out) (Pipe.unaryObs logs out) ∧
    Delivered (emittedUnary logs out) (Http.unaryObs logs out) := by
  have h := unary_refines logs out
  have e : emittedUnary logs out = Sem.unary logs out := rfl
  rw [h.1, h.2, e]
  exact ⟨delivered_refl _, delivered_refl _⟩

/-- **stream init that logs and raises** (every transport: the same error stream is read by the same client loop) -/
theorem C08_init_fail (il : List Log) (e : Exn) :
    Delivered (emittedInitFail il e) (initFailObs il e) := by
  have : initFailObs il e = emittedInitFail il e := by
    unfold initFailObs initFailItems emittedInitFail
    rw [read_logs_err]; rfl
  rw [this]; exact delivered_refl _

/-- the extractor found, at every stream site, the code that makes `processStep` / `initFailItems` above the right model:
the failed call's log batches (resp. the sink's buffered init logs) are written BEFORE the error batch — `_serve_stream`
(step, init), `_run_http_producer_turn`, `_run_http_exchange_turn`, `_run_stream_init_sync`, via `_flush_collector_logs`
= every collector batch except the data batch, in order -/
theorem failing_call_flush_recognised :
    VgiVerif.Gen.LogDispatch.flushLogsHelperRecognised = true ∧
    VgiVerif.Gen.LogDispatch.pipeStepKeepsLogs = true ∧ VgiVerif.Gen.LogDispatch.pipeInitKeepsLogs = true ∧
    VgiVerif.Gen.LogDispatch.httpProducerKeepsLogs = true ∧ VgiVerif.Gen.LogDispatch.httpExchangeKeepsLogs = true ∧
    VgiVerif.Gen.LogDispatch.httpInitKeepsLogs = true := by decide

/-! ### tie to the Engine (after the Engine's server step functions were updated to the repaired code): the private
copies of Model/C08.lean ARE the Engine's functions, so every theorem above is also a theorem about `Engine.Pipe` /
`Engine.Http` -/

theorem processStep_eq_engine : processStep = Engine.processStep := by
  funext s; unfold processStep Engine.processStep; cases s.act <;> rfl

theorem processExchangeStep_eq_engine : processExchangeStep = Engine.processExchangeStep := by
  funext s; unfold processExchangeStep Engine.processExchangeStep; rw [processStep_eq_engine]; cases s.act <;> rfl

theorem pipeR_iterate_eq_engine (carry : List Item) (steps : List Step) :
    PipeR.iterate carry steps = Pipe.iterate carry steps := by
  induction steps generalizing carry with
  | nil => rfl
  | cons s r ih =>
    simp only [PipeR.iterate, Pipe.iterate, processStep_eq_engine]
    cases Engine.processStep s with
    | cont items =>
      simp only
      rcases h : readUntilData (carry ++ items) with ⟨evs, e⟩
      cases e <;> simp [ih]
    | done items => rfl
    | fail items => rfl

theorem pipeR_exchangeAll_eq_engine (carry : List Item) (steps : List Step) :
    PipeR.exchangeAll carry steps = Pipe.exchangeAll carry steps := by
  induction steps generalizing carry with
  | nil => rfl
  | cons s r ih =>
    have h1 : PipeR.exchangeOne carry s = Pipe.exchangeOne carry s := by
      simp only [PipeR.exchangeOne, Pipe.exchangeOne, processExchangeStep_eq_engine]
      cases Engine.processExchangeStep s <;> rfl
    simp only [PipeR.exchangeAll, Pipe.exchangeAll, h1]
    rcases Pipe.exchangeOne carry s with ⟨evs, o⟩
    cases o <;> simp [ih]

theorem httpR_turn_eq_engine (brk : Nat → Bool) (pos : Nat) (steps : List Step) :
    HttpR.turn brk pos steps = Http.turn brk pos steps := by
  induction steps generalizing pos with
  | nil => rfl
  | cons s r ih =>
    simp only [HttpR.turn, Http.turn, processStep_eq_engine]
    cases Engine.processStep s <;> simp [ih]

theorem httpR_iterate_eq_engine (brk : Nat → Bool) (il : List Log) (steps : List Step) :
    HttpR.iterate brk il steps = Http.iterate brk il steps := by
  have hs : HttpR.serveContinuation brk steps = Http.serveContinuation brk steps := by
    funext pos; simp [HttpR.serveContinuation, Http.serveContinuation, httpR_turn_eq_engine]
  simp [HttpR.iterate, Http.iterate, HttpR.initBody, Http.initBody, httpR_turn_eq_engine, hs]

theorem httpR_exchangeAll_eq_engine (steps : List Step) : HttpR.exchangeAll steps = Http.exchangeAll steps := by
  induction steps with
  | nil => rfl
  | cons s r ih =>
    have h1 : HttpR.exchangeOne s = Http.exchangeOne s := by
      simp only [HttpR.exchangeOne, Http.exchangeOne, processExchangeStep_eq_engine]
      cases Engine.processExchangeStep s <;> rfl
    simp only [HttpR.exchangeAll, Http.exchangeAll, h1]
    rcases Http.exchangeOne s with ⟨evs, o⟩
    cases o <;> simp [ih]

/-- C08 on the Engine's own transport models -/
theorem C08_engine (brk : Nat → Bool) (il : List Log) (steps : List Step) :
    Delivered (Spec.lg il ++ emittedProducer steps) (Pipe.iterate (logItems il) steps) ∧
    Delivered (Spec.lg il ++ emittedProducer steps) (Http.iterate brk il steps) ∧
    Delivered (Spec.lg il ++ emittedExchange steps) (Pipe.exchangeAll (logItems il) steps) ∧
    Delivered (emittedExchange steps) (Http.exchangeAll steps) := by
  rw [← pipeR_iterate_eq_engine, ← httpR_iterate_eq_engine, ← pipeR_exchangeAll_eq_engine, ← httpR_exchangeAll_eq_engine]
  exact ⟨C08_pipe_producer il steps, C08_http_producer brk il steps, C08_pipe_exchange il steps, C08_http_exchange steps⟩

/-- the spec's emitted sequence is the Engine's `Sem.producer` with `keepFailLogs = true` (the property as stated) -/
theorem emittedProducer_eq_sem (steps : List Step) : emittedProducer steps = Sem.producer true steps := by
  induction steps with
  | nil => rfl
  | cons s r ih => cases hact : s.act <;> simp [emittedProducer, Sem.producer, hact, ih, Sem.failLogs, lg_eq]

/-- what "not later" means, unfolded for one batch: if the emitted sequence is `a ++ [data b] ++ c` with `a` holding
`k` logs, then the delivered sequence has delivered at least `k` logs when it returns its first non-log item after as
many items — stated as a usable corollary for the first item -/
theorem notLater_first (e d : List Ev) (h : NotLater e d) (n : Nat) (x : Ev) (r : List (Nat × Ev))
    (he : marks 0 e = (n, x) :: r) : ∃ m r', marks 0 d = (m, x) :: r' ∧ n ≤ m := by
  unfold NotLater at h
  rw [he] at h
  cases hd : marks 0 d with
  | nil => rw [hd] at h; exact absurd h (by simp [Pointwise])
  | cons y r' =>
    rw [hd] at h
    obtain ⟨h1, h2, _⟩ := h
    exact ⟨y.1, r', by cases y; simp at h1; simp [h1], h2⟩

/-- non-vacuity / witness of the repaired behaviour: a step that logs and then raises delivers its log before the error
on sockets and over HTTP -/
example : PipeR.iterate [] [⟨[⟨"INFO".toList, "b".toList, []⟩], .raise ⟨"E".toList, "x".toList, none⟩, []⟩]
    = [.log ⟨"INFO".toList, "b".toList, []⟩, errEv ⟨"E".toList, "x".toList, none⟩] := by decide
example : HttpR.iterate (fun _ => true) [] [⟨[⟨"INFO".toList, "b".toList, []⟩], .raise ⟨"E".toList, "x".toList, none⟩, []⟩]
    = [.log ⟨"INFO".toList, "b".toList, []⟩, errEv ⟨"E".toList, "x".toList, none⟩] := by decide

/-! ## the log sink: every result / output schema shape -/

/-- once flushed into a writer — whatever its schema, the EMPTY schema of a `-> None` method or of an empty-output
stream included — every message is written through at once -/
theorem C08_sink_write_through (s : Sink) (schemaEmpty : Bool) (l : Log) (h : s.writer = some schemaEmpty) :
    sinkStep s (.call l) = (s, [l]) := by
  cases schemaEmpty <;> simp [sinkStep, h]

/-- nothing is lost, duplicated or reordered by the sink: what was written plus what is still buffered is exactly what
was emitted, in order (for every interleaving of emit / flush / reset and every schema; from any state in which an
attached writer means an empty buffer — the initial state and every state reachable from it) -/
theorem C08_sink_conservation (ops : List SinkOp) (s : Sink) (hinv : s.writer ≠ none → s.buffer = []) :
    (sinkRun s ops).2 ++ (sinkRun s ops).1.buffer = s.buffer ++ sinkCalled ops := by
  induction ops generalizing s with
  | nil => simp [sinkRun, sinkCalled]
  | cons op r ih =>
    cases op with
    | call l =>
      rcases hw : s.writer with _ | e
      · have := ih { s with buffer := s.buffer ++ [l] } (by simp [hw])
        simp [sinkRun, sinkStep, hw, sinkCalled] at this ⊢
        exact this
      · have hb : s.buffer = [] := hinv (by simp [hw])
        have := ih s hinv
        cases e <;> simp [sinkRun, sinkStep, hw, sinkCalled, hb] at this ⊢ <;> simp [this]
    | flush e =>
      have := ih ⟨[], some e⟩ (by simp)
      simp [sinkRun, sinkStep, sinkCalled] at this ⊢
      simp [this]
    | reset =>
      have := ih { s with writer := none } (by simp)
      simp [sinkRun, sinkStep, sinkCalled] at this ⊢
      exact this

theorem C08_sink_conservation_init (ops : List SinkOp) :
    (sinkRun ⟨[], none⟩ ops).2 ++ (sinkRun ⟨[], none⟩ ops).1.buffer = sinkCalled ops := by
  simpa using C08_sink_conservation ops ⟨[], none⟩ (by simp)

/-- a unary call (`flush_contents` with the result schema BEFORE the method runs, then the method logs): all logs are
written, in order, none left behind — also for a method declared `-> None` -/
theorem C08_sink_unary (schemaEmpty : Bool) (logs : List Log) :
    sinkRun ⟨[], none⟩ (.flush schemaEmpty :: logs.map .call) = (⟨[], some schemaEmpty⟩, logs) := by
  have key : ∀ (ls : List Log), sinkRun ⟨[], some schemaEmpty⟩ (ls.map .call) = (⟨[], some schemaEmpty⟩, ls) := by
    intro ls
    induction ls with
    | nil => rfl
    | cons l r ih =>
      simp only [List.map_cons, sinkRun]
      rw [C08_sink_write_through _ schemaEmpty l rfl, ih]
      rfl
  simp [sinkRun, sinkStep, key]

/-- a stream method / `on_cancel` hook (logs first, `flush_contents` into the output stream afterwards) -/
theorem C08_sink_buffer_then_flush (schemaEmpty : Bool) (logs : List Log) :
    sinkRun ⟨[], none⟩ (logs.map .call ++ [.flush schemaEmpty]) = (⟨[], some schemaEmpty⟩, logs) := by
  have key : ∀ (ls b : List Log), sinkRun ⟨b, none⟩ (ls.map .call ++ [.flush schemaEmpty]) = (⟨[], some schemaEmpty⟩, b ++ ls) := by
    intro ls
    induction ls with
    | nil => intro b; simp [sinkRun, sinkStep]
    | cons l r ih =>
      intro b
      simp only [List.map_cons, List.cons_append, sinkRun, sinkStep]
      rw [ih]
      simp
  simpa using key logs []

theorem sink_shape_recognised : VgiVerif.Gen.LogDispatch.sinkShapeRecognised = true := by decide

/-! ## (b) robustness and fields -/

open VgiVerif.Gen.LogDispatch (shape)
open VgiVerif.Gen.LogWire

def handling : Outcome → Spec.Handling
  | .data => .data
  | .delivered _ => .delivered
  | .ignored => .ignored
  | .raiseRpc _ => .rpcError
  | .crash _ => .callFails

/-- **C08 robust**: for EVERY batch (any row count, metadata absent or present, level / message / extra / ids any
bytes, `log_extra` any JSON value or not JSON at all) the client never fails the call: the batch is data, a delivered
message, an ignored message, or — at EXCEPTION level only — the RpcError the peer asked for -/
theorem C08_robust (b : WireBatch) : ∀ x, dispatchLog shape b ≠ .crash x := by
  intro x
  rcases b with ⟨rows, _ | md⟩
  · simp [dispatchLog]
  · rw [dispatch_closed]
    split
    · simp
    · split
      · split
        · simp
        · split <;> simp
      · simp

theorem C08_robust_handling (b : WireBatch) : handling (dispatchLog shape b) ≠ .callFails := by
  cases h : dispatchLog shape b with
  | crash x => exact absurd h (C08_robust b x)
  | _ => simp [handling]

/-- an RpcError is raised only when the peer sent EXCEPTION level (a log batch never turns into an error) -/
theorem C08_rpcError_only_exception (rows : Nat) (md : Meta) (r : RpcErr)
    (h : dispatchLog shape ⟨rows, some md⟩ = .raiseRpc r) :
    ∃ lv, md.level = some lv ∧ lv.text = exceptionLevel := by
  rw [dispatch_closed] at h
  split at h
  · cases h
  · split at h
    · rename_i lv mv hl hm
      split at h
      · exact ⟨lv, by simp_all, by assumption⟩
      · split at h <;> cases h
    · cases h

/-- the extras of a delivered message: the sender's, plus the server id / request id the framework adds -/
def withIds (extra : List (Str × Str)) (sid : Option Str) (rid : Str) : List (Str × Str) :=
  let e1 := match sid with | none => extra | some v => dictSet extra serverIdExtraKey v
  if rid ≠ [] then dictSet e1 requestIdExtraKey rid else e1

theorem map_logMsg_extra (l : Log) :
    (logMsg l).extra.map (fun (k, v) => (k, pyStr v)) = l.extra := by
  simp only [logMsg, List.map_map]
  conv => rhs; rw [← List.map_id l.extra]
  apply List.map_congr_left
  intro ⟨k, v⟩ _
  simp [pyStr]

/-- **C08 fields**: a log written by the server (`client_log(level, text, **extra)` → `add_to_metadata` →
`_write_message_batch`) with a non-EXCEPTION `Level` is delivered with exactly its level, its text and its extras, to
which the client adds `server_id` / `request_id` from the top-level metadata -/
theorem C08_fields (l : Log) (sid : Option Str) (rid : Str)
    (hlevel : isLevel l.level = true) (hne : l.level ≠ exceptionLevel) :
    dispatchLog shape (toWire (logMsg l) sid rid) = .delivered ⟨l.level, l.text, withIds l.extra sid rid⟩ := by
  unfold toWire
  rw [dispatch_closed]
  have hx : extraObj (if (logMsg l).extra.isEmpty then none else some (validMd [], Parsed.ok (Json.obj (logMsg l).extra)))
      = (logMsg l).extra := by
    by_cases he : (logMsg l).extra.isEmpty = true
    · simp only [he, if_true, extraObj]
      exact (List.isEmpty_iff.mp he).symm
    · simp [he, extraObj]
  simp only [bne_self_eq_false, Bool.false_eq_true, if_false]
  have ht : (validMd (logMsg l).level).text = l.level := rfl
  simp only [ht, hne, if_false, hlevel, Bool.not_true, Bool.false_eq_true]
  congr 2
  unfold extrasOf withIds ridOf
  simp only [hx, map_logMsg_extra]
  cases sid <;> by_cases hr : rid = [] <;> simp [hr, validMd]

/-- every extra of the sender other than the two framework keys reaches the callback unchanged -/
theorem C08_fields_extras (l : Log) (sid : Option Str) (rid : Str) (k v : Str)
    (h : (k, v) ∈ l.extra) (h1 : k ≠ serverIdExtraKey) (h2 : k ≠ requestIdExtraKey) :
    (k, v) ∈ withIds l.extra sid rid := by
  unfold withIds
  cases sid with
  | none =>
    simp only
    split
    · exact dictSet_other _ _ _ _ _ h h2
    · exact h
  | some s =>
    simp only
    have := dictSet_other l.extra serverIdExtraKey s k v h h1
    split
    · exact dictSet_other _ _ _ _ _ this h2
    · exact this

/-- with no server id and no request id the delivered message IS the emitted one -/
theorem C08_fields_exact (l : Log) (hlevel : isLevel l.level = true) (hne : l.level ≠ exceptionLevel) :
    dispatchLog shape (toWire (logMsg l) none []) = .delivered l := by
  rw [C08_fields l none [] hlevel hne]; simp [withIds]

/-- non-vacuity of the fields theorem -/
example : isLevel "INFO".toList = true ∧ "INFO".toList ≠ exceptionLevel := by decide

end VgiVerif.C08
