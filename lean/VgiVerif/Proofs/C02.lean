import VgiVerif.Model.C02
import VgiVerif.Spec.C02
import VgiVerif.Lemmas.C02Stable
import VgiVerif.Lemmas.C02Hint
/-
C02 property theorems (the obligations).  Helper lemmas: `Lemmas/C02.lean`, `Lemmas/C02Reject.lean`, `Lemmas/C02Stable.lean`
(namespace `Aux`), and the C03 lemmas for dataclass payloads.  `env` is any Arrow environment; its laws appear as explicit
hypotheses (`env.Lawful`, `lossless env t`) exactly where they are needed.
-/
namespace VgiVerif.C02
open VgiVerif.Py

/-- The extracted shapes of `_convert_for_arrow`, `_deserialize_value`, the schema builders, the None checks and the default
merge are the ones the model transliterates. -/
theorem C02_shapes :
    Gen.C02.convertBranches = [("ArrowSerializableDataclass", "val.serialize_to_bytes()"), ("Enum", "val.name"),
      ("frozenset", "list(val)"), ("dict", "list(val.items())")]
    ∧ Gen.C02.deserializeBranches.map Prod.fst = ["dataclass", "Enum", "dict", "frozenset"]
    ∧ (Gen.C02.deserializeBranches.map Prod.snd).drop 1 = ["base[value]", "dict(cast('list[tuple[object, object]]', value))", "frozenset(value)"]
    ∧ Gen.C02.deserializeUnwrapsOptional = true ∧ Gen.C02.deserializeOrder = "opt-then-ann" ∧ Gen.C02.paramsOptFirst = true ∧ Gen.C02.resultOptFirst = true
    ∧ Gen.C02.validateParamsRejectsNone = true ∧ Gen.C02.validateResultRejectsNone = true
    ∧ Gen.C02.mergeDefaultsFirst = true ∧ Gen.C02.writeRequestConverts = true ∧ Gen.C02.resultUsesSameConversions = true := by
  refine ⟨by decide, by decide, by decide, rfl, by decide, rfl, rfl, rfl, rfl, rfl, rfl, rfl⟩

theorem arrowResult_eq (t : Ty) : arrowResult t = arrowTop t := by
  have h : Gen.C02.resultOptFirst = true := by rfl
  unfold arrowResult
  rw [h]
  rfl

/-- One hop, all supported types and all values the declared type represents: the implementation receives the value
(float32 rounded to binary32, decimals at the declared scale, dataclasses as C03 specifies). -/
theorem C02_roundtrip (env : Env) : Spec.Arrives env (sendParam env) :=
  fun t v hs h => Aux.trip_ok env _ t v hs h rfl

/-- …and the same holds for the way back. -/
theorem C02_result (env : Env) : Spec.Arrives env (sendResult env) :=
  fun t v hs h => Aux.trip_ok env _ t v hs h (arrowResult_eq t)

/-- Echo (parameter hop then result hop) of a value whose stored form is stable. -/
theorem C02_echo (env : Env) (t : Ty) (v : V) (hs : supported t = true) (h : inhabits env t v = true)
    (hst : Stable env t v) : echoValue env t v = .ok (norm env t v) := by
  unfold echoValue
  rw [C02_roundtrip env t v hs h]
  show sendResult env t (norm env t v) = _
  rw [C02_result env t (norm env t v) hs hst.1, hst.2]

/-- Stored forms are stable under the environment laws, for every supported type whose dataclasses have neither transient
nor float32 fields. -/
theorem C02_stable (env : Env) (hl : env.Lawful) (t : Ty) (v : V) (hs : supported t = true) (hx : dcExact t = true)
    (h : inhabits env t v = true) : Stable env t v :=
  Aux.stable env hl t v hs hx h

/-- `Spec.Echoes` for every supported type except dataclass parameters with transient / float32 fields (their one-hop
theorem is `C02_roundtrip`; what is not proved for them is that the second hop returns the same normal form). -/
theorem C02_echo_partial (env : Env) (hl : env.Lawful) (t : Ty) (v : V) (hs : supported t = true) (hx : dcExact t = true)
    (h : inhabits env t v = true) : echoValue env t v = .ok (norm env t v) :=
  C02_echo env t v hs h (C02_stable env hl t v hs hx h)

/-- A value of the right Python type that the declared type cannot represent is rejected — for every type whose temporal /
decimal values inside are stored losslessly or refused by their columns (`Spec.Rejects` minus values with sub-unit parts in
second / millisecond temporal columns and decimals with a 39-digit coefficient: see Findings/C02.lean). -/
theorem C02_reject_partial (env : Env) (t : Ty) (v : V) (hs : supported t = true) (hw : wellTyped env t v = true)
    (hi : inhabits env t v = false) (hl : lossless env t v) : ∃ e, sendParam env t v = .error e :=
  Aux.sendParam_reject env t v hs hw hi hl

/-- None is accepted exactly in Optional positions. -/
theorem C02_none (env : Env) (t : Ty) :
    (isOpt t = true → sendParam env t .none = .ok .none) ∧ (isOpt t = false → ∃ e, sendParam env t .none = .error e) := by
  constructor <;> intro h <;> simp [sendParam, trip, h]

/-- the specified arguments of a call: the value passed, else the Protocol's default, else None -/
theorem argFor_spec (p : Param) (args : List (List Char × V)) :
    (∀ v, fieldGet args p.name = some v → argFor p args = v)
    ∧ (fieldGet args p.name = Option.none → ∀ d, p.dflt = some d → argFor p args = d)
    ∧ (fieldGet args p.name = Option.none → p.dflt = Option.none → argFor p args = .none) := by
  refine ⟨fun v h => by simp [argFor, h], fun h d hd => by simp [argFor, h, hd], fun h hd => by simp [argFor, h, hd]⟩

/-- A call with a signature of any length: the implementation receives, for every parameter, args ⊔ defaults. -/
theorem C02_signature (env : Env) (sig : List Param) (args : List (List Char × V))
    (h : ∀ p ∈ sig, supported p.ty = true ∧ inhabits env p.ty (argFor p args) = true) :
    callKwargs env sig args = .ok (sig.map (fun p => (p.name, norm env p.ty (argFor p args)))) := by
  unfold callKwargs
  apply mapM_ok
  intro p hp
  rw [C02_roundtrip env p.ty _ (h p hp).1 (h p hp).2]
  rfl

/-- …and an implementation echoing every parameter returns them (stable stored forms). -/
theorem C02_signature_echo (env : Env) (sig : List Param) (args : List (List Char × V))
    (h : ∀ p ∈ sig, supported p.ty = true ∧ inhabits env p.ty (argFor p args) = true ∧ Stable env p.ty (argFor p args)) :
    echoSig env sig args = .ok (sig.map (fun p => (p.name, norm env p.ty (argFor p args)))) := by
  unfold echoSig
  apply mapM_ok
  intro p hp
  rw [C02_echo env p.ty _ (h p hp).1 (h p hp).2.1 (h p hp).2.2]
  rfl

/-- Hint shapes: however `X | None` and `Annotated[X, ArrowType(…) / other metadata]` are combined — as long as the Optional is
on the outside (`regular`: `T`, `T | None`, `Annotated[T, …]`, `Annotated[T, …] | None`) — the implementation receives the value,
exactly as for the resolved annotation. -/
theorem C02_hint_roundtrip (env : Env) (ws : List Wrap) (t : Ty) (v : V) (hr : regular ws = true) (ho : isOpt t = false)
    (hs : supported (resolved ws t) = true) (h : inhabits env (resolved ws t) v = true) :
    tripH env ws t v = .ok (norm env (resolved ws t) v) := by
  rw [Aux.tripH_regular env ws t v hr ho]
  exact Aux.trip_ok env _ _ v hs h rfl

/-- …and the echo returns it (stable stored forms). -/
theorem C02_hint_echo (env : Env) (ws : List Wrap) (t : Ty) (v : V) (hr : regular ws = true) (ho : isOpt t = false)
    (hs : supported (resolved ws t) = true) (h : inhabits env (resolved ws t) v = true)
    (hst : Stable env (resolved ws t) v) : echoH env ws t v = .ok (norm env (resolved ws t) v) := by
  unfold echoH
  rw [C02_hint_roundtrip env ws t v hr ho hs h]
  show tripH env ws t (norm env (resolved ws t) v) = _
  rw [C02_hint_roundtrip env ws t _ hr ho hs hst.1, hst.2]

/-! non-vacuity -/
example : regular [.opt, .annArrow] = true ∧ regular [.annArrow, .opt] = false := by decide
example : supported (resolved [.opt, .annArrow] (.set (.int .i16))) = true := by decide
example : supported (.map .str (.opt .f32)) = true := by decide
example : inhabits concreteEnv (.list (.opt (.int .i8))) (.list [.int 127, .none]) = true := by decide
example : wellTyped concreteEnv (.int .i8) (.int 128) = true ∧ inhabits concreteEnv (.int .i8) (.int 128) = false := by decide
example : lossless concreteEnv (.list (.int .i8)) (.list [.int 128]) := by simp [lossless]
example : dcExact (.opt (.dc "Inner".toList (.cons "x".toList false Option.none (.scalar .int) .nil))) = true := by decide

end VgiVerif.C02
