import VgiVerif.Model.C15
import VgiVerif.Spec.C15
/-
C15 property theorems.  Helper lemmas are in `namespace Aux`; the property theorems (the obligations audited by
the check) are at the bottom.  Everything is stated over the *extracted* tables of `Gen.HttpStatus`, so an edit of
an `except` clause, of the middleware order, of a guard or of `_set_http_status` re-checks these proofs.

`Req` is a finite product of enumerations; the proofs walk it in the order the server looks at a request
(middleware, content type, method, route guard, body, token, behaviour), closing every branch as soon as the
answer is determined.  That is a proof about *every* request class, not a sample.
-/
namespace VgiVerif.C15
open VgiVerif.HttpReq Spec

namespace Aux

/-- everything the property says about one request class, as one decidable check -/
def good (rq : Req) : Bool :=
  let r := respond rq
  (r.status == specStatus rq)
    && decide (r.status < 500)
    && (r.marker == (dispatched rq && failed rq))
    && (r.status == 401 || r.status == 415 || r.arrow)
    && (r.dispatched == dispatched rq)
    && ((r.status == 200) == dispatched rq)

/-! after the middleware chain: the resource, for a request no middleware refuses (one lemma per route and
    per passing content-encoding class, to keep each proof small) -/

theorem good_unary_plain (kind : MethodKind) (body : Body) (ctype : CType) (token : Token) (beh : Behaviour) :
    good ⟨.unary, kind, body, ctype, .none, .within, .ok, token, beh⟩ = true := by
  cases ctype
  · cases kind
    · cases body
      · cases beh <;> rfl
      · rename_i e; cases e <;> rfl
      · rename_i m; cases m <;> rfl
      · rename_i d; cases d <;> rfl
      · cases beh <;> rfl
      · rename_i e; cases e <;> rfl
    · rfl
    · rfl
    · rfl
    · cases body
      · rfl
      · rename_i e; cases e <;> rfl
      · rename_i m; cases m <;> rfl
      · rename_i d; cases d <;> rfl
      · rfl
      · rename_i e; cases e <;> rfl
  · rfl
  · rfl
  · rfl

theorem good_init_plain (kind : MethodKind) (body : Body) (ctype : CType) (token : Token) (beh : Behaviour) :
    good ⟨.init, kind, body, ctype, .none, .within, .ok, token, beh⟩ = true := by
  cases ctype
  · cases kind
    · rfl
    · cases body
      · cases beh <;> rfl
      · rename_i e; cases e <;> rfl
      · rename_i m; cases m <;> rfl
      · rename_i d; cases d <;> rfl
      · cases beh <;> rfl
      · rename_i e; cases e <;> rfl
    · cases body
      · cases beh <;> rfl
      · rename_i e; cases e <;> rfl
      · rename_i m; cases m <;> rfl
      · rename_i d; cases d <;> rfl
      · cases beh <;> rfl
      · rename_i e; cases e <;> rfl
    · rfl
    · rfl
  · rfl
  · rfl
  · rfl

theorem good_exchange_producer (body : Body) (token : Token) (beh : Behaviour) :
    good ⟨.exchange, .producer, body, .correct, .none, .within, .ok, token, beh⟩ = true := by
  cases body
  · cases token <;> first | rfl | (cases beh <;> rfl)
  · rename_i e; cases e <;> rfl
  · rename_i m; cases m <;> cases token <;> first | rfl | (cases beh <;> rfl)
  · rename_i d; cases d <;> cases token <;> first | rfl | (cases beh <;> rfl)
  · cases token <;> rfl
  · cases token <;> first | rfl | (cases beh <;> rfl)

theorem good_exchange_exchanger (body : Body) (token : Token) (beh : Behaviour) :
    good ⟨.exchange, .exchanger, body, .correct, .none, .within, .ok, token, beh⟩ = true := by
  cases body
  · cases token <;> first | rfl | (cases beh <;> rfl)
  · rename_i e; cases e <;> rfl
  · rename_i m; cases m <;> cases token <;> first | rfl | (cases beh <;> rfl)
  · rename_i d; cases d <;> cases token <;> rfl
  · cases token <;> rfl
  · cases token <;> first | rfl | (cases beh <;> rfl)

theorem good_exchange_plain (kind : MethodKind) (body : Body) (ctype : CType) (token : Token) (beh : Behaviour) :
    good ⟨.exchange, kind, body, ctype, .none, .within, .ok, token, beh⟩ = true := by
  cases ctype
  · cases kind
    · rfl
    · exact good_exchange_producer _ _ _
    · exact good_exchange_exchanger _ _ _
    · rfl
    · rfl
  · rfl
  · rfl
  · rfl

/-- the framework's upload-URL route: the method kind named by the path plays no role -/
theorem good_upload_plain (kind : MethodKind) (body : Body) (ctype : CType) (token : Token) (beh : Behaviour) :
    good ⟨.uploadUrl, kind, body, ctype, .none, .within, .ok, token, beh⟩ = true := by
  cases ctype
  · cases body
    · cases beh <;> rfl
    · rename_i e; cases e <;> rfl
    · rename_i m; cases m <;> first | rfl | (cases beh <;> rfl)
    · rename_i d; cases d <;> first | rfl | (cases beh <;> rfl)
    · cases beh <;> rfl
    · cases beh <;> rfl
  · rfl
  · rfl
  · rfl

/-- a request that the middleware chain lets through is answered like the same request sent uncompressed and well
    below the size cap: neither the chain nor the spec looks at anything else once size, coding and credentials pass -/
theorem good_passing (route : Route) (kind : MethodKind) (body : Body) (ctype : CType) (token : Token) (beh : Behaviour)
    (size : Size) (cenc : CEnc) (hs : size = .within ∨ size = .atCap)
    (hc : cenc = .none ∨ cenc = .supported ∨ ∃ c, cenc = .atCap c) :
    good ⟨route, kind, body, ctype, cenc, size, .ok, token, beh⟩
      = good ⟨route, kind, body, ctype, .none, .within, .ok, token, beh⟩ := by
  rcases hs with rfl | rfl <;> rcases hc with rfl | rfl | ⟨c, rfl⟩ <;> first | rfl | (cases c <;> rfl)

theorem good_all (rq : Req) : good rq = true := by
  obtain ⟨route, kind, body, ctype, cenc, size, auth, token, beh⟩ := rq
  -- middleware: size cap, content encoding, authentication (registration order)
  have plain : good ⟨route, kind, body, ctype, .none, .within, .ok, token, beh⟩ = true := by
    cases route
    · exact good_unary_plain _ _ _ _ _
    · exact good_init_plain _ _ _ _ _
    · exact good_exchange_plain _ _ _ _ _
    · exact good_upload_plain _ _ _ _ _
  cases size
  · cases cenc
    · cases auth
      · exact plain
      · rfl
    · cases auth
      · rw [good_passing _ _ _ _ _ _ _ _ (Or.inl rfl) (Or.inr (Or.inl rfl))]; exact plain
      · rfl
    · rfl
    · rfl
    · rfl
    · cases auth
      · rw [good_passing _ _ _ _ _ _ _ _ (Or.inl rfl) (Or.inr (Or.inr ⟨_, rfl⟩))]; exact plain
      · rename_i c; cases c <;> rfl
  · rfl
  · cases cenc
    · cases auth
      · rw [good_passing _ _ _ _ _ _ _ _ (Or.inr rfl) (Or.inl rfl)]; exact plain
      · rfl
    · cases auth
      · rw [good_passing _ _ _ _ _ _ _ _ (Or.inr rfl) (Or.inr (Or.inl rfl))]; exact plain
      · rfl
    · rfl
    · rfl
    · rfl
    · cases auth
      · rw [good_passing _ _ _ _ _ _ _ _ (Or.inr rfl) (Or.inr (Or.inr ⟨_, rfl⟩))]; exact plain
      · rename_i c; cases c <;> rfl

theorem specStatus_allowed (rq : Req) : Allowed rq (specStatus rq) := by
  unfold Allowed specStatus
  cases h : defects rq with
  | nil => simp
  | cons d ds => simp

end Aux

/-- the status is the one the mapping prescribes (first defect in the reference precedence, else 200) -/
theorem C15_table (rq : Req) : (respond rq).status = specStatus rq := by
  have h := Aux.good_all rq
  simp only [Aux.good, Bool.and_eq_true, beq_iff_eq] at h
  exact h.1.1.1.1.1

/-- …which is always a status the property allows for a defect the request really has -/
theorem C15_allowed (rq : Req) : Allowed rq (respond rq).status := by
  rw [C15_table]; exact Aux.specStatus_allowed rq

/-- no request class yields a 5xx -/
theorem C15_no5xx (rq : Req) : (respond rq).status < 500 := by
  have h := Aux.good_all rq
  simp only [Aux.good, Bool.and_eq_true, decide_eq_true_eq] at h
  exact h.1.1.1.1.2

/-- the error marker is set exactly when the request was a dispatched call that failed -/
theorem C15_marker (rq : Req) : MarkerOk rq (respond rq).marker := by
  have h := Aux.good_all rq
  simp only [Aux.good, Bool.and_eq_true, beq_iff_eq] at h
  unfold MarkerOk
  rw [h.1.1.1.2]
  simp

/-- every response other than 401 and 415 has an Arrow IPC body -/
theorem C15_body (rq : Req) : BodyOk (respond rq).status (respond rq).arrow := by
  have h := Aux.good_all rq
  simp only [Aux.good, Bool.and_eq_true, Bool.or_eq_true, beq_iff_eq] at h
  intro h1 h2
  rcases h.1.1.2 with (h3 | h3) | h3
  · exact absurd h3 h1
  · exact absurd h3 h2
  · exact h3

/-- 200 exactly for dispatched calls; method code (or the cancel handler) runs exactly for requests without defect -/
theorem C15_dispatch (rq : Req) :
    ((respond rq).status = 200 ↔ dispatched rq = true) ∧ ((respond rq).dispatched = dispatched rq) := by
  have h := Aux.good_all rq
  simp only [Aux.good, Bool.and_eq_true, beq_iff_eq] at h
  refine ⟨?_, h.1.2⟩
  have h6 := h.2
  constructor
  · intro hs; rw [← h6]; simp [hs]
  · intro hd; rw [hd] at h6; simpa using h6

/-- non-vacuity: a dispatched failing call, a refused one, and a valid one -/
example : (respond ⟨.unary, .unary, .valid, .correct, .none, .within, .ok, .valid, .raises⟩) = ⟨200, true, true, true⟩ := by rfl
example : (respond ⟨.exchange, .exchanger, .parseFail .stopIteration, .correct, .none, .within, .ok, .valid, .ok⟩) = ⟨400, false, true, false⟩ := by rfl
example : (respond ⟨.init, .producer, .valid, .correct, .supported, .within, .ok, .missing, .overshoot⟩) = ⟨200, false, true, true⟩ := by rfl

end VgiVerif.C15
