import VgiVerif.Prelude.JsonUtil
import VgiVerif.Driver.Engine
import VgiVerif.Model.C34
namespace VgiVerif.C34.Driver
open Lean VgiVerif.J VgiVerif.Engine VgiVerif.C34
open VgiVerif.JsonSchema (JV)

/-! JSON of a value: {"s": code points} | {"i": int} | {"n": thousandths} | {"b": bool} | "obj" | null -/

def jvJson : JV → Json
  | .str s => obj [("s", ofStr s)]
  | .int n => obj [("i", ofInt n)]
  | .num m => obj [("n", ofInt m)]
  | .bool b => obj [("b", ofBool b)]
  | .obj => Json.str "obj"
  | .null => Json.null

def jvOf (j : Json) : R JV :=
  match j with
  | .null => pure .null
  | .str "obj" => pure .obj
  | _ =>
    match fieldOpt j "s", fieldOpt j "i", fieldOpt j "n", fieldOpt j "b" with
    | some s, _, _, _ => do pure (.str (← str s))
    | _, some i, _, _ => do pure (.int (← int i))
    | _, _, some n, _ => do pure (.num (← int n))
    | _, _, _, some b => do pure (.bool (← bool b))
    | _, _, _, _ => throw s!"bad value {j.compress}"

/-- a generic instance: only keys the schema declares can matter to it -/
def instOf (j : Json) : R (Key → Option JV) := do
  let kvs ← VgiVerif.Gen.C34.Key.all.filterMapM fun k =>
    match j.getObjVal? k.name with
    | .ok v => do pure (some (k, ← jvOf v))
    | .error _ => pure none
  pure fun k => (kvs.find? (·.1 == k)).map (·.2)

def recJson (r : Record) : Json :=
  obj (r.keys.filterMap fun k => (r.get k).map fun v => (k.name, jvJson v))

def optS (j : Json) (k : String) : R (Option Str) :=
  match j.getObjVal? k with
  | .ok v => do
    match ← jvOf v with
    | .str s => pure (some s)
    | _ => throw s!"{k}: expected a string"
  | .error _ => pure none

def reqS (j : Json) (k : String) : R Str := do
  match ← optS j k with
  | some s => pure s
  | none => throw s!"missing {k}"

def has (j : Json) (k : String) : Bool := (j.getObjVal? k).toOption.isSome

/-- a record in the `recJson` format (what `format` is fed in the differential test) -/
def recOf (j : Json) : R Record := do
  let mt ← reqS j "method_type"
  let st ← reqS j "status"
  let trunc : Option Trunc ← match j.getObjVal? "truncated" with
    | .ok v => do
      match ← jvOf v with
      | .bool true => pure (some Trunc.shed)
      | .str s => if JV.str s == Trunc.payloadOmitted.jv then pure (some Trunc.payloadOmitted)
                  else if JV.str s == Trunc.tooLarge.jv then pure (some Trunc.tooLarge) else throw "truncated"
      | _ => throw "truncated"
    | .error _ => pure none
  let http : Option Nat ← match j.getObjVal? "http_status" with
    | .ok v => do
      match ← jvOf v with
      | .int n => pure (some n.toNat)
      | _ => throw "http_status"
    | .error _ => pure none
  let auth ← match j.getObjVal? "authenticated" with
    | .ok v => do
      match ← jvOf v with
      | .bool b => pure b
      | _ => throw "authenticated"
    | .error _ => throw "authenticated"
  let claims : Option Bool ← match j.getObjVal? "claims" with
    | .ok (.str "obj") => pure (some true)
    | .ok (.str "empty") => pure (some false)
    | .ok _ => throw "claims"
    | .error _ => pure none
  pure {
    message := ← reqS j "message", serverId := ← reqS j "server_id", protocol := ← reqS j "protocol"
    protocolHash := ← reqS j "protocol_hash", method := ← reqS j "method"
    methodType := if mt == MT.stream.str then .stream else .unary
    principal := ← reqS j "principal", authDomain := ← reqS j "auth_domain", authenticated := auth
    remoteAddr := ← reqS j "remote_addr"
    status := if st == St.error.str then .error else .ok
    errorType := ← reqS j "error_type", errorMessage := ← optS j "error_message"
    cancelled := has j "cancelled", serverVersion := ← optS j "server_version", requestId := ← optS j "request_id"
    httpStatus := http, requestData := has j "request_data", originalRequestBytes := has j "original_request_bytes"
    truncated := trunc, streamId := ← optS j "stream_id", claims := claims
    requestState := has j "request_state", responseState := has j "response_state"
    requestBytes := has j "request_bytes", responseBytes := has j "response_bytes", stats := has j "input_batches" }

/-- claims: the shed `{}` is told apart from the redacted object -/
def recJsonC (r : Record) : Json :=
  match recJson r with
  | j@(.obj _) =>
    match r.claims with
    | some false => j.setObjVal! "claims" (Json.str "empty")
    | _ => j
  | j => j

def hex32 (n : Nat) : Str :=
  let ds := (Nat.toDigits 16 n).take 32
  List.replicate (32 - ds.length) '0' ++ ds

def envOf (j : Json) : R Env := do
  pure {
    serverId := ← strF j "server_id", protocol := ← strF j "protocol", protocolHash := ← strF j "protocol_hash"
    serverVersion := ← strF j "server_version", debug := ← boolF j "debug"
    principal := ← strF j "principal", authDomain := ← strF j "auth_domain", authenticated := ← boolF j "authenticated"
    claims := ← boolF j "claims", requestId := ← strF j "request_id", httpRemote := ← strF j "http_remote"
    sid := hex32
    cacheHit := ← do
      let dflt ← match fieldOpt j "hit_default" with
        | some b => bool b
        | none => pure true
      let ex : List (Nat × Option Nat × Bool) ← match fieldOpt j "hits" with
        | some a => do (← arr a).mapM fun t => do
            match ← arr t with
            | [n, p, b] => do
              let pos : Option Nat ← match p with
                | .null => pure none
                | _ => do pure (some (← nat p))
              pure (← nat n, pos, ← bool b)
            | _ => throw "hits entry"
        | none => pure []
      pure fun n key => ((ex.find? fun t => t.1 == n && t.2.1 == key).map (·.2.2)).getD dflt }

def exnOpt (j : Json) (k : String) : R (Option Exn) :=
  match fieldOpt j k with
  | some e => do pure (some (← Engine.Driver.exn e))
  | none => pure none

def finOf (j : Json) : R Fin := do
  match ← rawStr (← field j "fin") with
  | "close" => pure .close
  | "cancel" => pure .cancel
  | s => throw s!"fin {s}"

def streamOf (j : Json) (ex : Bool) : R StreamM := do
  pure { name := ← strF j "name", exchange := ex, header := (← boolF j "header"), init := ← exnOpt j "init",
         steps := ← Engine.Driver.steps j }

def callOf (j : Json) : R Call := do
  match ← rawStr (← field j "kind") with
  | "unary" =>
    let out ← field j "out"
    let o : Except Exn Nat ← match fieldOpt out "ok", fieldOpt out "raise" with
      | some v, _ => do pure (.ok (← nat v))
      | _, some e => do pure (.error (← Engine.Driver.exn e))
      | _, _ => throw "bad out"
    pure (.unary { name := ← strF j "name", out := o } (← exnOpt j "over"))
  | "producer" =>
    let d : Option Nat ← match fieldOpt j "demand" with
      | some n => do pure (some (← nat n))
      | none => pure none
    let brk : Nat → Bool ← match fieldOpt j "brk" with
      | none => pure (fun _ => true)
      | some (.str "all") => pure (fun _ => true)
      | some (.str "none") => pure (fun _ => false)
      | some b => do let ps ← (← arr b).mapM nat; pure (fun p => ps.contains p)
    pure (.producer (← streamOf j false) brk d (← finOf j))
  | "exchange" =>
    let overs : List (Nat × Exn) ← match fieldOpt j "over" with
      | some a => do (← arr a).mapM fun p => do
          let l ← arr p
          match l with
          | [a, b] => do pure (← nat a, ← Engine.Driver.exn b)
          | _ => throw "over pair"
      | none => pure []
    pure (.exchange (← streamOf j true) (← natF j "sends") (fun pos => (overs.find? (·.1 == pos)).map (·.2)) (← finOf j))
  | k => throw s!"call kind {k}"

def transportOf (j : Json) : R Transport := do
  match ← rawStr (← field j "transport") with
  | "pipe" => pure .pipe
  | "http" => pure .http
  | t => throw s!"transport {t}"

def handle (fn : String) (a : Json) : R Json := do
  match fn with
  | "schemaOk" =>
    let g ← instOf a
    pure (ofBool (VgiVerif.Gen.C34.schema.ok g))
  | "run" =>
    let env ← envOf (← field a "env")
    let t ← transportOf a
    let prog ← (← arrF a "prog").mapM callOf
    let recs := run env t prog
    pure (obj [("records", ofList (recs.map fun rs => ofList (rs.map recJsonC))),
               ("dispatches", ofList (prog.map fun c => ofNat (dispatches t c))),
               ("valid", ofList (recs.map fun rs => ofList (rs.map fun r => ofBool (SchemaOk r))))])
  | "format" =>
    let r ← recOf (← field a "record")
    let fits ← (← arrF a "fits").mapM bool
    -- the formatter asks `fits` about the candidate of each stage it reaches, in order
    let r1 := stage1 r
    let r2 := stage2 r
    let answers : List (Record × Bool) :=
      let q0 := [(r, fits.getD 0 false)]
      let q1 := if r.requestData then [(r1, fits.getD q0.length false)] else []
      let q2 := if r1.claims.isSome then [(r2, fits.getD (q0.length + q1.length) false)] else []
      q0 ++ q1 ++ q2
    let f : Record → Bool := fun x => ((answers.find? (·.1 == x)).map (·.2)).getD false
    let out := format f r
    pure (obj [("record", recJsonC out), ("valid", ofBool (SchemaOk out)), ("queries", ofNat answers.length)])
  | "refused" =>
    let env ← envOf (← field a "env")
    let recs := Http.refused env (← strF a "name") (← Engine.Driver.exn (← field a "cause")) (← natF a "status")
    pure (obj [("records", ofList (recs.map recJsonC)), ("valid", ofList (recs.map fun r => ofBool (SchemaOk r)))])
  | "renderStr" =>
    -- the JSON text of one string value as the formatters write it (escaping per the extracted `ensure_ascii` setting)
    pure (ofStr (renderStr G.jsonAsciiOnly (← strF a "s")))
  | _ => throw s!"unknown function C34.{fn}"

end VgiVerif.C34.Driver
