import VgiVerif.Prelude.JsonUtil
import VgiVerif.Driver.Engine
import VgiVerif.Model.C11
namespace VgiVerif.C11.Driver
open Lean VgiVerif.J VgiVerif.Engine VgiVerif.C11

def optNat (j : Json) (k : String) : R (Option Nat) :=
  match fieldOpt j k with
  | some v => do pure (some (← nat v))
  | none => pure none

/-- sizes arrive positionally (per step: one number per IPC batch the step flushes, in wire order); the model's size
function is the table item ↦ bytes (the harness has checked that equal items have equal sizes) -/
def mkSz (table : List (Item × Nat)) (sentinel : Nat) : Item → Nat
  | .token _ => sentinel
  | it => match table.find? (fun e => e.1 == it) with
    | some e => e.2
    | none => 0

def natList (j : Json) : R (List Nat) := do (← arr j).mapM nat

def table (initLogs : List Log) (initSizes : List Nat) (steps : List Step) (sizes : List (List Nat)) : List (Item × Nat) :=
  (logItems initLogs).zip initSizes ++ ((steps.zip sizes).flatMap fun (s, zs) => (stepItems s).zip zs)

def kind : Item → Json
  | .log _ => Json.str "log"
  | .data b => ofList [Json.str "data", ofNat b.id]
  | .err _ => Json.str "err"
  | .token p => ofList [Json.str "token", ofNat p]

def turnJson (sz : Item → Nat) (body : List Item) : Json :=
  obj [("items", ofList (body.map kind)),
       ("data", ofList (body.filterMap fun | .data b => some (ofNat b.id) | _ => none)),
       ("token", ofOpt ofNat (body.findSome? fun | .token p => some p | _ => none)),
       ("bytes", ofNat (bytes sz (body.filter fun | .token _ => false | _ => true)))]

/-- a step may carry `"hinted": STEP` — what the producer plays at that position when its tick carries the init request's
metadata; without it the producer ignores its tick there -/
def rstep (j : Json) : R RStep := do
  let plain ← Engine.Driver.step j
  let hinted ← match fieldOpt j "hinted" with
    | some h => Engine.Driver.step h
    | none => pure plain
  pure ⟨plain, hinted⟩

structure Setup where
  cap0 : Option Nat
  cap : Option Nat
  pre : Nat
  initLogs : List Log
  steps : List RStep
  sz : Item → Nat

def setup (a : Json) : R Setup := do
  let il ← Engine.Driver.logs a "init_logs"
  let st ← (← arrF a "steps").mapM rstep
  let isz ← match fieldOpt a "init_sizes" with | some j => natList j | none => pure []
  let ssz ← match fieldOpt a "sizes" with | some j => do (← arr j).mapM natList | none => pure []
  let sentinel ← match fieldOpt a "sentinel" with | some j => nat j | none => pure 0
  pure { cap0 := (← optNat a "cap0"), cap := (← optNat a "cap"), pre := (← natF a "pre"), initLogs := il, steps := st,
         sz := mkSz (table il isz (resolve true st) ssz) sentinel }

def hexOpt (j : Json) (k : String) : R (Option Bytes) :=
  match fieldOpt j k with
  | some v => do pure (some (← J.bytes v))
  | none => pure none

def errName : TokErr → String
  | .structError => "structError"
  | .tooShort => "tooShort"
  | .overrun => "overrun"

def handle (fn : String) (a : Json) : R Json := do
  match fn with
  | "run" =>
    -- open + iterate under cap0 (the /init worker) and cap (every continuation worker)
    let s ← setup a
    let server := serveT (fun _ => s.cap) s.sz s.pre s.steps
    let init := initBodyT s.cap0 s.sz s.pre s.initLogs s.steps
    let fuel := s.steps.length + 1
    pure (obj [("obs", Engine.Driver.obsJson (obs (iterateT s.cap0 (fun _ => s.cap) s.sz s.pre s.initLogs s.steps))),
               ("turns", ofList ((turnsOf server fuel init).map (turnJson s.sz))),
               ("count", ofNat (countTurns server fuel init)),
               ("sem", Engine.Driver.obsJson (obs (Sem.lg s.initLogs ++ Sem.producer false (resolve true s.steps))))])
  | "resume" =>
    -- the continuation for step index `pos` on a worker with cap `cap`, followed to the end
    let s ← setup a
    let pos ← natF a "pos"
    let server := serveT (fun _ => s.cap) s.sz s.pre s.steps
    let fuel := s.steps.length + 1
    pure (obj [("evs", Engine.Driver.evs (Http.follow server fuel (server pos))),
               ("rest", Engine.Driver.evs (Sem.producer false ((s.steps.map (·.plain)).drop pos))),
               ("turns", ofList ((turnsOf server fuel (server pos)).map (turnJson s.sz)))])
  | "decide" =>
    let cap ← optNat a "cap"
    let tell ← natF a "tell"
    let c := Gen.C11.shouldContinue cap tell
    pure (obj [("continue", ofBool c), ("mint", ofBool (Gen.C11.mintWhen c))])
  | "token_enc" =>
    let st ← bytesF a "state"
    let call ← hexOpt a "call"
    match encodeResume st call with
    | .ok t => pure (obj [("ok", ofBytes t)])
    | .error e => pure (obj [("err", Json.str (errName e))])
  | "token_dec" =>
    let t ← bytesF a "token"
    match decodeResume t with
    | .ok (st, call) => pure (obj [("ok", ofList [ofBytes st, ofOpt ofBytes call])])
    | .error e => pure (obj [("err", Json.str (errName e))])
  | _ => throw s!"unknown function C11.{fn}"

end VgiVerif.C11.Driver
