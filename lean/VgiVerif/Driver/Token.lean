import VgiVerif.Prelude.JsonUtil
import VgiVerif.Prelude.Base64Std
import VgiVerif.Model.Token
namespace VgiVerif.Token.Driver
open Lean VgiVerif.J VgiVerif.Token

def identity (j : Json) : R Identity := do
  match fieldOpt j "anon" with
  | some (.bool true) => pure .anonymous
  | _ => pure (.user (← strF j "d") (← strF j "p"))

def tok (j : Option Json) : R (Option Tok) :=
  match j with
  | none => pure none
  | some v => do
    match fieldOpt v "raw" with
    | some r => pure (some (.raw (← bytes r)))
    | none => pure (some (.sealed (← natF v "key") (← bytesF v "aad") (← natF v "ver") (← natF v "nonce") (← bytesF v "payload")))

def obs (j : Json) : R WireObs := do
  pure ⟨← tok (fieldOpt j "dec"), ← boolF j "canonical"⟩

/-- zstd as a finite table supplied by the harness: [[input, output | null], …] -/
def zstdOf (j : Option Json) : R Zstd := do
  let rows ← match j with
    | none => pure []
    | some v => do
      (← arr v).mapM fun row => do
        match (← arr row) with
        | [i, o] => do
          let ib ← bytes i
          let ob ← match o with | .null => pure none | x => do pure (some (← bytes x))
          pure (ib, ob)
        | _ => throw "zstd row"
  pure ⟨fun p => (rows.find? (fun r => r.2 == some p)).map (·.1) |>.getD p,
        fun b => (rows.find? (fun r => r.1 == b)).bind (·.2)⟩

def rejectJson (r : Reject) : Json := obj [("reject", Json.str r.site)]

def resJson {α} (f : α → Json) : Res α → Json
  | .ok a => obj [("ok", f a)]
  | .reject r => rejectJson r
  | .missingCall => Json.str "missing_call"
  | .decodeError => Json.str "decode_error"
  | .crash => Json.str "crash"

def bodyJson (b : CallBody) : Json :=
  ofList [ofBytes b.callState, ofBytes b.typeName, ofBytes b.schema, ofBytes b.inputSchema, ofBytes b.streamId]

def bodyOf (j : Json) : R CallBody := do
  match (← arr j) with
  | [a, b, c, d, e] => pure ⟨← bytes a, ← bytes b, ← bytes c, ← bytes d, ← bytes e⟩
  | _ => throw "call body: five segments expected"

def effectName : Effect → String
  | .cachePut => "cache_put" | .stateDecode => "state_decode" | .bindCallState => "bind_call_state" | .rehydrate => "rehydrate"

def cacheOf (j : Option Json) : R Cache := do
  let rows ← match j with
    | none => pure []
    | some v => (← arr v).mapM fun e => do
        pure ((← bytesF e "cid"), (← strF e "ident"),
          ((← intF e "exp"), (⟨← strF e "method", ← bodyOf (← field e "body")⟩ : CacheEntry)))
  pure fun cid s => (rows.find? (fun r => r.1 == cid && r.2.1 == s)).map (·.2.2)

def shapeOf (a : Json) : R Shape := do
  match fieldOpt a "shape" with
  | none => pure Shape.extracted
  | some v => pure ⟨← boolF v "strict", ← boolF v "bound"⟩

def handle (fn : String) (a : Json) : R Json := do
  match fn with
  | "shape" =>
    pure (obj [("strict", ofBool Shape.extracted.strictB64), ("bound", ofBool Shape.extracted.methodBound)])
  | "aad" => pure (ofBytes (aad (← identity (← field a "who"))))
  | "callAad" =>
    pure (ofBytes (callAad (← shapeOf a).methodBound (← strF a "method") (← identity (← field a "who"))))
  | "cacheDeadline" => pure (ofInt (cacheDeadline (← natF a "ttl") (← natF a "created") (← intF a "now")))
  | "cacheIdent" => pure (ofStr (cacheIdent (← identity (← field a "who"))))
  | "packCursor" => pure (ofBytes (packCursorPlain (← natF a "t") (← bytesF a "cid") (← bytesF a "st")))
  | "unpackCursor" =>
    pure (resJson (fun (x : Bytes × Bytes) => ofList [ofBytes x.1, ofBytes x.2]) (unpackCursorPlain (← bytesF a "p")))
  | "packCall" => pure (ofBytes (packCallPlain (← natF a "t") (← bytesF a "cid") (← bodyOf (← field a "body"))))
  | "unpackCall" =>
    pure (resJson (fun (x : Bytes × CallBody) => ofList [ofBytes x.1, bodyJson x.2]) (unpackCallPlain (← bytesF a "p")))
  | "unpackTagged" =>
    pure (resJson ofBytes (unpackTagged (← zstdOf (fieldOpt a "zstd")) (← bytesF a "d")))
  | "packTagged" =>
    pure (ofBytes (packTagged (← zstdOf (fieldOpt a "zstd")) (← bytesF a "p")))
  | "openCursor" =>
    let sh ← shapeOf a
    pure (resJson (fun (x : Bytes × Bytes) => ofList [ofBytes x.1, ofBytes x.2])
      (openCursorObs sh.strictB64 (← zstdOf (fieldOpt a "zstd")) (← natF a "key") (← bytesF a "aad") (← natF a "ttl")
        (← intF a "now") (← obs (← field a "obs"))))
  | "openCall" =>
    let sh ← shapeOf a
    pure (resJson (fun (x : Bytes × CallBody × Nat) => ofList [ofBytes x.1, bodyJson x.2.1])
      (openCallObs sh.strictB64 (← zstdOf (fieldOpt a "zstd")) (← natF a "key") (← bytesF a "aad") (← natF a "ttl")
        (← intF a "now") (← obs (← field a "obs"))))
  | "recover" =>
    let sh ← shapeOf a
    let z ← zstdOf (fieldOpt a "zstd")
    let D : Decoders := ⟨fun _ => (fieldOpt a "callDecodes") != some (.bool false),
                         fun _ => (fieldOpt a "stateDecodes") != some (.bool false),
                         fun _ => (fieldOpt a "hitTypeDeclared") != some (.bool false)⟩
    let srv : Server := ⟨← natF a "key", ← natF a "ttl"⟩
    let call ← match fieldOpt a "call" with
      | none => pure none
      | some c => do pure (some (← obs c))
    let r : ReqObs := ⟨← identity (← field a "who"), ← strF a "method", ← intF a "now", ← obs (← field a "cursor"), call⟩
    let (effs, res) := recoverObs sh z D srv (← cacheOf (fieldOpt a "cache")) r
    pure (obj [("effects", ofList (effs.map (fun e => Json.str (effectName e)))),
               ("result", resJson (fun (x : Accepted) =>
                  obj [("state", ofBytes x.state), ("callId", ofBytes x.callId), ("method", ofStr x.entry.method),
                       ("body", bodyJson x.entry.body), ("hit", ofBool x.hit), ("created", ofNat x.created)]) res)])
  | "response" =>
    let site ← rawStr (← field a "site")
    match Reject.all.find? (fun r => r.site == site) with
    | none => throw s!"unknown reject site {site}"
    | some r => pure (match response r with
        | none => Json.null
        | some (st, msg) => ofList [Json.str st, Json.str msg])
  | "b64dec" =>
    pure (match Base64Std.decValidate (← bytesF a "w") with | none => Json.null | some b => ofBytes b)
  | "b64enc" => pure (ofBytes (Base64Std.enc (← bytesF a "b")))
  | "b64strict" =>
    let w ← bytesF a "w"
    pure (match Base64Std.decValidate w with
      | none => Json.null
      | some b => if Base64Std.enc b == w then ofBytes b else Json.null)
  | _ => throw s!"unknown function Token.{fn}"

end VgiVerif.Token.Driver
