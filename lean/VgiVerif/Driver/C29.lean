import VgiVerif.Prelude.JsonUtil
import VgiVerif.Driver.Engine
import VgiVerif.Model.C29
/-
C29 driver.  `C29.run`:
  {"total": segment bytes, "shm": bool, "thr": n, "sizes": [[id, rows, nbytes, need], …], "ops": [OP…]}
  OP = ["call", {"logs":[…], "out": {"ok": v}|{"raise": EXN}, "req": null|{"id","rows"}}]
     | ["open", {"exch": bool, "init": null|EXN, "init_logs": […], "steps": […]}]
     | ["tick"] | ["send", {"id","rows"}, null|EXN] | ["close"] | ["cancel"] | ["release", k]
  → per op {"evs": […], "srv": [[id, rows]…], "live": [[off, len]…], "held": [[id, off|null, released]…], "open": bool}
The allocator is `firstFit total` (transliteration of `ShmAllocator`); everything else is `C29.step`.
-/
namespace VgiVerif.C29.Driver
open Lean VgiVerif.J VgiVerif.Engine VgiVerif.C29

def sizeTable (rows : List (Nat × Nat × Nat × Nat)) (sel : Nat × Nat × Nat × Nat → Nat) (b : Batch) : Nat :=
  match rows.find? fun r => r.1 == b.id && r.2.1 == b.rows with
  | some r => sel r
  | none => 0

def optExn (j : Option Json) : R (Option Exn) :=
  match j with
  | none => pure none
  | some e => do pure (some (← Engine.Driver.exn e))

def idRows (j : Json) : R Batch := do
  let rows ← match fieldOpt j "rows" with | some r => nat r | none => pure 1
  let md ← match fieldOpt j "meta" with | some m => Engine.Driver.kv m | none => pure []
  pure ⟨← natF j "id", rows, md⟩

def op (j : Json) : R Op := do
  let a ← arr j
  match a with
  | Json.str "call" :: d :: _ =>
      let ls ← Engine.Driver.logs d "logs"
      let out ← field d "out"
      let o : Except Exn Nat ← match fieldOpt out "ok", fieldOpt out "raise" with
        | some v, _ => do pure (.ok (← nat v))
        | _, some e => do pure (.error (← Engine.Driver.exn e))
        | _, _ => throw "bad out"
      let req ← match fieldOpt d "req" with | some r => do pure (some (← idRows r)) | none => pure none
      pure (.call ls o req)
  | Json.str "open" :: d :: _ =>
      pure (.openS (← boolF d "exch") (match fieldOpt d "early" with | some (.bool true) => true | _ => false) (← optExn (fieldOpt d "init")) (← Engine.Driver.logs d "init_logs") (← Engine.Driver.steps d))
  | [Json.str "tick"] => pure .tick
  | Json.str "send" :: b :: rest =>
      let ce ← match rest with
        | e :: _ => (match e with | .null => pure none | _ => do pure (some (← Engine.Driver.exn e)))
        | [] => pure none
      pure (.send (← idRows b) ce)
  | [Json.str "close"] => pure .close
  | [Json.str "cancel"] => pure .cancel
  | Json.str "release" :: k :: _ => do pure (.release (← nat k))
  | _ => throw s!"bad op {j.compress}"

def heldJson (hb : HeldB) : Json :=
  ofList [ofNat hb.b.id, (match hb.h with | some h => ofNat h.off | none => Json.null), ofBool hb.released]

def snap {A : Allocator} (o : OpOut) (c : Conn A) : Json :=
  obj [("evs", Engine.Driver.evs o.evs),
       ("srv", ofList (o.srvIn.map fun b => ofList [ofNat b.id, ofNat b.rows])),
       ("live", ofList ((A.live c.w.a).map fun r => ofList [ofNat r.1, ofNat r.2])),
       ("held", ofList (c.held.map heldJson)),
       ("open", ofBool (sessionOpen c.sess))]

def runAll {A : Allocator} (cfg : Cfg) : Conn A → List Op → List Json
  | _, [] => []
  | c, o :: r => let p := step cfg c o; snap p.1 p.2 :: runAll cfg p.2 r

def handle (fn : String) (a : Json) : R Json := do
  match fn with
  | "run" =>
    let total ← natF a "total"
    let rows ← (← arrF a "sizes").mapM fun r => do
      let x ← (← arr r).mapM nat
      match x with
      | [i, n, nb, nd] => pure (i, n, nb, nd)
      | _ => throw "bad size row"
    let cfg : Cfg := ⟨← boolF a "shm", ← natF a "thr", sizeTable rows (·.2.2.1), sizeTable rows (·.2.2.2)⟩
    let ops ← (← arrF a "ops").mapM op
    pure (ofList (runAll cfg (Conn.init (firstFit total)) ops))
  | "consts" =>
    pure (obj [("header", ofNat Gen.C29.headerSize), ("max_allocs", ofNat Gen.C29.maxAllocs),
               ("overhead", ofNat Gen.C29.streamOverhead), ("default_min", ofNat Gen.C29.defaultMinBatchBytes)])
  | _ => throw s!"unknown function C29.{fn}"

end VgiVerif.C29.Driver
