import VgiVerif.Prelude.JsonUtil
import VgiVerif.Model.C42
import VgiVerif.Spec.C42
namespace VgiVerif.C42.Driver
open Lean VgiVerif.J VgiVerif.C42 VgiVerif.Sched

def optNat (j : Json) : R (Option Nat) :=
  match j with
  | .null => pure none
  | _ => do pure (some (← nat j))

/-- harness events → model labels -/
def labelOf (j : Json) : R Label := do
  match (← arr j) with
  | [k, a] =>
    match (← rawStr k) with
    | "req" => pure (.req (← nat a))
    | "acq" => pure (.acq (← nat a))
    | "rel" => pure (.rel (← nat a))
    | "done" => pure (.done (← nat a))
    | "failed" => pure (.failed (← nat a))
    | s => throw s!"bad event {s}/1"
  | [k, a, b] =>
    match (← rawStr k) with
    | "rdKind" => pure (.rdKind (← nat a) (← optNat b))
    | "rdCaps" => pure (.rdCaps (← nat a) (← nat b))
    | "hookStart" => pure (.hookStart (← nat a) (← nat b))
    | "hookOk" => pure (.hookOk (← nat a) (← nat b))
    | "hookRaise" => pure (.hookRaise (← nat a) (← nat b))
    | "wrKind" => pure (.wrKind (← nat a) (← nat b))
    | "wrCaps" => pure (.wrCaps (← nat a) (← nat b))
    | s => throw s!"bad event {s}/2"
  | [k, a, b, c] =>
    match (← rawStr k) with
    | "serve" => pure (.serve (← nat a) ⟨← nat b, ← nat c⟩)
    | "dispatch" => pure (.dispatch (← nat a) (← nat b) (← nat c))
    | s => throw s!"bad event {s}/3"
  | _ => throw "bad event"

/-- raw spec events (the Python oracle's view of the real code) -/
def evOf (j : Json) : R Spec.Ev := do
  match (← arr j) with
  | [k, a] =>
    match (← rawStr k) with
    | "hookOk" => pure (.hookOk (← nat a))
    | "hookRaise" => pure (.hookRaise (← nat a))
    | "setKind" => pure (.setKind (← nat a))
    | "setCaps" => pure (.setCaps (← nat a))
    | s => throw s!"bad spec event {s}/1"
  | [k, a, b] =>
    match (← rawStr k) with
    | "dispatch" => pure (.dispatch (← optNat a) (← nat b))
    | s => throw s!"bad spec event {s}/2"
  | _ => throw "bad spec event"

def pairOf (j : Json) : R (Nat × Nat) := do
  match (← arr j) with
  | [a, b] => pure (← nat a, ← nat b)
  | _ => throw "expected [kind, caps]"

def optPair (j : Json) : R (Option (Nat × Nat)) :=
  match j with
  | .null => pure none
  | _ => do pure (some (← pairOf j))

def callOf (j : Json) : R Spec.Call := do
  match (← arr j) with
  | [t, a, rh, ok, r, ret] => pure ⟨← pairOf t, ← optPair a, ← bool rh, ← bool ok, ← optPair r, ← bool ret⟩
  | _ => throw "expected [target, atAcq, ranHook, hookOk, atRel, returned]"

def shapeOk : Bool :=
  Gen.C42.notifyProg == [.test, .hook, .wrKind, .wrCaps] && Gen.C42.wholeBodyLocked && Gen.C42.lockIsPlainLock &&
  Gen.C42.initUnbound && Gen.C42.testComparesBoth && Gen.C42.hookCalledWithKind && Gen.C42.hookExcReraises &&
  Gen.C42.commitWritesArgs && Gen.C42.onlyWriter && Gen.C42.kindPropertyReadsField && Gen.C42.serveNotifiesFirst &&
  Gen.C42.mwFastPath && Gen.C42.mwInstalled

def handle (fn : String) (a : Json) : R Json := do
  match fn with
  | "gen" =>
    pure (obj [
      ("kinds", ofList (Gen.C42.kinds.map fun p => ofList [Json.str p.1, Json.str p.2])),
      ("capsTable", ofList (Gen.C42.capsTable.map fun l => ofList (l.map Json.str))),
      ("serveTable", ofList (Gen.C42.serveTable.map fun r => ofList [Json.str r.1, ofNat r.2.1, ofNat r.2.2])),
      ("mwKind", ofNat Gen.C42.mwKind), ("mwCaps", ofNat Gen.C42.mwCaps),
      ("shape", ofBool shapeOk), ("fingerprint", Json.str Gen.C42.fingerprint)])
  | "accepts" =>
    let present ← boolF a "present"
    let ls ← (← arrF a "events").mapM labelOf
    match (ts present).run ls with
    | some s =>
      pure (obj [("ok", ofBool true), ("kind", ofOpt ofNat s.kind), ("caps", ofNat s.caps),
                 ("hookOks", ofNat s.hookOks), ("hookRaises", ofNat s.hookRaises), ("skips", ofNat s.skips),
                 ("commits", ofNat s.commits), ("dispatches", ofNat s.dispatches), ("pending", ofNat s.pending),
                 ("locked", ofBool s.lock.locked),
                 ("monitor", ofOpt ofNat (Spec.rejectIndex (ls.filterMap toEv)))])
    | none => pure (obj [("ok", ofBool false), ("reject", ofOpt ofNat ((ts present).rejectIndex ls))])
  | "monitor" =>
    let es ← (← arrF a "events").mapM evOf
    pure (obj [("ok", ofBool (Spec.accepts es)), ("reject", ofOpt ofNat (Spec.rejectIndex es))])
  | "callok" =>
    let present ← boolF a "present"
    let cs ← (← arrF a "calls").mapM callOf
    pure (ofList (cs.map fun c => ofBool (Spec.CallOk present c)))
  | _ => throw s!"unknown function C42.{fn}"

end VgiVerif.C42.Driver
