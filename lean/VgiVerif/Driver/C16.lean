import VgiVerif.Prelude.JsonUtil
import VgiVerif.Model.C16
namespace VgiVerif.C16.Driver
open Lean VgiVerif.J VgiVerif.C16

def optNat (a : Json) (k : String) : R (Option Nat) :=
  match fieldOpt a k with
  | none => pure none
  | some v => do pure (some (← nat v))

def cfg (a : Json) : R Cfg := do
  pure ⟨← optNat a "wireCap", ← optNat a "extCap", ← boolF a "storage", ← natF a "threshold"⟩

def batch (a : Json) : R Batch := do
  pure ⟨← natF a "buf", ← natF a "rows", ← natF a "wire"⟩

def payload (a : Json) : R Payload := do
  let d ← match fieldOpt a "data" with
    | none => pure none
    | some v => do pure (some (← batch v))
  pure ⟨← natF a "logs", d, ← natF a "framed", ← natF a "ptr"⟩

def iter (a : Json) : R Iter := do
  pure ⟨← payload (← field a "out"), ← boolF a "finished", ← boolF a "raises", ← natF a "errWire"⟩

def kindName : Kind → String
  | .ok => "ok" | .errExt => "errExt" | .errWire => "errWire" | .errMethod => "errMethod"

def respJson (r : Resp) : Json :=
  obj [("kind", Json.str (kindName r.kind)), ("body", ofNat r.body), ("uploads", ofList (r.uploads.map ofNat))]

def handle (fn : String) (a : Json) : R Json := do
  match fn with
  | "unary" =>
    let c ← cfg (← field a "cfg")
    pure (respJson (unaryRespond' c (← natF a "schema") (← natF a "pre") (← natF a "eos") (← natF a "errWire") (← batch (← field a "r"))
      (← natF a "framed") (← natF a "ptr")))
  | "exchange" =>
    let c ← cfg (← field a "cfg")
    pure (respJson (exchangeTurn' c (← natF a "pre") (← natF a "eos") (← natF a "errWire") (← payload (← field a "p"))))
  | "producer" =>
    let c ← cfg (← field a "cfg")
    let script ← (← arrF a "script").mapM iter
    let t := producerTurn' c (← natF a "pre") (← natF a "sentinel") (← natF a "eos") script
    pure (obj [("kind", Json.str (kindName t.kind)), ("body", ofNat t.body), ("uploads", ofList (t.uploads.map ofNat)),
               ("before", ofNat t.before), ("last", ofNat t.last), ("sentinel", ofBool t.sentinel),
               ("iterations", ofNat t.iterations)])
  | _ => throw s!"unknown function C16.{fn}"

end VgiVerif.C16.Driver
