import VgiVerif.Prelude.JsonUtil
import VgiVerif.Model.C28
namespace VgiVerif.C28.Driver
open Lean VgiVerif.J VgiVerif.C28 VgiVerif.Gen.C28Shm

def tableJson (t : Table) : Json := ofList (t.map fun (o, l) => ofList [ofNat o, ofNat l])

def tableOf (j : Json) : R Table := do
  (← arr j).mapM fun e => do
    match (← arr e) with
    | [a, b] => pure ((← nat a), (← nat b))
    | _ => throw "expected [offset, length]"

def allocOutJson : AllocOut → Json
  | .valueError => Json.str "ValueError"
  | .none => Json.null
  | .some o => ofNat o

def outJson : Out → Json
  | .ok => Json.str "ok"
  | .none => Json.null
  | .off o => ofNat o
  | .region o l => ofList [ofNat o, ofNat l]
  | .valueError => Json.str "ValueError"

/-- chunks: either hex strings (real bytes) or plain sizes (zero-filled) -/
def chunkOf (j : Json) : R (List UInt8) :=
  match j with
  | .str _ => bytes j
  | _ => do pure (List.replicate (← nat j) 0)

def opOf (j : Json) : R Op := do
  match (← rawStr (← field j "k")) with
  | "alloc" => pure (.alloc (← intF j "n"))
  | "free" => pure (.free (← intF j "x"))
  | "reset" => pure .reset
  | "write" => pure (.write (← natF j "rb") (← (← arrF j "chunks").mapM chunkOf))
  | "dict" => pure (.writeDict (← chunkOf (← field j "data")))
  | k => throw s!"unknown op {k}"

/-- memory whose first bytes are the given array, 0xA5 elsewhere (the harness pre-fills the data region with 0xA5).
    The array is built once by the caller: a definition of function type is compiled with the index as an argument, so a
    `toArray` inside it would run on every byte read. -/
def memOfArr (a : Array UInt8) (i : Nat) : UInt8 := a.getD i 0xA5

def handle (fn : String) (a : Json) : R Json := do
  match fn with
  | "consts" =>
    pure (obj [("headerSize", ofNat headerSize), ("maxAllocs", ofNat maxAllocs), ("tableBase", ofNat tableBase),
      ("entrySize", ofNat entrySize), ("countOffset", ofNat countOffset), ("countWidth", ofNat countWidth),
      ("streamOverhead", ofNat streamOverhead), ("ipcEosLen", ofNat ipcEosLen)])
  | "tstep" =>
    -- table-level step: {total, table, op} → {table, out?}
    let total ← natF a "total"
    let t ← tableOf (← field a "table")
    let op ← opOf (← field a "op")
    let out : Json := match op with
      | .alloc n => allocOutJson (allocate t n total).1
      | .free x => (match free t x with | some _ => Json.str "ok" | none => Json.str "ValueError")
      | _ => Json.null
    pure (obj [("table", tableJson (tStep total t op)), ("out", out)])
  | "cstep" =>
    -- byte-level step: {total, header: hex, op, stored?: bool} → {out, header: hex, table, stored?: hex}
    let total ← natF a "total"
    let hdr ← bytesF a "header"
    let op ← opOf (← field a "op")
    let arr := hdr.toArray
    let m : Mem := memOfArr arr
    let before := readCount m
    let (m', out) := cStep total m op
    let t' := readAllocs m'
    let n := max hdr.length (tableBase + entrySize * max before t'.length)
    let stored : Json := match out, fieldOpt a "stored" with
      | .region o l, some _ => ofBytes (readBytes m' o l)
      | _, _ => Json.null
    pure (obj [("out", outJson out), ("header", ofBytes (readBytes m' 0 n)), ("table", tableJson t'), ("stored", stored)])
  | "cwin" =>
    -- byte-level step on a big table: {total, header: hex prefix of the segment, op, lo, n} → out, table (table-level
    -- step of the decoded table), and the bytes [lo, lo+n) of the model's memory after the step (read through the
    -- closure chain: cheap for a small window whatever the table size)
    let total ← natF a "total"
    let hdr ← bytesF a "header"
    let op ← opOf (← field a "op")
    let lo ← natF a "lo"
    let n ← natF a "n"
    let arr := hdr.toArray
    let m : Mem := memOfArr arr
    let (m', out) := cStep total m op
    pure (obj [("out", outJson out), ("table", tableJson (tStep total (readAllocs m) op)), ("window", ofBytes (readBytes m' lo n))])
  | "encode" =>
    -- `_write_allocs` into a zero header: {table} → hex of [0, tableBase + entrySize·len)
    let t ← tableOf (← field a "table")
    let m := writeAllocs (fun _ => 0) t
    pure (ofBytes (readBytes m 0 (tableBase + entrySize * t.length)))
  | "decode" =>
    let hdr ← bytesF a "header"
    let arr := hdr.toArray
    pure (tableJson (readAllocs (memOfArr arr)))
  | "init" =>
    let total ← natF a "total"
    pure (ofBytes (readBytes (initHeader (fun _ => 0) total) 0 tableBase))
  | "sink" =>
    -- {start, limit, buflen, chunks:[sizes]} → per-write results of a sink that keeps being called (`feedAll` order)
    let start ← natF a "start"
    let limit ← natF a "limit"
    let bufLen ← natF a "buflen"
    let chunks ← (← arrF a "chunks").mapM chunkOf
    let rec go (s : Sink) (m : Mem) : List (List UInt8) → List Json
      | [] => []
      | d :: r =>
        match s.write bufLen m d with
        | (s', m', res) =>
          obj [("res", Json.str (match res with | .ok => "ok" | .overflow => "overflow" | .valueError => "ValueError")),
               ("pos", ofNat s'.pos), ("end", ofNat s'.end_)] :: go s' m' r
    pure (ofList (go ⟨start, start, start + limit⟩ (fun _ => 0) chunks))
  | _ => throw s!"unknown function C28.{fn}"

end VgiVerif.C28.Driver
