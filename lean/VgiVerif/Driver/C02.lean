import VgiVerif.Prelude.JsonUtil
import VgiVerif.Prelude.PyValJson
import VgiVerif.Model.C02
import VgiVerif.Spec.C02
import VgiVerif.Driver.C03
/-
C02 driver.  Type JSON:
  {"k":"int","w":"int64"} · {"k":"f64"|"f32"|"str"|"bytes"|"bool"} · {"k":"enum","members":[[name,…]…]} · {"k":"native","kind":k,"p":p,"s":s}
  {"k":"opt"|"list"|"set","a":T} · {"k":"map","key":T,"val":T} · {"k":"dc","name":…,"fields":[…]}  (fields: the C03 descriptor)
-/
namespace VgiVerif.C02.Driver
open Lean VgiVerif.J VgiVerif.Py VgiVerif.Py.Json VgiVerif.C02

partial def toTy (j : Json) : J.R Ty := do
  let k ← rawStr (← field j "k")
  match k with
  | "int" => pure (.int (← intWOf (← rawStr (← field j "w"))))
  | "f64" => pure .f64 | "f32" => pure .f32 | "str" => pure .str | "bytes" => pure .bytes | "bool" => pure .bool
  | "enum" =>
    let ms ← (← arrF j "members").mapM (fun m => do
      match (← arr m) with
      | n :: _ => str n
      | _ => throw "bad enum member")
    pure (.enum ms)
  | "native" => pure (.native (← natF j "kind") (← natF j "p") (← natF j "s"))
  | "opt" => pure (.opt (← toTy (← field j "a")))
  | "list" => pure (.list (← toTy (← field j "a")))
  | "set" => pure (.set (← toTy (← field j "a")))
  | "map" => pure (.map (← toTy (← field j "key")) (← toTy (← field j "val")))
  | "dc" => pure (.dc (← strF j "name") (← C03.Driver.toFields (← arrF j "fields")))
  | _ => throw s!"bad type kind {k}"

def env : Env := concreteEnv

def toWraps (j : Json) : J.R (List Wrap) := do
  (← arr j).mapM (fun w => do
    match (← rawStr w) with
    | "opt" => pure Wrap.opt
    | "ann" => pure Wrap.annArrow
    | "doc" => pure Wrap.annDoc
    | s => throw s!"bad wrap {s}")

def toParam (j : Json) : J.R Param := do
  let d ← match fld j "default" with
    | some x => do pure (some (← toV x))
    | Option.none => pure Option.none
  pure { name := (← strF j "name"), ty := (← toTy (← field j "ty")), dflt := d }

def ofKw (r : Py.R (List (List Char × V))) : Json :=
  match r with
  | .ok kw => obj [("ok", ofList (kw.map (fun p => ofList [ofStr p.1, ofV p.2])))]
  | .error e => obj [("err", Json.str (errName e))]

def handle (fn : String) (a : Json) : J.R Json := do
  match fn with
  | "schema" =>
    let t ← toTy (← field a "ty")
    pure (obj [("param", Json.str (atyText (arrowTop t))), ("result", Json.str (atyText (arrowResult t))),
               ("nullable", ofBool (isOpt t))])
  | "value" =>
    let t ← toTy (← field a "ty")
    let v ← toV (← field a "v")
    pure (obj [("param", ofR (sendParam env t v)), ("echo", ofR (echoValue env t v)), ("norm", ofV (norm env t v)),
               ("inhabits", ofBool (inhabits env t v)), ("wellTyped", ofBool (wellTyped env t v)),
               ("supported", ofBool (supported t))])
  | "call" =>
    let sig ← (← arrF a "sig").mapM toParam
    let args ← (← arrF a "args").mapM (fun p => do
      match (← arr p) with
      | [n, v] => pure ((← str n), (← toV v))
      | _ => throw "bad arg")
    pure (obj [("kwargs", ofKw (callKwargs env sig args)), ("echo", ofKw (echoSig env sig args))])
  | "hschema" =>
    let t ← toTy (← field a "ty")
    let ws ← toWraps (← field a "wraps")
    pure (obj [("param", Json.str (atyText (arrowTopH ws t))), ("result", Json.str (atyText (arrowTopH ws t))),
               ("nullable", ofBool (peelOpt ws).2)])
  | "hvalue" =>
    -- a value under a wrapped hint: `ty` is the Optional-free core type
    let t ← toTy (← field a "ty")
    let ws ← toWraps (← field a "wraps")
    let v ← toV (← field a "v")
    let rt := resolved ws t
    pure (obj [("param", ofR (tripH env ws t v)), ("echo", ofR (echoH env ws t v)), ("norm", ofV (norm env rt v)),
               ("inhabits", ofBool (inhabits env rt v)), ("wellTyped", ofBool (wellTyped env rt v)),
               ("supported", ofBool (supported rt)), ("regular", ofBool (regular ws))])
  | "native" =>
    match nativeConv (← natF a "kind") (← natF a "p") (← natF a "s") (← intF a "a") (← intF a "b") with
    | some (x, y) => pure (ofList [ofInt x, ofInt y])
    | Option.none => pure Json.null
  | _ => throw s!"unknown function C02.{fn}"

end VgiVerif.C02.Driver
