import VgiVerif.Prelude.JsonUtil
import VgiVerif.Model.C33
namespace VgiVerif.C33.Driver
open Lean VgiVerif.J VgiVerif.C33 VgiVerif.Sched

def optNat (j : Json) : R (Option Nat) :=
  match j with
  | .null => pure none
  | _ => do pure (some (← nat j))

def optNatF (a : Json) (k : String) : R (Option Nat) :=
  match fieldOpt a k with
  | none => pure none
  | some j => do pure (some (← nat j))

/-! ### (b) accept loop -/

def loopLabel (j : Json) : R Loop.Label := do
  match (← arr j) with
  | k :: args =>
    match (← rawStr k), args with
    | "tick", [d] => pure (.tick (← nat d))
    | "sockAccept", [c] => pure (.sockAccept (← nat c))
    | "register", [] => pure .register
    | "hregister", [c] => pure (.hregister (← nat c))
    | "addActive", [] => pure .addActive
    | "spawn", [] => pure .spawn
    | "acceptTimeout", [] => pure .acceptTimeout
    | "check", [b] => pure (.check (← bool b))
    | "acceptError", [] => pure .acceptError
    | "finalize", [] => pure .finalize
    | "semAcq", [c] => pure (.semAcq (← nat c))
    | "serveBegin", [c] => pure (.serveBegin (← nat c))
    | "serveEnd", [c] => pure (.serveEnd (← nat c))
    | "semRel", [c] => pure (.semRel (← nat c))
    | "handlerEnd", [c, b] => pure (.handlerEnd (← nat c) (← bool b))
    | "fire", [k] => pure (.fire (← nat k))
    | "cbRead", [k] => pure (.cbRead (← nat k))
    | "callback", [k] => pure (.callback (← nat k))
    | "vars", [cc, tm, fl] => pure (.vars (← nat cc) (← optNat tm) (← bool fl))
    | s, _ => throw s!"bad loop label {s}"
  | _ => throw "bad loop label"

def shapeOf (a : Json) : R Shape :=
  match fieldOpt a "shape" with
  | none => pure Shape.extracted
  | some (.str "extracted") => pure Shape.extracted
  | some (.str "pinned") => pure Shape.pinned
  | some (.str "repaired") => pure Shape.repaired
  | some j => do
    match (← arr j) with
    | [x, y] => pure ⟨← bool x, CbCheck.ofCode (← nat y), false⟩
    | [x, y, z] => pure ⟨← bool x, CbCheck.ofCode (← nat y), ← bool z⟩
    | _ => throw "bad shape"

def cfgOf (a : Json) : R Cfg := do
  pure ⟨← optNatF a "idle", ← natF a "grace", ← optNatF a "maxConn"⟩

def evJson : Spec.Ev → Json
  | .acc c t => ofList [Json.str "acc", ofNat c, ofNat t]
  | .fin c t => ofList [Json.str "fin", ofNat c, ofNat t]
  | .stop t => ofList [Json.str "stop", ofNat t]

def evOf (j : Json) : R Spec.Ev := do
  match (← arr j) with
  | k :: args =>
    match (← rawStr k), args with
    | "acc", [c, t] => pure (.acc (← nat c) (← nat t))
    | "fin", [c, t] => pure (.fin (← nat c) (← nat t))
    | "stop", [t] => pure (.stop (← nat t))
    | s, _ => throw s!"bad event {s}"
  | _ => throw "bad event"

def lpcName : Loop.LPc → String
  | .atAccept => "atAccept" | .got _ => "got" | .registered _ => "registered" | .added _ => "added"
  | .timedOut => "timedOut" | .exiting true => "exiting-idle" | .exiting false => "exiting-error" | .joined => "joined"

def monJson (m : Spec.Mon) : Json :=
  obj [("open", ofList (m.openConns.map ofNat)), ("last", ofNat m.last), ("any", ofBool m.any), ("bad", ofBool m.bad)]

def loopStateJson (s : Loop.St) : Json :=
  obj [("ok", ofBool true), ("now", ofNat s.now), ("lpc", Json.str (lpcName s.lpc)), ("connCount", ofNat s.connCount),
       ("timer", ofOpt ofNat s.timer), ("flag", ofBool s.flag), ("nextTimer", ofNat s.nextTimer),
       ("live", ofList (s.live.map ofNat)), ("sinceDec", ofBool s.sinceDec), ("mon", monJson s.mon),
       ("hist", ofList (s.hist.map evJson))]

/-! ### (a) launcher -/

def roleOf (j : Json) : R Launch.Role := do
  match (← rawStr j) with
  | "launch" => pure .launch
  | "gc" => pure .gc
  | s => throw s!"bad role {s}"

def launchLabel (j : Json) : R Launch.Label := do
  match (← arr j) with
  | k :: args =>
    match (← rawStr k), args with
    | "tick", [d] => pure (.tick (← nat d))
    | "begin", [t, r] => pure (.begin (← nat t) (← roleOf r))
    | "lockOpen", [t] => pure (.lockOpen (← nat t))
    | "lockFlock", [t, b] => pure (.lockFlock (← nat t) (← bool b))
    | "lockVerify", [t, b] => pure (.lockVerify (← nat t) (← bool b))
    | "lockTimeout", [t] => pure (.lockTimeout (← nat t))
    | "probe", [t, b] => pure (.probe (← nat t) (← bool b))
    | "unlinkStale", [t, b] => pure (.unlinkStale (← nat t) (← bool b))
    | "writeMeta", [t] => pure (.writeMeta (← nat t))
    | "spawn", [t, w] => pure (.spawn (← nat t) (← nat w))
    | "spawnFail", [t] => pure (.spawnFail (← nat t))
    | "spawnReady", [t] => pure (.spawnReady (← nat t))
    | "wCheck", [w, b] => pure (.wCheck (← nat w) (← bool b))
    | "wClear", [w] => pure (.wClear (← nat w))
    | "wBind", [w] => pure (.wBind (← nat w))
    | "wListen", [w] => pure (.wListen (← nat w))
    | "wAnnounce", [w] => pure (.wAnnounce (← nat w))
    | "wLost", [w] => pure (.wLost (← nat w))
    | "release", [t] => pure (.release (← nat t))
    | "ret", [t] => pure (.ret (← nat t))
    | "raised", [t] => pure (.raised (← nat t))
    | "gcUnlinkSock", [t] => pure (.gcUnlinkSock (← nat t))
    | "gcUnlinkMeta", [t] => pure (.gcUnlinkMeta (← nat t))
    | "gcUnlinkLock", [t] => pure (.gcUnlinkLock (← nat t))
    | "wExit", [w] => pure (.wExit (← nat w))
    | "wStat", [w] => pure (.wStat (← nat w))
    | "wUnlink", [w] => pure (.wUnlink (← nat w))
    | "vars", [sk, m, g] => pure (.vars (← optNat sk) (← bool m) (← nat g))
    | s, _ => throw s!"bad launch label {s}"
  | _ => throw "bad launch label"

def levJson : Spec.LEv → Json
  | .spawn w => ofList [Json.str "spawn", ofNat w]
  | .bind w => ofList [Json.str "bind", ofNat w]
  | .ready w => ofList [Json.str "ready", ofNat w]
  | .exit w => ofList [Json.str "exit", ofNat w]
  | .unlink => ofList [Json.str "unlink"]
  | .ret t0 t => ofList [Json.str "ret", ofNat t0, ofNat t]

def levOf (j : Json) : R Spec.LEv := do
  match (← arr j) with
  | k :: args =>
    match (← rawStr k), args with
    | "spawn", [w] => pure (.spawn (← nat w))
    | "bind", [w] => pure (.bind (← nat w))
    | "ready", [w] => pure (.ready (← nat w))
    | "exit", [w] => pure (.exit (← nat w))
    | "unlink", [] => pure .unlink
    | "ret", [t0, t] => pure (.ret (← nat t0) (← nat t))
    | s, _ => throw s!"bad event {s}"
  | _ => throw "bad event"

def lmonJson (m : Spec.LMon) : Json :=
  obj [("alive", ofList (m.alive.map ofNat)), ("acc", ofList (m.acc.map ofNat)), ("path", ofOpt ofNat m.path), ("badSpawn", ofBool m.badSpawn),
       ("badRet", ofBool m.badRet)]

def launchStateJson (s : Launch.St) : Json :=
  obj [("ok", ofBool true), ("now", ofNat s.now), ("sock", ofOpt ofNat s.sock), ("hasMeta", ofBool s.hasMeta),
       ("lockGen", ofNat s.lockGen), ("nextW", ofNat s.nextW), ("clobbered", ofBool s.clobbered),
       ("mon", lmonJson s.mon), ("hist", ofList (s.hist.map levJson))]

def handle (fn : String) (a : Json) : R Json := do
  match fn with
  | "gen" =>
    pure (obj [("acceptTimeoutMillis", ofNat Gen.C33.acceptTimeoutMillis), ("graceFloorSecs", ofNat Gen.C33.graceFloorSecs),
      ("joinTimeoutSecs", ofNat Gen.C33.joinTimeoutSecs), ("clearsFlagOnAccept", ofBool Gen.C33.clearsFlagOnAccept),
      ("callbackChecksCurrent", ofBool Gen.C33.callbackChecksCurrent), ("callbackCheck", ofNat Gen.C33.callbackCheck),
      ("registersInHandler", ofBool Gen.C33.registersInHandler), ("sharedUnderLock", ofBool Gen.C33.sharedUnderLock),
      ("loopShape", ofBool Gen.C33.loopShape), ("handlerShape", ofBool Gen.C33.handlerShape),
      ("timerShape", ofBool Gen.C33.timerShape), ("gcLimit", ofNat Gen.C33.gcLimit),
      ("launchShape", ofBool Gen.C33.launchShape), ("gcShape", ofBool Gen.C33.gcShape),
      ("workerExitShape", ofBool Gen.C33.workerExitShape), ("filelockChecksNlink", ofBool Gen.C33.filelockChecksNlink),
      ("listenBeforeAnnounce", ofBool Gen.C33.listenBeforeAnnounce), ("lockKeyedBySocket", ofBool Gen.C33.lockKeyedBySocket),
      ("tcpListenBeforeAnnounce", ofBool Gen.C33.tcpListenBeforeAnnounce),
      ("filelockUnlinksOnRelease", ofBool Gen.C33.filelockUnlinksOnRelease), ("fingerprint", Json.str Gen.C33.fingerprint)])
  | "grace" => pure (ofNat (graceOf (← natF a "q") (← natF a "idle")))
  | "loopAccepts" =>
    let cfg ← cfgOf a
    let sh ← shapeOf a
    let ls ← (← arrF a "events").mapM loopLabel
    match (Loop.ts sh cfg).run ls with
    | some s => pure (loopStateJson s)
    | none => pure (obj [("ok", ofBool false), ("reject", ofOpt ofNat ((Loop.ts sh cfg).rejectIndex ls))])
  | "loopMonitor" =>
    let idle ← natF a "idle"
    let grace ← natF a "grace"
    let evs ← (← arrF a "events").mapM evOf
    pure (monJson (Spec.Mon.run idle grace evs))
  | "launchAccepts" =>
    let idle ← natF a "idle"
    let nl ← (match fieldOpt a "nlink" with
      | none => pure LShape.extracted.nlinkCheck
      | some j => bool j)
    let lf ← (match fieldOpt a "listenFirst" with
      | none => pure LShape.extracted.listenFirst
      | some j => bool j)
    let lk ← (match fieldOpt a "lockBySocket" with
      | none => pure LShape.extracted.lockBySocket
      | some j => bool j)
    let sh : LShape := ⟨nl, lf, lk⟩
    let ls ← (← arrF a "events").mapM launchLabel
    match (Launch.ts sh idle).run ls with
    | some s => pure (launchStateJson s)
    | none => pure (obj [("ok", ofBool false), ("reject", ofOpt ofNat ((Launch.ts sh idle).rejectIndex ls))])
  | "launchMonitor" =>
    let idle ← natF a "idle"
    let evs ← (← arrF a "events").mapM levOf
    pure (lmonJson (Spec.LMon.run idle evs))
  | _ => throw s!"unknown function C33.{fn}"

end VgiVerif.C33.Driver
