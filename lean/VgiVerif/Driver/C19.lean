import VgiVerif.Prelude.JsonUtil
import VgiVerif.Model.C19
namespace VgiVerif.C19.Driver
open Lean VgiVerif.J VgiVerif.Codec VgiVerif.C19 VgiVerif.HdrStr

def encName (e : Enc) : Json := Json.str e.name

def encOf (j : Json) : R Enc := do
  let n ← rawStr j
  match Enc.ofName n with
  | some e => pure e
  | none => throw s!"unknown Encoding member {n}"

def encList (j : Json) : R (List Enc) := do (← arr j).mapM encOf

def optStr (a : Json) (k : String) : R (Option (List Char)) :=
  match fieldOpt a k with
  | none => pure none
  | some v => do pure (some (← str v))

def pickJson (p : Option Enc × Bool) : Json :=
  obj [("chosen", ofOpt encName p.1), ("custom", ofBool p.2), ("published", ofOpt encName (publishedCodec p.1))]

/-- compressors that only say who was called at which level -/
def markerLibs : RespLibs where
  zstdStream := fun l _ => [1, UInt8.ofNat (l + 128).toNat]
  zstdOneShot := fun l _ => [2, UInt8.ofNat (l + 128).toNat]
  gzipStream := fun l _ => [3, UInt8.ofNat (l + 128).toNat]
  arrowCompress := fun e _ => [4, match e with | .zstd => 0 | .gzip => 1 | .identity => 2]

def levelsOf (j : Json) : R (List (Enc × Int)) := do
  (← arr j).mapM (fun e => do
    match (← arr e) with
    | [n, l] => pure ((← encOf n), (← int l))
    | _ => throw "level entry must be [name, level]")

def outJson (o : RespOut) : Json :=
  obj [("body", ofBytes o.body), ("ce", ofOpt encName o.contentEncoding), ("xce", ofOpt encName o.xVgiContentEncoding)]

/-- all code points 0 .. 0x10FFFF except surrogates on which a predicate holds -/
def scanChars (p : Char → Bool) : List Nat := Id.run do
  let mut out : Array Nat := #[]
  for n in [0:0x110000] do
    if n < 0xD800 || n > 0xDFFF then
      if p (Char.ofNat n) then out := out.push n
  return out.toList

def handle (fn : String) (a : Json) : R Json := do
  match fn with
  | "parse" =>
    let h ← strF a "h"
    pure (ofList ((parseEncodingList h).map encName))
  | "pick" =>
    let levels ← encList (← field a "levels")
    pure (pickJson (pickHeaders levels (← optStr a "ae") (← optStr a "xae")))
  | "pickLists" =>
    let levels ← encList (← field a "levels")
    pure (pickJson (pick levels (← encList (← field a "custom")) (← encList (← field a "standard"))))
  | "mkLevels" =>
    let req ← levelsOf (← field a "requested")
    let rt ← encList (← field a "runtime")
    pure (ofList ((mkLevels req rt).map (fun p => ofList [encName p.1, ofInt p.2])))
  | "processResponse" =>
    let levels ← levelsOf (← field a "levels")
    let chosen ← match fieldOpt a "chosen" with | none => pure none | some v => do pure (some (← encOf v))
    let custom ← boolF a "custom"
    let body ← bytesF a "body"
    let kind ← rawStr (← field a "stream")
    let st : Stream := if kind = "none" then .none else if kind = "other" then .other body
      else .io body (kind = "io_seekable")
    pure (outJson (processResponse markerLibs levels chosen custom ⟨← boolF a "arrow", ← boolF a "pre", st⟩))
  | "respond" =>
    -- whole response of a unary call / producer continuation for a header pair
    let levels ← levelsOf (← field a "levels")
    let body ← bytesF a "body"
    let ae ← optStr a "ae"
    let xae ← optStr a "xae"
    let path ← rawStr (← field a "path")
    if path = "unary" then pure (outJson (respondUnary markerLibs levels ae xae body))
    else pure (outJson (respondProducer markerLibs levels true ae xae body))
  | "chars" =>
    let spaces := scanChars isSpace
    let lowered := scanChars (fun c => lowerChar c != [c])
    pure (obj [("spaces", ofList (spaces.map ofNat)),
               ("lower", ofList (lowered.map (fun n => ofList [ofNat n, ofStr (lowerChar (Char.ofNat n))])))])
  | _ => throw s!"unknown function C19.{fn}"

end VgiVerif.C19.Driver
