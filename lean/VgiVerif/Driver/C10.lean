import VgiVerif.Prelude.JsonUtil
import VgiVerif.Driver.Engine
import VgiVerif.Model.C10
namespace VgiVerif.C10.Driver
open Lean VgiVerif.J VgiVerif.Engine VgiVerif.C10

def fld (j : Json) : R Field := do
  match (← arr j) with
  | [n, t] => pure ⟨← str n, ← str t⟩
  | _ => throw "expected [name, type]"

def schema (j : Json) : R Schema := do (← arr j).mapM fld

def col (j : Json) : R Col := do
  match (← arr j) with
  | [n, t, d] => pure ⟨← str n, ← str t, ← nat d⟩
  | _ => throw "expected [name, type, data]"

def ibatch (j : Json) : R IBatch := do pure ⟨← (← arr j).mapM col⟩

/-- cast table: [[data, fromTy, toTy, result | null], …]; anything not listed is not castable -/
def envOf (j : Option Json) : R Env := do
  let rows ← match j with
    | none => pure []
    | some a => (← arr a).mapM fun r => do
        match (← arr r) with
        | [d, f, t, res] =>
          let o : Option Nat ← match res with | .null => pure none | x => do pure (some (← nat x))
          pure ((← nat d), (← str f), (← str t), o)
        | _ => throw "expected [data, from, to, result]"
  pure ⟨fun d f t =>
    match rows.find? (fun (d', f', t', _) => d' == d && f' == f && t' == t) with
    | some (_, _, _, r) => r
    | none => none⟩

def schemaJson (s : Schema) : Json := ofList (s.map fun f => ofList [ofStr f.name, ofStr f.ty])
def colsJson (b : IBatch) : Json := ofList (b.cols.map fun c => ofList [ofStr c.name, ofStr c.ty, ofNat c.data])

def sevJson : SEv → Json
  | .process k s => ofList [Json.str "process", ofNat k, schemaJson s]
  | .onCancel k => ofList [Json.str "on_cancel", ofNat k]

def cop (j : Json) : R COp := do
  match (← arr j) with
  | [.str "log", l] => do pure (.log (← Engine.Driver.log l))
  | [.str "emit", b] => do pure (.emit (← Engine.Driver.batch b))
  | [.str "finish"] => pure .finish
  | [.str "raise", e] => do pure (.raise (← Engine.Driver.exn e))
  | _ => throw s!"bad collector op {j.compress}"

/-- a step is svcgen's {logs, act, post} or an ordered list of collector calls {"ops": [...]} (normalised) -/
def stepOf (pm : Bool) (j : Json) : R Step :=
  match fieldOpt j "ops" with
  | some o => do pure (normalize pm (← (← arr o).mapM cop))
  | none => Engine.Driver.step j

def method (j : Json) : R Method := do
  let decl ← match fieldOpt j "decl" with | some d => schema d | none => pure []
  let st ← (← arrF j "steps").mapM (stepOf decl.isEmpty)
  let hdr ← match fieldOpt j "header" with | some h => do pure (some (← nat h)) | none => pure none
  let il ← Engine.Driver.logs j "init_logs"
  let init ← match fieldOpt j "init" with | some e => do pure (some (← Engine.Driver.exn e)) | none => pure none
  pure ⟨⟨decl, st⟩, hdr, il, init⟩

inductive DOp where
  | next | iter (n : Option Nat) | tick | send (b : IBatch) | close | cancel

def dop (j : Json) : R DOp := do
  match (← arr j) with
  | [.str "next"] => pure .next
  | [.str "tick"] => pure .tick
  | [.str "close"] => pure .close
  | [.str "cancel"] => pure .cancel
  | [.str "iter", .null] => pure (.iter none)
  | [.str "iter", n] => do pure (.iter (some (← nat n)))
  | [.str "send", b] => do pure (.send (← ibatch b))
  | _ => throw s!"bad op {j.compress}"

def evs := Engine.Driver.evs

def runPipe (env : Env) (p : Prog) : PipeM.St → List DOp → PipeM.St × List (Json × Nat)
  | s, [] => (s, [])
  | s, op :: r =>
    let (s', e) : PipeM.St × List Ev := match op with
      | .next => PipeM.step env p s .next
      | .tick => PipeM.step env p s .tick
      | .send b => PipeM.step env p s (.send b)
      | .close => PipeM.step env p s .close
      | .cancel => PipeM.step env p s .cancel
      | .iter (some n) => PipeM.nextN env p n s
      | .iter none => PipeM.nextN env p (p.steps.length + 1) s
    let (s'', es) := runPipe env p s' r
    (s'', (evs e, s'.writes - s.writes) :: es)

def runHttp (c : HttpM.Cfg) (p : Prog) : HttpM.St → List DOp → HttpM.St × List (Json × Nat)
  | s, [] => (s, [])
  | s, op :: r =>
    let (s', e) : HttpM.St × List Ev := match op with
      | .next => HttpM.step c p s .next
      | .tick => (s, [])                       -- HttpStreamSession has no tick(); never sent by the harness
      | .send b => HttpM.step c p s (.send b)
      | .close => HttpM.step c p s .close
      | .cancel => HttpM.step c p s .cancel
      | .iter (some n) => HttpM.nextN c p n s
      | .iter none => HttpM.nextN c p (s.pend.length + p.steps.length + 1) s
    let (s'', es) := runHttp c p s' r
    (s'', (evs e, s'.reqs - s.reqs) :: es)

def handle (fn : String) (a : Json) : R Json := do
  match fn with
  | "coerce" =>
    let env ← envOf (fieldOpt a "casts")
    let decl ← schema (← field a "decl")
    let b ← ibatch (← field a "cols")
    pure (match coerceInput env decl b with
      | .ok b' => obj [("ok", colsJson b')]
      | .error e => obj [("err", obj [("type", ofStr e.type), ("text", ofStr e.text)])])
  | "session" =>
    let env ← envOf (fieldOpt a "casts")
    let m ← method (← field a "method")
    let ops ← (← arrF a "ops").mapM dop
    let tr ← rawStr (← field a "transport")
    if tr == "pipe" then
      match PipeM.openS m with
      | (oe, none) => pure (obj [("open", evs oe), ("session", ofBool false), ("trace", ofList []), ("slog", ofList []), ("contacts", ofNat 0), ("per_op", ofList [])])
      | (oe, some s0) =>
        let (s, t) := runPipe env m.prog s0 ops
        pure (obj [("open", evs oe), ("session", ofBool true), ("trace", ofList (t.map (·.1))),
                   ("slog", ofList (s.slog.map sevJson)), ("contacts", ofNat s.writes),
                   ("per_op", ofList (t.map fun x => ofNat x.2))])
    else
      let brk : Nat → Bool ← match fieldOpt a "brk" with
        | none => pure (fun _ => true)
        | some (.str "all") => pure (fun _ => true)
        | some (.str "none") => pure (fun _ => false)
        | some j => do let ps ← (← arr j).mapM nat; pure (fun p => ps.contains p)
      let chk ← match fieldOpt a "chk" with | some b => bool b | none => pure Gen.C10.iterChecksFinishedAtToken
      -- the network: POST attempts (0-based over the session) whose responses are lost; the client's retry budget
      let lostL ← match fieldOpt a "lost" with | some j => do (← arr j).mapM nat | none => pure []
      let retries ← match fieldOpt a "retries" with | some j => do pure (some (← nat j)) | none => pure none
      let rc ← match fieldOpt a "retry_cancel" with | some b => bool b | none => pure Gen.C10.cancelRetried
      let c : HttpM.Cfg := { env := env, brk := brk, chk := chk, lost := fun r => lostL.contains r, retries := retries,
                             retryCancel := rc }
      match HttpM.openS c m with
      | (oe, none) =>
        let l := match m.init with
          | some _ => []
          | none => HttpM.rep (HttpM.post c true 0).1 (HttpM.initBody c m).2
        pure (obj [("open", evs oe), ("session", ofBool false), ("trace", ofList []), ("slog", ofList (l.map sevJson)),
                   ("contacts", ofNat (HttpM.post c true 0).1), ("per_op", ofList [])])
      | (oe, some s0) =>
        let (s, t) := runHttp c m.prog s0 ops
        pure (obj [("open", evs oe), ("session", ofBool true), ("trace", ofList (t.map (·.1))),
                   ("slog", ofList (s.slog.map sevJson)), ("contacts", ofNat s.reqs),
                   ("per_op", ofList (t.map fun x => ofNat x.2))])
  | _ => throw s!"unknown function C10.{fn}"

end VgiVerif.C10.Driver
