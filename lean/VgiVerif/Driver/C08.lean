import VgiVerif.Prelude.JsonUtil
import VgiVerif.Driver.Engine
import VgiVerif.Model.C08
import VgiVerif.Spec.C08
namespace VgiVerif.C08.Driver
open Lean VgiVerif.J VgiVerif.Engine VgiVerif.LogWire

/-- tagged JSON value: {"t":"null"} {"t":"bool","v":b} {"t":"num","v":str} {"t":"str","v":str} {"t":"arr","v":[…]}
{"t":"obj","v":[[key,value],…]} -/
partial def jval (j : Lean.Json) : R LogWire.Json := do
  let t ← rawStr (← field j "t")
  match t with
  | "null" => pure .null
  | "bool" => do pure (.bool (← boolF j "v"))
  | "num" => do pure (.num (← strF j "v"))
  | "str" => do pure (.str (← strF j "v"))
  | "arr" => do pure (.arr (← (← arrF j "v").mapM jval))
  | "obj" => do
    let kvs ← (← arrF j "v").mapM fun kv => do
      match (← arr kv) with
      | [k, v] => do pure ((← str k), (← jval v))
      | _ => throw "bad kv"
    pure (.obj kvs)
  | _ => throw s!"bad json tag {t}"

def mdVal (j : Lean.Json) : R MdVal := do pure ⟨← boolF j "valid", ← strF j "text"⟩

def mdValOpt (j : Lean.Json) (k : String) : R (Option MdVal) :=
  match fieldOpt j k with
  | none => pure none
  | some v => do pure (some (← mdVal v))

def parsed (j : Lean.Json) : R Parsed :=
  match j with
  | .str "json_error" => pure .jsonError
  | .str "value_error" => pure .valueError
  | .str "recursion" => pure .recursion
  | _ => do pure (.ok (← jval (← field j "ok")))

def wireBatch (a : Lean.Json) : R WireBatch := do
  let rows ← natF a "rows"
  match fieldOpt a "md" with
  | none => pure ⟨rows, none⟩
  | some m => do
    let extra ← match fieldOpt m "extra" with
      | none => pure none
      | some x => do pure (some ((← mdVal x), (← parsed (← field x "parsed"))))
    pure ⟨rows, some ⟨← mdValOpt m "level", ← mdValOpt m "message", extra, ← mdValOpt m "kind",
      ← mdValOpt m "sid", ← mdValOpt m "rid"⟩⟩

def excName : PyExc → String
  | .unicodeDecodeError => "UnicodeDecodeError" | .typeError => "TypeError" | .attributeError => "AttributeError"
  | .valueError => "ValueError" | .recursionError => "RecursionError"

def outcomeJson : Outcome → Lean.Json
  | .data => obj [("k", Json.str "data")]
  | .ignored => obj [("k", Json.str "ignored")]
  | .delivered l => obj [("k", Json.str "delivered"), ("level", ofStr l.level), ("text", ofStr l.text),
      ("extra", ofList (l.extra.map fun (k, v) => ofList [ofStr k, ofStr v]))]
  | .raiseRpc e => obj [("k", Json.str "rpc"), ("type", ofStr e.type), ("message", ofStr e.message),
      ("traceback", ofStr e.traceback), ("rid", ofStr e.requestId), ("kind", ofOpt ofStr e.kind)]
  | .crash x => obj [("k", Json.str "crash"), ("exc", Json.str (excName x))]

def brkOf (a : Lean.Json) : R (Nat → Bool) :=
  match fieldOpt a "brk" with
  | none => pure (fun _ => true)
  | some (.str "all") => pure (fun _ => true)
  | some (.str "none") => pure (fun _ => false)
  | some j => do let ps ← (← arr j).mapM nat; pure (fun p => ps.contains p)

open VgiVerif.Engine.Driver in
def handle (fn : String) (a : Lean.Json) : R Lean.Json := do
  match fn with
  | "dispatch" =>
    let b ← wireBatch a
    let sh := match fieldOpt a "shape" with
      | some (.str "pinned") => VgiVerif.Gen.LogDispatch.pinned
      | _ => VgiVerif.Gen.LogDispatch.shape
    pure (outcomeJson (dispatchLog sh b))
  | "log_roundtrip" =>
    let l ← log (← field a "log")
    let sid ← match fieldOpt a "sid" with | none => pure none | some s => do pure (some (← str s))
    let rid ← match fieldOpt a "rid" with | none => pure [] | some s => str s
    pure (outcomeJson (dispatchLog VgiVerif.Gen.LogDispatch.shape (toWire (logMsg l) sid rid)))
  | "producer" =>
    let il ← logs a "init_logs"
    let st ← steps a
    let brk ← brkOf a
    pure (obj [("spec", evs (Spec.lg il ++ Spec.emittedProducer st)),
               ("pipe", evs (PipeR.iterate (logItems il) st)),
               ("http", evs (HttpR.iterate brk il st))])
  | "exchange" =>
    let il ← logs a "init_logs"
    let st ← steps a
    pure (obj [("spec", evs (Spec.lg il ++ Spec.emittedExchange st)),
               ("pipe", evs (PipeR.exchangeAll (logItems il) st)),
               ("http", evs (Spec.lg il ++ HttpR.exchangeAll st))])
  | "initfail" =>
    let il ← logs a "init_logs"
    let e ← exn (← field a "raise")
    pure (obj [("spec", evs (Spec.emittedInitFail il e)), ("obs", evs (initFailObs il e))])
  | "sink" =>
    -- ops: ["call", LOG] | ["flush", schemaEmpty] | ["reset"]; returns what each op wrote and the final buffer
    let ops ← (← arrF a "ops").mapM fun j => do
      match (← arr j) with
      | [.str "call", l] => do pure (SinkOp.call (← log l))
      | [.str "flush", e] => do pure (SinkOp.flush (← bool e))
      | [.str "reset"] => pure SinkOp.reset
      | _ => throw "bad sink op"
    let step := fun (acc : Sink × List (List Log)) (o : SinkOp) =>
      let (s1, w) := sinkStep acc.1 o
      (s1, acc.2 ++ [w])
    let (fin, ws) := ops.foldl step (⟨[], none⟩, [])
    pure (obj [("written", ofList (ws.map fun w => evs (w.map Ev.log))), ("buffer", evs (fin.buffer.map Ev.log))])
  | "keeps" =>
    pure (obj [("pipe_step", ofBool VgiVerif.Gen.LogDispatch.pipeStepKeepsLogs),
               ("pipe_init", ofBool VgiVerif.Gen.LogDispatch.pipeInitKeepsLogs),
               ("http_producer", ofBool VgiVerif.Gen.LogDispatch.httpProducerKeepsLogs),
               ("http_exchange", ofBool VgiVerif.Gen.LogDispatch.httpExchangeKeepsLogs),
               ("http_init", ofBool VgiVerif.Gen.LogDispatch.httpInitKeepsLogs)])
  | _ => throw s!"unknown function C08.{fn}"

end VgiVerif.C08.Driver
