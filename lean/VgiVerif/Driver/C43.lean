import VgiVerif.Prelude.JsonUtil
import VgiVerif.Model.C43
namespace VgiVerif.C43.Driver
open Lean VgiVerif.J VgiVerif.C43 VgiVerif.Xfcc

def elemJson (e : Elem) : Json :=
  obj [("hash", ofOpt ofStr e.hash), ("cert", ofOpt ofStr e.cert), ("subject", ofOpt ofStr e.subject),
       ("uri", ofOpt ofStr e.uri), ("dns", ofList (e.dns.map ofStr)), ("by", ofOpt ofStr e.by_)]

def claimJson : String × ClaimVal → Json
  | (n, .str v) => ofList [Json.str n, ofStr v]
  | (n, .list v) => ofList [Json.str n, ofList (v.map ofStr)]

def outcomeJson : Outcome → Json
  | .failure r => obj [("kind", Json.str "failure"), ("reason", Json.str r)]
  | .validated e => obj [("kind", Json.str "validated"), ("element", elemJson e)]
  | .ok p cl => obj [("kind", Json.str "ok"), ("principal", ofStr p), ("claims", ofList (cl.map claimJson))]

/-- the environment function `urllib.parse.unquote`, supplied by the harness as a finite table
`[[raw, decoded], …]` computed with the real function; identity elsewhere -/
def unqOf (j : Option Json) : R (Str → Str) :=
  match j with
  | none => pure id
  | some v => do
    let rows ← arr v
    let tbl ← rows.mapM fun row => do
      match (← arr row) with
      | [a, b] => pure ((← str a), (← str b))
      | _ => throw "unq row must be [raw, decoded]"
    pure fun s => match tbl.find? (fun e => e.1 == s) with
      | some e => e.2
      | none => s

def handle (fn : String) (a : Json) : R Json := do
  match fn with
  | "split" =>
    let s ← strF a "s"
    let d ← natF a "d"
    let q := match fieldOpt a "q" with | some (.bool b) => b | _ => false
    pure (ofList ((split (Char.ofNat d) q s).map ofStr))
  | "unescape" => pure (ofStr (unescape (← strF a "s")))
  | "strip" => pure (ofStr (strip (← strF a "s")))
  | "extract_cn" => pure (ofStr (extractCn (← strF a "s")))
  | "parse" =>
    let unq ← unqOf (fieldOpt a "unq")
    pure (ofList ((parse unq (← strF a "s")).map elemJson))
  | "auth" =>
    let unq ← unqOf (fieldOpt a "unq")
    let hdr ← match fieldOpt a "hdr" with
      | none => pure none
      | some v => do pure (some (← str v))
    let sel ← strF a "sel"
    let hv ← boolF a "validate"
    pure (outcomeJson (authenticate unq hv sel hdr))
  | _ => throw s!"unknown function C43.{fn}"

end VgiVerif.C43.Driver
