import VgiVerif.Prelude.JsonUtil
import VgiVerif.Spec.Engine
namespace VgiVerif.Engine.Driver
open Lean VgiVerif.J VgiVerif.Engine

def kv (j : Json) : R (List (Str × Str)) := do
  match j with
  | .obj o =>
    -- keys sorted so the model's order equals the harness's canonical (sorted) order
    let ks := (o.toList.map (·.1)).toArray.qsort (· < ·) |>.toList
    ks.mapM fun k => do
      let v ← str (← field j k)
      pure (k.toList, v)
  | .null => pure []
  | _ => throw "expected object"

def log (j : Json) : R Log := do
  pure ⟨← strF j "level", ← strF j "text", ← match fieldOpt j "extra" with | some e => kv e | none => pure []⟩

def logs (j : Json) (k : String) : R (List Log) :=
  match fieldOpt j k with
  | some a => do (← arr a).mapM log
  | none => pure []

/-- exceptions arrive with their Python view already computed: {"type","text","kind"} -/
def exn (j : Json) : R Exn := do
  pure ⟨← strF j "type", ← strF j "text", ← match fieldOpt j "kind" with | some k => do pure (some (← str k)) | none => pure none⟩

def batch (j : Json) : R Batch := do
  let rows ← match fieldOpt j "rows" with | some r => nat r | none => pure 1
  let md ← match fieldOpt j "meta" with | some m => kv m | none => pure []
  pure ⟨← natF j "id", rows, md⟩

def act (j : Json) : R Act :=
  match j with
  | .str "finish" => pure .finish
  | .str "nothing" => pure .nothing
  | _ =>
    match fieldOpt j "emit", fieldOpt j "emit_finish", fieldOpt j "raise" with
    | some b, _, _ => do pure (.emit (← batch b))
    | _, some b, _ => do pure (.emitFinish (← batch b))
    | _, _, some e => do pure (.raise (← exn e))
    | _, _, _ => throw "bad act"

def step (j : Json) : R Step := do
  pure ⟨← logs j "logs", ← act (← field j "act"), ← logs j "post"⟩

def steps (j : Json) : R (List Step) := do (← arrF j "steps").mapM step

def evJson : Ev → Json
  | .log l => ofList [Json.str "log", ofStr l.level, ofStr l.text,
      ofList (l.extra.map fun (k, v) => ofList [ofStr k, ofStr v])]
  | .data b => ofList [Json.str "data", ofNat b.id, ofNat b.rows, ofList (b.md.map fun (k, v) => ofList [ofStr k, ofStr v])]
  | .value v => ofList [Json.str "value", ofNat v]
  | .header h => ofList [Json.str "header", ofNat h]
  | .error t m k => ofList [Json.str "error", ofStr t, ofStr m, ofOpt ofStr k]
  | .fin => ofList [Json.str "end"]

def evs (l : List Ev) : Json := ofList (l.map evJson)

def obsJson (o : Obs) : Json :=
  obj [("logs", evs (o.logs.map .log)), ("datas", evs (o.datas.map .data)), ("rest", evs o.rest)]

def handle (fn : String) (a : Json) : R Json := do
  match fn with
  | "unary" =>
    let ls ← logs a "logs"
    let out ← field a "out"
    let o : Except Exn Nat ← match fieldOpt out "ok", fieldOpt out "raise" with
      | some v, _ => do pure (.ok (← nat v))
      | _, some e => do pure (.error (← exn e))
      | _, _ => throw "bad out"
    pure (obj [("sem", evs (Sem.unary ls o)), ("pipe", evs (Pipe.unaryObs ls o)), ("http", evs (Http.unaryObs ls o))])
  | "producer" =>
    let il ← logs a "init_logs"
    let st ← steps a
    -- break decisions: list of positions after which the HTTP turn breaks; "all" = no cap
    let brk : Nat → Bool ← match fieldOpt a "brk" with
      | none => pure (fun _ => true)
      | some (.str "all") => pure (fun _ => true)
      | some (.str "none") => pure (fun _ => false)
      | some j => do let ps ← (← arr j).mapM nat; pure (fun p => ps.contains p)
    pure (obj [("spec", evs (Sem.lg il ++ Sem.producer true st)),
               ("sem", evs (Sem.lg il ++ Sem.producer false st)),
               ("pipe", evs (Pipe.iterate (logItems il) st)),
               ("http", evs (Http.iterate brk il st)),
               ("obs", obsJson (obs (Sem.lg il ++ Sem.producer false st)))])
  | "exchange" =>
    let il ← logs a "init_logs"
    let st ← steps a
    pure (obj [("spec", evs (Sem.lg il ++ Sem.exchange true st)),
               ("sem", evs (Sem.lg il ++ Sem.exchange false st)),
               ("pipe", evs (Pipe.exchangeAll (logItems il) st)),
               ("http", evs (Sem.lg il ++ Http.exchangeAll st)),
               ("obs", obsJson (obs (Sem.lg il ++ Sem.exchange false st)))])
  | "resume" =>
    let st ← steps a
    let pos ← natF a "pos"
    pure (evs (Sem.producer false (st.drop pos)))
  | _ => throw s!"unknown function Engine.{fn}"

end VgiVerif.Engine.Driver
