import VgiVerif.Prelude.JsonUtil
import VgiVerif.Model.C09
namespace VgiVerif.C09.Driver
open Lean VgiVerif.J VgiVerif.C09

def dirName : Direction → String
  | .notDeclared => "not_declared" | .undecodable => "undecodable" | .malformed => "malformed"
  | .clientTooOld => "client_too_old" | .serverTooOld => "server_too_old"

def resultJson : GateResult → Json
  | .pass => obj [("pass", ofBool true)]
  | .refuse shown dir => obj [("pass", ofBool false), ("shown", ofOpt ofStr shown), ("dir", Json.str (dirName dir))]

/-- client metadata value: `null` (absent) or hex bytes; decoding as Python `bytes.decode()` (strict UTF-8) -/
def clientMd (j : Option Json) : R ClientMd :=
  match j with
  | none => pure .absent
  | some v => do
    let bs ← bytes v
    match String.fromUTF8? (ByteArray.mk bs.toArray) with
    | some s => pure (.text s.toList)
    | none => pure .undecodable

def triple (j : Json) : R (Nat × Nat × Nat) := do
  match (← arr j) with
  | [a, b, c] => pure ((← nat a), (← nat b), (← nat c))
  | _ => throw "expected [maj,min,patch]"

def handle (fn : String) (a : Json) : R Json := do
  match fn with
  | "parse" =>
    let s ← strF a "s"
    pure (match parseVersion s with
      | none => Json.null
      | some (x, y, z) => ofList [ofNat x, ofNat y, ofNat z])
  | "check" =>
    let srv ← triple (← field a "srv")
    let md ← clientMd (fieldOpt a "md")
    pure (resultJson (check srv md))
  | "gate" =>
    let siteName ← rawStr (← field a "site")
    let some site := Gen.Semver.gateSites.find? (·.name == siteName) | throw s!"unknown site {siteName}"
    let srv ← match fieldOpt a "srv" with
      | none => pure none
      | some v => do pure (some (← triple v))
    let m ← strF a "method"
    let md ← clientMd (fieldOpt a "md")
    pure (resultJson (gate site srv m md))
  | _ => throw s!"unknown function C09.{fn}"

end VgiVerif.C09.Driver
