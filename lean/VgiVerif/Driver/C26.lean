import VgiVerif.Prelude.JsonUtil
import VgiVerif.Model.C26
import VgiVerif.Spec.C26
namespace VgiVerif.C26.Driver
open Lean VgiVerif.J VgiVerif.C26 VgiVerif.Sched

def cmpName : Gen.C26.Cmp → String
  | .lt => "Lt" | .le => "LtE" | .gt => "Gt" | .ge => "GtE" | .eq => "Eq" | .ne => "NotEq"

/-- harness events → model labels -/
def labelOf (j : Json) : R Label := do
  match (← arr j) with
  | [k, a] =>
    match (← rawStr k) with
    | "tick" => pure (.tick (← int a))
    | "shut" => pure (.shutBegin (← nat a))
    | "racq" => pure (.regAcq (← nat a))
    | "rrel" => pure (.regRel (← nat a))
    | "lost" => pure (.lost (← nat a))
    | "mstep" => pure (.mstep (← nat a))
    | "csess" => pure (.closeSession (← nat a))
    | "odone" => pure (.openDone (← nat a))
    | s => throw s!"bad event {s}/1"
  | [k, a, b] =>
    match (← rawStr k) with
    | "req" => pure (.reqBegin (← nat a) (← nat b))
    | "del" => pure (.delBegin (← nat a) (← nat b))
    | "clock" => pure (.readClock (← nat a) (← int b))
    | "sid" => pure (.allocSid (← nat a) (← nat b))
    | "eacq" => pure (.entAcq (← nat a) (← nat b))
    | "erel" => pure (.entRel (← nat a) (← nat b))
    | "etimeout" => pure (.entTimeout (← nat a) (← nat b))
    | "dbegin" => pure (.dispatchBegin (← nat a) (← nat b))
    | "dend" => pure (.dispatchEnd (← nat a) (← nat b))
    | "cstart" => pure (.closeStart (← nat a) (← nat b))
    | "cend" => pure (.closeEnd (← nat a) (← nat b))
    | s => throw s!"bad event {s}/2"
  | [k, a, b, c] =>
    match (← rawStr k) with
    | "open" => pure (.openBegin (← nat a) (← int b) (← bool c))
    | s => throw s!"bad event {s}/3"
  | _ => throw "bad event"

def evOf (j : Json) : R Spec.Ev := do
  match (← arr j) with
  | [k, a, b] =>
    match (← rawStr k) with
    | "dbegin" => pure (.dispatchBegin (← nat a) (← nat b))
    | "dend" => pure (.dispatchEnd (← nat a) (← nat b))
    | "cstart" => pure (.closeStart (← nat a) (← nat b))
    | "cend" => pure (.closeEnd (← nat a) (← nat b))
    | s => throw s!"bad spec event {s}"
  | _ => throw "bad spec event"

def violJson : Spec.Viol → Json
  | .concurrentDispatch i s => ofList [Json.str "concurrent-dispatch", ofNat i, ofNat s]
  | .closeTwice i s => ofList [Json.str "close-twice", ofNat i, ofNat s]
  | .closeDuringDispatch i s => ofList [Json.str "close-during-dispatch", ofNat i, ofNat s]
  | .dispatchDuringClose i s => ofList [Json.str "dispatch-during-close", ofNat i, ofNat s]
  | .dispatchAfterClose i s => ofList [Json.str "dispatch-after-close", ofNat i, ofNat s]

def tids (ls : List Label) : List Tid := (ls.filterMap Label.tid).eraseDups

/-- final model state, restricted to the sessions drawn and the threads seen -/
def stJson (st : St) (ts : List Tid) : Json :=
  obj [("clock", ofInt st.clock), ("nextSid", ofNat st.nextSid), ("order", ofList (st.order.map ofNat)),
       ("regHeld", ofBool st.reg.locked),
       ("quiescent", ofBool (ts.all fun t => decide (st.pc t = .idle))),
       ("sessions", ofList ((List.range st.nextSid).map fun s =>
          obj [("live", ofBool (st.live s)), ("closed", ofBool (st.closedFlag s)), ("cstart", ofNat (st.cstart s)),
               ("cend", ofNat (st.cend s)), ("expires", ofInt (st.expires s)),
               ("entHeld", ofBool (st.ent s).owner.isSome)]))]

def handle (fn : String) (a : Json) : R Json := do
  match fn with
  | "gen" =>
    pure (obj [("getExpiredCmp", Json.str (cmpName Gen.C26.getExpiredCmp)),
      ("sweepExpiredCmp", Json.str (cmpName Gen.C26.sweepExpiredCmp)),
      ("reaperTickMillis", ofNat Gen.C26.reaperTickMillis),
      ("shape", ofBool (Gen.C26.regLockIsPlainLock && Gen.C26.entryLockIsRLock && Gen.C26.openOrder
        && Gen.C26.getShape && Gen.C26.isLiveShape && Gen.C26.closeShape && Gen.C26.drainShape
        && Gen.C26.shutdownShape && Gen.C26.closeEntryShape && Gen.C26.noDirectStateClose
        && Gen.C26.requestRechecksLive && Gen.C26.closeSessionKeepsEntryLock
        && Gen.C26.responseReleasesEntryLock && Gen.C26.deleteClosesUnderEntryLock
        && Gen.C26.reaperLoopShape)),
      ("closeLockWaitMillis", ofOpt ofNat Gen.C26.closeLockWaitMillis),
      ("closeProceedsWithoutLock", ofBool Gen.C26.closeProceedsWithoutLock),
      ("fingerprint", Json.str Gen.C26.fingerprint)])
  | "accepts" =>
    let ls ← (← arrF a "events").mapM labelOf
    match C26.ts.run ls with
    | some st => pure (obj [("ok", ofBool true), ("st", stJson st (tids ls))])
    | none => pure (obj [("ok", ofBool false), ("reject", ofOpt ofNat (C26.ts.rejectIndex ls))])
  | "monitor" =>
    let evs ← (← arrF a "events").mapM evOf
    pure (ofList ((Spec.monitor evs).map violJson))
  | _ => throw s!"unknown function C26.{fn}"

end VgiVerif.C26.Driver
