import VgiVerif.Prelude.JsonUtil
import VgiVerif.Model.C40
namespace VgiVerif.C40.Driver
open Lean VgiVerif.J VgiVerif.C40 VgiVerif.Caps

def optInt (j : Json) (k : String) : R (Option Int) :=
  match fieldOpt j k with
  | none => pure none
  | some v => do pure (some (← int v))

def cfgOf (a : Json) : R Cfg := do
  let c ← field a "cfg"
  pure {
    maxRequestBytes := (← optInt c "maxRequestBytes"), maxResponseBytes := (← optInt c "maxResponseBytes"),
    maxExternalizedResponseBytes := (← optInt c "maxExternalizedResponseBytes"), maxUploadBytes := (← optInt c "maxUploadBytes"),
    storage := (← boolF c "storage"), uploadProvider := (← boolF c "uploadProvider"), compression := (← boolF c "compression"),
    zstdAvailable := (← boolF c "zstdAvailable"), proofRequired := (← boolF c "proofRequired"),
    introspect := (← boolF c "introspect"), sticky := (← boolF c "sticky"), stickyTtl := (← intF c "stickyTtl"),
    stickyEcho := (← (← arrF c "stickyEcho").mapM str),
    proxyHint := (match fieldOpt c "proxyHint" with | some (.bool b) => b | _ => false) }

def headersOf (j : Json) : R Headers := do
  (← arr j).mapM (fun p => do
    match (← arr p) with
    | [k, v] => pure ((← str k), (← str v))
    | _ => throw "expected [name, value]")

def headersJson (hs : Headers) : Json := ofList (hs.map (fun p => ofList [ofStr p.1, ofStr p.2]))

def encJson : Encoding → Json
  | .zstd => "zstd" | .gzip => "gzip" | .identity => "identity"

def capsJson (c : Caps) : Json :=
  obj [("max_request_bytes", ofOpt ofInt c.maxRequestBytes), ("max_response_bytes", ofOpt ofInt c.maxResponseBytes),
       ("max_externalized_response_bytes", ofOpt ofInt c.maxExternalizedResponseBytes),
       ("externalization_enabled", ofBool c.externalizationEnabled), ("upload_url_support", ofBool c.uploadUrlSupport),
       ("max_upload_bytes", ofOpt ofInt c.maxUploadBytes),
       ("supported_encodings", ofList (c.supportedEncodings.map encJson)),
       ("sticky_enabled", ofBool c.stickyEnabled), ("sticky_default_ttl", ofOpt ofInt c.stickyDefaultTtl),
       ("sticky_echo_headers", ofList (c.stickyEchoHeaders.map ofStr))]

def handle (fn : String) (a : Json) : R Json := do
  match fn with
  | "capHeaders" => pure (headersJson (capHeaders (← cfgOf a)))
  | "probe" => pure (capsJson (probe (← headersOf (← field a "headers"))))
  | "probeCfg" => pure (capsJson (probe (capHeaders (← cfgOf a))))
  | "respond" =>
    let cfg ← cfgOf a
    pure (headersJson (respond cfg (← strF a "verb") (← headersOf (← field a "base")) []))
  | "int" => pure (ofOpt ofInt (VgiVerif.PyInt.pyIntParse (← strF a "s")))
  | "str" => pure (ofStr (VgiVerif.PyInt.pyStrInt (← intF a "n")))
  | "strip" => pure (ofStr (VgiVerif.PyInt.strip (← strF a "s")))
  | "encodings" => pure (ofList ((parseEncodingList (← strF a "s")).map encJson))
  | "names" =>
    pure (ofList (((probeNames [(['x'], (← strF a "s"))] ['x'])).map ofStr))
  | _ => throw s!"unknown function C40.{fn}"

end VgiVerif.C40.Driver
