import VgiVerif.Prelude.JsonUtil
import VgiVerif.Model.C14
namespace VgiVerif.C14.Driver
open Lean VgiVerif.J VgiVerif.C14

def identOf (j : Option Json) : R Ident :=
  match j with
  | none => pure .anon
  | some v => do
    match (← arr v) with
    | [d, p] => pure (.user (← str d) (← str p))
    | _ => throw "identity: expected null or [domain, principal]"

def matrix (j : Json) : R (Nat → Nat → Bool) := do
  let rows ← (← arr j).mapM (fun r => do (← arr r).mapM bool)
  pure (fun a b => ((rows[a]?).bind (·[b]?)).getD false)

def shapeOf (j : Option Json) : R Gen.C14.Shape :=
  match j with
  | none => pure Gen.C14.shape
  | some v => do
    let s ← rawStr v
    if s == "gen" then pure Gen.C14.shape
    else if s == "pinned" then pure { initAnchor := .now, missAnchor := .now, hitChecksType := false, hitChecksMethod := false, hitRefreshes := false }
    else if s == "repaired" then pure { initAnchor := .created, missAnchor := .created, hitChecksType := true, hitChecksMethod := true, hitRefreshes := false }
    else throw s!"unknown shape {s}"

def cfgOf (a : Json) : R Cfg := do
  pure { shape := (← shapeOf (fieldOpt a "shape")), ttl := (← natF a "ttl"), tps := (← natF a "tps"),
         declares := (← matrix (← field a "declares")), decodes := (← matrix (← field a "decodes")) }

def rejectName : Reject → String
  | .tokenRejected => "tokenRejected" | .callMissing => "callMissing"
  | .callType => "callType" | .stateDecode => "stateDecode"

def outcomeJson : Outcome → Json
  | .rejected r => obj [("rejected", Json.str (rejectName r))]
  | .served m rc c k => obj [("served", obj [("m", ofNat m), ("content", ofNat rc.content), ("stype", ofOpt ofNat rc.stype),
      ("minted", ofNat rc.method), ("cid", ofNat c.cid), ("pos", ofNat c.pos), ("created", ofNat c.created), ("writer", ofNat c.writer),
      ("cancel", ofBool k)])]

def cachesJson (W : World) : Json :=
  ofList (W.caches.map fun ch => ofList (ch.entries.map fun e =>
    obj [("cid", ofNat e.cid), ("key", ofStr e.ikey), ("exp", ofNat e.expires), ("content", ofNat e.rc.content)]))

def stepOf (j : Json) : R Step := do
  let t ← rawStr (← field j "t")
  match t with
  | "tick" => pure (.tick (← natF j "d"))
  | "init" =>
    let stype ← match fieldOpt j "stype" with
      | none => pure none
      | some v => do pure (some (← nat v))
    pure (.init (← natF j "w") (← identOf (fieldOpt j "id")) (← natF j "m") (← natF j "content") stype)
  | "cont" =>
    let cur ← match fieldOpt j "cur" with
      | none => pure CurRef.junk
      | some v => do pure (CurRef.issued (← nat v))
    let call ← match fieldOpt j "call" with
      | none => pure CallRef.absent
      | some (Json.str "junk") => pure CallRef.junk
      | some v => do pure (CallRef.issued (← nat v))
    pure (.cont (← natF j "w") ⟨(← identOf (fieldOpt j "id")), (← natF j "m"), cur, call, (← boolF j "cancel")⟩)
  | _ => throw s!"unknown step {t}"

/-- run a history; per step: the outcome on the warm world, on the emptied world, and every cache afterwards -/
def runAll (cfg : Cfg) : World → List Step → List Json → List Json
  | _, [], acc => acc.reverse
  | W, s :: rest, acc =>
    let W' := step cfg W s
    let o := match s with
      | .cont w rq => obj [("out", outcomeJson (serveCont cfg W w rq).2),
                           ("cold", outcomeJson (serveCont cfg W.emptied w rq).2),
                           ("caches", cachesJson W'), ("ncur", ofNat W'.cursors.length)]
      | .init _ _ _ _ _ => obj [("caches", cachesJson W'), ("ncur", ofNat W'.cursors.length)]
      | .tick _ => Json.null
    runAll cfg W' rest (o :: acc)

def entryJson (e : Entry) : Json :=
  obj [("cid", ofNat e.cid), ("key", ofStr e.ikey), ("exp", ofNat e.expires), ("content", ofNat e.rc.content)]

/-- a cache call at the level of `_CallStateCache`: `get(call_id, auth, now)` / `put(call_id, auth, resolved, now)` with
    the cache's own `ttl` (ticks); what a hit does to the expiry follows the extracted shape -/
def cacheOpOf (ttl : Nat) (j : Json) : R CacheOp := do
  let op ← rawStr (← field j "op")
  let cid ← natF j "cid"
  let key ← strF j "key"
  let now ← natF j "now"
  match op with
  | "get" => pure (.get cid key now (if Gen.C14.shape.hitRefreshes then some (now + ttl) else none))
  | "put" => pure (.put cid key ⟨(← natF j "content"), none, 0⟩ (now + ttl))
  | _ => throw s!"unknown cache op {op}"

def handle (fn : String) (a : Json) : R Json := do
  match fn with
  | "cacheOps" =>
    let ttl ← natF a "ttl"
    let ops ← (← arrF a "ops").mapM (cacheOpOf ttl)
    let r := applyOps ⟨(← natF a "cap"), []⟩ ops
    pure (obj [("results", ofList (r.2.map fun p => ofOpt ofNat (p.2.map (·.content)))),
               ("entries", ofList (r.1.entries.map entryJson))])
  | "run" =>
    let cfg ← cfgOf a
    let caps ← (← arrF a "caps").mapM nat
    let steps ← (← arrF a "steps").mapM stepOf
    pure (ofList (runAll cfg (World.start caps (← natF a "t0")) steps []))
  | "identKey" => pure (ofStr (identKey (← identOf (fieldOpt a "id"))))
  | "aadTail" => pure (ofStr (aadTail (← identOf (fieldOpt a "id"))))
  | "shape" =>
    pure (obj [("initAnchor", Json.str (if Gen.C14.shape.initAnchor = .created then "created" else "now")),
               ("missAnchor", Json.str (if Gen.C14.shape.missAnchor = .created then "created" else "now")),
               ("hitChecksType", ofBool Gen.C14.shape.hitChecksType),
               ("hitChecksMethod", ofBool Gen.C14.shape.hitChecksMethod),
               ("hitRefreshes", ofBool Gen.C14.shape.hitRefreshes),
               ("callBindsMethod", ofBool Gen.C14.callBindsMethod),
               ("cacheTtl0", ofNat (Gen.C14.cacheTtl 0))])
  | _ => throw s!"unknown function C14.{fn}"

end VgiVerif.C14.Driver
