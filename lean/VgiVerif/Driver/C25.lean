import VgiVerif.Prelude.JsonUtil
import VgiVerif.Model.C25
/-
JSON entry points of the sticky model (shared with C27's driver).
The driver's stand-in for base64: a wire value is `(envelope term, canonical?)`; `enc t = (t, true)`, `dec (t, _) = t`
(so `(t, false)` is any re-encoding of `t` that the lenient decoder maps to the same envelope).
-/
namespace VgiVerif.C25.Driver
open Lean VgiVerif.J VgiVerif.Sticky

abbrev DWire := Tok × Bool

def codec : Codec DWire := { enc := fun t => (t, true), dec := fun w => some w.1, dec_enc := fun _ => rfl }

def tokOfJson (j : Json) : R Tok := do
  match fieldOpt j "raw" with
  | some r => pure (.raw (← bytes r))
  | none =>
    pure (.sealed (← natF j "key") (← bytesF j "aad") (← natF j "ver") (← natF j "nonce") (← bytesF j "payload"))

def tokToJson : Tok → Json
  | .raw bs => obj [("raw", ofBytes bs)]
  | .sealed k a v n p => obj [("key", ofNat k), ("aad", ofBytes a), ("ver", ofNat v), ("nonce", ofNat n), ("payload", ofBytes p)]

def wireOfJson (j : Json) : R DWire := do pure ((← tokOfJson (← field j "tok")), (← boolF j "canon"))
def wireToJson (w : DWire) : Json := obj [("tok", tokToJson w.1), ("canon", ofBool w.2)]

def identOfJson (j : Option Json) : R Identity :=
  match j with
  | none => pure .anon
  | some v => do pure (.user (← bytesF v "d") (← bytesF v "p"))

def identToJson : Identity → Json
  | .anon => Json.null
  | .user d p => obj [("d", ofBytes d), ("p", ofBytes p)]

def entryOfJson (j : Json) : R Entry := do
  pure ⟨← bytesF j "sid", ← natF j "expires", ← bytesF j "pkey", ← natF j "state", ← natF j "owner"⟩

def entryToJson (e : Entry) : Json :=
  obj [("sid", ofBytes e.sid), ("expires", ofNat e.expires), ("pkey", ofBytes e.pkey), ("state", ofNat e.state), ("owner", ofNat e.owner)]

def regOfJson (j : Json) : R Reg := do
  pure ⟨← (← arrF j "entries").mapM entryOfJson, ← boolF j "draining"⟩

def regToJson (r : Reg) : Json := obj [("entries", ofList (r.entries.map entryToJson)), ("draining", ofBool r.draining)]

def cfgOfJson (j : Json) : R Cfg := do pure ⟨← bytesF j "serverId", ← natF j "key", ← natF j "defaultTtl"⟩

def envOfJson (j : Json) : R Env := do pure ⟨← natF j "now", ← natF j "sidCtr", ← natF j "nonceCtr"⟩
def envToJson (e : Env) : Json := obj [("now", ofNat e.now), ("sidCtr", ofNat e.sidCtr), ("nonceCtr", ofNat e.nonceCtr)]

def reqOfJson (j : Json) : R (Req DWire) := do
  let ident ← identOfJson (fieldOpt j "ident")
  let accept ← match fieldOpt j "accept" with
    | none => pure none
    | some v => do pure (some (← str v))
  let session ← match fieldOpt j "session" with
    | none => pure none
    | some v => do pure (some (← wireOfJson v))
  let path ← match fieldOpt j "path" with
    | none => pure "/run".toList
    | some v => str v
  pure { ident := ident, accept := accept, session := session, client := (← natF j "client"), path := path }

def actionOfJson (j : Json) : R Action :=
  match j with
  | .str "c" => pure .close
  | .str "u" => pure .use
  | .str "n" => pure .noop
  | .str "S" => pure .shutdown
  | _ => do
    match fieldOpt j "R" with
    | some v => pure (.reap (← nat v))
    | none =>
      let l ← natF j "o"
      let ttl ← match fieldOpt j "ttl" with
        | none => pure none
        | some v => do pure (some (← int v))
      pure (.open l ttl)

def errName : MethodErr → String
  | .notOptedIn => "notOptedIn" | .alreadyActive => "alreadyActive" | .draining => "draining" | .sealFailed => "sealFailed"
  | .notAvailable => "notAvailable"

def actOutToJson : ActOut → Json
  | .opened sid => obj [("opened", ofBytes sid)]
  | .closed hit => obj [("closed", ofBool hit)]
  | .used s => obj [("used", ofOpt ofNat s)]
  | .noop => Json.str "noop"
  | .env => Json.str "env"
  | .failed e => obj [("failed", Json.str (errName e))]

def outcomeToJson : Outcome → Json
  | .lost => Json.str "lost"
  | .ok => Json.str "ok"
  | .failed e => obj [("failed", Json.str (errName e))]

def respToJson (r : Resp DWire) : Json :=
  obj [("outcome", outcomeToJson r.outcome), ("session", ofOpt wireToJson r.session), ("close", ofBool r.close),
       ("log", ofList (r.log.map actOutToJson))]

def mintToJson (m : Mint) : Json :=
  obj [("wk", ofNat m.wk), ("serverId", ofBytes m.serverId), ("key", ofNat m.key), ("ident", identToJson m.ident),
       ("sid", ofBytes m.sid), ("created", ofNat m.created), ("expires", ofNat m.expires), ("nonce", ofNat m.nonce),
       ("tok", tokToJson m.tok), ("client", ofNat m.client)]

def opOfJson (j : Json) : R (Op DWire) := do
  let k ← rawStr (← field j "op")
  match k with
  | "call" =>
    pure (.call (← natF j "wk") (← reqOfJson (← field j "rq")) (← (← arrF j "script").mapM actionOfJson) (← boolF j "swallow"))
  | "delete" => pure (.delete (← natF j "wk") (← reqOfJson (← field j "rq")))
  | "tick" => pure (.tick (← natF j "dt"))
  | "reap" => pure (.reap (← natF j "wk"))
  | "shutdown" => pure (.shutdown (← natF j "wk"))
  | "drain" => pure (.setDraining (← natF j "wk") (← boolF j "b"))
  | _ => throw s!"unknown op {k}"

def defaultCfg : Cfg := ⟨[], 0, 0⟩

def netOfJson (j : Json) : R (Net × Nat) := do
  let cfgs ← (← arrF j "cfg").mapM cfgOfJson
  let regs ← (← arrF j "regs").mapM regOfJson
  let env ← envOfJson (← field j "env")
  pure ({ cfg := fun i => cfgs.getD i defaultCfg, regs := fun i => regs.getD i {}, env := env }, cfgs.length)

def obsToJson : Obs DWire → Json
  | .resp r => obj [("resp", respToJson r)]
  | .deleted st h => obj [("deleted", obj [("status", ofNat st), ("closeHeader", ofBool h)])]
  | .none => Json.null

def handle (fn : String) (a : Json) : R Json := do
  match fn with
  | "step" =>
    let (net, nw) ← netOfJson (← field a "net")
    let op ← opOfJson (← field a "op")
    let (net', obs) := net.step codec op
    pure (obj [("regs", ofList ((List.range nw).map fun i => regToJson (net'.regs i))), ("env", envToJson net'.env),
               ("mints", ofList (net'.mints.map mintToJson)), ("closed", ofList (net'.closedLog.map ofNat)),
               ("obs", obsToJson obs)])
  | "parseFrame" =>
    let pt ← bytesF a "pt"
    pure (match parseFrame pt with
      | .ok (sidB, sid, ex) => obj [("ok", obj [("serverId", ofBytes (asciiReplaceUtf8 sidB)), ("sid", ofBytes sid), ("expires", ofNat ex)])]
      | .error .lost => Json.str "lost"
      | .error .crash => Json.str "crash")
  | "packFrame" =>
    pure (ofBytes (packFrame (← natF a "created") (← bytesF a "serverId") (← bytesF a "sid") (← natF a "expires")))
  | "aad" =>
    let ident ← identOfJson (fieldOpt a "ident")
    pure (obj [("aad", ofBytes (aad ident)), ("pkey", ofBytes (pkey ident))])
  | "accept" =>
    let v ← match fieldOpt a "v" with
      | none => pure none
      | some x => do pure (some (← str x))
    pure (ofBool (acceptOpens v))
  | _ => throw s!"unknown function C25.{fn}"

end VgiVerif.C25.Driver
