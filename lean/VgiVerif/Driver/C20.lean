import VgiVerif.Prelude.JsonUtil
import VgiVerif.Model.C20
namespace VgiVerif.C20.Driver
open Lean VgiVerif.J VgiVerif.C20

def strList (j : Json) : R (List (List Char)) := do (← arr j).mapM str

def cfgOf (a : Json) : R Cfg := do
  let c ← field a "cfg"
  pure {
    pfx := (← strF c "pfx"), authConfigured := (← boolF c "auth"), health := (← boolF c "health"),
    pkce := (← boolF c "pkce"), oauthMeta := (← boolF c "oauthMeta"), upload := (← boolF c "upload"),
    sticky := (← boolF c "sticky"), sizeCap := (← boolF c "sizeCap"), describePage := (← boolF c "describePage"),
    landing := (← boolF c "landing"), introspect := (← boolF c "introspect"),
    attrs := (← strList (← field c "attrs")), describe := (← boolF c "describe") }

def routeJson : Route → Json
  | .wellKnown => obj [("k", "wellKnown")]
  | .landing => obj [("k", "landing")]
  | .health => obj [("k", "health")]
  | .describePage => obj [("k", "describePage")]
  | .introspect => obj [("k", "introspect")]
  | .session => obj [("k", "session")]
  | .upload => obj [("k", "upload")]
  | .oauthCallback => obj [("k", "oauthCallback")]
  | .oauthLogout => obj [("k", "oauthLogout")]
  | .oauthToken => obj [("k", "oauthToken")]
  | .rpc m => obj [("k", "rpc"), ("m", ofStr m)]
  | .init m => obj [("k", "init"), ("m", ofStr m)]
  | .exchange m => obj [("k", "exchange"), ("m", ofStr m)]
  | .notFound => obj [("k", "notFound")]

def codeJson : Code → Json
  | .unary m => obj [("k", "unary"), ("m", ofStr m)]
  | .streamInit m => obj [("k", "streamInit"), ("m", ofStr m)]
  | .streamExchange m => obj [("k", "streamExchange"), ("m", ofStr m)]
  | .uploadUrl => obj [("k", "uploadUrl")]
  | .tokenIntrospect => obj [("k", "tokenIntrospect")]
  | .sessionClose => obj [("k", "sessionClose")]
  | .describePage => obj [("k", "describePage")]

def handle (fn : String) (a : Json) : R Json := do
  match fn with
  | "exempt" =>
    let cfg ← cfgOf a
    pure (ofBool (exempt Gen.Exempt.auth cfg (← strF a "verb") (← strF a "path")))
  | "route" =>
    let cfg ← cfgOf a
    pure (routeJson (route cfg (← strF a "path")))
  | "respond" =>
    let cfg ← cfgOf a
    let r := respond Gen.Exempt.auth cfg ⟨(← strF a "verb"), (← strF a "path"), (← boolF a "authOk")⟩
    pure (obj [("authCalled", ofBool r.authCalled), ("unauthorized", ofBool r.unauthorized),
               ("code", ofList (r.code.map codeJson)),
               ("route", routeJson (route cfg (← strF a "path"))),
               ("exempt", ofBool (exempt Gen.Exempt.auth cfg (← strF a "verb") (← strF a "path")))])
  | "methods" =>
    let cfg ← cfgOf a
    pure (ofList ((serverMethods cfg).map ofStr))
  | "shape" =>
    pure (obj [("recognised", ofBool Gen.Exempt.auth.recognised),
               ("entries", ofNat Gen.Exempt.auth.entries.length),
               ("literals", ofNat Gen.Exempt.auth.literals.length)])
  | _ => throw s!"unknown function C20.{fn}"

end VgiVerif.C20.Driver
