import VgiVerif.Prelude.JsonUtil
import VgiVerif.Model.C18
/-
Driver entry points of the codec model.  The libraries are *scripted*: the harness records what the real
zstandard / zlib objects returned to the real loops (chunk lengths, unconsumed-tail flags, flush length, eof) and the
model is run against a reader / decompress object that replays exactly that; the model must then issue the same
sequence of size requests and end in the same outcome.
-/
namespace VgiVerif.C18.Driver
open Lean VgiVerif.J VgiVerif.Codec VgiVerif.C18

def resName : Res → String
  | .ok _ => "ok" | .limit => "limit" | .corrupt => "corrupt" | .unsupported => "unsupported" | .fuel => "fuel"

def runJson (r : Run) : Json :=
  obj [("out", Json.str (resName r.out)),
       ("bytes", match r.out with | .ok b => ofBytes b | _ => Json.null),
       ("peak", ofNat r.peak),
       ("reads", ofList (r.reads.map ofNat))]

/-- a reader replaying a script of chunk lengths (`-1` = the library raises; script exhausted = end of stream) -/
def scripted : Reader where
  σ := Bytes × List Int
  read := fun s _ =>
    match s.2 with
    | [] => some ([], (s.1, []))
    | k :: r => if k < 0 then none else some (s.1.take k.toNat, (s.1.drop k.toNat, r))

structure ZState where
  rem : Bytes
  script : List (Int × Bool × Bool)  -- (chunk length | -1 = raises, unconsumed_tail non-empty afterwards, eof afterwards)
  tail : Bool
  eofNow : Bool
  decAllLen : Int                -- length returned by `decompress(data)` without max_length (-1 = raises)
  flushLen : Int                 -- length returned by `flush()` (-1 = raises)
  eofAfter : Bool                -- `do.eof` after the flush
  flushed : Bool

def scriptedZ : ZObj where
  σ := ZState
  dec := fun s _ _ =>
    match s.script with
    | [] => some ([], { s with tail := false })
    | (k, t, e) :: r =>
      if k < 0 then none else some (s.rem.take k.toNat, { s with rem := s.rem.drop k.toNat, script := r, tail := t, eofNow := e })
  decAll := fun s => if s.decAllLen < 0 then none else some (s.rem.take s.decAllLen.toNat, { s with rem := s.rem.drop s.decAllLen.toNat, tail := false })
  hasTail := fun s => s.tail
  flush := fun s => if s.flushLen < 0 then none else some (s.rem.take s.flushLen.toNat, { s with rem := s.rem.drop s.flushLen.toNat, flushed := true })
  eof := fun s => if s.flushed then s.eofAfter else s.eofNow

def optBytes (a : Json) (k : String) : R (Option Bytes) :=
  match fieldOpt a k with
  | none => pure none
  | some v => do pure (some (← bytes v))

def optNat (a : Json) (k : String) : R (Option Nat) :=
  match fieldOpt a k with
  | none => pure none
  | some v => do pure (some (← nat v))

def optInt (a : Json) (k : String) : R (Option Int) :=
  match fieldOpt a k with
  | none => pure none
  | some v => do pure (some (← int v))

structure ZDesc where
  raw : Option Int
  one : Option Bytes
  all : Option Bytes
  plain : Bytes
  script : List Int

def ZDesc.frame (d : ZDesc) : ZFrame := ⟨d.raw, d.one, d.all, scripted, (d.plain, d.script)⟩
def ZDesc.none : ZDesc := ⟨Option.none, Option.none, Option.none, [], []⟩

structure GDesc where
  st : ZState
  nonempty : Bool

def GDesc.frame (d : GDesc) : GFrame := ⟨scriptedZ, d.st, d.nonempty⟩
def GDesc.none : GDesc := ⟨⟨[], [], false, false, -1, 0, false, false⟩, false⟩

def zdesc (a : Json) : R ZDesc := do
  let raw ← optInt a "raw"
  let one ← optBytes a "oneshot"
  let all ← optBytes a "readall"
  let plain ← match fieldOpt a "plain" with | none => pure [] | some v => bytes v
  let script ← match fieldOpt a "script" with | none => pure [] | some v => do (← arr v).mapM int
  pure ⟨raw, one, all, plain, script⟩

def gdesc (a : Json) : R GDesc := do
  let plain ← match fieldOpt a "plain" with | none => pure [] | some v => bytes v
  let script ← match fieldOpt a "script" with
    | none => pure []
    | some v => do (← arr v).mapM (fun e => do
        match (← arr e) with
        | [k, t, e] => pure ((← int k), (← bool t), (← bool e))
        | _ => throw "script entry must be [len, tail, eof]")
  let decAllLen := (← optInt a "decall").getD (-1)
  let flushLen := (← optInt a "flush").getD 0
  let eofAfter ← match fieldOpt a "eof" with | none => pure true | some v => bool v
  let ne ← match fieldOpt a "nonempty" with | none => pure true | some v => bool v
  pure ⟨⟨plain, script, false, false, decAllLen, flushLen, eofAfter, false⟩, ne⟩

def encOf (a : Json) : R Enc := do
  let n ← rawStr (← field a "enc")
  match Enc.ofName n with
  | some e => pure e
  | none => throw s!"unknown Encoding member {n}"

/-- libraries whose compressors only say who was called at which level (2 marker bytes) -/
def markerLibs (zf : ZFrame) (gf : GFrame) : Libs where
  zstdView := fun _ => zf
  gzipView := fun _ => gf
  zstdCompress := fun l _ => [1, UInt8.ofNat (l + 128).toNat]
  gzipCompress := fun l _ => [2, UInt8.ofNat (l + 128).toNat]

def handle (fn : String) (a : Json) : R Json := do
  match fn with
  | "contentSize" =>
    let raw ← intF a "raw"
    pure (ofOpt ofNat (contentSize raw))
  | "zstd" =>
    let F ← zdesc a
    pure (runJson (zstdDecode F.frame (← optNat a "cap")))
  | "gzip" =>
    let G ← gdesc a
    pure (runJson (gzipDecode G.frame (← optNat a "cap")))
  | "decompress" =>
    -- {enc, data (identity), zstd: {...} | gzip: {...}, cap}
    let e ← encOf a
    let data ← match fieldOpt a "data" with | none => pure [] | some v => bytes v
    let zf ← match fieldOpt a "zstd" with
      | some v => zdesc v
      | none => pure ZDesc.none
    let gf ← match fieldOpt a "gzip" with
      | some v => gdesc v
      | none => pure GDesc.none
    pure (runJson (decompress (markerLibs zf.frame gf.frame) e data (← optNat a "cap")))
  | "compress" =>
    let e ← encOf a
    let data ← bytesF a "data"
    let lvl ← optInt a "level"
    pure (ofOpt ofBytes (compress (markerLibs ZDesc.none.frame GDesc.none.frame) e data lvl))
  | "consts" =>
    pure (obj [("chunk", ofNat Gen.Codec.chunkBytes),
               ("members", ofList (Enc.all.map (fun e => obj [("name", Json.str e.name), ("value", ofStr e.value)])))])
  | _ => throw s!"unknown function C18.{fn}"

end VgiVerif.C18.Driver
