import VgiVerif.Prelude.JsonUtil
import VgiVerif.Driver.C25
import VgiVerif.Model.C27
/- JSON entry points of the C27 model: a call through a client view (merge headers → serve → capture). -/
namespace VgiVerif.C27.Driver
open Lean VgiVerif.J VgiVerif.Sticky VgiVerif.C25.Driver VgiVerif.C27

def viewOfJson (j : Json) : R (View DWire) := do
  let token ← match fieldOpt j "token" with
    | none => pure none
    | some v => do pure (some (← wireOfJson v))
  pure { token := token, closedFlag := (← boolF j "closedFlag") }

def viewToJson (v : View DWire) : Json :=
  obj [("token", ofOpt wireToJson v.token), ("closedFlag", ofBool v.closedFlag), ("exitDeletes", ofBool v.exitDeletes)]

def handle (fn : String) (a : Json) : R Json := do
  match fn with
  | "viewCall" =>
    let (net, nw) ← netOfJson (← field a "net")
    let wk ← natF a "wk"
    let v ← viewOfJson (← field a "view")
    let ident ← identOfJson (fieldOpt a "ident")
    let client ← natF a "client"
    let script ← (← arrF a "script").mapM actionOfJson
    let swallow ← boolF a "swallow"
    let (W, v', r) := viewCall codec (net.cfg wk) wk (net.world wk) v ident client script swallow
    let net' := net.put wk W
    pure (obj [("regs", ofList ((List.range nw).map fun i => regToJson (net'.regs i))), ("env", envToJson net'.env),
               ("mints", ofList (net'.mints.map mintToJson)), ("closed", ofList (net'.closedLog.map ofNat)),
               ("view", viewToJson v'), ("resp", respToJson r)])
  | "capture" =>
    let v ← viewOfJson (← field a "view")
    let session ← match fieldOpt a "session" with
      | none => pure none
      | some x => do pure (some (← wireOfJson x))
    let r : Resp DWire := ⟨.ok, session, ← boolF a "close", []⟩
    pure (viewToJson (capture v r))
  | "detach" =>
    let v ← viewOfJson (← field a "view")
    pure (viewToJson v.detach.1)
  | _ => throw s!"unknown function C27.{fn}"

end VgiVerif.C27.Driver
