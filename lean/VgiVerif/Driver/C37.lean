import VgiVerif.Prelude.JsonUtil
import VgiVerif.Prelude.Sha256
import VgiVerif.Prelude.PyBase64
import VgiVerif.Model.C37
namespace VgiVerif.C37.Driver
open Lean VgiVerif.J VgiVerif.C37 VgiVerif.UrlPy

/-! concrete environment of the cookie code: real HMAC-SHA256, CPython's base64 decoder, strict UTF-8 -/

def utf8dec (b : Bytes) : Option Str :=
  match String.fromUTF8? (ByteArray.mk b.toArray) with
  | some s => some s.toList
  | none => none

def cenv : CEnv where
  mac := Sha256.hmac
  b64enc := PyBase64.encode
  b64dec := PyBase64.decode
  utf8enc := fun s => (String.ofList s).toUTF8.toList
  utf8dec := utf8dec

def optStr (j : Option Json) : R (Option Str) :=
  match j with
  | none => pure none
  | some v => do pure (some (← str v))

def strList (j : Json) : R (List Str) := do (← arr j).mapM str

/-- the environment of `urlsplit`: the answers the harness obtained from the real functions — either one pair of
booleans (a single URL is parsed) or the lists of arguments for which the real function raised -/
def uenv (a : Json) : R Env := do
  let b := match fieldOpt a "bracketOk" with | some (.bool b) => b | _ => true
  let n := match fieldOpt a "nfkcOk" with | some (.bool b) => b | _ => true
  let bNo ← match fieldOpt a "bracketNo" with | some v => strList v | none => pure []
  let nNo ← match fieldOpt a "nfkcNo" with | some v => strList v | none => pure []
  pure ⟨fun s => b && !bNo.contains s, fun s => n && !nNo.contains s⟩

def escName : Esc → String
  | .valueError => "ValueError" | .keyError => "KeyError" | .structError => "struct.error" | .typeError => "TypeError"

def cookieErrName : CookieErr → String
  | .malformed => "malformed" | .tooShort => "too_short" | .signature => "signature" | .version => "version"
  | .expired => "expired" | .unicode => "unicode" | .structError => "struct.error"

def exceptStr : Except Esc Str → Json
  | .ok s => obj [("ok", ofStr s)]
  | .error e => obj [("esc", Json.str (escName e))]

def hostJson : UrlWhatwg.Host → Json
  | .domain s => obj [("domain", ofStr s)]
  | .ipv4 n => obj [("ipv4", ofNat n)]
  | .ipv6 p => obj [("ipv6", ofList (p.map ofNat))]

def baseOf (a : Json) : R UrlWhatwg.Url := do
  match fieldOpt a "base" with
  | none => pure ⟨"https".toList, [], [], .domain "svc.example".toList, none, [], none, none⟩
  | some b =>
    let scheme ← strF b "scheme"
    let host ← strF b "host"
    let port ← match fieldOpt b "port" with | none => pure none | some v => do pure (some (← nat v))
    let path ← strList (← field b "path")
    let query ← optStr (fieldOpt b "query")
    pure ⟨scheme, [], [], .domain host, port, path, query, none⟩

def whatwgJson (r : UrlWhatwg.Result) : Json :=
  match r with
  | .failure => obj [("r", Json.str "failure")]
  | .unsupported => obj [("r", Json.str "unsupported")]
  | .ok u =>
    let o := UrlWhatwg.originOf u
    obj [("r", Json.str "ok"), ("scheme", ofStr u.scheme), ("username", ofStr u.username), ("password", ofStr u.password),
      ("host", hostJson u.host), ("port", ofOpt ofNat u.port), ("path", ofList (u.path.map ofStr)),
      ("pathStr", ofStr (UrlWhatwg.pathString u)), ("query", ofOpt ofStr u.query), ("fragment", ofOpt ofStr u.fragment),
      ("origin", obj [("scheme", ofStr o.scheme), ("host", hostJson o.host), ("port", ofNat o.port)]),
      ("loopbackHttp", ofBool o.isLoopbackHttp)]

def cfgOf (a : Json) : R Cfg := do
  let c ← field a "cfg"
  pure ⟨← strF c "prefix", ← strList (← field c "allow"), ← strF c "clientId", ← optStr (fieldOpt c "clientSecret"),
    ← boolF c "useIdToken"⟩

def whyName : Why → String
  | .idpError => "idp_error" | .missingCodeOrState => "missing_code_or_state" | .missingCookie => "missing_cookie"
  | .badCookie e => "bad_cookie:" ++ cookieErrName e | .stateMismatch => "state_mismatch"
  | .discoveryFailed => "discovery_failed" | .exchangeFailed => "exchange_failed"

def outcomeJson : Outcome → Json
  | .badRequest w => obj [("status", ofNat 400), ("why", Json.str (whyName w))]
  | .badGateway w => obj [("status", ofNat 502), ("why", Json.str (whyName w))]
  | .serverError e => obj [("status", ofNat 500), ("why", Json.str (escName e))]
  | .redirectExternal l => obj [("status", ofNat 302), ("kind", Json.str "external"), ("location", ofStr l)]
  | .redirectOriginal l => obj [("status", ofNat 302), ("kind", Json.str "original"), ("location", ofStr l)]

def shapeName : Gen.Pkce.Shape → String
  | .pinned => "pinned" | .repaired => "repaired"

def handle (fn : String) (a : Json) : R Json := do
  match fn with
  | "shapes" =>
    pure (obj [("returnTo", Json.str (shapeName Gen.Pkce.returnToShape)),
               ("originalUrl", Json.str (shapeName Gen.Pkce.originalUrlShape))])
  | "envq" =>
    let q := envQuery (← strF a "u")
    pure (obj [("bracket", ofOpt ofStr q.bracket), ("nfkc", ofOpt ofStr q.nfkc)])
  | "split" =>
    let env ← uenv a
    match urlsplit env (← strF a "u") with
    | none => pure Json.null
    | some sp =>
      pure (obj [("scheme", ofStr sp.scheme), ("netloc", ofStr sp.netloc), ("path", ofStr sp.path),
        ("query", ofStr sp.query), ("fragment", ofStr sp.fragment),
        ("hostname", ofOpt ofStr (hostname sp.netloc)),
        ("port", match port sp.netloc with
          | none => Json.str "ValueError"
          | some none => Json.null
          | some (some p) => ofNat p)])
  | "whatwg" =>
    pure (whatwgJson (UrlWhatwg.parse (← baseOf a) (← strF a "u")))
  | "validateReturnTo" =>
    let env ← uenv a
    let u ← strF a "u"
    let allow ← strList (← field a "allow")
    match fieldOpt a "shape" with
    | some (.str "pinned") => pure (exceptStr (validateReturnToPinned env u allow))
    | some (.str "repaired") => pure (exceptStr (validateReturnToRepaired env u allow))
    | _ => pure (exceptStr (validateReturnTo env u allow))
  | "validateOriginalUrl" =>
    let env ← uenv a
    let u ← strF a "u"
    let p ← strF a "prefix"
    match fieldOpt a "shape" with
    | some (.str "pinned") => pure (exceptStr (validateOriginalUrlPinned env u p))
    | some (.str "repaired") => pure (exceptStr (validateOriginalUrlRepaired env u p))
    | _ => pure (exceptStr (validateOriginalUrl env u p))
  | "hasUnsafeChars" => pure (ofBool (hasUnsafeChars (← strF a "u")))
  | "quote" => pure (ofStr (pyQuote (← strF a "s")))
  | "sha256" => pure (ofBytes (Sha256.sha256 (← bytesF a "m")))
  | "hmac" => pure (ofBytes (Sha256.hmac (← bytesF a "k") (← bytesF a "m")))
  | "b64enc" => pure (ofStr (PyBase64.encode (← bytesF a "b")))
  | "b64dec" => pure (ofOpt ofBytes (PyBase64.decode (← strF a "s")))
  | "pack" =>
    let f : Fields := ⟨← strF a "cv", ← strF a "st", ← strF a "ou", ← strF a "rt"⟩
    pure (ofOpt ofStr (pack cenv (← bytesF a "key") (← natF a "t") f))
  | "unpack" =>
    match unpack cenv (← bytesF a "key") (← intF a "now") (← intF a "maxAge") (← strF a "cookie") with
    | .error e => pure (obj [("err", Json.str (cookieErrName e))])
    | .ok f => pure (obj [("ok", ofList [ofStr f.codeVerifier, ofStr f.stateNonce, ofStr f.originalUrl, ofStr f.returnTo])])
  | "callback" =>
    let env ← uenv a
    let cfg ← cfgOf a
    let r ← field a "req"
    let req : CbReq := ⟨← optStr (fieldOpt r "error"), ← optStr (fieldOpt r "code"), ← optStr (fieldOpt r "state"),
      ← optStr (fieldOpt r "cookie")⟩
    let discovery ← optStr (fieldOpt a "tokenEndpoint")
    let exchange ← match fieldOpt a "exchange" with
      | none => pure Exchange.failed
      | some e => do pure (Exchange.ok (← strF e "token") (← optStr (fieldOpt e "refresh")))
    pure (outcomeJson (callback env cenv cfg (← bytesF a "key") (← intF a "now") req discovery exchange))
  | "processRequest" =>
    let env ← uenv a
    let cfg ← cfgOf a
    match processRequest env cfg (← strF a "method") (← optStr (fieldOpt a "returnTo")) (← optStr (fieldOpt a "authCookie"))
        (← boolF a "jwtExpired") with
    | .error e => pure (obj [("esc", Json.str (escName e))])
    | .ok l => pure (obj [("location", ofOpt ofStr l)])
  | "processResponse" =>
    let env ← uenv a
    let cfg ← cfgOf a
    match processResponse env cfg (← strF a "method") (← boolF a "is401") (← boolF a "acceptsHtml") (← boolF a "discoveryOk")
        (← strF a "path") (← strF a "query") (← optStr (fieldOpt a "returnTo")) with
    | .error e => pure (obj [("esc", Json.str (escName e))])
    | .ok none => pure (obj [("minted", Json.null)])
    | .ok (some (ou, rt)) => pure (obj [("minted", ofList [ofStr ou, ofStr rt])])
  | "effectiveAllow" =>
    let configured ← match fieldOpt a "configured" with
      | none => pure none
      | some v => do pure (some (← strList v))
    pure (ofList ((effectiveAllow configured).map ofStr))
  | "logout" => pure (ofStr (logoutLocation (← cfgOf a)))
  | "redirectTarget" => pure (ofStr (redirectTarget (← strF a "u") (← strF a "params")))
  | _ => throw s!"unknown function C37.{fn}"

end VgiVerif.C37.Driver
