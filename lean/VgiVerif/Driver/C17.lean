import VgiVerif.Prelude.JsonUtil
import VgiVerif.Model.C17
import VgiVerif.Driver.C18
namespace VgiVerif.C17.Driver
open Lean VgiVerif.J VgiVerif.Codec VgiVerif.C17

def encList (j : Json) : R (List Enc) := do
  (← arr j).mapM (fun e => do
    let n ← rawStr e
    match Enc.ofName n with
    | some e => pure e
    | none => throw s!"unknown Encoding member {n}")

def resultJson (r : Result) : Json :=
  obj [("status", match r.outcome with | .status c => ofNat c | .toRpc _ => Json.null),
       ("rpc", match r.outcome with | .toRpc b => ofBytes b | .status _ => Json.null),
       ("materialised", ofNat r.materialised),
       ("reads", ofList (r.reads.map ofNat))]

def handle (fn : String) (a : Json) : R Json := do
  match fn with
  | "process" =>
    let cap ← C18.Driver.optNat a "cap"
    -- either the decode set itself, or the configuration it is wired from (runtime codecs, env switch, compression_level)
    let decode ← match fieldOpt a "decode" with
      | some v => encList v
      | none => do
        let runtime ← encList (← field a "runtime")
        let env ← match fieldOpt a "zstd_env" with | none => pure none | some v => do pure (some (← str v))
        let lvl ← C18.Driver.optInt a "level"
        pure (mkDecode runtime env lvl)
    let exempt ← (← arrF a "exempt").mapM str
    let verb ← strF a "verb"
    let path ← strF a "path"
    let cl ← C18.Driver.optNat a "cl"
    let wire ← bytesF a "wire"
    let ce ← match fieldOpt a "ce" with | none => pure none | some v => do pure (some (← str v))
    let zf ← match fieldOpt a "zstd" with | some v => C18.Driver.zdesc v | none => pure C18.Driver.ZDesc.none
    let gf ← match fieldOpt a "gzip" with | some v => C18.Driver.gdesc v | none => pure C18.Driver.GDesc.none
    pure (resultJson (process (C18.Driver.markerLibs zf.frame gf.frame) ⟨cap, decode, exempt⟩ ⟨verb, path, cl, wire, ce⟩))
  | "consts" =>
    pure (obj [("wire413", ofNat Gen.ReqBody.wireTooLargeStatus), ("decoded413", ofNat Gen.ReqBody.decodedTooLargeStatus),
               ("unknown415", ofNat Gen.ReqBody.unknownStatus), ("disabled415", ofNat Gen.ReqBody.disabledStatus),
               ("undecodable400", ofNat Gen.ReqBody.undecodableStatus)])
  | _ => throw s!"unknown function C17.{fn}"

end VgiVerif.C17.Driver
