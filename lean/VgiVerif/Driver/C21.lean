import VgiVerif.Prelude.JsonUtil
import VgiVerif.Model.C21
namespace VgiVerif.C21.Driver
open Lean VgiVerif.J VgiVerif.C21

def reasonOf (j : Json) : R Reason := do
  let v ← str j
  match Reason.ofValue? v with
  | some r => pure r
  | none => throw s!"not a reason value: {j.compress}"

/-- `null` = no attribute / None; `{"m": value}` = an AuthReason member; `{"s": str}` = a plain string; `{"o": …}` = other -/
def declaredOf (j : Option Json) : R Declared :=
  match j with
  | none => pure .absent
  | some v =>
    match fieldOpt v "m", fieldOpt v "s" with
    | some m, _ => do pure (.member (← reasonOf m))
    | none, some s => do pure (.text (← str s))
    | none, none => pure .other

def strList (j : Json) : R (List Str) := do (← arr j).mapM str

def excOf (j : Json) : R Exc := do
  let k ← rawStr (← field j "k")
  match k with
  | "af" => pure (.authFailure (← reasonOf (← field j "r")) (← strF j "d"))
  | "ve" => pure (.valueError (← declaredOf (fieldOpt j "decl")) (← strF j "s") (← strF j "t"))
  | "pe" => pure (.permissionError (← declaredOf (fieldOpt j "decl")) (← strF j "s"))
  | "un" => pure (.unavailable (← intF j "n") (← strF j "d"))
  | "other" => pure (.other (← strF j "t"))
  | _ => throw s!"unknown exception kind {k}"

def outcomeOf (j : Json) : R Outcome := do
  let k ← rawStr (← field j "k")
  if k = "ok" then pure .ok else do pure (.raise (← excOf j))

partial def authOf (j : Json) : R Auth := do
  let k ← rawStr (← field j "k")
  match k with
  | "leaf" => pure (.leaf (← natF j "id") (← strList (← field j "h")))
  | "chain" => do
    let ms ← (← arrF j "m").mapM authOf
    pure (.chain ms)
  | "gate" => pure (.gateOnly ⟨← natF j "id", ← strList (← field j "h")⟩)
  | "req" => do
    let inner ← authOf (← field j "inner")
    pure (.requireAll ⟨← natF j "id", ← strList (← field j "h")⟩ inner)
  | _ => throw s!"unknown authenticator kind {k}"

/-- `[[id, outcome], …]` → total function (unlisted ids succeed) -/
def tableOf (j : Json) : R (Nat → Outcome) := do
  let rows ← (← arr j).mapM fun row => do
    match (← arr row) with
    | [i, o] => pure ((← nat i), (← outcomeOf o))
    | _ => throw "expected [id, outcome]"
  pure fun i => match rows.find? (fun r => r.1 == i) with
    | some r => r.2
    | none => .ok

def srcJson : Src → Json
  | .leaf i => ofList [Json.str "leaf", ofNat i]
  | .gate i => ofList [Json.str "gate", ofNat i]

def bodyJson : Body → Json
  | .json e r d h => obj [("k", Json.str "json"), ("error", ofStr e), ("reason", ofStr r), ("detail", ofStr d),
      ("hint", ofOpt ofStr h)]
  | .html r d n => obj [("k", Json.str "html"), ("reason", ofStr r), ("detail", ofStr d), ("hint", ofOpt ofStr n)]

def responseJson : Response → Json
  | .pass => obj [("status", ofNat 200)]
  | .unauthorized u => obj [("status", ofNat 401),
      ("headers", ofList (u.headers.map fun h => ofList [ofStr h.1, ofStr h.2])),
      ("ctype", ofStr u.contentType), ("body", bodyJson u.body)]
  | .unavailable n d => obj [("status", ofNat 503), ("retry", ofInt n), ("desc", ofStr d)]
  | .serverError => obj [("status", ofNat 500)]

def outcomeJson : Outcome → Json
  | .ok => obj [("k", Json.str "ok")]
  | .raise e => obj [("k", Json.str "raise"), ("str", ofStr e.str), ("ty", ofStr e.tyName),
      ("classify", ofStr (classify e).value), ("ve", ofBool (e.isInstance "ValueError")),
      ("pe", ofBool (e.isInstance "PermissionError")),
      ("code", match e with
        | .authFailure r _ => ofStr r.value
        | _ => Json.null)]

def fieldOf (j : Option Json) : R Field :=
  match j with
  | none => pure .absent
  | some v =>
    match fieldOpt v "s", fieldOpt v "o" with
    | some s, _ => do pure (.str (← str s))
    | none, some o => do pure (.other (← str o))
    | none, none => throw "field needs s or o"

def loadsExcOf (n : String) : R LoadsExc :=
  match n with
  | "JSONDecodeError" => pure .jsonDecodeError
  | "UnicodeDecodeError" => pure .unicodeDecodeError
  | "ValueError" => pure .valueError
  | "RecursionError" => pure .recursionError
  | _ => throw s!"unmodelled json.loads exception {n}"

def loadsOf (j : Json) : R Loads := do
  let k ← rawStr (← field j "k")
  match k with
  | "raised" => do pure (.raised (← loadsExcOf (← rawStr (← field j "e"))))
  | "nondict" => pure .nonDict
  | "dict" => do pure (.dict (← fieldOf (fieldOpt j "reason")) (← fieldOf (fieldOpt j "detail")) (← fieldOf (fieldOpt j "hint")))
  | _ => throw s!"unknown loads kind {k}"

def parsedJson : Parsed → Json
  | .authErr r d h => obj [("k", Json.str "err"), ("reason", ofStr r.value), ("detail", ofStr d), ("hint", ofStr h)]
  | .escaped e => obj [("k", Json.str "escaped"), ("e", Json.str e.className)]

def handle (fn : String) (a : Json) : R Json := do
  match fn with
  | "respond" =>
    let auth ← match fieldOpt a "auth" with
      | none => pure none
      | some t => do pure (some (← authOf t))
    let cfg : Config := ⟨auth, ← strList (← field a "declared"), ← boolF a "proof"⟩
    let ρ : Env := ⟨← tableOf (← field a "leaf"), ← tableOf (← field a "gate")⟩
    let accept ← match fieldOpt a "accept" with
      | none => pure none
      | some s => do pure (some (← str s))
    let extra := match auth with
      | some t => [("consulted", ofList ((consulted ρ t).map srcJson)), ("wf", ofBool t.wf),
          ("proxy_headers", ofList ((proxyHeadersOf t).map ofStr)), ("outcome", outcomeJson (eval ρ t))]
      | none => []
    pure (obj [("resp", responseJson (respond cfg ρ accept)), ("hint", ofStr cfg.hint),
      ("names", ofList (cfg.headerNames.map ofStr))] |>.mergeObj (obj extra))
  | "combine" =>
    let codes ← (← arrF a "codes").mapM reasonOf
    pure (ofStr (combine codes).value)
  | "classify" =>
    let e ← excOf (← field a "exc")
    pure (obj [("reason", ofStr (classify e).value), ("chain_code", ofStr (chainCode e).value),
      ("caught", ofBool (e.caughtBy Gen.C21.chainCatches)), ("str", ofStr e.str), ("classes", ofList (e.classes.map Json.str))])
  | "hint" =>
    pure (ofStr (buildProxyHint (← strList (← field a "headers"))))
  | "dedup" =>
    pure (ofList ((dedup (← strList (← field a "headers"))).map ofStr))
  | "parse" =>
    let l ← loadsOf (← field a "loads")
    let text ← strF a "text"
    let E : ClientEnv := ⟨fun _ => l, fun _ => text⟩
    pure (parsedJson (parseUnauthorized E []))
  | "strip" =>
    pure (ofStr (strip (← strF a "s")))
  | "supers" =>
    pure (ofList ((supers (← rawStr (← field a "c"))).map Json.str))
  | "reasons" =>
    pure (ofList (Reason.all.map fun r => ofList [Json.str r.name, ofStr r.value]))
  | _ => throw s!"unknown function C21.{fn}"

end VgiVerif.C21.Driver
