import VgiVerif.Prelude.JsonUtil
import VgiVerif.Model.C32
namespace VgiVerif.C32.Driver
open Lean VgiVerif.J VgiVerif.C32 VgiVerif.Sched

def cmpName : Gen.Pool.Cmp → String
  | .lt => "Lt" | .le => "LtE" | .gt => "Gt" | .ge => "GtE" | .eq => "Eq" | .ne => "NotEq"

def sessOf : Nat → R Sess
  | 0 => pure .none | 1 => pure .open | 2 => pure .dirty | 3 => pure .drained
  | n => throw s!"bad session code {n}"

def sessCode : Sess → Nat
  | .none => 0 | .open => 1 | .dirty => 2 | .drained => 3

def opOf : String → R UseOp
  | "unary" => pure .unary | "openOk" => pure .openOk | "openFail" => pure .openFail | "step" => pure .step
  | "endOk" => pure .endOk | "endDirty" => pure .endDirty | "sendFail" => pure .sendFail | "interrupt" => pure .interrupt
  | s => throw s!"bad use op {s}"

/-- harness events → model labels -/
def labelOf (j : Json) : R Label := do
  match (← arr j) with
  | [k, a] =>
    match (← rawStr k) with
    | "tick" => pure (.tick (← int a))
    | "die" => pure (.die (← nat a))
    | "acq" => pure (.acq (← nat a))
    | "rel" => pure (.rel (← nat a))
    | "wr" => pure (.wrClosed (← nat a))
    | "spawnFail" => pure (.spawnFail (← nat a))
    | "refused" => pure (.refused (← nat a))
    | "raised" => pure (.raised (← nat a))
    | "done" => pure (.done (← nat a))
    | "intr" => pure (.intr (← nat a))
    | "closeCall" => pure (.closeCall (← nat a))
    | "closeDone" => pure (.closeDone (← nat a))
    | "obsCall" => pure (.obsCall (← nat a))
    | s => throw s!"bad event {s}/1"
  | [k, a, b] =>
    match (← rawStr k) with
    | "rd" => pure (.rdClosed (← nat a) (← bool b))
    | "clock" => pure (.clock (← nat a) (← int b))
    | "tclose" => pure (.tclose (← nat a) (← nat b))
    | "connect" => pure (.connect (← nat a) (← nat b))
    | "got" => pure (.got (← nat a) (← nat b))
    | "obsVal" => pure (.obsVal (← nat a) (← nat b))
    | s => throw s!"bad event {s}/2"
  | [k, a, b, c] =>
    match (← rawStr k) with
    | "spawn" => pure (.spawn (← nat a) (← nat b) (← nat c))
    | "poll" => pure (.poll (← nat a) (← nat b) (← bool c))
    | s => throw s!"bad event {s}/3"
  | [k, a, b, c, d] =>
    match (← rawStr k) with
    | "ret" => pure (.ret (← nat a) (← nat b) (← bool c) (← bool d))
    | s => throw s!"bad event {s}/4"
  | [k, a, b, c, d, e, f] =>
    match (← rawStr k) with
    | "use" =>
      pure (.use (← nat a) (← opOf (← rawStr b))
        { opened := ← bool c, leaked := ← bool d, sess := ← sessOf (← nat e), interrupted := ← bool f })
    | s => throw s!"bad event {s}/6"
  | _ => throw "bad event"

def cfgOf (a : Json) : R Cfg := do
  let m ← natF a "maxIdle"
  let t ← intF a "timeout"
  match fieldOpt a "legacy" with
  | some (.bool true) => pure (Cfg.legacy m t)
  | _ => pure (Cfg.ofGen m t)

def idleJson (i : Idle) : Json :=
  ofList (i.map fun kv => ofList [ofNat kv.1, ofList (kv.2.map fun e => ofList [ofNat e.1, ofInt e.2])])

def wsJson (s : St) : Json :=
  ofList ((List.range s.nextW).map fun w =>
    ofList [ofNat (s.ws w).key, ofBool (s.ws w).alive, ofBool (s.ws w).synced, ofBool (s.ws w).lastPoll])

/-- threads (among the first `n`) that are not back at `idle` -/
def busy (s : St) (n : Nat) : List Nat := (List.range n).filter fun t => decide (s.pc t ≠ .idle)

def handle (fn : String) (a : Json) : R Json := do
  match fn with
  | "gen" =>
    pure (obj [("evictCmp", Json.str (cmpName Gen.Pool.evictCmp)), ("reapCmp", Json.str (cmpName Gen.Pool.reapCmp)),
      ("olderCmp", Json.str (cmpName Gen.Pool.olderCmp)), ("zeroDiscards", ofBool Gen.Pool.zeroDiscards),
      ("ruleDrained", ofBool Gen.Pool.ruleDrained), ("trackLeak", ofBool Gen.Pool.trackLeak),
      ("trackInterrupt", ofBool Gen.Pool.trackInterrupt),
      ("shape", ofBool (Gen.Pool.shapeBorrow && Gen.Pool.shapeReturn && Gen.Pool.shapeEvict && Gen.Pool.shapeReap
        && Gen.Pool.shapeClose && Gen.Pool.shapeLocking && Gen.Pool.shapePooled && Gen.Pool.shapeClient)),
      ("fingerprint", Json.str Gen.Pool.fingerprint)])
  | "accepts" =>
    let c ← cfgOf a
    let ls ← (← arrF a "events").mapM labelOf
    let n ← natF a "threads"
    match (ts c).run ls with
    | some s =>
      pure (obj [("ok", ofBool true), ("idle", idleJson s.idle), ("active", ofInt s.active), ("closed", ofBool s.closed),
                 ("swept", ofBool s.swept), ("locked", ofBool s.lock.locked), ("nextW", ofNat s.nextW),
                 ("clock", ofInt s.clock), ("ws", wsJson s), ("busy", ofList ((busy s n).map ofNat))])
    | none => pure (obj [("ok", ofBool false), ("reject", ofOpt ofNat ((ts c).rejectIndex ls))])
  | _ => throw s!"unknown function C32.{fn}"

end VgiVerif.C32.Driver
