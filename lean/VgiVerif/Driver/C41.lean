import VgiVerif.Prelude.JsonUtil
import VgiVerif.Model.C41
import VgiVerif.Gen.C41
import VgiVerif.Driver.Engine
namespace VgiVerif.C41.Driver
open Lean VgiVerif.J VgiVerif.C41 VgiVerif.Sched VgiVerif.Engine

def kvList (j : Json) : R (List (Str × Str)) := do
  (← arr j).mapM fun p => do
    match (← arr p) with
    | [k, v] => pure (← str k, ← str v)
    | _ => throw "expected [key, value]"

/-- an observed event, in the format `Engine.Driver.evJson` writes -/
def evOf (j : Json) : R Ev := do
  match (← arr j) with
  | [k] =>
    match (← rawStr k) with
    | "end" => pure .fin
    | s => throw s!"bad event {s}/0"
  | [k, a] =>
    match (← rawStr k) with
    | "value" => pure (.value (← nat a))
    | "header" => pure (.header (← nat a))
    | s => throw s!"bad event {s}/1"
  | [k, a, b, c] =>
    match (← rawStr k) with
    | "log" => pure (.log ⟨← str a, ← str b, ← kvList c⟩)
    | "data" => pure (.data ⟨← nat a, ← nat b, ← kvList c⟩)
    | "error" => pure (.error (← str a) (← str b) (← match c with | .null => pure none | _ => do pure (some (← str c))))
    | s => throw s!"bad event {s}/3"
  | _ => throw "bad event"

def optNat (j : Json) (k : String) : R (Option Nat) :=
  match fieldOpt j k with
  | some v => do pure (some (← nat v))
  | none => pure none

def opOf (j : Json) : R Op := do
  match (← arr j) with
  | [k] =>
    match (← rawStr k) with
    | "tick" => pure .tick
    | "send" => pure .send
    | "close" => pure .close
    | s => throw s!"bad op {s}"
  | [k, a] =>
    match (← rawStr k) with
    | "unary" =>
      let ls ← Engine.Driver.logs a "logs"
      let out ← field a "out"
      let o : Except Exn Nat ← match fieldOpt out "ok", fieldOpt out "raise" with
        | some v, _ => do pure (.ok (← nat v))
        | _, some e => do pure (.error (← Engine.Driver.exn e))
        | _, _ => throw "bad out"
      pure (.unary ls o)
    | "crash" => pure (.crash (← (← arrF a "obs").mapM evOf))
    | "openP" => pure (.openP (← optNat a "hdr") (← Engine.Driver.logs a "init_logs") (← Engine.Driver.steps a))
    | "openX" => pure (.openX (← optNat a "hdr") (← Engine.Driver.logs a "init_logs") (← Engine.Driver.steps a))
    | s => throw s!"bad op {s}"
  | _ => throw "bad op"

def labelOf (j : Json) : R Label := do
  match (← arr j) with
  | [k, i] =>
    match (← rawStr k) with
    | "accept" => pure (← nat i, .accept)
    | "semAcq" => pure (← nat i, .semAcq)
    | "begin" => pure (← nat i, .begin)
    | "end" => pure (← nat i, .end_)
    | "semRel" => pure (← nat i, .semRel)
    | s => throw s!"bad label {s}"
  | [k, i, e] =>
    match (← rawStr k) with
    | "op" => pure (← nat i, .op (← (← arr e).mapM evOf))
    | s => throw s!"bad label {s}"
  | _ => throw "bad label"

def phaseName : Phase → String
  | .pending => "pending" | .accepted => "accepted" | .admitted => "admitted" | .serving => "serving"
  | .ended => "ended" | .released => "released"

def obsJson (o : List (List Ev)) : Json := ofList (o.map Engine.Driver.evs)

def progOf (ps : List (List Op)) : Tid → List Op := fun i => ps.getD i []

def shapeOk : Bool :=
  Gen.C41.handleProg == [.semAcq, .factory, .serve, .close, .semRel, .countDown] &&
  Gen.C41.acceptProg == [.accept, .countUp, .thread, .start] && Gen.C41.semaphoreFromMax && Gen.C41.callers &&
  Gen.C41.serveStoresNothingOnSelf && Gen.C41.connShmIsLocal

/-- what the model expects for the next operation of connection `i` (diagnostics for a rejected `op` label) -/
def expectedNext (c : Conn) : Json :=
  match c.script with
  | [] => Json.str "script finished"
  | o :: _ =>
    match opStep c.sess o with
    | some (e, _) => Engine.Driver.evs e
    | none => Json.str "ill-formed operation"

def handle (fn : String) (a : Json) : R Json := do
  match fn with
  | "gen" => pure (obj [("shape", ofBool shapeOk), ("fingerprint", Json.str Gen.C41.fingerprint)])
  | "solo" =>
    let p ← (← arrF a "prog").mapM opOf
    pure (obsJson (solo none p))
  | "accepts" =>
    let cap ← optNat a "cap"
    let ps ← (← arrF a "progs").mapM fun p => do (← arr p).mapM opOf
    let ls ← (← arrF a "events").mapM labelOf
    let sys := ts cap (progOf ps)
    let ids := List.range ps.length
    match sys.run ls with
    | some s =>
      pure (obj [("ok", ofBool true),
        ("obs", ofList (ids.map fun i => obsJson (s.comp i).obs)),
        ("left", ofList (ids.map fun i => ofNat (s.comp i).script.length)),
        ("phases", ofList (ids.map fun i => Json.str (phaseName (s.comp i).phase))),
        ("avail", ofOpt (fun (sm : Sem) => ofNat sm.avail) s.shared)])
    | none =>
      let idx := sys.rejectIndex ls
      let diag : Json := match idx with
        | some k =>
          match sys.run (ls.take k), ls[k]? with
          | some s, some (i, _) => obj [("phase", Json.str (phaseName (s.comp i).phase)), ("expected", expectedNext (s.comp i)),
                                         ("avail", ofOpt (fun (sm : Sem) => ofNat sm.avail) s.shared)]
          | _, _ => Json.null
        | none => Json.null
      pure (obj [("ok", ofBool false), ("reject", ofOpt ofNat idx), ("diag", diag)])
  | _ => throw s!"unknown function C41.{fn}"

end VgiVerif.C41.Driver
