import VgiVerif.Prelude.JsonUtil
import VgiVerif.Model.C31
/-
JSON entry points of the C31 model.  The origin script of the harness (per path: lists of response specs for HEAD /
GET / range requests by occurrence, per-range overrides, the stored object) is interpreted here into an
`Origin (List Req)` (state = request history); the uninterpreted `Env` parameters arrive as finite tables.
-/
namespace VgiVerif.C31.Driver
open Lean VgiVerif.J VgiVerif.C31

def faultOf (s : String) : R Fault :=
  match s with
  | "disconnected" => pure .disconnected
  | "reset" => pure .reset
  | "timeout" => pure .timeout
  | "other" => pure .other
  | _ => throw s!"unknown fault {s}"

def faultName : Fault → String
  | .disconnected => "disconnected" | .reset => "reset" | .timeout => "timeout" | .other => "other"

def optStr (j : Json) (k : String) : R (Option (List Char)) :=
  match fieldOpt j k with
  | none => pure none
  | some v => do pure (some (← str v))

inductive BodySpec where
  | fixed (b : Bytes)
  | object
  | slice (extra : Nat) (short : Nat)     -- slice of the object for the requested range, + filler / − tail

inductive CrSpec where
  | absent
  | fixed (s : List Char)
  | auto (total : List Char)              -- "bytes {s}-{e}/{total}"

structure RespSpec where
  fault : Option Fault
  status : Nat
  location : Option (List Char)
  cl : Option (List Char)
  ar : Option (List Char)
  ce : Option (List Char)
  cr : CrSpec
  body : BodySpec
  streamFault : Option Fault
  segSizes : List Nat

structure PathSpec where
  path : List Char
  object : Bytes
  head : List RespSpec
  get : List RespSpec
  range : List RespSpec
  rangeAt : List (Nat × RespSpec)

def parseSpec (j : Json) : R RespSpec := do
  match fieldOpt j "fault" with
  | some f =>
    pure ⟨some (← faultOf (← rawStr f)), 0, none, none, none, none, .absent, .object, none, []⟩
  | none =>
    let status ← natF j "status"
    let cr ← match fieldOpt j "cr" with
      | none => pure CrSpec.absent
      | some v =>
        match fieldOpt v "auto" with
        | some t => do pure (CrSpec.auto (← str t))
        | none => do pure (CrSpec.fixed (← str v))
    let body ← match fieldOpt j "body" with
      | none => pure (BodySpec.fixed [])
      | some b => do
        let k ← rawStr (← field b "k")
        match k with
        | "fixed" => pure (BodySpec.fixed (← bytesF b "hex"))
        | "object" => pure BodySpec.object
        | "slice" => pure (BodySpec.slice (← natF b "extra") (← natF b "short"))
        | _ => throw s!"unknown body kind {k}"
    let sf ← match fieldOpt j "streamFault" with
      | none => pure none
      | some f => do pure (some (← faultOf (← rawStr f)))
    let segs ← match fieldOpt j "segs" with
      | none => pure []
      | some v => do (← arr v).mapM nat
    pure ⟨none, status, ← optStr j "location", ← optStr j "cl", ← optStr j "ar", ← optStr j "ce", cr, body, sf, segs⟩

def parseSpecs (j : Json) (k : String) : R (List RespSpec) :=
  match fieldOpt j k with
  | none => pure []
  | some v => do (← arr v).mapM parseSpec

def parsePath (j : Json) : R PathSpec := do
  let ra ← match fieldOpt j "rangeAt" with
    | none => pure []
    | some v => do
      (← arr v).mapM fun e => do
        match (← arr e) with
        | [a, b] => pure ((← nat a), (← parseSpec b))
        | _ => throw "rangeAt entry"
  pure ⟨← strF j "path", ← bytesF j "object", ← parseSpecs j "head", ← parseSpecs j "get", ← parseSpecs j "range", ra⟩

/-- split `b` into segments of the given sizes (cyclic); no sizes = one segment -/
def segment (sizes : List Nat) (b : Bytes) : List Bytes :=
  let rec go (fuel : Nat) (sz : List Nat) (b : Bytes) : List Bytes :=
    match fuel with
    | 0 => [b]
    | fuel + 1 =>
      if b.isEmpty then []
      else match sz with
        | [] => go fuel sizes b
        | n :: r => if n = 0 then go fuel r b else b.take n :: go fuel r (b.drop n)
  if sizes.all (· == 0) then [b] else go (2 * b.length + 2 * sizes.length + 2) sizes b

def filler (n : Nat) : Bytes := List.replicate n (0xEE : UInt8)

def render (p : PathSpec) (sp : RespSpec) (rng : Option (Nat × Nat)) : Except Fault Resp :=
  match sp.fault with
  | some f => .error f
  | none =>
    let (s, e) := rng.getD (0, 0)
    let body : Bytes := match sp.body with
      | .fixed b => b
      | .object => p.object
      | .slice extra short =>
        let sl := (p.object.drop s).take (e + 1 - s)
        sl.take (sl.length - short) ++ filler extra
    let cr := match sp.cr with
      | .absent => none
      | .fixed t => some t
      | .auto total => some ("bytes ".toList ++ natToDec s ++ '-' :: natToDec e ++ '/' :: total)
    .ok { status := sp.status, location := sp.location, contentLength := sp.cl, acceptRanges := sp.ar,
          contentEncoding := sp.ce, contentRange := cr, segs := segment sp.segSizes body, streamFault := sp.streamFault }

def nth {α} (l : List α) (i : Nat) : Option α :=
  match l with
  | [] => none
  | _ => l[min i (l.length - 1)]?

structure Script where
  paths : List PathSpec
  dead : List (List Char)

def pathOf (u : Url) : Option (List Char × List Char) :=
  match urlsplit (fun _ => true) u with
  | .ok sp => some ((rpartitionC '@' sp.netloc).2.2, sp.path)
  | .error _ => none

def sameKind (a b : Req) : Bool :=
  a.method == b.method && a.range.isSome == b.range.isSome

def origin (sc : Script) : Origin (List Req) := fun hist req =>
  let hist' := hist ++ [req]
  match pathOf req.url with
  | none => (.error .other, hist')
  | some (hostport, path) =>
    if sc.dead.contains hostport then (.error .other, hist')
    else
      match sc.paths.find? (·.path == path) with
      | none => (.ok { status := 404 }, hist')
      | some p =>
        let n := (hist.filter fun r => sameKind r req && (pathOf r.url).map (·.2) == some path).length
        let spec : Option RespSpec :=
          match req.method, req.range with
          | .head, _ => nth p.head n
          | .get, none => nth p.get n
          | .get, some (s, _) =>
            match p.rangeAt.find? (·.1 == s) with
            | some (_, sp) => some sp
            | none => nth p.range n
        match spec with
        | none => (.ok { status := 404 }, hist')
        | some sp => (render p sp req.range, hist')

def methodName : Method → String
  | .head => "HEAD" | .get => "GET"

def errJson : Err → Json
  | .rejected => obj [("err", "rejected")]
  | .requestFailed m shown => obj [("err", "requestFailed"), ("method", Json.str (methodName m)), ("shown", ofStr shown)]
  | .fault f => obj [("err", "fault"), ("fault", Json.str (faultName f))]
  | .redirectLimit shown => obj [("err", "redirectLimit"), ("shown", ofStr shown)]
  | .noLocation shown => obj [("err", "noLocation"), ("shown", ofStr shown)]
  | .badTarget shown => obj [("err", "badTarget"), ("shown", ofStr shown)]
  | .targetParse => obj [("err", "targetParse")]
  | .httpStatus st shown => obj [("err", "httpStatus"), ("status", ofNat st), ("shown", ofStr shown)]
  | .declaredTooLarge => obj [("err", "declaredTooLarge")]
  | .bodyTooLarge => obj [("err", "bodyTooLarge")]
  | .rangeTooLarge => obj [("err", "rangeTooLarge")]
  | .rangeMismatch => obj [("err", "rangeMismatch")]
  | .not206 st shown => obj [("err", "not206"), ("status", ofNat st), ("shown", ofStr shown)]
  | .contentRangeMismatch shown => obj [("err", "contentRangeMismatch"), ("shown", ofStr shown)]
  | .reassembledTooLarge => obj [("err", "reassembledTooLarge")]
  | .decodeFailed shown => obj [("err", "decodeFailed"), ("shown", ofStr shown)]
  | .decodedTooLarge shown => obj [("err", "decodedTooLarge"), ("shown", ofStr shown)]
  | .unreachable => obj [("err", "unreachable")]
  | .schedule => obj [("err", "schedule")]

def valJson (v : Except Err Bytes) : Json :=
  match v with
  | .ok b => obj [("ok", ofBytes b)]
  | .error e => errJson e

def readJson (r : ReadRes) : Json := obj [("val", valJson r.val), ("bytes", ofNat r.bytes)]

def traceJson (t : Trace) : Json :=
  obj [("groups", ofList (t.groups.map fun g => obj [("urls", ofList (g.urls.map ofStr)), ("redirects", ofNat g.redirects)])),
       ("reads", ofList (t.reads.map fun r =>
          match r.kind with
          | .full => obj [("kind", "full"), ("bytes", ofNat r.bytes)]
          | .range e => obj [("kind", "range"), ("expected", ofNat e), ("bytes", ofNat r.bytes)]))]

def reqJson (r : Req) : Json :=
  obj [("method", Json.str (methodName r.method)), ("url", ofStr r.url),
       ("range", match r.range with | none => Json.null | some (s, e) => ofList [ofNat s, ofNat e])]

def parseCfg (j : Json) : R Cfg := do
  let md ← match fieldOpt j "maxDecompressed" with
    | none => pure none
    | some v => do pure (some (← nat v))
  pure { parallelThreshold := ← natF j "parallelThreshold", chunkSize := ← natF j "chunkSize", maxFetch := ← natF j "maxFetch",
         maxDecompressed := md, maxRedirects := ← natF j "maxRedirects" }

def strList (j : Json) (k : String) : R (List (List Char)) :=
  match fieldOpt j k with
  | none => pure []
  | some v => do (← arr v).mapM str

def natList (j : Json) (k : String) : R (List Nat) :=
  match fieldOpt j k with
  | none => pure []
  | some v => do (← arr v).mapM nat

def segsOf (j : Json) : R (List Bytes) := do (← arrF j "segs").mapM bytes

def optFault (j : Json) : R (Option Fault) :=
  match fieldOpt j "fault" with
  | none => pure none
  | some f => do pure (some (← faultOf (← rawStr f)))

def bracketFn (oks : List (List Char)) : List Char → Bool := fun h => oks.contains h

def handle (fn : String) (a : Json) : R Json := do
  match fn with
  | "redact" =>
    let url ← strF a "url"
    let oks ← strList a "bracketOk"
    pure (match redactE (bracketFn oks) url with
      | .ok s => obj [("ok", ofStr s)]
      | .error .invalid => obj [("err", "invalid")]
      | .error .unsupported => obj [("err", "unsupported")])
  | "schemeNetloc" =>
    let url ← strF a "url"
    let oks ← strList a "bracketOk"
    pure (match hasSchemeNetloc (bracketFn oks) url with
      | .ok b => obj [("ok", ofBool b)]
      | .error .invalid => obj [("err", "invalid")]
      | .error .unsupported => obj [("err", "unsupported")])
  | "computeRanges" =>
    let rs := computeRanges (← natF a "n") (← natF a "c")
    pure (ofList (rs.map fun (s, e) => ofList [ofNat s, ofNat e]))
  | "contentRange" => pure (ofOpt ofNat (parseContentRange (← strF a "s")))
  | "chunkRange" =>
    let total := match fieldOpt a "total" with | none => none | some v => v.getNat?.toOption
    pure (ofBool (contentRangeMismatch (← optStr a "s") (← natF a "start") (← natF a "stop") total))
  | "contentLength" => pure (ofOpt ofNat (parseContentLength (← strF a "s")))
  | "codecOf" => pure (ofOpt ofStr (codecOf (← strF a "s")))
  | "readBody" =>
    let cfg : Cfg := { maxFetch := ← natF a "maxFetch" }
    pure (readJson (readBody cfg { status := 200, segs := ← segsOf a, streamFault := ← optFault a }))
  | "readRange" =>
    let cfg : Cfg := { maxFetch := ← natF a "maxFetch" }
    pure (readJson (readRange cfg (← natF a "expected") { status := 206, segs := ← segsOf a, streamFault := ← optFault a }))
  | "fetch" =>
    let url ← strF a "url"
    let cfg ← parseCfg (← field a "cfg")
    let reject ← strList a "reject"
    let oks ← strList a "bracketOk"
    let dead ← strList a "dead"
    let presigned ← boolF a "presigned"
    let joins ← (← arrF a "joins").mapM fun e => do
      match (← arr e) with
      | [b, l, j] => pure ((← str b), (← str l), (← match j with | .null => pure none | v => do pure (some (← str v))))
      | _ => throw "join entry"
    let decs ← (← arrF a "decode").mapM fun e => do
      match (← arr e) with
      | [c, d, r] => pure ((← str c), (← bytes d), (← match r with | .null => pure none | v => do pure (some (← bytes v))))
      | _ => throw "decode entry"
    let paths ← (← arrF a "paths").mapM parsePath
    let sched1 ← natList a "sched1"
    let sched2 ← natList a "sched2"
    let joinFn : Url → List Char → Option Url := fun b l =>
      match joins.find? (fun t => t.1 == b && t.2.1 == l) with
      | some t => t.2.2
      | none => none
    let decFn : List Char → Bytes → Nat → Option Bytes := fun c d _ =>
      match decs.find? (fun t => t.1 == c && t.2.1 == d) with
      | some t => t.2.2
      | none => none
    let env : Env := {
      valid := fun u => !(reject.any fun sub => PyStr.contains sub u),
      join := joinFn, presigned := fun _ => presigned, decompress := decFn, bracketOk := bracketFn oks }
    let o := origin ⟨paths, dead⟩
    let run (sc1 sc2 : List Nat) : Json :=
      let r := fetchUrl env o cfg sc1 sc2 [] url
      obj [("val", valJson r.val), ("trace", traceJson r.tr), ("requests", ofList (r.st.map reqJson))]
    let r := fetchUrl env o cfg sched1 sched2 [] url
    -- a decode failure may be a miss in the codec table: which (codec, data) pairs does the decode step need?
    let missing : List (List Char × Bytes) :=
      match r.val with
      | .error (.decodeFailed _) =>
        let e1 := fetchEncoded env o cfg sched1 [] url
        let need1 := match e1.val with
          | .ok (d, ce) => (match codecOf ce with | some c => [(c, d)] | none => [])
          | .error _ => []
        let need2 := match e1.val with
          | .error e =>
            if retryable e then
              match (fetchEncoded env o cfg sched2 e1.st url).val with
              | .ok (d, ce) => (match codecOf ce with | some c => [(c, d)] | none => [])
              | .error _ => []
            else []
          | .ok _ => []
        (need1 ++ need2).filter fun (c, d) => (decs.find? (fun t => t.1 == c && t.2.1 == d)).isNone
      | _ => []
    if !missing.isEmpty then
      pure (obj [("need_decode", ofList (missing.map fun (c, d) => ofList [ofStr c, ofBytes d])), ("cap", ofNat (maxDecoded cfg))])
    else
      -- other completion orders of the chunk attempts (rotations of the schedule), asked for when the outcome is an error
      let nrot ← match fieldOpt a "rotations" with | none => pure 0 | some v => nat v
      let rots := match r.val with
        | .ok _ => []
        | .error _ => (List.range nrot).filterMap fun j =>
            if j = 0 then none else some (run (sched1.drop j ++ sched1.take j) (sched2.drop j ++ sched2.take j))
      pure (obj [("val", valJson r.val), ("trace", traceJson r.tr), ("requests", ofList (r.st.map reqJson)), ("rotations", ofList rots)])
  | _ => throw s!"unknown function C31.{fn}"

end VgiVerif.C31.Driver
