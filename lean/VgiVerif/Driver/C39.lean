import VgiVerif.Prelude.JsonUtil
import VgiVerif.Model.C39
import VgiVerif.Driver.C09
namespace VgiVerif.C39.Driver
open Lean VgiVerif.J VgiVerif.C39 VgiVerif.C39.Spec VgiVerif.Framing

/-
Driver instance of `Env`: a schema *is* its serialized bytes (`ser = id`), `read_schema` succeeds exactly on the blobs
the harness (pyarrow) says are readable, and "sha" is the identity rendered as hex — the harness applies
`hashlib.sha256` to the returned pre-image itself and compares with the real hash.
-/
def hexChars (b : Bytes) : List Char :=
  b.flatMap fun x => [hexDigit (x.toNat / 16), hexDigit (x.toNat % 16)]

def env (valid : List Bytes) : Env Bytes :=
  { ser := id, de := fun b => if valid.contains b then some b else none, shaHex := hexChars }

def optF {α} (f : Json → R α) (j : Json) (k : String) : R (Option α) :=
  match fieldOpt j k with
  | none => pure none
  | some v => do pure (some (← f v))

def kindOf (j : Json) : R Kind := do
  match (← rawStr j) with
  | "unary" => pure .unary
  | "stream" => pure .stream
  | s => throw s!"bad kind {s}"

def pairs (j : Json) : R (List (List Char × List Char)) := do
  (← arr j).mapM fun p => do
    match (← arr p) with
    | [a, b] => pure ((← str a), (← str b))
    | _ => throw "expected pair"

def method (j : Json) : R (Method Bytes) := do
  pure {
    name := ← strF j "name"
    kind := ← kindOf (← field j "kind")
    hasReturn := ← boolF j "has_return"
    params := ← bytesF j "params"
    result := ← bytesF j "result"
    header := ← optF bytes j "header"
    isExchange := ← optF bool j "is_exchange"
    doc := ← optF str j "doc"
    paramDefaults := (← optF pairs j "defaults").getD []
    paramTypes := (← optF pairs j "types").getD []
    paramDocs := (← optF pairs j "param_docs").getD [] }

def service (j : Json) : R (Service Bytes) := do
  pure {
    name := ← strF j "name"
    methods := ← (← arrF j "methods").mapM method
    serverId := ← strF j "server_id"
    protocolVersion := ← optF str j "protocol_version" }

def row (j : Json) : R Row := do
  pure {
    name := ← strF j "name"
    methodType := ← strF j "method_type"
    hasReturn := ← boolF j "has_return"
    params := ← bytesF j "params"
    result := ← bytesF j "result"
    hasHeader := ← boolF j "has_header"
    header := ← optF bytes j "header"
    isExchange := ← optF bool j "is_exchange" }

def rowJson (r : Row) : Json :=
  obj [("name", ofStr r.name), ("method_type", ofStr r.methodType), ("has_return", ofBool r.hasReturn),
       ("params", ofBytes r.params), ("result", ofBytes r.result), ("has_header", ofBool r.hasHeader),
       ("header", ofOpt ofBytes r.header), ("is_exchange", ofOpt ofBool r.isExchange)]

def mdJson (md : Metadata) : Json := ofList (md.map fun (k, v) => ofList [ofBytes k, ofBytes v])

def metadata (j : Json) : R Metadata := do
  (← arr j).mapM fun p => do
    match (← arr p) with
    | [a, b] => pure ((← bytes a), (← bytes b))
    | _ => throw "expected [key, value]"

def kindName : Kind → String
  | .unary => "unary"
  | .stream => "stream"

def viewJson (v : MethodView Bytes) : Json :=
  obj [("name", ofStr v.name), ("kind", Json.str (kindName v.kind)), ("has_return", ofBool v.hasReturn),
       ("params", ofBytes v.params), ("result", ofBytes v.result), ("has_header", ofBool v.hasHeader),
       ("header", ofOpt ofBytes v.header), ("is_exchange", ofOpt ofBool v.isExchange)]

def parseErrName : ParseErr → String
  | .undecodable => "undecodable" | .badMethodType => "bad_method_type" | .badSchema => "bad_schema"

def descJson (d : Description Bytes) : Json :=
  obj [("protocol_name", ofStr d.protocolName), ("request_version", ofStr d.requestVersion),
       ("describe_version", ofStr d.describeVersion), ("protocol_hash", ofStr d.protocolHash),
       ("server_id", ofStr d.serverId), ("protocol_version", ofStr d.protocolVersion),
       ("methods", ofList (d.methods.map fun (n, v) => ofList [ofStr n, viewJson v]))]

def validF (a : Json) : R (List Bytes) := do
  match fieldOpt a "valid" with
  | none => pure []
  | some v => (← arr v).mapM bytes

def handle (fn : String) (a : Json) : R Json := do
  match fn with
  | "build" =>
    -- build_describe_batch on a service: rows, metadata (hash value = hex of the pre-image), pre-image
    let svc ← service (← field a "svc")
    match buildDescribe (env []) svc with
    | .error .separatorInName => pure (obj [("ok", ofBool false), ("err", Json.str "separator_in_name")])
    | .ok (rs, md) =>
      pure (obj [("ok", ofBool true), ("rows", ofList (rs.map rowJson)), ("md", mdJson md),
                 ("preimage", ofBytes (servicePreimage (env []) svc))])
  | "hash" =>
    -- compute_protocol_hash on an arbitrary batch
    let name ← strF a "name"
    let rs ← (← arrF a "rows").mapM row
    match computeProtocolHash (env []) name rs with
    | .error .separatorInName => pure (obj [("ok", ofBool false), ("err", Json.str "separator_in_name")])
    | .ok _ => pure (obj [("ok", ofBool true), ("preimage", ofBytes (preimage name rs))])
  | "parse" =>
    let rs ← (← arrF a "rows").mapM row
    let md ← metadata (← field a "md")
    match parseDescribe (env (← validF a)) rs md with
    | .error e => pure (obj [("ok", ofBool false), ("err", Json.str (parseErrName e))])
    | .ok d => pure (obj [("ok", ofBool true), ("desc", descJson d)])
  | "describe" =>
    let svc ← service (← field a "svc")
    match describe (env (← validF a)) svc with
    | .error (.build _) => pure (obj [("ok", ofBool false), ("err", Json.str "separator_in_name")])
    | .error (.parse e) => pure (obj [("ok", ofBool false), ("err", Json.str (parseErrName e))])
    | .ok d => pure (obj [("ok", ofBool true), ("desc", descJson d)])
  | "wire_view" =>
    let svc ← service (← field a "svc")
    let (n, vs) := wireView svc
    pure (obj [("name", ofStr n), ("methods", ofList (vs.map viewJson))])
  | "encapsulated" =>
    pure (ofBool (isEncapsulated (← bytesF a "b")))
  | "utf8" =>
    pure (ofBytes (utf8 (← strF a "s")))
  | "le_name" =>
    pure (ofBool (leName (← strF a "a") (← strF a "b")))
  | "schema_touch" =>
    -- `_ArrowSchemaDescriptor.__get__` over a class forest and a touch sequence (extracted lookup mode)
    let parents ← (← arrF a "parents").mapM fun j => match j with
      | .null => pure none
      | v => do pure (some (← nat v))
    let touches ← (← arrF a "touches").mapM nat
    pure (ofList ((touchAll Gen.Describe.schemaCacheLookup parents [] touches).map ofNat))
  | "describe_gate" =>
    -- the version gate in front of `__describe__` at one extracted call site (C09 model)
    let siteName ← rawStr (← field a "site")
    let some site := Gen.Semver.gateSites.find? (·.name == siteName) | throw s!"unknown site {siteName}"
    let srv ← match fieldOpt a "srv" with
      | none => pure none
      | some v => do pure (some (← VgiVerif.C09.Driver.triple v))
    let md ← VgiVerif.C09.Driver.clientMd (fieldOpt a "md")
    pure (VgiVerif.C09.Driver.resultJson (describeGate site srv md))
  | _ => throw s!"unknown function C39.{fn}"

end VgiVerif.C39.Driver
