import VgiVerif.Prelude.JsonUtil
import VgiVerif.Model.C36
/-
Line-protocol entry points of the C36 model.
`C36.post`: {cfg:{allow:[str…], limiter:bool}, caller:{authenticated, principal}, req:{content_length, raw_len, parsed},
             outcome: what the resolver does with any token, enabled: is a resolver configured}
-/
namespace VgiVerif.C36.Driver
open Lean VgiVerif.J VgiVerif.C36 VgiVerif.Introspect

def tag (j : Json) : R (String × List Json) := do
  match (← arr j) with
  | t :: rest => pure ((← rawStr t), rest)
  | [] => throw "empty tagged value"

def intOfText (j : Json) : R Int := do
  let s ← rawStr j
  match s.toInt? with
  | some n => pure n
  | none => throw s!"bad int {s}"

def floatClass (s : String) : R FloatClass :=
  match s with
  | "nan" => pure .nan | "posInf" => pure .posInf | "negInf" => pure .negInf
  | "neg" => pure .neg | "zero" => pure .zero | "pos" => pure .pos
  | _ => throw s!"bad float class {s}"

def floatClassName : FloatClass → String
  | .nan => "nan" | .posInf => "posInf" | .negInf => "negInf" | .neg => "neg" | .zero => "zero" | .pos => "pos"

def ttlOf (j : Json) : R Ttl := do
  match (← tag j) with
  | ("int", [n]) => pure (.int (← intOfText n))
  | ("float", [c, t]) => pure (.float (← floatClass (← rawStr c)) (← str t))
  | ("bool", [b]) => pure (.bool (← bool b))
  | ("other", [t]) => pure (.other (← str t))
  | (t, _) => throw s!"bad ttl {t}"

def ttlJson : Ttl → Json
  | .int n => ofList [Json.str "int", Json.str (toString n)]
  | .float c t => ofList [Json.str "float", Json.str (floatClassName c), ofStr t]
  | .bool b => ofList [Json.str "bool", ofBool b]
  | .other t => ofList [Json.str "other", ofStr t]

def outcomeOf (j : Json) : R Outcome := do
  match (← tag j) with
  | ("identity", [p, n, t]) => pure (.identity ⟨← str p, ← str n, ← ttlOf t⟩)
  | ("none", []) => pure .none
  | ("unavailable", [d, ra]) => pure (.unavailable (← str d) (← intOfText ra))
  | ("raises", []) => pure .raises
  | (t, _) => throw s!"bad outcome {t}"

def parsedOf (j : Json) : R Parsed := do
  match (← tag j) with
  | ("invalid", []) => pure .invalid
  | ("not_object", []) => pure .notObject
  | ("object", [t]) => do
    match (← tag t) with
    | ("missing", []) => pure (.object .missing)
    | ("not_str", []) => pure (.object .notStr)
    | ("unencodable", [n]) => pure (.object (.unencodable (← nat n)))
    | ("str", [s]) => pure (.object (.str (← str s)))
    | (x, _) => throw s!"bad token field {x}"
  | (t, _) => throw s!"bad parsed {t}"

def bodyJson : Body → Json
  | .error c => ofList [Json.str "error", Json.str c]
  | .identity i => ofList [Json.str "identity", ofStr i.principal, ofStr i.tokenName, ttlJson i.ttl]
  | .falcon d => ofList [Json.str "falcon", ofOpt ofStr d]

def retryJson : Option RetryAfter → Json
  | none => Json.null
  | some (.lit s) => ofList [Json.str "lit", Json.str s]
  | some (.secs n) => ofList [Json.str "secs", Json.str (toString n)]

def handle (fn : String) (a : Json) : R Json := do
  match fn with
  | "jws" => pure (ofBool (jwsShaped (← strF a "s")))
  | "post" => do
    let cj ← field a "cfg"
    -- "allow" is the list as *configured* (`introspect_principals`); the resource holds `_normalise_principals` of it
    let configured ← (← arrF cj "allow").mapM str
    let enabled0 ← boolF a "enabled"
    let some allow := (if enabled0 then configure configured else some configured)
      | return obj [("construct_error", ofBool true)]
    let cfg : Cfg := ⟨allow, ← boolF cj "limiter"⟩
    let kj ← field a "caller"
    let caller : Caller := ⟨← boolF kj "authenticated", ← strF kj "principal"⟩
    let rj ← field a "req"
    let cl ← match fieldOpt rj "content_length" with
      | none => pure none
      | some v => do pure (some (← nat v))
    let rq : Req := ⟨cl, ← natF rj "raw_len", ← parsedOf (← field rj "parsed")⟩
    let enabled ← boolF a "enabled"
    let out ← outcomeOf (← field a "outcome")
    let resolver : Option Resolver := if enabled then some (fun _ => out) else none
    let (r, t) := endpoint resolver cfg caller rq
    pure (obj [("status", ofNat r.status), ("body", bodyJson r.body), ("no_store", ofBool r.noStore),
      ("retry_after", retryJson r.retryAfter), ("body_read", ofBool t.bodyRead), ("resolver_calls", ofNat t.resolverCalls)])
  | "serve_seq" => do
    -- one resource instance, a fresh limiter, a history of requests: {allow, per_window, events:[{now, caller, req, outcome}]}
    let configured ← (← arrF a "allow").mapM str
    let some allow := configure configured | return obj [("construct_error", ofBool true)]
    let perWindow ← natF a "per_window"
    let evs ← (← arrF a "events").mapM fun ej => do
      let kj ← field ej "caller"
      let caller : Caller := ⟨← boolF kj "authenticated", ← strF kj "principal"⟩
      let rj ← field ej "req"
      let cl ← match fieldOpt rj "content_length" with
        | none => pure none
        | some v => do pure (some (← nat v))
      let rq : Req := ⟨cl, ← natF rj "raw_len", ← parsedOf (← field rj "parsed")⟩
      let out ← outcomeOf (← field ej "outcome")
      pure (⟨← intF ej "now", caller, rq, fun _ => out⟩ : Event)
    let rs := serveAll allow perWindow LimState.fresh evs
    pure (ofList (rs.map fun (r, t) =>
      obj [("status", ofNat r.status), ("body", bodyJson r.body), ("no_store", ofBool r.noStore),
        ("retry_after", retryJson r.retryAfter), ("body_read", ofBool t.bodyRead), ("resolver_calls", ofNat t.resolverCalls)]))
  | "configure" => do
    let configured ← (← arrF a "allow").mapM str
    pure (match configure configured with
      | none => Json.null
      | some l => ofList (l.map ofStr))
  | "constants" =>
    pure (obj [("max_body", ofNat Gen.C36.maxBodyBytes), ("max_token", ofNat Gen.C36.maxTokenChars),
      ("success_keys", ofList (Gen.C36.successKeys.map Json.str)), ("fingerprint", Json.str Gen.C36.sourceFingerprint),
      ("window_ticks", ofInt Gen.C36.limiterWindowTicks)])
  | _ => throw s!"unknown function C36.{fn}"

end VgiVerif.C36.Driver
