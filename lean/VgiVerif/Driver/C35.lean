import VgiVerif.Prelude.JsonUtil
import VgiVerif.Model.C35
/-
Line-protocol entry points of the C35 model.
Claim trees travel as  ["n"] | ["b",bool] | ["i","<num text>"] | ["s",[code points]] | ["l",[tree…]] | ["o",[[key code points, tree]…]]
(objects as ordered pair lists: key order and non-ASCII keys survive the trip).
-/
namespace VgiVerif.C35.Driver
open Lean VgiVerif.J VgiVerif.C35
open VgiVerif.ClaimTree (JList JObj)

mutual
partial def parseTree (j : Json) : R ClaimTree.Json := do
  match (← arr j) with
  | [Json.str "n"] => pure (.atom .null)
  | [Json.str "b", b] => pure (.atom (.bool (← bool b)))
  | [Json.str "i", t] => pure (.atom (.num (← str t)))
  | [Json.str "s", s] => pure (.atom (.str (← str s)))
  | [Json.str "l", xs] => do pure (.arr (← parseList (← arr xs)))
  | [Json.str "o", kvs] => do pure (.obj (← parseObj (← arr kvs)))
  | _ => throw s!"bad tree node {j.compress}"
partial def parseList : List Json → R JList
  | [] => pure .nil
  | x :: xs => do pure (.cons (← parseTree x) (← parseList xs))
partial def parseObj : List Json → R JObj
  | [] => pure .nil
  | kv :: rest => do
    match (← arr kv) with
    | [k, v] => pure (.cons (← str k) (← parseTree v) (← parseObj rest))
    | _ => throw "bad object entry"
end

mutual
partial def treeJson : ClaimTree.Json → Json
  | .atom .null => ofList [Json.str "n"]
  | .atom (.bool b) => ofList [Json.str "b", ofBool b]
  | .atom (.num t) => ofList [Json.str "i", ofStr t]
  | .atom (.str s) => ofList [Json.str "s", ofStr s]
  | .arr xs => ofList [Json.str "l", ofList (listJson xs)]
  | .obj kvs => ofList [Json.str "o", ofList (objJson kvs)]
partial def listJson : JList → List Json
  | .nil => []
  | .cons h t => treeJson h :: listJson t
partial def objJson : JObj → List Json
  | .nil => []
  | .cons k v t => ofList [ofStr k, treeJson v] :: objJson t
end

def topObj (j : Json) : R JObj := do
  match (← parseTree j) with
  | .obj kvs => pure kvs
  | _ => throw "claims must be an object"

def handle (fn : String) (a : Json) : R Json := do
  match fn with
  | "sensitive" => pure (ofBool (sensitive (← strF a "k")))
  | "redact" => do
    let c ← topObj (← field a "claims")
    pure (treeJson (.obj (redactClaims c)))
  | "logged" => do
    -- redactor: "default" | "raises" | "identity"
    let c ← topObj (← field a "claims")
    let which ← rawStr (← field a "redactor")
    let r : Redactor ← match which with
      | "default" => pure defaultRedactor
      | "raises" => pure (fun _ => .error ())
      | "identity" => pure (fun c => .ok c)
      | "empty" => pure (fun _ => .ok .nil)
      | _ => throw s!"unknown redactor {which}"
    pure (match logged r c with
      | none => Json.null
      | some x => treeJson (.obj x))
  | "equiv" => do
    -- the case-insensitive classes of every alternative, for the exhaustive table check
    pure (ofList (Gen.C35.alts.map fun al => obj [
      ("text", ofStr al.text), ("start", ofBool al.startAnchored), ("end", ofBool al.endAnchored),
      ("lit", ofList (al.lit.map fun cl => ofList (cl.map ofNat)))]))
  | _ => throw s!"unknown function C35.{fn}"

end VgiVerif.C35.Driver
