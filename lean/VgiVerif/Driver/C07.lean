import VgiVerif.Prelude.JsonUtil
import VgiVerif.Driver.C08
import VgiVerif.Model.C07
namespace VgiVerif.C07.Driver
open Lean VgiVerif.J VgiVerif.Engine VgiVerif.LogWire VgiVerif.C07

def site (s : String) : R Site :=
  match s with
  | "unary" => pure .unary | "init" => pure .init | "producer_first" => pure .producerFirst
  | "producer_cont" => pure .producerCont | "exchange" => pure .exchange
  | _ => throw s!"bad site {s}"

def kindAttr (j : Option Lean.Json) : R KindAttr :=
  match j with
  | none => pure .absent
  | some (.str "other") => pure .other
  | some v => do pure (.str (← str (← field v "str")))

def op (j : Lean.Json) : R Op := do
  match (← arr j) with
  | [.str "log", l] => do pure (.log (← VgiVerif.Engine.Driver.log l))
  | [.str "emit", b] => do pure (.emit (← VgiVerif.Engine.Driver.batch b))
  | [.str "finish"] => pure .finish
  | [.str "raise", e] => do pure (.raise (← VgiVerif.Engine.Driver.exn e))
  | _ => throw "bad op"

def itemJson : Item → Lean.Json
  | .log l => VgiVerif.Engine.Driver.evJson (.log l)
  | .data b => VgiVerif.Engine.Driver.evJson (.data b)
  | .err e => VgiVerif.Engine.Driver.evJson (errEv e)
  | .token p => ofList [Json.str "token", ofNat p]

def handle (fn : String) (a : Lean.Json) : R Lean.Json := do
  match fn with
  | "opstep" =>
    -- one process() call given as an ordered op list: what the server writes, whether the call failed
    let ops ← (← arrF a "ops").mapM op
    let (items, failed) := stepWrites (← boolF a "producer") ops
    pure (obj [("items", ofList (items.map itemJson)), ("failed", ofBool failed)])
  | "roundtrip" =>
    -- the exception as from_exception sees it: class name, str(exc), getattr(exc, "error_kind", None)
    let e : PyExn := ⟨← strF a "cls", ← strF a "text", ← kindAttr (fieldOpt a "kind")⟩
    let tb : TbInfo := ⟨← strF a "traceback",
      ← (match fieldOpt a "cause" with | none => pure none | some c => do pure (some (← str c))),
      ← (match fieldOpt a "context" with | none => pure none | some c => do pure (some (← str c))), .arr []⟩
    let sid ← match fieldOpt a "sid" with | none => pure none | some s => do pure (some (← str s))
    let rid ← match fieldOpt a "rid" with | none => pure [] | some s => str s
    pure (VgiVerif.C08.Driver.outcomeJson (roundTrip e tb sid rid))
  | "http" =>
    let s ← site (← rawStr (← field a "site"))
    let r := serveHttp s (← boolF a "raised")
    pure (obj [("status", ofNat r.status), ("marker", ofBool r.marker),
               ("header", Json.str VgiVerif.Gen.LogWire.markerHeader), ("value", Json.str VgiVerif.Gen.LogWire.markerValue)])
  | "unary_body" =>
    let c := unaryBody (← boolF a "raised") (← boolF a "over_cap")
    pure (Json.str (match c with | .result => "result" | .implError => "impl_error" | .capError => "cap_error"))
  | "set_http_status" =>
    let r := setHttpStatus (← natF a "code")
    pure (obj [("status", ofNat r.status), ("marker", ofBool r.marker)])
  | _ => throw s!"unknown function C07.{fn}"

end VgiVerif.C07.Driver
