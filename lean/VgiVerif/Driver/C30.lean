import VgiVerif.Prelude.JsonUtil
import VgiVerif.Driver.Engine
import VgiVerif.Model.C30
import VgiVerif.Model.C30Http
namespace VgiVerif.C30.Driver
open Lean VgiVerif.J VgiVerif.Engine VgiVerif.C30

def optStr (j : Json) (k : String) : R (Option Str) :=
  match fieldOpt j k with
  | some v => do pure (some (← str v))
  | none => pure none

def metaOf (j : Json) : R Meta := do
  pure { location := ← optStr j "location", sha := ← optStr j "sha", level := ← optStr j "level",
         message := ← optStr j "message", excType := ← optStr j "exc_type", kind := ← optStr j "kind",
         extra := ← (match fieldOpt j "extra" with | some e => Engine.Driver.kv e | none => pure []),
         app := ← (match fieldOpt j "app" with | some e => Engine.Driver.kv e | none => pure []) }

def wbatch (j : Json) : R WBatch := do
  let cm ← match fieldOpt j "cm" with
    | some m => do pure (some (← metaOf m))
    | none => pure none
  pure ⟨← natF j "rows", cm, ← natF j "content"⟩

def parsed (j : Json) : R Parsed :=
  match j with
  | .str "bad" => pure .bad
  | .str "other" => pure .other
  | _ => do
    let bs ← (← arrF j "batches").mapM wbatch
    let tail ← match ← field j "tail" with
      | .str "clean" => pure Tail.clean
      | .str "invalid" => pure Tail.invalid
      | .str "other" => pure Tail.other
      | _ => throw "bad tail"
    pure (.stream (← natF j "schema") bs tail)

def fetched (j : Json) : R Fetched :=
  match j with
  | .str "failed" => pure .failed
  | .str "undecodable" => pure .undecodable
  | _ => do pure (.got (← strF j "sha") (← parsed (← field j "parsed")))

def kvJson (l : List (Str × Str)) : Json := ofList (l.map fun (k, v) => ofList [ofStr k, ofStr v])

def rejectJson : Reject → Json
  | .fetchFailed => ofList [Json.str "fetchFailed"]
  | .decodeFailed => ofList [Json.str "decodeFailed"]
  | .shaMismatch => ofList [Json.str "shaMismatch"]
  | .arrowInvalid => ofList [Json.str "arrowInvalid"]
  | .loop => ofList [Json.str "loop"]
  | .rpcError e => ofList [Json.str "rpcError", Engine.Driver.evJson e]
  | .badLevel => ofList [Json.str "badLevel"]
  | .noData => ofList [Json.str "noData"]
  | .multiple n => ofList [Json.str "multiple", ofNat n]
  | .schemaMismatch => ofList [Json.str "schemaMismatch"]
  | .readError => ofList [Json.str "readError"]
  | .exhausted => ofList [Json.str "exhausted"]

def wbatchJson (b : WBatch) : Json :=
  obj [("rows", ofNat b.rows), ("content", ofNat b.content),
       ("app", match b.cm with | some m => kvJson m.app | none => kvJson [])]

def resultJson : Except Reject (List Log × WBatch) → Json
  | .ok (logs, d) => obj [("ok", obj [("logs", Engine.Driver.evs (logs.map .log)), ("data", wbatchJson d)])]
  | .error e => obj [("error", rejectJson e)]

def cfg (j : Json) : R Cfg := do
  let comp ← match fieldOpt j "compression" with
    | some c => do pure (some (← nat c))
    | none => pure none
  pure ⟨← boolF j "storage", ← natF j "threshold", comp⟩

/-- fault sequence: attempt k sees `l[k]` (the last entry from then on; nothing stored = a failed fetch) -/
def seqOf (l : List Fetched) : Nat → Fetched := fun k =>
  match l[k]? with
  | some f => f
  | none => l.getLast?.getD .failed

def sizeOf (tbl : List (Nat × Nat)) (b : Batch) : Nat :=
  match tbl.find? (·.1 == b.id) with
  | some (_, n) => n
  | none => 8 * b.rows

def handle (fn : String) (a : Json) : R Json := do
  match fn with
  | "classify" =>
    let b ← wbatch a
    pure (obj [("pointer", ofBool (isPointer b)), ("has_location", ofBool (hasLocation b)),
               ("cls", match classify b with
                 | .data => Json.str "data"
                 | .log l => Engine.Driver.evJson (.log l)
                 | .exc e => Engine.Driver.evJson e
                 | .badLevel => Json.str "badLevel")])
  | "resolve" =>
    let es ← natF a "exp_schema"
    let sh ← optStr a "exp_sha"
    let mr ← intF a "max_retries"
    let fs ← (← arrF a "attempts").mapM fetched
    pure (resultJson (resolve es sh mr (seqOf fs)))
  | "decide" =>
    let c ← cfg (← field a "cfg")
    let rows ← natF a "rows"
    let size ← natF a "size"
    pure (obj [("batch", ofBool (wantsBatch c rows size)), ("collector", ofBool (wantsCollector c true size))])
  | "stream" =>
    -- a whole producer / exchange session through the toy environment: the server externalises cycle by cycle, then the
    -- client reads with the resolver of the final store; optionally the k-th uploaded object is overridden by what the
    -- harness saw in the (corrupted) real store
    let c ← cfg (← field a "cfg")
    let exchange ← boolF a "exchange"
    let il ← Engine.Driver.logs a "init_logs"
    let st ← Engine.Driver.steps a
    let schema ← natF a "schema"
    let mr ← intF a "max_retries"
    let tbl ← match fieldOpt a "sizes" with
      | some j => do (← arr j).mapM fun p => do
          let xs ← arr p
          match xs with
          | [x, y] => do pure (← nat x, ← nat y)
          | _ => throw "bad size pair"
      | none => pure []
    let r := serveAll Toy.env Toy.storage c (sizeOf tbl) schema exchange ([] : List (Obj Toy.TB)) st
    let base : Resolver := resolverAt Toy.env Toy.storage r.1 mr
    let R : Resolver ← match fieldOpt a "override" with
      | none => pure base
      | some o => do
        let k ← natF o "index"
        let fs ← (← arrF o "attempts").mapM fetched
        -- a digest written "==" stands for "equal to the digest on the pointer" (the toy digest is not SHA-256)
        let fix (p : Ptr) : Fetched → Fetched
          | .got sha parsed => .got (if sha = "==".toList then p.sha.getD [] else sha) parsed
          | f => f
        pure (fun p => if p.url = Toy.url (k + 1) then
            (match resolve p.schema p.sha mr (seqOf (fs.map (fix p))) with
             | .ok (logs, d) => .ok (logs, decodeData d)
             | .error e => .error e)
          else base p)
    let carry := (logItems il).map WItem.plain
    let events := if exchange then C30.Pipe.exchangeAll R carry r.2 else C30.Pipe.iterate R carry r.2
    let inline := if exchange then Engine.Pipe.exchangeAll (logItems il) st else Engine.Pipe.iterate (logItems il) st
    let routes := r.2.map fun o => match o with
      | .cont [.ptr _] => true
      | .done [.ptr _] => true
      | _ => false
    -- the same wire read by the HTTP client (break after every batch; the observation is independent of the breaks)
    let httpEvents := if exchange then Sem.lg il ++ C30.Http.exchangeAllX R r.2
      else C30.Http.iterateX R (fun _ => true) il r.2
    pure (obj [("events", Engine.Driver.evs events), ("inline", Engine.Driver.evs inline),
               ("http_obs", Engine.Driver.obsJson (obs httpEvents)),
               ("uploads", ofNat r.1.length), ("routes", ofList (routes.map ofBool)),
               ("obs", Engine.Driver.obsJson (obs events)), ("obs_inline", Engine.Driver.obsJson (obs inline))])
  | _ => throw s!"unknown function C30.{fn}"

end VgiVerif.C30.Driver
