import VgiVerif.Prelude.JsonUtil
import VgiVerif.Prelude.PyValJson
import VgiVerif.Model.C03
import VgiVerif.Spec.C03
/-
C03 driver.  Annotation JSON:
  {"k":"str"|"bytes"|"int"|"float"|"bool"} · {"k":"intw","w":"int32"} · {"k":"f32"} · {"k":"enum","members":[[name,value|null]…]}
  {"k":"opt"|"list"|"set","a":A} · {"k":"map","key":A,"val":A} · {"k":"dc"|"dcbin","name":…,"fields":[F…]} · {"k":"schema"|"batch"}
  F = {"name":…, "transient":bool, "default":V (absent = no default), "a":A}
-/
namespace VgiVerif.C03.Driver
open Lean VgiVerif.J VgiVerif.Py VgiVerif.Py.Json VgiVerif.C03

mutual
partial def toAnn (j : Json) : J.R Ann := do
  let k ← rawStr (← field j "k")
  match k with
  | "str" => pure (.scalar .str) | "bytes" => pure (.scalar .bytes) | "int" => pure (.scalar .int)
  | "float" => pure (.scalar .float) | "bool" => pure (.scalar .bool)
  | "intw" => pure (.intW (← intWOf (← rawStr (← field j "w"))))
  | "f32" => pure .float32
  | "enum" =>
    let ms ← (← arrF j "members").mapM (fun m => do
      match (← arr m) with
      | [n, v] => pure ((← str n), (← match v with | .null => pure Option.none | x => do pure (some (← str x))))
      | _ => throw "bad enum member")
    pure (.enum ms)
  | "opt" => pure (.opt (← toAnn (← field j "a")))
  | "list" => pure (.list (← toAnn (← field j "a")))
  | "set" => pure (.set (← toAnn (← field j "a")))
  | "map" => pure (.map (← toAnn (← field j "key")) (← toAnn (← field j "val")))
  | "dc" => pure (.dc (← strF j "name") (← toFields (← arrF j "fields")))
  | "dcbin" => pure (.dcBin (← strF j "name") (← toFields (← arrF j "fields")))
  | "schema" => pure .schema
  | "batch" => pure .batch
  | _ => throw s!"bad annotation kind {k}"
partial def toFields (l : List Json) : J.R Fields := do
  match l with
  | [] => pure .nil
  | f :: rest =>
    let d ← match fld f "default" with
      | some x => do pure (some (← toV x))
      | Option.none => pure Option.none
    pure (.cons (← strF f "name") (← boolF f "transient") d (← toAnn (← field f "a")) (← toFields rest))
end

def clsOf (j : Json) : J.R (List Char × Fields) := do
  pure ((← strF j "name"), (← toFields (← arrF j "fields")))

def objFields (j : Json) : J.R (List (List Char × V)) := do
  match (← toV j) with
  | .obj _ fs => pure fs
  | _ => throw "expected an object value"

def ofOptV : Option V → Json
  | some v => ofV v
  | Option.none => Json.str "none"

def infoOf (j : Json) : J.R StateInfo := do
  match fld j "union" with
  | some u =>
    let cs ← (← arr u).mapM (fun c => do let (n, fs) ← clsOf c; pure (⟨n, fs⟩ : StateCls))
    pure (.union cs)
  | Option.none =>
    let (n, fs) ← clsOf (← field j "single")
    pure (.single ⟨n, fs⟩)

def env : Env := concreteEnv

def handle (fn : String) (a : Json) : J.R Json := do
  match fn with
  | "round32" => pure (ofNat (round32 (← natF a "bits")))
  | "schema" =>
    let (_, fs) ← clsOf (← field a "cls")
    pure (Json.str (atyText (.struct (inferF fs))))
  | "torow" =>
    let (_, fs) ← clsOf (← field a "cls")
    let o ← objFields (← field a "obj")
    pure (ofR ((toRow env fs o).map .dict))
  | "roundtrip" =>
    -- Arrow bytes path: cls.deserialize_from_bytes(obj.serialize_to_bytes())
    let (n, fs) ← clsOf (← field a "cls")
    let o ← objFields (← field a "obj")
    pure (obj [("ser", ofR (serBytes env fs o)), ("rt", ofR (roundtripBytes env n fs o)),
               ("norm", ofV (.obj n (normF env fs o))), ("inhabits", ofBool (inhabitsF env fs o)),
               ("supported", ofBool (supportedF fs)), ("exact", ofBool (exactF fs))])
  | "frombytes" =>
    let (n, fs) ← clsOf (← field a "cls")
    pure (ofR (fromBytes env n fs (← toV (← field a "data"))))
  | "compact" =>
    let (n, fs) ← clsOf (← field a "cls")
    let o ← objFields (← field a "obj")
    let have_ ← boolF a "msgpack"
    let plan := compactPlan have_ fs
    let enc := serializeCompact env have_ fs o
    let dec : Json := match enc with
      | .ok (some b) => ofR (deserializeCompact env have_ n fs b)
      | _ => Json.null
    pure (obj [("plan", ofBool plan.isSome),
               ("enc", match enc with | .ok x => obj [("ok", ofOptV x)] | .error e => obj [("err", Json.str (errName e))]),
               ("dec", dec)])
  | "compactdec" =>
    let (n, fs) ← clsOf (← field a "cls")
    pure (ofR (deserializeCompact env (← boolF a "msgpack") n fs (← toV (← field a "data"))))
  | "state" =>
    let (n, fs) ← clsOf (← field a "cls")
    let o ← objFields (← field a "obj")
    let have_ ← boolF a "msgpack"
    let info ← infoOf (← field a "info")
    let enc := serializeState env have_ info n fs o
    let dec : Json := match enc with
      | .ok b => ofR (deserializeState env have_ info b)
      | _ => Json.null
    pure (obj [("enc", ofR enc), ("dec", dec)])
  | "statedec" =>
    let info ← infoOf (← field a "info")
    pure (ofR (deserializeState env (← boolF a "msgpack") info (← toV (← field a "data"))))
  | _ => throw s!"unknown function C03.{fn}"

end VgiVerif.C03.Driver
