import VgiVerif.Prelude.JsonUtil
import VgiVerif.Model.C04
namespace VgiVerif.C04.Driver
open Lean VgiVerif.J VgiVerif.C04

def actOf (s : String) : R Act :=
  match s with
  | "emit" => pure .emit | "finish" => pure .finish | "emit_finish" => pure .emitFinish
  | "raise" => pure .raise | "nothing" => pure .nothing
  | _ => throw s!"bad act {s}"

def initOf (s : String) : R Init :=
  match s with
  | "ok" => pure .ok | "raises" => pure .raises | "nonstream" => pure .nonStream | "noheader" => pure .noHeader
  | _ => throw s!"bad init {s}"

def stepOf (j : Json) : R StepB := do
  pure ⟨← natF j "pre", ← actOf (← rawStr (← field j "act")), ← natF j "post"⟩

def methodOf (j : Json) : R Method := do
  match (← rawStr (← field j "kind")) with
  | "unary" => pure (.unary (← natF j "logs") (← boolF j "raises"))
  | "stream" =>
    pure (.stream (← boolF j "exchange") (← boolF j "header") (← natF j "initLogs")
      (← initOf (← rawStr (← field j "init"))) (← (← arrF j "steps").mapM stepOf))
  | k => throw s!"bad method kind {k}"

def polOf (j : Option Json) : R (Nat → Bool) :=
  match j with
  | none => pure fun _ => false
  | some p => do
    match (← arr p) with
    | [.str "none"] => pure fun _ => false
    | [.str "once", k] => do let k ← nat k; pure fun n => n == k
    | [.str "from", k] => do let k ← nat k; pure fun n => k ≤ n
    | _ => throw "bad pol"

def reqOf (j : Json) : R Request := do
  pure ⟨← natF j "method", ← boolF j "versionOk", ← boolF j "paramsOk",
        ← match fieldOpt j "clientRejects" with | some v => bool v | none => pure false,
        ← match fieldOpt j "resultDecodes" with | some v => bool v | none => pure true⟩

def sopOf (s : String) : R SOp :=
  match s with
  | "tick" => pure .tick | "send" => pure .send | "close" => pure .close | "cancel" => pure .cancel
  | _ => throw s!"bad op {s}"

def callOf (j : Json) : R Call := do
  let pol ← polOf (fieldOpt j "pol")
  let r ← reqOf (← field j "req")
  match (← rawStr (← field j "kind")) with
  | "unary" => pure (.unary pol r)
  | "stream" =>
    pure (.stream pol r (← boolF j "hdr") (← (← arrF j "ops").mapM fun o => do sopOf (← rawStr o)))
  | k => throw s!"bad call kind {k}"

def shapeOf (j : Option Json) : R Gen.C04.Shape :=
  match j with
  | none => pure Gen.C04.shape
  | some s => do
    let g (k : String) (d : Bool) : R Bool := match fieldOpt s k with | some v => bool v | none => pure d
    let d := Gen.C04.shape
    pure { drainVersion := ← g "drainVersion" d.drainVersion, drainParams := ← g "drainParams" d.drainParams,
           drainInit := ← g "drainInit" d.drainInit, drainUnknown := ← g "drainUnknown" d.drainUnknown,
           initChecks := ← g "initChecks" d.initChecks, cliDrainOverErr := ← g "cliDrainOverErr" d.cliDrainOverErr,
           cliDrainSurvivesCb := ← g "cliDrainSurvivesCb" d.cliDrainSurvivesCb,
           unaryDrainOnCb := ← g "unaryDrainOnCb" d.unaryDrainOnCb, hdrDrainOnCb := ← g "hdrDrainOnCb" d.hdrDrainOnCb,
           hdrAbortCloses := ← g "hdrAbortCloses" d.hdrAbortCloses,
           emptyRequestReplies := ← g "emptyRequestReplies" d.emptyRequestReplies,
           initErrorFlushesLogs := ← g "initErrorFlushesLogs" d.initErrorFlushesLogs,
           failFlushesLogs := ← g "failFlushesLogs" d.failFlushesLogs,
           unaryDrainBeforeDecode := ← g "unaryDrainBeforeDecode" d.unaryDrainBeforeDecode,
           requestBuiltBeforeStream := ← g "requestBuiltBeforeStream" d.requestBuiltBeforeStream }

def resName : Res → String
  | .none => "none" | .value => "value" | .error => "error" | .data => "data" | .fin => "end" | .raised => "raised"
  | .refused => "refused" | .closed => "closed" | .cancelled => "cancelled" | .opened => "opened"
  | .noSession => "nosession" | .transport => "transport"

def pcName : SrvPc → String
  | .boundary => "boundary" | .reqOpen => "reqOpen" | .reqDrain _ => "reqDrain" | .reqBad => "reqBad"
  | .refOpen => "refOpen" | .refDrain => "refDrain" | .inOpen _ _ _ _ => "inOpen" | .loop _ _ _ => "loop"
  | .finDrain => "finDrain" | .dead => "dead"

/-- batches per complete IPC stream, in order; the flag says the frame list is a sequence of whole streams -/
def streams {α : Type} : List (Fr α) → Option Nat → List Nat × Bool
  | [], none => ([], true)
  | [], some _ => ([], false)
  | .op :: r, none => streams r (some 0)
  | .op :: _, some _ => ([], false)
  | .it _ :: r, some n => streams r (some (n + 1))
  | .it _ :: _, none => ([], false)
  | .eos :: r, some n => let (l, ok) := streams r none; (n :: l, ok)
  | .eos :: _, none => ([], false)

def streamsJson {α : Type} (fs : List (Fr α)) : Json :=
  let (l, ok) := streams fs none
  obj [("streams", ofList (l.map ofNat)), ("whole", ofBool ok)]

def outJson (o : OpOut) : Json :=
  obj [("res", Json.str (resName o.res)), ("settled", ofBool o.settled), ("blocked", ofBool o.blocked)]

def handle (fn : String) (a : Json) : R Json := do
  match fn with
  | "run" =>
    let sh ← shapeOf (fieldOpt a "shape")
    let svc : Svc := ⟨← (← arrF (← field a "svc") "methods").mapM methodOf⟩
    let hist ← (← arrF a "hist").mapM callOf
    -- run call by call so the state after every call is visible
    let rec go (cs : List Call) (st : St) (acc : List Json) : List Json × St :=
      match cs with
      | [] => (acc.reverse, st)
      | c :: cs =>
        let (st', o) := runCall sh svc c st
        let j := obj [("outs", ofList (o.outs.map outJson)), ("c2s", streamsJson o.wc), ("s2c", streamsJson o.ws),
                      ("synced", ofBool (st' == St.init)), ("srv", Json.str (pcName st'.srv)),
                      ("unread_c2s", ofNat st'.c2s.length), ("unread_s2c", ofNat st'.s2c.length)]
        go cs st' (j :: acc)
    let (js, st) := go hist St.init []
    pure (obj [("calls", ofList js), ("synced", ofBool (st == St.init))])
  | "shape" =>
    let d := Gen.C04.shape
    pure (obj [("drainVersion", ofBool d.drainVersion), ("drainParams", ofBool d.drainParams), ("drainInit", ofBool d.drainInit),
               ("drainUnknown", ofBool d.drainUnknown), ("initChecks", ofBool d.initChecks),
               ("cliDrainOverErr", ofBool d.cliDrainOverErr), ("cliDrainSurvivesCb", ofBool d.cliDrainSurvivesCb),
               ("unaryDrainOnCb", ofBool d.unaryDrainOnCb), ("hdrDrainOnCb", ofBool d.hdrDrainOnCb),
               ("hdrAbortCloses", ofBool d.hdrAbortCloses), ("emptyRequestReplies", ofBool d.emptyRequestReplies),
               ("structural", obj (Gen.C04.structural.map fun (k, v) => (k, ofBool v)))])
  | _ => throw s!"unknown function C04.{fn}"

end VgiVerif.C04.Driver
