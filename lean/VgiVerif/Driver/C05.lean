import VgiVerif.Prelude.JsonUtil
import VgiVerif.Model.C05
namespace VgiVerif.C05.Driver
open Lean VgiVerif.J VgiVerif.C05 VgiVerif.Gen.C05

def excOf (s : String) : R Exc :=
  match Gen.C05.all.find? (fun e => Gen.C05.name e == s) with
  | some e => pure e
  | none => throw s!"unknown exception class {s}"

def stepOf (j : Json) : R Step :=
  match j with
  | .str "ok" => pure .ok
  | .str "blocks" => pure .blocks
  | _ => do pure (.raises (← excOf (← rawStr (← field j "raises"))))

def mdOf (s : String) : R MdVal :=
  match s with
  | "absent" => pure .absent | "text" => pure .text | "undecodable" => pure .undecodable
  | _ => throw s!"bad md {s}"

def reqOf (a : Json) : R Req := do
  let st (k : String) : R Step := do stepOf (← field a k)
  let version ← match (← rawStr (← field a "version")) with
    | "absent" => pure VersionMd.absent | "current" => pure .current | "other" => pure .other
    | s => throw s!"bad version {s}"
  let size ← match (← rawStr (← field a "shmSize")) with
    | "absent" => pure SizeMd.absent | "numeric" => pure .numeric | "bad" => pure .bad
    | s => throw s!"bad size {s}"
  pure {
    openStream := ← st "openStream", firstRead := ← st "firstRead", laterReads := ← (← arrF a "laterReads").mapM stepOf,
    hasMethod := ← boolF a "hasMethod", methodText := ← boolF a "methodText", version := version,
    traceparent := ← mdOf (← rawStr (← field a "traceparent")), tracestate := ← mdOf (← rawStr (← field a "tracestate")),
    shmName := ← mdOf (← rawStr (← field a "shmName")), shmSize := size, isPointer := ← boolF a "isPointer",
    staticShm := ← boolF a "staticShm", shmOpen := ← st "shmOpen", allocInit := ← st "allocInit", resolve := ← st "resolve", deser := ← st "deser", release := ← st "release",
    ncols := ← natF a "ncols", rows := ← natF a "rows", asPy := ← st "asPy",
    isTransportOptions := ← boolF a "isTransportOptions",
    streamNoHeader := (match fieldOpt a "streamNoHeader" with | some (.bool b) => b | _ => false),
    peerWaits := (match fieldOpt a "peerWaits" with | some (.bool b) => b | _ => false), methodKnown := ← boolF a "methodKnown",
    versionCheck := ← st "versionCheck", validate := ← st "validate", call := ← st "call" }

def outcomeName : Outcome → String
  | .replyContinue => "replyContinue" | .replyStop => "replyStop" | .silentStop => "silentStop" | .hang => "hang"

def replyName : Reply → String
  | .none => "none" | .protocolError => "protocolError" | .versionError => "versionError" | .arrowInvalid => "arrowInvalid"
  | .unknownMethod => "unknownMethod" | .protocolVersion => "protocolVersion" | .badParams => "badParams"
  | .methodError => "methodError" | .value => "value" | .transportOptions => "transportOptions"

def servedJson (s : Served) : Json :=
  obj [("outcome", Json.str (outcomeName s.outcome)), ("reply", Json.str (replyName s.reply)), ("consumed", ofBool s.consumed)]

def lst (l : List Exc) : Json := ofList (l.map fun e => Json.str (Gen.C05.name e))

def handle (fn : String) (a : Json) : R Json := do
  match fn with
  | "serve" => pure (servedJson (serveOne Tables.gen (← reqOf a)))
  | "serveMany" => do
    let rs ← (← arrF a "reqs").mapM reqOf
    pure (ofList ((serveMany Tables.gen rs).map servedJson))
  | "tables" =>
    pure (obj [("serveLoop", ofList (Gen.C05.serveLoop.map lst)),
               ("readRequestTry", ofList (Gen.C05.readRequestTry.map fun (c, r) => ofList [lst c, ofBool r])),
               ("attachGuard", lst Gen.C05.attachGuard), ("attachConvert", lst Gen.C05.attachConvert), ("resolveConvert", lst Gen.C05.resolveConvert), ("pointerGuard", lst Gen.C05.pointerGuard),
               ("asPyGuard", lst Gen.C05.asPyGuard), ("traceDecode", lst Gen.C05.traceDecode),
               ("firstRead", lst Gen.C05.firstRead), ("drainSkips", lst Gen.C05.drainSkips)])
  | _ => throw s!"unknown function C05.{fn}"

end VgiVerif.C05.Driver
