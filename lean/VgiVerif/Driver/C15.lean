import VgiVerif.Prelude.JsonUtil
import VgiVerif.Model.C15
import VgiVerif.Spec.C15
namespace VgiVerif.C15.Driver
open Lean VgiVerif.J VgiVerif.HttpReq VgiVerif.C15

def route : String → R Route
  | "unary" => pure .unary | "init" => pure .init | "exchange" => pure .exchange | "uploadUrl" => pure .uploadUrl
  | s => throw s!"route {s}"

def kind : String → R MethodKind
  | "unary" => pure .unary | "producer" => pure .producer | "exchanger" => pure .exchanger | "unknown" => pure .unknown | "describe" => pure .describe
  | s => throw s!"kind {s}"

def parseExc : String → R ParseExc
  | "arrowInvalid" => pure .arrowInvalid | "osError" => pure .osError | "arrowNotImplemented" => pure .arrowNotImplemented
  | "arrowKeyError" => pure .arrowKeyError | "arrowTypeError" => pure .arrowTypeError | "arrowOther" => pure .arrowOther
  | "ipcError" => pure .ipcError | "ipcErrorLate" => pure .ipcErrorLate | "unicodeDecode" => pure .unicodeDecode | "stopIteration" => pure .stopIteration
  | s => throw s!"parse exception class {s}"

def deserExc : String → R DeserExc
  | "keyError" => pure .keyError | "valueError" => pure .valueError | "overflowError" => pure .overflowError
  | "typeError" => pure .typeError | "arrowInvalid" => pure .arrowInvalid | "ipcError" => pure .ipcError | "other" => pure .other
  | "osError" => pure .osError | "stopIteration" => pure .stopIteration
  | s => throw s!"deserialisation exception class {s}"

def metaDefect : String → R MetaDefect
  | "noMethodKey" => pure .noMethodKey | "badMethodUtf8" => pure .badMethodUtf8 | "noVersionKey" => pure .noVersionKey
  | "badVersion" => pure .badVersion | "methodMismatch" => pure .methodMismatch | "protocolVersion" => pure .protocolVersion
  | s => throw s!"metadata defect {s}"

/-- body: "valid" | "cancel" | "parseFail:<exc>" | "badMeta:<defect>" | "badParams:mismatch" | "badParams:badNames" -/
def body (s : String) : R Body :=
  match s.splitOn ":" with
  | ["valid"] => pure .valid
  | ["badParams", "mismatch"] => pure (.badParams .mismatch)
  | ["badParams", "badNames"] => pure (.badParams .badNames)
  | ["cancel"] => pure .cancel
  | ["parseFail", e] => do pure (.parseFail (← parseExc e))
  | ["badMeta", m] => do pure (.badMeta (← metaDefect m))
  | ["badValue", e] => do pure (.badValue (← deserExc e))
  | _ => throw s!"body {s}"

def ctype : String → R CType
  | "correct" => pure .correct | "wrong" => pure .wrong | "missing" => pure .missing | "wrongExtends" => pure .wrongExtends
  | s => throw s!"ctype {s}"

def cenc : String → R CEnc
  | "none" => pure .none | "supported" => pure .supported | "unsupported" => pure .unsupported
  | "corrupt" => pure .corrupt | "bomb" => pure .bomb
  | "atCap:gzip" => pure (.atCap .gzip) | "atCap:zstdSized" => pure (.atCap .zstdSized) | "atCap:zstdStream" => pure (.atCap .zstdStream)
  | s => throw s!"cenc {s}"

def size : String → R Size
  | "within" => pure .within | "oversize" => pure .oversize | "atCap" => pure .atCap
  | s => throw s!"size {s}"

def auth : String → R Auth
  | "ok" => pure .ok | "rejected" => pure .rejected
  | s => throw s!"auth {s}"

def token : String → R Token
  | "valid" => pure .valid | "tampered" => pure .tampered | "missing" => pure .missing
  | s => throw s!"token {s}"

def beh : String → R Behaviour
  | "ok" => pure .ok | "raises" => pure .raises | "turnRaises" => pure .turnRaises | "overshoot" => pure .overshoot
  | s => throw s!"behaviour {s}"

def req (a : Json) : R Req := do
  let f (k : String) : R String := do rawStr (← field a k)
  pure ⟨← route (← f "route"), ← kind (← f "kind"), ← body (← f "body"), ← ctype (← f "ctype"), ← cenc (← f "cenc"),
        ← size (← f "size"), ← auth (← f "auth"), ← token (← f "token"), ← beh (← f "beh")⟩

def defectName : Spec.Defect → String
  | .oversize => "oversize" | .badEncoding => "badEncoding" | .undecodable => "undecodable"
  | .authFailure => "authFailure" | .wrongContentType => "wrongContentType" | .unknownMethod => "unknownMethod"
  | .routeMismatch => "routeMismatch" | .malformed => "malformed" | .badToken => "badToken"

def handle (fn : String) (a : Json) : R Json := do
  match fn with
  | "respond" =>
    let rq ← req a
    let r := respond rq
    pure (obj [("status", ofNat r.status), ("marker", ofBool r.marker), ("arrow", ofBool r.arrow),
               ("dispatched", ofBool r.dispatched)])
  | "spec" =>
    let rq ← req a
    pure (obj [("status", ofNat (Spec.specStatus rq)),
               ("defects", ofList ((Spec.defects rq).map (fun d => Json.str (defectName d)))),
               ("allowed", ofList ((Spec.defects rq).map (fun d => ofNat (Spec.statusOf d)))),
               ("dispatched", ofBool (Spec.dispatched rq)), ("failed", ofBool (Spec.failed rq))])
  | "shape" =>
    pure (obj [("readWrapsBatchValidation", ofBool VgiVerif.Gen.HttpStatus.tables.readWrapsBatchValidation),
               ("readWrapsKwargs", ofBool VgiVerif.Gen.HttpStatus.tables.readWrapsKwargs),
               ("readWrapsEmptyStream", ofBool VgiVerif.Gen.HttpStatus.tables.readWrapsEmptyStream)])
  | _ => throw s!"unknown function C15.{fn}"

end VgiVerif.C15.Driver
