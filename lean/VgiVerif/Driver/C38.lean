import VgiVerif.Prelude.JsonUtil
import VgiVerif.Model.C38
namespace VgiVerif.C38.Driver
open Lean VgiVerif.J VgiVerif.C38 VgiVerif.PyFloat

/-- rational: `[numerator, denominator]` (exact; Python sends `float.as_integer_ratio()`) -/
def rat (j : Json) : R Rat := do
  match (← arr j) with
  | [n, d] =>
    let n ← int n
    let d ← nat d
    if d = 0 then throw "zero denominator" else pure ((n : Rat) / (d : Rat))
  | _ => throw "expected [num, den]"

def ofRat (q : Rat) : Json := ofList [ofInt q.num, ofNat q.den]

/-- float: "nan" | "inf" | "-inf" | [num, den] -/
def flt (j : Json) : R F :=
  match j with
  | .str "nan" => pure .nan
  | .str "inf" => pure .posInf
  | .str "-inf" => pure .negInf
  | _ => do pure (.fin (← rat j))

def ofF : F → Json
  | .nan => Json.str "nan"
  | .posInf => Json.str "inf"
  | .negInf => Json.str "-inf"
  | .fin q => ofRat q

def cfg (j : Json) : R Cfg := do
  pure {
    maxRetries := (← intF j "max_retries")
    backoffBase := (← flt (← field j "backoff_base"))
    backoffMax := (← flt (← field j "backoff_max"))
    retryable := (← (← arrF j "retryable").mapM nat)
    retryOnConn := (← boolF j "retry_on_conn")
    respectRA := (← boolF j "respect_ra") }

def cfgOpt (j : Json) (k : String) : R (Option Cfg) :=
  match fieldOpt j k with
  | none => pure none
  | some v => do pure (some (← cfg v))

def ra (j : Option Json) : R RA :=
  match j with
  | none => pure .absent
  | some (.str "naive") => pure .dateNaive
  | some (.str "garbage") => pure .garbage
  | some v =>
    match fieldOpt v "secs", fieldOpt v "date" with
    | some x, _ => do pure (.secs (← flt x))
    | _, some d => do pure (.date (← rat d))
    | _, _ => throw s!"bad retry-after {v.compress}"

def fault (j : Json) : R Fault :=
  match j with
  | .str "connect" => pure .connectErr
  | .str "timeout" => pure .timeout
  | .str "disconnect" => pure .disconnect
  | .str "other" => pure .otherProto
  | v => do pure (.status (← natF v "status") (← ra (fieldOpt v "ra")))

def ofRA : RA → Json
  | .absent => Json.null
  | .secs x => obj [("secs", ofF x)]
  | .date d => obj [("date", ofRat d)]
  | .dateNaive => Json.str "naive"
  | .garbage => Json.str "garbage"

def ofFault : Fault → Json
  | .connectErr => Json.str "connect"
  | .timeout => Json.str "timeout"
  | .disconnect => Json.str "disconnect"
  | .otherProto => Json.str "other"
  | .status c r => obj [("status", ofNat c), ("ra", ofRA r)]

def excName : ExcKind → String
  | .connectErr => "connect" | .timeout => "timeout" | .disconnect => "disconnect"
  | .otherProto => "other" | .overflow => "overflow"

def ofOutcome : Outcome → Json
  | .resp c => obj [("resp", ofNat c)]
  | .transient c r => obj [("transient", ofNat c), ("retry_after", ofOpt ofF r)]
  | .raised k => obj [("raised", Json.str (excName k))]

def ofStep (s : Step) : Json := obj [("f", ofFault s.fault), ("slept", ofOpt ofF s.slept)]

def ofEnding : Ending → Json
  | .completed l => obj [("completed", ofOpt ofNat l)]
  | .failed o => obj [("failed", ofOutcome o)]
  | .externalizeFailed => Json.str "externalize_failed"
  | .swallowed => Json.str "swallowed"

/-- the jitter stream: the given fractions, cyclically (all 0 when empty) -/
def jitter (j : Json) : R (Nat → Rat) := do
  let l ← (← arrF j "jit").mapM rat
  pure (fun n => if l.length = 0 then 0 else l.getD (n % l.length) 0)

def badFieldName : BadField → String
  | .maxRetries => "max_retries" | .backoffBase => "backoff_base" | .backoffMax => "backoff_max"

def pairJson (p : Int × Nat) : Json := ofList [ofInt p.1, ofNat p.2]

def handle (fn : String) (a : Json) : R Json := do
  match fn with
  | "validate" =>
    let c ← cfg (← field a "cfg")
    pure (ofOpt (fun b => Json.str (badFieldName b)) (validate c))
  | "delay" =>
    let c ← cfg (← field a "cfg")
    let attempt ← natF a "attempt"
    let x ← match fieldOpt a "ra" with
      | none => pure none
      | some v => do pure (some (← flt v))
    let r ← rat (← field a "r")
    pure (match computeDelay c attempt x r with
      | .error e => obj [("exc", Json.str (excName e))]
      | .ok (d, drew) => obj [("delay", ofF d), ("drew", ofBool drew)])
  | "parse_ra" =>
    let x ← ra (fieldOpt a "ra")
    pure (ofOpt ofF (parseRA x))
  | "run" =>
    let c ← cfg (← field a "cfg")
    let script ← (← arrF a "script").mapM fault
    let jit ← jitter a
    let r := run c jit 0 script
    pure (obj [("steps", ofList (r.steps.map ofStep)), ("outcome", ofOutcome r.outcome), ("draws", ofNat r.draws)])
  | "client" =>
    let site ← rawStr (← field a "site")
    let some prog := siteProg site | throw s!"unknown site {site}"
    let c ← cfgOpt a "cfg"
    let script ← (← arrF a "script").mapM fault
    let jit ← jitter a
    let extra ← boolF a "extra"
    let extOk ← boolF a "ext_ok"
    let r := runPosts c jit extra extOk prog none 0 script
    pure (obj [("rounds", ofList (r.rounds.map fun st => ofList (st.map ofStep))), ("ending", ofEnding r.ending),
               ("draws", ofNat r.draws)])
  | "consts" =>
    pure (obj [
      ("default_retryable", ofList (Gen.Retry.defaultRetryable.map ofNat)),
      ("default_max_retries", ofInt Gen.Retry.defaultMaxRetries),
      ("default_backoff_base", pairJson Gen.Retry.defaultBackoffBase),
      ("default_backoff_max", pairJson Gen.Retry.defaultBackoffMax),
      ("default_retry_on_conn", ofBool Gen.Retry.defaultRetryOnConnectionError),
      ("default_respect_ra", ofBool Gen.Retry.defaultRespectRetryAfter),
      ("default_set_is_default", ofBool Gen.Retry.defaultSetIsDefaultRetryable),
      ("marker", Json.str Gen.Retry.disconnectMarker),
      ("except_clauses", ofList (Gen.Retry.exceptClauses.map fun cl => ofList (cl.map Json.str))),
      ("recognised", ofBool (Gen.Retry.delayRecognised && Gen.Retry.loopRecognised && Gen.Retry.postWrapperRecognised
        && Gen.Retry.parseRetryAfterRecognised && Gen.Retry.sitesRecognised))])
  | _ => throw s!"unknown function C38.{fn}"

end VgiVerif.C38.Driver
