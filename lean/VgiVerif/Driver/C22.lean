import VgiVerif.Prelude.JsonUtil
import VgiVerif.Model.C22
namespace VgiVerif.C22.Driver
open Lean VgiVerif.J VgiVerif.C22 VgiVerif.PP

def claimsJson (c : Claims) : Json := ofList (c.map fun kv => ofList [ofStr kv.1, ofStr kv.2])

def entriesJson (es : List (Str × Int)) : Json := ofList (es.map fun e => ofList [ofStr e.1, ofInt e.2])

def cacheJson : Option NonceState → Json
  | none => Json.null
  | some c => obj [("ttl", ofInt c.ttl), ("capacity", ofNat c.capacity), ("entries", entriesJson c.entries)]

def parseEntries (j : Json) : R (List (Str × Int)) := do
  (← arr j).mapM fun e => do
    match (← arr e) with
    | [n, x] => pure ((← str n), (← int x))
    | _ => throw "expected [nonce, expires]"

def parseCache (j : Option Json) : R (Option NonceState) :=
  match j with
  | none => pure none
  | some c => do
    pure (some { ttl := (← intF c "ttl"), capacity := (← natF c "capacity"), entries := (← parseEntries (← field c "entries")) })

def parseKeys (j : Json) : R (List (Str × (Bytes × Str))) := do
  (← arr j).mapM fun e => do
    match (← arr e) with
    | [k, s, l] => pure ((← str k), ((← bytes s), (← str l)))
    | _ => throw "expected [kid, secret, label]"

/-- HMAC as a finite table computed by the harness with the real `hmac`; anything else maps to `[]` -/
def parseHmac (j : Json) : R Hmac := do
  let rows ← (← arr j).mapM fun e => do
    match (← arr e) with
    | [k, m, d] => pure ((← bytes k), (← bytes m), (← bytes d))
    | _ => throw "expected [key, msg, digest]"
  pure fun k m =>
    match rows.find? (fun r => r.1 == k && r.2.1 == m) with
    | some r => r.2.2
    | none => []

def outcomeJson : Outcome → Json
  | .done (.ok c) => obj [("v", Json.str "ok"), ("claims", claimsJson c)]
  | .done (.err r) => obj [("v", Json.str "err"), ("reason", Json.str r.code)]
  | .raised w => obj [("v", Json.str "raised"), ("what", Json.str w)]

def respJson (r : Resp401) : Json :=
  obj [("status", ofNat r.status), ("reason", ofStr r.reason), ("detail", ofStr r.detail), ("hint", ofStr r.proxyHint)]

def gateJson (hint : Str) : GateOut → Json
  | .claims c => obj [("kind", Json.str "claims"), ("claims", claimsJson c)]
  | .refused e => obj [("kind", Json.str "refused"), ("reason", Json.str e.reason.code), ("str", ofStr e.str),
      ("resp", respJson (http401 hint e))]
  | .raised w => obj [("kind", Json.str "raised"), ("what", Json.str w)]

def pickRe (w : String) : R VgiVerif.Regex.Pat :=
  match w with
  | "kid" => pure Gen.C22.kidRe | "ts" => pure Gen.C22.tsRe | "nonce" => pure Gen.C22.nonceRe
  | "origin" => pure Gen.C22.originRe | "mac" => pure Gen.C22.macRe
  | _ => throw s!"unknown regex {w}"

def handle (fn : String) (a : Json) : R Json := do
  match fn with
  | "re" =>
    let p ← pickRe (← rawStr (← field a "which"))
    pure (ofBool (applyRe p (← strF a "s")))
  | "unb64" =>
    pure (ofOpt ofBytes (Base64.decode (← strF a "s")))
  | "b64" =>
    pure (ofStr (Base64.encode (← bytesF a "b")))
  | "canonical" =>
    pure (ofBytes (canonicalString (← strF a "kid") (← strF a "ts") (← strF a "nonce") (← strF a "origin")))
  | "cache" =>
    let some c0 ← parseCache (fieldOpt a "cache") | throw "cache required"
    let ops ← (← arrF a "ops").mapM fun e => do
      match (← arr e) with
      | [m, n] => pure ((← int m), (← str n))
      | _ => throw "expected [mono, nonce]"
    let (c, rs) := ops.foldl (fun (acc : NonceState × List Bool) op =>
      let (c', fresh) := checkAndAdd acc.1 op.1 op.2
      (c', fresh :: acc.2)) (c0, [])
    pure (obj [("results", ofList (rs.reverse.map ofBool)), ("cache", cacheJson (some c))])
  | "session" =>
    -- a sequence of requests against one gate / one verifier sharing the replay cache
    let modeS ← rawStr (← field a "mode")
    let mode ← match modeS with
      | "allow" => pure Mode.allow | "require" => pure Mode.require | _ => throw s!"bad mode {modeS}"
    let cfg : Config := { keys := (← parseKeys (← field a "keys")), origin := (← strF a "origin"), skew := (← intF a "skew") }
    let hmac ← parseHmac (← field a "hmac")
    let hint ← strF a "hint"
    let c0 ← parseCache (fieldOpt a "cache")
    let reqs ← arrF a "reqs"
    let mut cache := c0
    let mut outs : List Json := []
    for rq in reqs do
      let via ← rawStr (← field rq "via")
      let now ← intF rq "now"
      let mono ← intF rq "mono"
      let raw ← match fieldOpt rq "raw" with
        | none => pure none
        | some v => do pure (some (← str v))
      if via == "verify" then
        let some tok := raw | throw "verify needs a token"
        let (o, c) := verifyProof hmac cfg tok now cache mono
        cache := c
        outs := outcomeJson o :: outs
      else
        let (o, c) := gate hmac mode cfg raw now cache mono
        cache := c
        outs := gateJson hint o :: outs
    pure (obj [("outs", ofList outs.reverse), ("cache", cacheJson cache)])
  | _ => throw s!"unknown function C22.{fn}"

end VgiVerif.C22.Driver
