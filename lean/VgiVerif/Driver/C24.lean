import VgiVerif.Prelude.JsonUtil
import VgiVerif.Model.C24Stack
import VgiVerif.Driver.C22
namespace VgiVerif.C24.Driver
open Lean VgiVerif.J VgiVerif.C24 VgiVerif.PP VgiVerif.Auth

def optStr (j : Json) (k : String) : R (Option Str) :=
  match fieldOpt j k with
  | none => pure none
  | some v => do pure (some (← str v))

def parseClaims (j : Json) : R Claims := do
  (← arr j).mapM fun e => do
    match (← arr e) with
    | [k, v] => pure ((← str k), (← str v))
    | _ => throw "expected [key, value]"

def parseClaimVal (j : Json) : R ClaimVal := do
  match j with
  | .obj _ => pure (.map (← parseClaims (← field j "map")))
  | _ => pure (.str (← str j))

def parseCtx (j : Json) : R AuthCtx := do
  let cl ← (← arrF j "claims").mapM fun e => do
    match (← arr e) with
    | [k, v] => pure ((← str k), (← parseClaimVal v))
    | _ => throw "expected [key, value]"
  pure { domain := (← optStr j "domain"), authenticated := (← boolF j "authenticated"), principal := (← optStr j "principal"), claims := cl }

def parseErr (j : Json) : R AuthErr := do
  let cls ← rawStr (← field j "cls")
  let what ← strF j "what"
  match cls with
  | "value" => pure (.value what) | "permission" => pure (.permission what) | "other" => pure (.other what)
  | _ => throw s!"bad error class {cls}"

def parseOut (j : Json) : R AuthOut := do
  match fieldOpt j "ok" with
  | some c => pure (.ok (← parseCtx c))
  | none => pure (.err (← parseErr (← field j "err")))

def parseInner (j : Option Json) : R (Option AuthOut) :=
  match j with
  | none => pure none
  | some v => do pure (some (← parseOut v))

def parseGate (j : Json) : R Gate := do
  let res ← match fieldOpt j "claims" with
    | some c => do pure (GateRes.claims (← parseClaims c))
    | none => do pure (GateRes.raises (← parseErr (← field j "err")))
  pure { name := (← strF j "name"), claimsKey := (← strF j "claims_key"), res := res }

def claimValJson : ClaimVal → Json
  | .str s => ofStr s
  | .map c => obj [("map", C22.Driver.claimsJson c)]

def ctxJson (c : AuthCtx) : Json :=
  obj [("domain", ofOpt ofStr c.domain), ("authenticated", ofBool c.authenticated), ("principal", ofOpt ofStr c.principal),
       ("claims", ofList (c.claims.map fun kv => ofList [ofStr kv.1, claimValJson kv.2]))]

def errJson : AuthErr → Json
  | .value w => obj [("cls", Json.str "value"), ("what", ofStr w)]
  | .permission w => obj [("cls", Json.str "permission"), ("what", ofStr w)]
  | .other w => obj [("cls", Json.str "other"), ("what", ofStr w)]

def outJson : AuthOut → Json
  | .ok c => obj [("ok", ctxJson c)]
  | .err e => obj [("err", errJson e)]

def servedJson : Served → Json
  | .dispatch c => obj [("served", Json.str "dispatch"), ("ctx", ctxJson c)]
  | .status401 => obj [("served", Json.str "401")]
  | .status500 => obj [("served", Json.str "500")]

def parseMember (j : Json) : R Member := do
  let k ← rawStr (← field j "kind")
  match k with
  | "gate" => pure (.gate { name := "g".toList, claimsKey := "k".toList, res := .claims [] })
  | "fn" => pure (.fn (.ok anonymous))
  | "other" => pure .other
  | _ => throw s!"bad member {k}"

def ctorJson {α} (f : α → Json) : Except CtorErr α → Json
  | .ok a => obj [("ok", f a)]
  | .error .valueError => obj [("error", Json.str "ValueError")]
  | .error .typeError => obj [("error", Json.str "TypeError")]

def handle (fn : String) (a : Json) : R Json := do
  match fn with
  | "requireAll" =>
    let g ← parseGate (← field a "gate")
    let inner ← parseInner (fieldOpt a "inner")
    let r := requireAll g inner
    pure (obj [("out", outJson r.out), ("inner_calls", ofNat r.innerCalls), ("served", servedJson (middleware r.out))])
  | "chainConstruct" =>
    let ms ← (← arrF a "members").mapM parseMember
    pure (ctorJson (fun l => ofNat l.length) (chainConstruct ms))
  | "requireAllConstruct" =>
    let m ← parseMember (← field a "member")
    pure (ctorJson (fun _ => Json.str "gate") (requireAllConstruct m))
  | "chainRun" =>
    let outs ← (← arrF a "outs").mapM parseOut
    let r := chainRun outs
    pure (obj [("out", outJson r.1), ("tried", ofNat r.2), ("served", servedJson (middleware r.1))])
  | "stack" =>
    -- one worker, a sequence of requests sharing the replay cache
    let modeS ← rawStr (← field a "mode")
    let mode ← match modeS with
      | "allow" => pure C22.Mode.allow | "require" => pure C22.Mode.require | _ => throw s!"bad mode {modeS}"
    let cfg : Config := { keys := (← C22.Driver.parseKeys (← field a "keys")), origin := (← strF a "origin"), skew := (← intF a "skew") }
    let hmac ← C22.Driver.parseHmac (← field a "hmac")
    let mut cache ← C22.Driver.parseCache (fieldOpt a "cache")
    let mut outs : List Json := []
    for rq in (← arrF a "reqs") do
      let raw ← optStr rq "raw"
      let inner ← parseInner (fieldOpt rq "inner")
      let (s, n, c) := stack hmac mode cfg raw (← intF rq "now") cache (← intF rq "mono") inner
      cache := c
      outs := obj [("served", servedJson s), ("inner_calls", ofNat n)] :: outs
    pure (obj [("outs", ofList outs.reverse), ("cache", C22.Driver.cacheJson cache)])
  | _ => throw s!"unknown function C24.{fn}"

end VgiVerif.C24.Driver
