import VgiVerif.Prelude.JsonUtil
import VgiVerif.Model.C23
import VgiVerif.Spec.C23
namespace VgiVerif.C23.Driver
open Lean VgiVerif.J VgiVerif.C23 VgiVerif.Sched

def cmpName : Gen.Nonce.Cmp → String
  | .lt => "Lt" | .le => "LtE" | .gt => "Gt" | .ge => "GtE" | .eq => "Eq" | .ne => "NotEq"

def stJson (s : St) : Json :=
  obj [("entries", ofList (s.entries.map fun e => ofList [ofNat e.1, ofInt e.2])),
       ("evicted", ofNat s.evicted), ("replays", ofNat s.replays)]

def opOf (j : Json) : R Op := do
  match (← arr j) with
  | [a, b] => pure ⟨← int a, ← nat b⟩
  | _ => throw "expected [now, nonce]"

/-- sequential run: result and full state after every operation -/
def seqStates (cap : Nat) (ttl : Int) : St → List Op → List Json
  | _, [] => []
  | s, op :: r =>
    let x := step cap ttl s op.now op.nonce
    obj [("r", ofBool x.2), ("st", stJson x.1)] :: seqStates cap ttl x.1 r

/-- harness events → model labels -/
def labelOf (j : Json) : R Label := do
  match (← arr j) with
  | [k, a] =>
    match (← rawStr k) with
    | "tick" => pure (.tick (← int a))
    | "acq" => pure (.acquire (← nat a))
    | "rel" => pure (.release (← nat a))
    | s => throw s!"bad event {s}/1"
  | [k, a, b] =>
    match (← rawStr k) with
    | "call" => pure (.call (← nat a) (← nat b))
    | "clock" => pure (.readClock (← nat a) (← int b))
    | "ret" => pure (.ret (← nat a) (← bool b))
    | s => throw s!"bad event {s}/2"
  | _ => throw "bad event"

def callOf (j : Json) : R Spec.Call := do
  match (← arr j) with
  | [a, b, c, d] => pure ⟨← int a, ← nat b, ← bool c, ← int d⟩
  | _ => throw "expected [now, nonce, res, time]"

def linJson (e : Lin) : Json := ofList [ofNat e.tid, ofInt e.op.now, ofNat e.op.nonce, ofBool e.res, ofInt e.tacq]

def handle (fn : String) (a : Json) : R Json := do
  match fn with
  | "gen" =>
    pure (obj [("defaultCap", ofNat Gen.Nonce.defaultCap),
      ("sweepLiveCmp", Json.str (cmpName Gen.Nonce.sweepLiveCmp)), ("evictCmp", Json.str (cmpName Gen.Nonce.evictCmp)),
      ("ttlRejectCmp", Json.str (cmpName Gen.Nonce.ttlRejectCmp)), ("capRejectCmp", Json.str (cmpName Gen.Nonce.capRejectCmp)),
      ("shape", ofBool (Gen.Nonce.clockReadBeforeLock && Gen.Nonce.singleLock && Gen.Nonce.criticalSectionOrder
        && Gen.Nonce.evictsOldest && Gen.Nonce.sweepFromFront && Gen.Nonce.expiryIsNowPlusTtl
        && Gen.Nonce.capDefaultIsConst && Gen.Nonce.lockCreatedInInit)), ("fingerprint", Json.str Gen.Nonce.fingerprint)])
  | "validate" => pure (ofBool (validate (← intF a "ttl") (← intF a "cap")))
  | "seq" =>
    let cap ← natF a "cap"
    let ttl ← intF a "ttl"
    let ops ← (← arrF a "ops").mapM opOf
    pure (ofList (seqStates cap ttl {} ops))
  | "accepts" =>
    let cap ← natF a "cap"
    let ttl ← intF a "ttl"
    let mono ← boolF a "mono"
    let ls ← (← arrF a "events").mapM labelOf
    match observe mono cap ttl ls with
    | some s =>
      pure (obj [("ok", ofBool true), ("hist", ofList (s.hist.map linJson)), ("st", stJson s.cache),
                 ("locked", ofBool s.lock.locked), ("clock", ofInt s.clock)])
    | none =>
      let idx := (ts mono cap ttl).rejectExpandFrom expand (ts mono cap ttl).init ls 0
      pure (obj [("ok", ofBool false), ("reject", ofOpt ofNat idx)])
  | "monitor" =>
    let cap ← natF a "cap"
    let ttl ← intF a "ttl"
    let rt ← boolF a "rt"
    let calls ← (← arrF a "calls").mapM callOf
    pure (ofList ((Spec.violations rt cap ttl calls).map fun p => ofList [ofNat p.1, ofNat p.2]))
  | _ => throw s!"unknown function C23.{fn}"

end VgiVerif.C23.Driver
