import VgiVerif.Prelude.JsonUtil
import VgiVerif.Model.C06
namespace VgiVerif.C06.Driver
open Lean VgiVerif.J VgiVerif.C06 VgiVerif.Gen.Validate

def hclsOfName (s : String) : Option HCls := allHCls.find? (fun c => c.name == s)

/-- {"cls": "OverflowError", "isa": ["Exception", …]} — names that are not handler classes are ignored -/
def exn (j : Json) : R Exn := do
  let cls ← strF j "cls"
  let names ← (← arrF j "isa").mapM rawStr
  pure ⟨cls, names.filterMap hclsOfName⟩

def conv (j : Json) : R Conv :=
  match j with
  | .str "ok" => pure .ok
  | _ => do pure (.raises (← exn j))

/-- null | {"str": s} | {"bytes": CONV} | {"list": [CONV, CONV]} | "other" | {"unreadable": EXN} -/
def val (j : Json) : R Val :=
  match j with
  | .null => pure .null
  | .str "other" => pure .other
  | _ =>
    match fieldOpt j "str", fieldOpt j "bytes", fieldOpt j "list", fieldOpt j "unreadable" with
    | some s, _, _, _ => do pure (.str (← str s))
    | _, some c, _, _ => do pure (.bytes (← conv c))
    | _, _, some l, _ => do
      match (← arr l) with
      | [a, b] => pure (.list (← conv a) (← conv b))
      | _ => throw "list needs [asDict, asSet]"
    | _, _, _, some e => do pure (.unreadable (← exn e))
    | _, _, _, _ => throw s!"bad value {j.compress}"

def kind (j : Json) : R PyKind :=
  match j with
  | .str "plain" => pure .plain
  | .str "dict" => pure .dict
  | .str "fset" => pure .fset
  | .str "dataclass" => pure .dataclass
  | _ => do
    let ms ← (← arrF j "enum").mapM str
    pure (.enum ms)

def param (j : Json) : R Param := do
  pure ⟨← strF j "name", ← strF j "ty", ← boolF j "nullable", ← boolF j "hasDefault", ← kind (← field j "kind")⟩

def col (j : Json) : R Col := do
  pure ⟨← strF j "name", ← strF j "ty", ← boolF j "nullable", ← val ((j.getObjVal? "val").toOption.getD Json.null)⟩

def request (j : Json) : R Request := do
  let ptr ← match fieldOpt j "pointer" with
    | none => pure none
    | some p => do pure (some (← (← arr p).mapM col))
  pure ⟨← (← arrF j "cols").mapM col, ← natF j "rows", ← boolF j "ipcValid", ptr⟩

def valTag : Val → String
  | .null => "null" | .str _ => "str" | .bytes _ => "bytes" | .list _ _ => "list" | .other => "other"
  | .unreadable _ => "unreadable" | .member _ => "member" | .obj => "obj"

def kwJson (kw : Kwargs) : Json := ofList (kw.map fun kv => ofList [ofStr kv.1, Json.str (valTag kv.2)])

def reasonJson : Reason → Json
  | .invalidBatch => obj [("r", "invalidBatch")]
  | .rowCount => obj [("r", "rowCount")]
  | .noPythonValue c => obj [("r", "noPythonValue"), ("name", ofStr c)]
  | .nameMismatch => obj [("r", "nameMismatch")]
  | .version => obj [("r", "version")]
  | .deserType p => obj [("r", "deserType"), ("name", ofStr p)]
  | .deserKey p => obj [("r", "deserKey"), ("name", ofStr p)]
  | .deserConv p => obj [("r", "deserConv"), ("name", ofStr p)]
  | .unexpected ns => obj [("r", "unexpected"), ("names", ofList (ns.map ofStr))]
  | .missing ns => obj [("r", "missing"), ("names", ofList (ns.map ofStr))]
  | .fieldCount w g => obj [("r", "fieldCount"), ("want", ofNat w), ("got", ofNat g)]
  | .fieldName i => obj [("r", "fieldName"), ("i", ofNat i)]
  | .fieldType i => obj [("r", "fieldType"), ("i", ofNat i)]
  | .fieldNullable i => obj [("r", "fieldNullable"), ("i", ofNat i)]
  | .nullNotOptional p => obj [("r", "nullNotOptional"), ("name", ofStr p)]
  | .method => obj [("r", "method")]

def wireJson : Wire → Json
  | .result => obj [("w", "result")]
  | .http s m => obj [("w", "http"), ("status", ofNat s), ("marker", ofBool m)]
  | .errorStream => obj [("w", "errorStream")]
  | .errorStreamThenEscape => obj [("w", "errorStreamThenEscape")]
  | .escaped => obj [("w", "escaped")]

def respJson (r : Resp) : Json :=
  obj [("invoked", ofOpt kwJson r.invokedWith), ("wire", wireJson r.wire),
       ("err", ofOpt (fun e => ofStr e.cls) r.err), ("why", ofOpt reasonJson r.why)]

def handle (fn : String) (a : Json) : R Json := do
  match fn with
  | "hcls" => pure (ofList (allHCls.map fun c => Json.str c.name))
  | "validate" =>
    let d ← (← arrF a "decl").mapM param
    let rq ← request (← field a "rq")
    pure (match validateCall d rq with
      | .ok kw => obj [("ok", kwJson kw)]
      | .error (e, why) => obj [("err", ofStr e.cls), ("why", reasonJson why)])
  | "serve" =>
    let siteName ← rawStr (← field a "site")
    let some site := sites.find? (·.name == siteName) | throw s!"unknown site {siteName}"
    let d ← (← arrF a "decl").mapM param
    let rq ← request (← field a "rq")
    let nm ← boolF a "nameMatches"
    let gatePass ← boolF a "gatePass"
    let behave ← match fieldOpt a "behave" with
      | none => pure none
      | some e => do pure (some (← exn e))
    let g : C09.GateResult := if gatePass then .pass else .refuse none .notDeclared
    pure (respJson (serve site ⟨d, rq, nm, g, behave⟩))
  | _ => throw s!"unknown function C06.{fn}"

end VgiVerif.C06.Driver
