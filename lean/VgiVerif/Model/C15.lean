import VgiVerif.Prelude.HttpReq
import VgiVerif.Gen.HttpStatus
/-
C15 model: what the HTTP server answers to a request class.  Transliteration, branch order included, of

  make_wsgi_app           middleware chain in registration order (vgi_rpc/http/server/_factory.py)
  _MaxRequestBytesMiddleware / _CompressionMiddleware / _AuthMiddleware .process_request   (_middleware.py)
  _HttpRpcApp._resolve_method, _check_content_type                                        (_app.py, _responses.py)
  _RpcResource / _StreamInitResource / _ExchangeResource .on_post                         (_resources.py)
  _run_unary_sync / _run_stream_init_sync / _run_stream_exchange_sync / _run_http_exchange_turn /
  _run_http_producer_turn — only which exception class leaves which `except` clause with which status
  _set_http_status, _set_error_response                                                   (_responses.py)

over the *extracted* tables of `Gen.HttpStatus`.  An exception nobody catches reaches Falcon's generic
handler: 500 with a JSON body.
-/
namespace VgiVerif.C15
open VgiVerif.HttpReq
open VgiVerif.Gen

structure Resp where
  status : Nat
  marker : Bool        -- `X-VGI-RPC-Error: true`
  arrow : Bool         -- body is an Arrow IPC stream (`application/vnd.apache.arrow.stream`)
  dispatched : Bool    -- the request was accepted as a call (method code, or the cancel handler, ran)
deriving Repr, DecidableEq

/-- `_set_http_status` -/
def setStatus (t : Tables) (s : Nat) : Nat × Bool :=
  if s = t.translatedStatus then (t.translatedTo, t.translationSetsMarker) else (s, false)

/-- `_set_error_response(resp, exc, status_code=s)` for a request that was refused -/
def errorResponse (t : Tables) (s : Nat) : Resp :=
  let p := setStatus t s
  ⟨p.1, p.2, true, false⟩

/-- response of a call that was dispatched; `s` is the status the shell hands to `_set_http_status` -/
def inband (t : Tables) (s : Nat) : Resp :=
  let p := setStatus t s
  ⟨p.1, p.2, true, true⟩

/-- an exception no handler catches: Falcon's `HTTPInternalServerError`, serialized as JSON -/
def escaped : Resp := ⟨500, false, false, false⟩

def refusal (t : Tables) (r : Refusal) : Resp :=
  match r.writer with
  | .arrow => errorResponse t r.status
  | .falcon => ⟨r.status, false, false, false⟩

/-- `process_request` of one middleware: `some r` = the request is refused here -/
def stage (t : Tables) (m : Mw) (rq : Req) : Option Resp :=
  match m with
  | .sizeCap =>
    match rq.size with
    | .oversize => some (refusal t t.sizeCap)
    | .atCap => if t.wireSizeOp.refusesAtCap then some (refusal t t.sizeCap) else none
    | .within => none
  | .compression =>
    match rq.cenc with
    | .none | .supported => none
    | .unsupported => some (refusal t t.encUnsupported)
    | .corrupt => some (refusal t t.encCorrupt)
    | .bomb => some (refusal t t.encBomb)
    | .atCap c => if (t.decodeSizeOp c).refusesAtCap then some (refusal t t.encBomb) else none
  | .auth => if rq.auth = .rejected then some (refusal t t.authReject) else none
  | .other => none

/-- Falcon runs `process_request` hooks in registration order and stops at the first refusal -/
def chain (t : Tables) : List Mw → Req → Option Resp
  | [], _ => none
  | m :: ms, rq =>
    match stage t m rq with
    | some r => some r
    | none => chain t ms rq

def cmpRefuses (op : CmpOp) (equal : Bool) : Bool :=
  match op with
  | .eq => equal
  | .ne => !equal
  | .unknown => false
  | .notPrefix => !equal

/-- `_check_content_type`: is a request with this content type refused, given the comparison the source uses? -/
def ctypeRefused (op : CmpOp) : CType → Bool
  | .correct => cmpRefuses op true
  | .wrongExtends => (match op with | .notPrefix => false | _ => cmpRefuses op false)   -- a prefix test lets it through
  | .wrong | .missing => cmpRefuses op false

def resolveStep (t : Tables) (s : ResolveStep) (rq : Req) : Option Resp :=
  match s with
  | .contentType =>
    if ctypeRefused t.contentTypeOp rq.ctype then some (errorResponse t t.contentTypeStatus)
    else none
  | .methodLookup =>
    if rq.kind = .unknown then some (errorResponse t t.unknownMethodStatus) else none

/-- `_resolve_method` -/
def resolve (t : Tables) : List ResolveStep → Req → Option Resp
  | [], _ => none
  | s :: ss, rq =>
    match resolveStep t s rq with
    | some r => some r
    | none => resolve t ss rq

def tableResponse (t : Tables) : Option Nat → Resp
  | some s => errorResponse t s
  | none => escaped

/-- which exception a metadata defect raises inside `_read_request` / the protocol-version gate -/
def metaExc : MetaDefect → ValExc
  | .noMethodKey => .rpcError
  | .badMethodUtf8 => .rpcError
  | .noVersionKey => .versionError
  | .badVersion => .versionError
  | .methodMismatch => .typeError
  | .protocolVersion => .protocolVersionError

/-- the request-reading `try` of the unary / init shells: `some r` = refused while reading or validating -/
def readPhase (t : Tables) (parse : ParseExc → Option Nat) (val : ValExc → Option Nat)
    (deser : DeserExc → Option Nat) (noVersionGate lenientParams : Bool) : Body → Option Resp
  | .valid => none
  | .cancel => none                          -- `vgi_rpc.cancel` is not looked at here
  | .badValue e =>
    if lenientParams then none else some (tableResponse t (deser e))   -- `_deserialize_params` raises `e`
  | .badMeta .protocolVersion =>
    -- the protocol-version gate (not applied to `__describe__` where exempted, nor on the upload-URL route)
    if noVersionGate then none else some (tableResponse t (val (metaExc .protocolVersion)))
  | .badParams .mismatch =>
    if lenientParams then none else some (tableResponse t (val .typeError))
  | .parseFail .ipcError =>
    -- `_read_request` may itself refuse an invalid request batch as RpcError("ProtocolError")
    some (tableResponse t (if t.readWrapsBatchValidation then val .rpcError else parse .ipcError))
  | .parseFail .stopIteration =>
    -- a request stream without a batch; `_read_request` may refuse it itself as RpcError("ProtocolError")
    some (tableResponse t (if t.readWrapsEmptyStream then val .rpcError else parse .stopIteration))
  | .parseFail e => some (tableResponse t (parse e))
  | .badMeta m => some (tableResponse t (val (metaExc m)))
  | .badParams .badNames =>
    -- raised when the kwargs are built; `_read_request` may wrap that as RpcError("ProtocolError")
    some (tableResponse t (if t.readWrapsKwargs then val .rpcError else parse .unicodeDecode))

/-- `_RpcResource.on_post` + `_run_unary_sync` -/
def unaryResource (t : Tables) (rq : Req) : Resp :=
  match resolve t t.resolveOrder rq with
  | some r => r
  | none =>
    if cmpRefuses t.unaryGuardOp rq.kind.isStream then errorResponse t t.unaryGuardStatus
    else if rq.kind = .describe then
      -- the pre-built `__describe__` batch: no implementation call, no cap check
      if t.describeBeforeRead then inband t 200
      else match readPhase t t.unaryParse t.unaryVal t.unaryDeser t.describeExemptFromVersionGate false rq.body with
        | some r => r
        | none => inband t 200
    else match readPhase t t.unaryParse t.unaryVal t.unaryDeser false false rq.body with
      | some r => r
      | none =>
        match rq.beh with
        | .ok => inband t 200
        | .raises | .turnRaises => inband t t.unaryFail
        | .overshoot => inband t t.unaryOvershoot

/-- `_StreamInitResource.on_post` + `_run_stream_init_sync` (+ the first producer turn) -/
def initResource (t : Tables) (rq : Req) : Resp :=
  match resolve t t.resolveOrder rq with
  | some r => r
  | none =>
    if cmpRefuses t.initGuardOp rq.kind.isStream then errorResponse t t.initGuardStatus
    else match readPhase t t.initParse t.initVal t.initDeser false false rq.body with
      | some r => r
      | none =>
        match rq.beh with
        | .raises =>
          -- the init method raises: `_RpcHttpError(exc, initFail)` → `_set_error_response`
          let p := setStatus t t.initFail
          ⟨p.1, p.2, true, true⟩
        | .turnRaises =>
          if rq.kind = .producer then inband t t.producerFail   -- contextvar, read by the resource
          else
            let p := setStatus t t.initFail
            ⟨p.1, p.2, true, true⟩
        | .ok | .overshoot => inband t 200       -- producer cap is soft; an exchange init returns only tokens

def tokenStatus (t : Tables) : Nat :=
  match t.tokenStatuses with
  | [s] => s
  | _ => 0

/-- `_ExchangeResource.on_post` + `_run_stream_exchange_sync` (+ exchange / producer turn) -/
def exchangeResource (t : Tables) (rq : Req) : Resp :=
  match resolve t t.resolveOrder rq with
  | some r => r
  | none =>
    if cmpRefuses t.exchangeGuardOp rq.kind.isStream then errorResponse t t.exchangeGuardStatus
    else
      match (match rq.body with
             | .parseFail e => some (tableResponse t (t.exchangeParse e))
             | _ => none) with
      | some r => r
      | none =>
        match rq.token with
        | .missing => errorResponse t t.missingTokenStatus
        | .tampered => errorResponse t (tokenStatus t)
        | .valid =>
          if rq.body = .cancel then inband t 200
          else if rq.kind = .producer then
            match rq.beh with
            | .raises | .turnRaises => inband t t.producerFail
            | .ok | .overshoot => inband t 200
          else
            match rq.body with
            | .badParams d =>
              -- `_coerce_input_batch` raises (TypeError for a mismatch, UnicodeDecodeError for the names)
              tableResponse t (t.coerce d)
            | _ =>
              match rq.beh with
              | .raises | .turnRaises =>
                let p := setStatus t t.exchangeFail
                ⟨p.1, p.2, true, true⟩
              | .overshoot => inband t t.exchangeOvershoot
              | .ok => inband t 200

/-- `_UploadUrlResource.on_post`: content type, `_read_request` + method check, then the provider.  The route is
    literal (the method kind of the URL plays no role); it takes one optional `count` and ignores other columns;
    there is no protocol-version gate on it. -/
def uploadResource (t : Tables) (rq : Req) : Resp :=
  if t.uploadChecksContentType && ctypeRefused t.contentTypeOp rq.ctype then errorResponse t t.contentTypeStatus
  else match readPhase t t.uploadParse t.uploadVal (fun _ => none) true true rq.body with
    | some r => r
    | none =>
      match rq.beh with
      | .raises | .turnRaises => inband t t.uploadFail
      | .ok | .overshoot => inband t 200

def resource (t : Tables) (rq : Req) : Resp :=
  match rq.route with
  | .unary => unaryResource t rq
  | .init => initResource t rq
  | .exchange => exchangeResource t rq
  | .uploadUrl => uploadResource t rq

/-- the whole server: middleware chain, then routing to the resource -/
def respondWith (t : Tables) (rq : Req) : Resp :=
  match chain t t.middlewareOrder rq with
  | some r => r
  | none => resource t rq

/-- the server of the working tree: the model over the extracted tables -/
def respond (rq : Req) : Resp := respondWith HttpStatus.tables rq

end VgiVerif.C15
