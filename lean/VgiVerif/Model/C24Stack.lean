import VgiVerif.Model.C22
import VgiVerif.Model.C24
/-
The real stack of C24: `require_all(proxy_proof_gate(config), inner)` behind `_AuthMiddleware`.
`proxy_proof_gate` wraps C22's `gate` closure in `PreconditionGate(gate, name=GATE_NAME, claims_key=CLAIMS_KEY)`;
a `ProofError` is a `PermissionError` (extracted), any other exception is "other".
-/
namespace VgiVerif.C24
open VgiVerif.PP VgiVerif.Auth

def ofProofGate : C22.GateOut → GateRes
  | .claims c => .claims c
  | .refused e =>
    if Gen.C22.proofErrorIsPermissionError then .raises (.permission e.str) else .raises (.other e.str)
  | .raised w => .raises (.other w.toList)

/-- the `PreconditionGate` built by `proxy_proof_gate(config)`, on the current request -/
def proofGate (hmac : Hmac) (mode : C22.Mode) (cfg : Config) (raw : Option Str) (now : Int)
    (cache : Option NonceState) (mono : Int) : Gate × Option NonceState :=
  let r := C22.gate hmac mode cfg raw now cache mono
  ({ name := Gen.C24.gateName, claimsKey := Gen.C24.claimsKey, res := ofProofGate r.1 }, r.2)

/-- `make_wsgi_app(authenticate=require_all(proxy_proof_gate(cfg), inner))` on one request -/
def stack (hmac : Hmac) (mode : C22.Mode) (cfg : Config) (raw : Option Str) (now : Int)
    (cache : Option NonceState) (mono : Int) (inner : Option AuthOut) : Served × Nat × Option NonceState :=
  let g := proofGate hmac mode cfg raw now cache mono
  let r := requireAll g.1 inner
  (middleware r.out, r.innerCalls, g.2)

end VgiVerif.C24
