import VgiVerif.Prelude.Regex
import VgiVerif.Prelude.Introspect
import VgiVerif.Gen.C36
/-
C36 model: `vgi_rpc/http/server/_introspect.py` — `_TokenIntrospectionResource.on_post` as an interpreter over the
*extracted* guard list (source order), `_read_token`, `_usable_ttl`, `_refuse`, `_IntrospectionDisabledResource`, and
the route wiring of `make_wsgi_app`.
-/
namespace VgiVerif.C36
open VgiVerif.Regex VgiVerif.Introspect
open VgiVerif.Gen.C36 (Guard)

/-- `_JWS_SHAPED.<kind>(token) is not None` -/
def jwsShaped (s : List Char) : Bool :=
  if Gen.C36.jwsKind = "match" then Gen.C36.jwsPattern.pyMatch s
  else if Gen.C36.jwsKind = "fullmatch" then Gen.C36.jwsPattern.pyFullmatch s
  else if Gen.C36.jwsKind = "search" then Gen.C36.jwsPattern.pySearch s
  else false

/-- value of the local `token` once `_read_token` returned something -/
inductive TokenVal where
  | text (s : List Char)
  | unencodable             -- only reachable when `_read_token` lacks the encodability step
deriving Repr, DecidableEq

/-- the tail of `_read_token`, after `json.loads`: the `"token"` member as a usable subject -/
def tokenOfParsed : Parsed → Option TokenVal
  | .invalid => none
  | .notObject => none
  | .object .missing => none
  | .object .notStr => none
  | .object (.unencodable len) =>
    if len = 0 || len > Gen.C36.maxTokenChars then none
    else if Gen.C36.readSteps.contains "encodable" then none else some .unencodable
  | .object (.str s) =>
    if s.isEmpty || s.length > Gen.C36.maxTokenChars then none else some (.text s)

/-- `length is not None and length > _MAX_BODY_BYTES` -/
def declaredTooLarge (rq : Req) : Bool :=
  match rq.contentLength with
  | some n => n > Gen.C36.maxBodyBytes
  | none => false

/-- `_read_token`: (was the body stream read, the result) -/
def readToken (rq : Req) : Bool × Option TokenVal :=
  if declaredTooLarge rq then (false, none)
  else if rq.rawLen > Gen.C36.maxBodyBytes then (true, none)
  else (true, tokenOfParsed rq.parsed)

def applyRule (rule : String) (positive finite : Bool) : Bool :=
  if rule = "accept" then true
  else if rule = "gt0" then positive
  else if rule = "finite_gt0" then finite && positive
  else false

/-- `_usable_ttl` (absent on the pinned tree: every rule is "accept") -/
def usableTtl : Ttl → Bool
  | .bool b => applyRule Gen.C36.ttlRuleBool b true
  | .int n => applyRule Gen.C36.ttlRuleInt (decide (0 < n)) true
  | .float c _ =>
    applyRule Gen.C36.ttlRuleFloat (c == .pos || c == .posInf) (c == .neg || c == .zero || c == .pos)
  | .other _ => applyRule Gen.C36.ttlRuleOther false false

/-- `_refuse` -/
def refuse (status : Nat) (code : String) : Response := ⟨status, .error code, true, none⟩

/-- an exception nobody catches: Falcon's generic 500 document -/
def crash : Response := ⟨500, .falcon none, false, none⟩

/-- interpreter state = the locals of `on_post` -/
structure St where
  trace : Trace
  token : Option TokenVal                 -- unbound until `_read_token` returned non-`None`
  identity : Option (Option Identity)     -- unbound / `None` / an identity
deriving Repr

inductive Flow where
  | next (st : St)
  | done (r : Response) (t : Trace)

def step (cfg : Cfg) (caller : Caller) (rq : Req) (res : Resolver) (g : Guard) (st : St) : Flow :=
  match g with
  | .authz s e =>
    if !caller.authenticated || !cfg.allow.contains caller.principal then .done (refuse s e) st.trace else .next st
  | .rateLimit s e ra =>
    if !cfg.limiterAllows then .done { refuse s e with retryAfter := some (.lit ra) } st.trace else .next st
  | .readToken s e =>
    let r := readToken rq
    let tr : Trace := { st.trace with bodyRead := st.trace.bodyRead || r.1 }
    match r.2 with
    | none => .done (refuse s e) tr
    | some t => .next { st with trace := tr, token := some t }
  | .digest =>
    match st.token with
    | some (.text _) => .next st
    | _ => .done crash st.trace
  | .jwsShape s e =>
    match st.token with
    | some (.text t) => if jwsShaped t then .done (refuse s e) st.trace else .next st
    | _ => .done crash st.trace
  | .resolve us =>
    match st.token with
    | some (.text t) =>
      let tr : Trace := { st.trace with resolverCalls := st.trace.resolverCalls + 1 }
      match res t with
      | .identity i => .next { st with trace := tr, identity := some (some i) }
      | .none => .next { st with trace := tr, identity := some none }
      | .unavailable d ra => .done ⟨us, .falcon (some d), false, some (.secs ra)⟩ tr
      | .raises => .done crash tr
    | _ => .done crash st.trace
  | .unresolved s e =>
    match st.identity with
    | some none => .done (refuse s e) st.trace
    | some (some _) => .next st
    | none => .done crash st.trace
  | .ttlCheck s d =>
    match st.identity with
    | some (some i) => if usableTtl i.ttl then .next st else .done ⟨s, .falcon (some d.toList), false, none⟩ st.trace
    | _ => .done crash st.trace

/-- the tail of `on_post`: the success body -/
def respond (st : St) : Response :=
  match st.identity with
  | some (some i) => ⟨200, .identity i, true, none⟩
  | _ => crash

def run (cfg : Cfg) (caller : Caller) (rq : Req) (res : Resolver) : List Guard → St → Response × Trace
  | [], st => (respond st, st.trace)
  | g :: gs, st =>
    match step cfg caller rq res g st with
    | .done r t => (r, t)
    | .next st' => run cfg caller rq res gs st'

/-- `_TokenIntrospectionResource.on_post` -/
def onPost (cfg : Cfg) (caller : Caller) (rq : Req) (res : Resolver) : Response × Trace :=
  run cfg caller rq res Gen.C36.guards ⟨⟨false, 0⟩, none, none⟩

/-! ### the rate limiter as state: request *sequences* against one resource instance -/

/-- `_RateLimiter` state: start of the current window (ticks of 1/1024 s) and the per-key counts of that window -/
structure LimState where
  windowStart : Int
  counts : List (List Char × Nat)
deriving Repr, DecidableEq

/-- a freshly built `_RateLimiter`: `_window_start = 0.0`, no counts -/
def LimState.fresh : LimState := ⟨0, []⟩

def countOf (counts : List (List Char × Nat)) (key : List Char) : Nat :=
  match counts.find? (fun e => e.1 == key) with
  | some e => e.2
  | none => 0

def setCount (counts : List (List Char × Nat)) (key : List Char) (n : Nat) : List (List Char × Nat) :=
  (key, n) :: counts.filter (fun e => !(e.1 == key))

/-- `_RateLimiter.allow(key, now)`: whole-map reset once the window has elapsed, then refuse at `count >= per_window` -/
def LimState.allow (perWindow : Nat) (l : LimState) (key : List Char) (now : Int) : LimState × Bool :=
  let l' : LimState := if now - l.windowStart ≥ Gen.C36.limiterWindowTicks then ⟨now, []⟩ else l
  let c := countOf l'.counts key
  if c ≥ perWindow then (l', false) else (⟨l'.windowStart, setCount l'.counts key (c + 1)⟩, true)

/-- does control reach the rate-limit guard (i.e. is `_limiter.allow` invoked at all) for this request? -/
def reachesLimiter (cfg : Cfg) (caller : Caller) (rq : Req) (res : Resolver) : List Guard → St → Bool
  | [], _ => false
  | .rateLimit _ _ _ :: _, _ => true
  | g :: gs, st =>
    match step cfg caller rq res g st with
    | .done _ _ => false
    | .next st' => reachesLimiter cfg caller rq res gs st'

/-- one request against a resource whose limiter is in state `lim`, at monotonic time `now` -/
def serve (allow : List (List Char)) (perWindow : Nat) (lim : LimState) (now : Int) (caller : Caller) (rq : Req)
    (res : Resolver) : LimState × (Response × Trace) :=
  if reachesLimiter ⟨allow, true⟩ caller rq res Gen.C36.guards ⟨⟨false, 0⟩, none, none⟩ then
    let r := lim.allow perWindow caller.principal now
    (r.1, onPost ⟨allow, r.2⟩ caller rq res)
  else (lim, onPost ⟨allow, true⟩ caller rq res)

/-- one request of a history -/
structure Event where
  now : Int
  caller : Caller
  rq : Req
  res : Resolver

/-- a whole history against one resource instance -/
def serveAll (allow : List (List Char)) (perWindow : Nat) : LimState → List Event → List (Response × Trace)
  | _, [] => []
  | lim, e :: es =>
    let r := serve allow perWindow lim e.now e.caller e.rq e.res
    r.2 :: serveAll allow perWindow r.1 es

/-! ### the configured allow-list: `_normalise_principals` -/

def isSpace (c : Char) : Bool := Gen.C36.spaceRanges.any fun r => r.1 ≤ c.toNat && c.toNat ≤ r.2

/-- `str.strip()` -/
def pyStrip (s : List Char) : List Char := ((s.dropWhile isSpace).reverse.dropWhile isSpace).reverse

/-- the element expression of the generator -/
def allowElemOf (p : List Char) : List Char := if Gen.C36.allowElem = "strip" then pyStrip p else p

/-- the generator's `if` clause -/
def allowKeeps (p : List Char) : Bool :=
  if Gen.C36.allowFilter = "raw" then !p.isEmpty
  else if Gen.C36.allowFilter = "stripped" then !(pyStrip p).isEmpty
  else true

/-- `_normalise_principals(introspect_principals)`: the effective allow-list (`none` = `ValueError` at construction) -/
def configure (configured : List (List Char)) : Option (List (List Char)) :=
  let a := (configured.filter allowKeeps).map allowElemOf
  if a.isEmpty && Gen.C36.allowEmptyRaises then none else some a

/-- `_IntrospectionDisabledResource.on_post` -/
def disabledPost (_caller : Caller) (_rq : Req) : Response :=
  refuse Gen.C36.disabledStatus Gen.C36.disabledError

/-- `make_wsgi_app`: which resource sits on the route -/
def routeLive (resolverConfigured : Bool) : Bool := Gen.C36.wiringOk && resolverConfigured

/-- the endpoint as deployed -/
def endpoint (resolver : Option Resolver) (cfg : Cfg) (caller : Caller) (rq : Req) : Response × Trace :=
  match resolver with
  | some r => if routeLive true then onPost cfg caller rq r else (disabledPost caller rq, ⟨false, 0⟩)
  | none => (disabledPost caller rq, ⟨false, 0⟩)

end VgiVerif.C36
