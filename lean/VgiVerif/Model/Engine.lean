/-
Engine — message-level model of call semantics (serves C01 C07 C08 C10 C11 and, through the harness, C04 C06 C34).

Layers
  * `Sem`   : what a client must observe, written from the property texts (the spec side lives in Spec/Engine.lean)
  * `Pipe`  : socket-family lockstep protocol — `_serve_unary` / `_serve_stream` (vgi_rpc/rpc/_server.py),
              `_ClientLogSink`, `OutputCollector` ordering, `_flush_collector` (vgi_rpc/rpc/_wire.py, _types.py),
              client `_read_unary_response`, `StreamSession.tick/exchange/__iter__/close` (vgi_rpc/rpc/_client.py)
  * `Http`  : `/init`, `/exchange`, unary — `_run_http_producer_turn` (loop, break decision, cursor token carrying the
              state's step index), `_run_http_exchange_turn` (vgi_rpc/http/server/_app_stream.py), client
              `_init_http_stream_session`, `HttpStreamSession.__iter__/exchange` (vgi_rpc/http/_client.py)
Arrow bytes, codecs, sockets and the AEAD are abstracted: a wire item is one IPC batch with its classification.
No imports (linked into the native driver).
-/
namespace VgiVerif.Engine

abbrev Str := List Char

structure Log where
  level : Str
  text : Str
  extra : List (Str × Str)
deriving Repr, DecidableEq

/-- an exception as the implementation raised it: class name, `str(exc)`, declared `error_kind` -/
structure Exn where
  type : Str
  text : Str
  kind : Option Str
deriving Repr, DecidableEq

/-- identity of a data batch (contents abstracted) with its application metadata -/
structure Batch where
  id : Nat
  rows : Nat
  md : List (Str × Str)
deriving Repr, DecidableEq

inductive Act where
  | emit (b : Batch)
  | finish
  | emitFinish (b : Batch)
  | raise (e : Exn)
  | nothing                       -- process() returns without emitting or finishing
deriving Repr, DecidableEq

/-- one `process()` call: logs, then the action, then logs emitted after the data batch -/
structure Step where
  logs : List Log
  act : Act
  post : List Log
deriving Repr, DecidableEq

/-- what the client-side caller observes, in delivery order -/
inductive Ev where
  | log (l : Log)
  | data (b : Batch)
  | value (v : Nat)
  | header (h : Nat)
  | error (type msg : Str) (kind : Option Str)
  | fin                            -- StopIteration: the stream ended normally
deriving Repr, DecidableEq

/-- the RpcError a client raises for a server-side exception (`Message.from_exception` + `_dispatch_log_or_error`):
type = class name, message = "Class: text", kind = declared error_kind -/
def errEv (e : Exn) : Ev := .error e.type (e.type ++ ": ".toList ++ e.text) e.kind

def noDataExn : Exn := ⟨"RuntimeError".toList, "No data batch was emitted".toList, none⟩
def finishOnExchangeExn : Exn :=
  ⟨"RuntimeError".toList,
   "finish() is not allowed on exchange streams; exchange streams must emit exactly one data batch per call".toList, none⟩

/-- one IPC batch on the wire, as the reader classifies it -/
inductive Item where
  | log (l : Log)
  | data (b : Batch)
  | err (e : Exn)
  | token (pos : Nat)              -- HTTP continuation sentinel; the sealed state carries the step index `pos`
deriving Repr, DecidableEq

/-! ## What the server writes for one `process()` call (shared by pipe and HTTP: `OutputCollector` + `_flush_collector`)

`flushed` = the collector's batches in emission order when the call succeeds; on an exception the collector's LOG
batches (everything but the data batch) are still written, followed by the EXCEPTION batch (repaired: the pinned tree
discarded the collector — known_findings/C08.json). -/

inductive StepOut where
  | cont (items : List Item)       -- data emitted, stream continues
  | done (items : List Item)       -- finished (finish / emit+finish)
  | fail (items : List Item)       -- error batch written, stream over
deriving Repr

def logItems (ls : List Log) : List Item := ls.map .log

def processStep (s : Step) : StepOut :=
  match s.act with
  | .emit b => .cont (logItems s.logs ++ [.data b] ++ logItems s.post)
  | .finish => .done (logItems s.logs ++ logItems s.post)
  | .emitFinish b => .done (logItems s.logs ++ [.data b] ++ logItems s.post)
  | .raise e => .fail (logItems s.logs ++ [.err e])
  | .nothing => .fail (logItems s.logs ++ [.err noDataExn])

/-- an exchange stream runs with `producer_mode = False`: `finish()` raises inside `process()` -/
def processExchangeStep (s : Step) : StepOut :=
  match s.act with
  | .finish => .fail (logItems s.logs ++ logItems s.post ++ [.err finishOnExchangeExn])
  | .emitFinish _ => .fail (logItems s.logs ++ logItems s.post ++ [.err finishOnExchangeExn])
  | _ => processStep s

/-! ## Client-side reading (`_read_batch_with_log_check` / `_dispatch_log_or_error`) -/

inductive ReadEnd where
  | gotData (rest : List Item)     -- returned a data batch; `rest` is still unread in the stream
  | raised                         -- EXCEPTION batch → RpcError (the caller drains / closes)
  | eos                            -- StopIteration
  | gotToken (pos : Nat) (rest : List Item)
deriving Repr

/-- read items until the first non-log batch: logs go to `on_log` as they are met -/
def readUntilData : List Item → List Ev × ReadEnd
  | [] => ([], .eos)
  | .log l :: r => let (evs, e) := readUntilData r; (.log l :: evs, e)
  | .data b :: r => ([.data b], .gotData r)
  | .err e :: _ => ([errEv e], .raised)
  | .token p :: r => ([], .gotToken p r)

/-- deliver the remaining log batches of a stream that is being drained (`close()` after the end) -/
def drainLogs : List Item → List Ev
  | [] => []
  | .log l :: r => .log l :: drainLogs r
  | _ :: _ => []                   -- close() stops at the first error / swallows; data batches are dropped

/-! ## Pipe family -/
namespace Pipe

/-- `_serve_unary` + `_read_unary_response`: logs are written through as they are emitted, then result or error -/
def unaryItems (logs : List Log) (out : Except Exn Nat) : List Item × Option Nat :=
  (logItems logs ++ (match out with | .ok _ => [] | .error e => [.err e]),
   match out with | .ok v => some v | .error _ => none)

def unaryObs (logs : List Log) (out : Except Exn Nat) : List Ev :=
  let (items, v) := unaryItems logs out
  let (evs, e) := readUntilData items
  match e, v with
  | .eos, some v => evs ++ [.value v]     -- the result batch is the data batch; modelled by its value
  | _, _ => evs

/-- Producer, lockstep.  `carry` = items the server already wrote that the client has not read yet (post-logs of the
previous step; the init logs flushed by the sink at the start of the output stream).  Each `tick` lets the server run
one `process()`; the client then reads up to the next data batch.  Iterating to the end: -/
def iterate : List Item → List Step → List Ev
  | carry, [] =>
      -- tick → process past the script's end finishes → EOS; the client reads what is left then StopIteration
      let (evs, _) := readUntilData carry
      evs ++ [.fin]
  | carry, s :: r =>
      match processStep s with
      | .cont items =>
          match readUntilData (carry ++ items) with
          | (evs, .gotData rest) => evs ++ iterate rest r
          | (evs, _) => evs                                   -- unreachable: `cont` always carries a data batch
      | .done items =>
          match readUntilData (carry ++ items) with
          | (evs, .gotData rest) =>
              -- data delivered by this tick; the next tick reads the rest and hits EOS
              evs ++ (readUntilData rest).1 ++ [.fin]
          | (evs, _) => evs ++ [.fin]
      | .fail items =>
          (readUntilData (carry ++ items)).1

/-- Exchange: one `process()` per input; `k`-th input plays `steps[k]` -/
def exchangeOne (carry : List Item) (s : Step) : List Ev × Option (List Item) :=
  match processExchangeStep s with
  | .cont items =>
      match readUntilData (carry ++ items) with
      | (evs, .gotData rest) => (evs, some rest)
      | (evs, _) => (evs, none)
  | .done items => ((readUntilData (carry ++ items)).1, none)
  | .fail items => ((readUntilData (carry ++ items)).1, none)

/-- all inputs of an exchange session, then `close()` (which drains trailing logs) -/
def exchangeAll : List Item → List Step → List Ev
  | carry, [] => drainLogs carry
  | carry, s :: r =>
      match exchangeOne carry s with
      | (evs, some rest) => evs ++ exchangeAll rest r
      | (evs, none) => evs

end Pipe

/-! ## HTTP -/
namespace Http

/-- `_run_http_producer_turn`: run `process()` repeatedly into one response body; after a data batch the break decision
`brk pos` (no cap: always break; cap: break once `tell() ≥ cap`) either mints a cursor token carrying the state's
step index or continues.  `pos` = index of the step about to run. -/
def turn (brk : Nat → Bool) : Nat → List Step → List Item
  | _, [] => []                                   -- process past the end → finish, nothing flushed
  | pos, s :: r =>
      match processStep s with
      | .cont items => items ++ (if brk pos then [.token (pos + 1)] else turn brk (pos + 1) r)
      | .done items => items
      | .fail items => items

/-- the server answering a continuation request: the token's state resumes the script at `pos` -/
def serveContinuation (brk : Nat → Bool) (steps : List Step) (pos : Nat) : List Item :=
  turn brk pos (steps.drop pos)

/-- `/init` response's data stream: sink logs first, then the first producer turn -/
def initBody (brk : Nat → Bool) (initLogs : List Log) (steps : List Step) : List Item :=
  logItems initLogs ++ turn brk 0 steps

/-- `_init_http_stream_session`: parse the init body eagerly: logs → callback, data → pending, token → stop.
Returns (events at open, pending data, cursor, error met after data). -/
structure InitParse where
  evs : List Ev
  pending : List Batch
  cursor : Option Nat
  err : Option Ev
deriving Repr

def parseInit : List Item → InitParse
  | [] => ⟨[], [], none, none⟩
  | .log l :: r => let p := parseInit r; { p with evs := .log l :: p.evs }
  | .data b :: r => let p := parseInit r; { p with pending := b :: p.pending }
  | .err e :: _ => ⟨[], [], none, some (errEv e)⟩
  | .token pos :: _ => ⟨[], [], some pos, none⟩

/-- `HttpStreamSession.__iter__` over one response body: data is yielded as parsed, a token makes the client drain and
send the next continuation; `server` answers a continuation for a cursor. -/
def follow (server : Nat → List Item) : Nat → List Item → List Ev
  | _, [] => [.fin]
  | fuel, .log l :: r => .log l :: follow server fuel r
  | fuel, .data b :: r => .data b :: follow server fuel r
  | _, .err e :: _ => [errEv e]
  | 0, .token _ :: _ => []                        -- out of fuel (never reached for fuel ≥ script length; proved)
  | fuel + 1, .token pos :: _ => follow server fuel (server pos)

/-- what the caller sees from a parsed init body: the eagerly dispatched logs, then the pending batches, then the error
that followed them / end of stream / whatever following the cursor yields -/
def assemble (p : InitParse) (after : Nat → List Ev) : List Ev :=
  p.evs ++ p.pending.map Ev.data ++
    (match p.err with
     | some e => [e]
     | none => match p.cursor with
       | none => [.fin]
       | some pos => after pos)

/-- open + iterate to the end over HTTP -/
def iterate (brk : Nat → Bool) (initLogs : List Log) (steps : List Step) : List Ev :=
  assemble (parseInit (initBody brk initLogs steps))
    (fun pos => follow (serveContinuation brk steps) (steps.length + 1) (serveContinuation brk steps pos))

/-- trailing batches of an exchange response are dispatched to `on_log` before `exchange()` returns -/
def trailing : List Item → List Ev
  | [] => []
  | .log l :: r => .log l :: trailing r
  | .err e :: _ => [errEv e]
  | _ :: r => trailing r

/-- `HttpStreamSession.exchange` reading one response body: logs → callback; at the data batch the rest of the body is
dispatched, then the batch is returned (so the `data` event comes last).  Bool = the session stays usable. -/
def readExchange : List Item → List Ev × Bool
  | [] => ([], false)
  | .log l :: r => let (e, ok) := readExchange r; (.log l :: e, ok)
  | .data b :: r => (trailing r ++ [.data b], true)
  | .err e :: _ => ([errEv e], false)
  | .token _ :: r => readExchange r

/-- `_run_http_exchange_turn` + `HttpStreamSession.exchange`: one request per input -/
def exchangeOne (s : Step) : List Ev × Bool :=
  match processExchangeStep s with
  | .cont items => readExchange items
  | .done items => ((readExchange items).1, false)
  | .fail items => ((readExchange items).1, false)

def exchangeAll : List Step → List Ev
  | [] => []
  | s :: r =>
      match exchangeOne s with
      | (evs, true) => evs ++ exchangeAll r
      | (evs, false) => evs

def unaryObs (logs : List Log) (out : Except Exn Nat) : List Ev := Pipe.unaryObs logs out

end Http

end VgiVerif.Engine
