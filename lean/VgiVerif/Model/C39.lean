import VgiVerif.Prelude.Framing
import VgiVerif.Gen.Describe
import VgiVerif.Gen.Semver
import VgiVerif.Spec.C39
import VgiVerif.Model.C09
/-
C39 model — transliteration of vgi_rpc/introspect.py

  build_describe_batch    → `rows`, `buildDescribe`
  compute_protocol_hash   → `preimage` (an interpreter of the *extracted* `h.update` program `Gen.Describe.prefixOps/rowOps`),
                            `computeProtocolHash` (with the extracted name guards)
  parse_describe_batch    → `parseDescribe`

over an abstract pyarrow (`Env`: `Schema.serialize`, `ipc.read_schema`, `hashlib.sha256(..).hexdigest()`), and of the
server side (`RpcServer.__init__`: what is hashed; `__describe__` and the version gate: via the C09 model).
-/
namespace VgiVerif.C39
open VgiVerif.Framing VgiVerif.Gen.Describe
open VgiVerif.C39.Spec

/-- pyarrow / hashlib as used by introspect.py (modelled, not verified) -/
structure Env (σ : Type) where
  ser : σ → Bytes                 -- `schema.serialize().to_pybytes()`
  de : Bytes → Option σ           -- `pa.ipc.read_schema(pa.py_buffer(b))`; `none` = ArrowInvalid
  shaHex : Bytes → List Char      -- `hashlib.sha256(b).hexdigest()`

/-- one row of the 8-column describe batch (`_DESCRIBE_FIELDS`) -/
structure Row where
  name : List Char
  methodType : List Char
  hasReturn : Bool
  params : Bytes
  result : Bytes
  hasHeader : Bool
  header : Option Bytes
  isExchange : Option Bool
deriving DecidableEq, Repr

abbrev Metadata := List (Bytes × Bytes)

/-- `MethodType.<kind>.value` -/
def kindValue : Kind → List Char
  | .unary => methodTypeUnary
  | .stream => methodTypeStream

/-- `MethodType(value)`; `none` = ValueError -/
def parseKind (s : List Char) : Option Kind :=
  if s = methodTypeUnary then some .unary else if s = methodTypeStream then some .stream else none

/-- Python `a <= b` on `str`: lexicographic by code point -/
def leName : List Char → List Char → Bool
  | [], _ => true
  | _ :: _, [] => false
  | a :: as, b :: bs =>
    if a.toNat < b.toNat then true else if b.toNat < a.toNat then false else leName as bs

/-- `sorted(methods.items())` (keys are unique, so only names are compared) -/
def sortMethods {σ : Type} (ms : List (Method σ)) : List (Method σ) :=
  ms.mergeSort (fun a b => leName a.name b.name)

/-- the values appended to the eight column lists for one method -/
def rowOf {σ : Type} (env : Env σ) (m : Method σ) : Row :=
  { name := m.name
    methodType := kindValue m.kind
    hasReturn := m.hasReturn
    params := env.ser m.params
    result := env.ser m.result
    hasHeader := m.header.isSome
    header := m.header.map env.ser
    isExchange := m.isExchange }

/-- the describe batch: one row per method, sorted by name -/
def rows {σ : Type} (env : Env σ) (svc : Service σ) : List Row :=
  (sortMethods svc.methods).map (rowOf env)

/-! ### `compute_protocol_hash` -/

def strCol (r : Row) : StrCol → List Char
  | .name => r.name
  | .methodType => r.methodType
def boolCol (r : Row) : BoolCol → Bool
  | .hasReturn => r.hasReturn
  | .hasHeader => r.hasHeader
def binCol (r : Row) : BinCol → Bytes
  | .params => r.params
  | .result => r.result

/-- bytes fed to the hash by one pre-loop `h.update` -/
def hop (protocolName : List Char) : HOp → Bytes
  | .lit b => b
  | .protocolName => utf8 protocolName

/-- bytes fed to the hash by one `h.update` of the row loop -/
def rop (r : Row) : ROp → Bytes
  | .lit b => b
  | .str c => utf8 (strCol r c)
  | .bool c t f => if boolCol r c then t else f
  | .optBool n t f => match r.isExchange with
    | none => n
    | some true => t
    | some false => f
  | .bin c => binCol r c
  | .optBin => match r.header with
    | none => []
    | some h => h

def rowBytes (r : Row) : Bytes := rowOps.flatMap (rop r)

/-- the canonical pre-image: exactly the bytes `compute_protocol_hash` feeds to SHA-256 -/
def preimage (protocolName : List Char) (rs : List Row) : Bytes :=
  prefixOps.flatMap (hop protocolName) ++ rs.flatMap rowBytes

/-- `_require_unambiguous_name`: `false` = ValueError -/
def nameAllowed (forbidden : List Nat) (s : List Char) : Bool :=
  s.all (fun c => !forbidden.contains c.toNat)

inductive Err where
  | separatorInName        -- ValueError from `_require_unambiguous_name`
deriving DecidableEq, Repr

/-- names the hash accepts (always `true` when the source has no guard) -/
def namesAllowed (protocolName : List Char) (rs : List Row) : Bool :=
  nameAllowed forbiddenProtocolName protocolName && rs.all (fun r => nameAllowed forbiddenMethodName r.name)

def computeProtocolHash {σ : Type} (env : Env σ) (protocolName : List Char) (rs : List Row) : Except Err (List Char) :=
  if namesAllowed protocolName rs then .ok (env.shaHex (preimage protocolName rs)) else .error .separatorInName

/-! ### `build_describe_batch` -/

/-- `d[k] = v` on an insertion-ordered dict -/
def dictSet {κ ν : Type} [DecidableEq κ] : List (κ × ν) → κ → ν → List (κ × ν)
  | [], k, v => [(k, v)]
  | (k', v') :: t, k, v => if k' = k then (k, v) :: t else (k', v') :: dictSet t k v

/-- `d.get(k)` -/
def dictGet {κ ν : Type} [DecidableEq κ] : List (κ × ν) → κ → Option ν
  | [], _ => none
  | (k', v') :: t, k => if k' = k then some v' else dictGet t k

def dictOf {κ ν : Type} [DecidableEq κ] (kvs : List (κ × ν)) : List (κ × ν) :=
  kvs.foldl (fun d kv => dictSet d kv.1 kv.2) []

def buildMetadata {σ : Type} (svc : Service σ) (hash : List Char) : Metadata :=
  let md := dictOf [
    (protocolNameKey, utf8 svc.name),
    (requestVersionKey, requestVersion),
    (describeVersionKey, utf8 describeVersion),
    (protocolHashKey, utf8 hash),
    (serverIdKey, utf8 svc.serverId)]
  match svc.protocolVersion with
  | none => md
  | some v => dictSet md protocolVersionKey (utf8 v)

/-- `build_describe_batch(protocol.__name__, methods, server_id, protocol_version)` -/
def buildDescribe {σ : Type} (env : Env σ) (svc : Service σ) : Except Err (List Row × Metadata) :=
  let rs := rows env svc
  match computeProtocolHash env svc.name rs with
  | .error e => .error e
  | .ok h => .ok (rs, buildMetadata svc h)

/-- `RpcServer.protocol_hash`; an error means the server cannot be constructed -/
def serverProtocolHash {σ : Type} (env : Env σ) (svc : Service σ) : Except Err (List Char) :=
  computeProtocolHash env svc.name (rows env svc)

/-- the bytes the server's hash is the SHA-256 of -/
def servicePreimage {σ : Type} (env : Env σ) (svc : Service σ) : Bytes := preimage svc.name (rows env svc)

/-- the server accepts the service definition (construction does not raise) -/
def Accepted {σ : Type} (env : Env σ) (svc : Service σ) : Prop := namesAllowed svc.name (rows env svc) = true

/-! ### `parse_describe_batch` -/

inductive ParseErr where
  | undecodable          -- UnicodeDecodeError on a metadata value
  | badMethodType        -- ValueError from `MethodType(...)`
  | badSchema            -- ArrowInvalid from `read_schema`
deriving DecidableEq, Repr

/-- `md.get(key, b"")` -/
def mdGet (md : Metadata) (k : Bytes) : Bytes := (dictGet md k).getD []

def decodeMd (md : Metadata) (k : Bytes) : Except ParseErr (List Char) :=
  match decodeUtf8 (mdGet md k) with
  | some s => .ok s
  | none => .error .undecodable

def readSchema {σ : Type} (env : Env σ) (b : Bytes) : Except ParseErr σ :=
  match env.de b with
  | some s => .ok s
  | none => .error .badSchema

def parseRow {σ : Type} (env : Env σ) (r : Row) : Except ParseErr (MethodView σ) := do
  let kind ← match parseKind r.methodType with
    | some k => pure k
    | none => throw .badMethodType
  let params ← readSchema env r.params
  let result ← readSchema env r.result
  let header ← match r.header with
    | none => pure none
    | some h => do pure (some (← readSchema env h))
  pure { name := r.name, kind := kind, hasReturn := r.hasReturn, params := params, result := result,
         hasHeader := r.hasHeader, header := header, isExchange := r.isExchange }

/-- the row loop: `method_map[name] = MethodDescription(...)` -/
def parseRows {σ : Type} (env : Env σ) : List Row → List (List Char × MethodView σ) →
    Except ParseErr (List (List Char × MethodView σ))
  | [], acc => .ok acc
  | r :: rs, acc =>
    match parseRow env r with
    | .error e => .error e
    | .ok v => parseRows env rs (dictSet acc r.name v)

def parseDescribe {σ : Type} (env : Env σ) (rs : List Row) (md : Metadata) : Except ParseErr (Description σ) := do
  let protocolName ← decodeMd md protocolNameKey
  let requestVersion ← decodeMd md requestVersionKey
  let describeVersion ← decodeMd md describeVersionKey
  let protocolHash ← decodeMd md protocolHashKey
  let serverId ← decodeMd md serverIdKey
  let protocolVersion ← decodeMd md protocolVersionKey
  let methods ← parseRows env rs []
  pure { protocolName, requestVersion, describeVersion, protocolHash, serverId, methods, protocolVersion }

/-- what a client sees: the server builds, the client parses (the transport carries the batch unchanged) -/
inductive DescribeErr where
  | build (e : Err)
  | parse (e : ParseErr)
deriving DecidableEq, Repr

def describe {σ : Type} (env : Env σ) (svc : Service σ) : Except DescribeErr (Description σ) :=
  match buildDescribe env svc with
  | .error e => .error (.build e)
  | .ok (rs, md) =>
    match parseDescribe env rs md with
    | .error e => .error (.parse e)
    | .ok d => .ok d

/-! ### canonical wire view -/

/-- the wire-relevant content in canonical form: protocol name + method views sorted by name -/
def wireView {σ : Type} (svc : Service σ) : List Char × List (MethodView σ) :=
  (svc.name, (sortMethods svc.methods).map Method.view)

/-- the row a method view stands for -/
def rowOfView {σ : Type} (env : Env σ) (v : MethodView σ) : Row :=
  { name := v.name, methodType := kindValue v.kind, hasReturn := v.hasReturn, params := env.ser v.params,
    result := env.ser v.result, hasHeader := v.hasHeader, header := v.header.map env.ser, isExchange := v.isExchange }

/-! ### `_ArrowSchemaDescriptor.__get__` (vgi_rpc/utils.py): where `header_type.ARROW_SCHEMA` and nested record types come from

The schema of a record class is generated lazily and cached on the class.  A class table is a list of optional parent
indices; a cache maps a class to *the class whose generated schema is stored in its `__dict__`*; a touch returns the
class whose generated schema the caller receives (the definition's own schema iff that is the touched class). -/

abbrev Classes := List (Option Nat)
abbrev SchemaCache := List (Nat × Nat)

def parentOf (cs : Classes) (c : Nat) : Option Nat := (cs[c]?).join

/-- `c.__mro__` restricted to record classes (single inheritance), by fuel -/
def mroOf (cs : Classes) : Nat → Nat → List Nat
  | 0, c => [c]
  | f + 1, c => c :: (match parentOf cs c with
    | some p => mroOf cs f p
    | none => [])

/-- the cache-hit test of `__get__`, in the extracted lookup mode -/
def cacheLookup (mode : CacheLookup) (cs : Classes) (cache : SchemaCache) (c : Nat) : Option Nat :=
  match mode with
  | .ownDict => dictGet cache c
  | .mro => (mroOf cs cs.length c).findSome? (fun k => dictGet cache k)

/-- `cls.ARROW_SCHEMA`: (class whose generated schema is returned, new cache) -/
def touchSchema (mode : CacheLookup) (cs : Classes) (cache : SchemaCache) (c : Nat) : Nat × SchemaCache :=
  match cacheLookup mode cs cache c with
  | some k => (k, cache)
  | none => (c, dictSet cache c c)

/-- a sequence of first/later accesses in one process -/
def touchAll (mode : CacheLookup) (cs : Classes) : SchemaCache → List Nat → List Nat
  | _, [] => []
  | cache, c :: rest => (touchSchema mode cs cache c).1 :: touchAll mode cs (touchSchema mode cs cache c).2 rest

/-! ### `__describe__` under a protocol-version mismatch: the C09 gate at the three extracted call sites -/

def describeGate (site : Gen.Semver.GateSite) (srv : Option (Nat × Nat × Nat)) (md : C09.ClientMd) : C09.GateResult :=
  C09.gate site srv describeMethodName md

end VgiVerif.C39
