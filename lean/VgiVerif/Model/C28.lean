import VgiVerif.Gen.C28Shm
/-
C28 model: transliteration of `vgi_rpc/shm.py` over the *extracted* constants and comparison shapes

  ShmAllocator.allocate / free / reset / initialize / _read_allocs / _write_allocs
  _ShmSink.write, ShmSegment.allocate_and_write (both paths)

Two layers, as in the code: list operations on the table (`allocate`, `free`), and the byte-level
segment (`Mem`) the table is read from and written back to on every call (`cStep`).
Python exceptions are result constructors (`valueError`, `raised`).  `struct.error` for values that
do not fit `<I` / `<Q` is not modelled (`leBytes` truncates); `Proofs` shows it is unreachable for
segments below 2^64 bytes.
-/
namespace VgiVerif.C28
open VgiVerif.Gen.C28Shm

/-- `(offset, length)` pairs, in header order -/
abbrev Table := List (Nat × Nat)
/-- the bytes of the segment (header and data region) -/
abbrev Mem := Nat → UInt8

/-! ## The table operations -/

/-- the `for i, (off, length) in enumerate(allocs)` loop of `allocate` followed by the tail check;
    `prevEnd` is the loop variable, the result is `(returned offset, new list)` -/
def scan (size total : Nat) : Nat → Table → Option (Nat × Table)
  | prevEnd, [] =>
    if gapTailCmp.eval ((total : Int) - prevEnd) size then some (prevEnd, [(prevEnd, size)]) else none
  | prevEnd, (off, len) :: rest =>
    if gapInnerCmp.eval ((off : Int) - prevEnd) size then
      some (prevEnd, (prevEnd, size) :: (off, len) :: rest)
    else
      match scan size total (off + len) rest with
      | none => none
      | some (o, t') => some (o, (off, len) :: t')

inductive AllocOut where
  | valueError            -- `raise ValueError("Allocation size must be positive")`
  | none                  -- `return None`
  | some (off : Nat)
deriving Repr, DecidableEq

/-- `ShmAllocator.allocate(size)` on the list read from the header; second component = list written back -/
def allocate (t : Table) (size : Int) (total : Nat) : AllocOut × Table :=
  if sizeGuardCmp.eval size 0 then (.valueError, t)
  else if fullCmp.eval t.length maxAllocs then (.none, t)
  else
    match scan size.toNat total headerSize t with
    | none => (.none, t)
    | some (o, t') => (.some o, t')

/-- `ShmAllocator.free(offset)`: `none` = `ValueError("No allocation at offset …")` -/
def free : Table → Int → Option Table
  | [], _ => none
  | (off, len) :: rest, offset =>
    if freeCmp.eval off offset then some rest
    else (free rest offset).map ((off, len) :: ·)

/-! ## Bytes -/

/-- `w` little-endian bytes of `n` (`struct.pack("<I"/"<Q", n)` for `n < 256^w`) -/
def leBytes : Nat → Nat → List UInt8
  | 0, _ => []
  | w + 1, n => UInt8.ofNat (n % 256) :: leBytes w (n / 256)

/-- little-endian value of a byte string (`struct.unpack`) -/
def leVal : List UInt8 → Nat
  | [] => 0
  | b :: r => b.toNat + 256 * leVal r

/-- `buf[pos : pos + n]` -/
def readBytes (m : Mem) (pos : Nat) : Nat → List UInt8
  | 0 => []
  | n + 1 => m pos :: readBytes m (pos + 1) n

/-- `buf[pos : pos + len(d)] = d` -/
def writeAt (m : Mem) (pos : Nat) (d : List UInt8) : Mem :=
  fun i => if pos ≤ i ∧ i < pos + d.length then d.getD (i - pos) 0 else m i

def offWidth : Nat := entryFields.getD 0 0
def lenWidth : Nat := entryFields.getD 1 0

/-- `_ALLOC_STRUCT.unpack_from(buf, p)` -/
def readEntry (m : Mem) (p : Nat) : Nat × Nat :=
  (leVal (readBytes m p offWidth), leVal (readBytes m (p + offWidth) lenWidth))

/-- the loop of `_read_allocs` (`p = base + i * _ALLOC_STRUCT.size`) -/
def readEntries (m : Mem) : Nat → Nat → Table
  | _, 0 => []
  | p, n + 1 => readEntry m p :: readEntries m (p + entrySize) n

/-- `num_allocs` -/
def readCount (m : Mem) : Nat := leVal (readBytes m countOffset countWidth)

/-- `_read_allocs` -/
def readAllocs (m : Mem) : Table := readEntries m tableBase (readCount m)

/-- `_ALLOC_STRUCT.pack_into(buf, p, offset, length)` -/
def writeEntry (m : Mem) (p : Nat) (e : Nat × Nat) : Mem :=
  writeAt m p (leBytes offWidth e.1 ++ leBytes lenWidth e.2)

/-- the loop of `_write_allocs` -/
def writeEntries (m : Mem) : Nat → Table → Mem
  | _, [] => m
  | p, e :: r => writeEntries (writeEntry m p e) (p + entrySize) r

/-- the zeroed slots `_write_allocs` additionally packs right behind the list (none in the code as it stands; the
    number is extracted, so a source that blanks "the next slot" is modelled as doing so) -/
def trailingSlots : Table := List.replicate writeTrailingSlots (0, 0)

/-- `_write_allocs`: count first, then the entries (then the trailing slots, if the source writes any) -/
def writeAllocs (m : Mem) (t : Table) : Mem :=
  writeEntries (writeAt m countOffset (leBytes countWidth t.length)) tableBase (t ++ trailingSlots)

/-- `ShmAllocator.reset` -/
def resetMem (m : Mem) : Mem := writeAt m countOffset (leBytes countWidth 0)

/-- `ShmAllocator.initialize`: `_HEADER_STRUCT.pack_into(buf, 0, b"VGIS", 1, total - HEADER_SIZE, 0, 0)` -/
def initHeader (m : Mem) (total : Nat) : Mem :=
  writeAt m 0 ([86, 71, 73, 83] ++ leBytes (headerFields.getD 1 0) 1 ++ leBytes (headerFields.getD 2 0) (total - headerSize)
    ++ leBytes (headerFields.getD 3 0) 0 ++ leBytes (headerFields.getD 4 0) 0)

/-! ## The sink and `allocate_and_write` -/

/-- `_ShmSink`: `_pos`, `_start`, `_end` -/
structure Sink where
  pos : Nat
  start : Nat
  end_ : Nat
deriving Repr, DecidableEq

inductive WriteRes where
  | ok
  | overflow       -- `_ShmSinkOverflowError`
  | valueError     -- memoryview slice assignment of unequal lengths (the slice was cut at the end of the buffer)
deriving Repr, DecidableEq

/-- `_ShmSink.write(data)` on a buffer of `bufLen` bytes, for a given shape of the guard in front of the copy
    (`bounded = false`: no guard at all, the shape before the repair) -/
def Sink.writeWith (bounded sticky : Bool) (guard : Cmp) (bufLen : Nat) (s : Sink) (m : Mem) (d : List UInt8) :
    Sink × Mem × WriteRes :=
  if bounded && guard.eval d.length ((s.end_ : Int) - s.pos) then
    ((if sticky then { s with end_ := s.pos } else s), m, .overflow)
  else if s.pos + d.length > bufLen ∧ d.length ≠ 0 then
    (s, m, .valueError)
  else
    ({ s with pos := s.pos + d.length }, writeAt m s.pos d, .ok)

/-- `_ShmSink.write(data)` as extracted from the source -/
def Sink.write (bufLen : Nat) (s : Sink) (m : Mem) (d : List UInt8) : Sink × Mem × WriteRes :=
  s.writeWith sinkBounded sinkSticky sinkGuardCmp bufLen m d

/-- the IPC writer: hands its chunks to `sink.write` one after the other and stops at the first exception -/
def feed (bufLen : Nat) : Sink → Mem → List (List UInt8) → Sink × Mem × WriteRes
  | s, m, [] => (s, m, .ok)
  | s, m, d :: r =>
    match s.write bufLen m d with
    | (s', m', .ok) => feed bufLen s' m' r
    | other => other

/-- a writer that ignores exceptions and keeps calling `write` (used for the containment theorem only) -/
def feedAll (bufLen : Nat) : Sink → Mem → List (List UInt8) → Sink × Mem
  | s, m, [] => (s, m)
  | s, m, d :: r =>
    match s.write bufLen m d with
    | (s', m', _) => feedAll bufLen s' m' r

inductive Out where
  | ok                     -- returned normally without a value (`free`, `reset`)
  | none                   -- returned `None`
  | off (o : Nat)          -- `allocate` returned an offset
  | region (o len : Nat)   -- `allocate_and_write` returned `(offset, length)`
  | valueError             -- raised `ValueError`
deriving Repr, DecidableEq

/-- one call on the segment -/
inductive Op where
  | alloc (size : Int)
  | free (offset : Int)
  | reset
  /-- `allocate_and_write` of a batch without dictionary columns: `rbSize = ipc.get_record_batch_size(batch)`,
      `chunks` = the buffers Arrow's stream writer passes to `sink.write`, in order -/
  | write (rbSize : Nat) (chunks : List (List UInt8))
  /-- `allocate_and_write` of a batch with dictionary columns: `data = _serialize_for_shm(batch)` -/
  | writeDict (data : List UInt8)

/-- `allocator.allocate(size)` against the segment: read the table, work on the list, write it back -/
def cAllocate (total : Nat) (m : Mem) (size : Int) : Mem × AllocOut :=
  match allocate (readAllocs m) size total with
  | (.some o, t') => (writeAllocs m t', .some o)
  | (r, _) => (m, r)

/-- `allocator.free(offset)` against the segment -/
def cFree (m : Mem) (offset : Int) : Mem × Out :=
  match free (readAllocs m) offset with
  | some t' => (writeAllocs m t', .ok)
  | none => (m, .valueError)

/-- size the non-dictionary path asks the allocator for -/
def estimate (rbSize : Nat) : Nat := rbSize + streamOverhead

/-- the sink `allocate_and_write` builds for the allocation at `o` -/
def sinkFor (total o rbSize : Nat) : Sink :=
  ⟨o, o, o + (if sinkLimitIsEstimate then estimate rbSize else total - o)⟩

/-- `allocate_and_write`, non-dictionary path, after `allocate` returned `o` (segment bytes `m1`) -/
def finishWrite (total : Nat) (m1 : Mem) (o rbSize : Nat) (chunks : List (List UInt8)) : Mem × Out :=
  match feed total (sinkFor total o rbSize) m1 chunks with
  | (s, m2, .ok) => (m2, if returnsBytesWritten then .region o (s.pos - s.start) else .valueError)
  | (_, m2, .overflow) =>
    if overflowFrees then
      match cFree m2 o with
      | (m3, .ok) => (m3, .none)
      | (m3, _) => (m3, .valueError)
    else (m2, .valueError)
  | (_, m2, .valueError) => (m2, .valueError)

/-- `ShmSegment.allocate_and_write(batch)` for a batch without dictionary columns -/
def cWrite (total : Nat) (m : Mem) (rbSize : Nat) (chunks : List (List UInt8)) : Mem × Out :=
  match cAllocate total m (estimate rbSize) with
  | (m1, .valueError) => (m1, .valueError)
  | (m1, .none) => (m1, .none)
  | (m1, .some o) => finishWrite total m1 o rbSize chunks

/-- `ShmSegment.allocate_and_write(batch)` for a batch with dictionary columns -/
def cWriteDict (total : Nat) (m : Mem) (data : List UInt8) : Mem × Out :=
  match cAllocate total m data.length with
  | (m1, .valueError) => (m1, .valueError)
  | (m1, .none) => (m1, .none)
  | (m1, .some o) => (writeAt m1 o data, .region o data.length)

def cStep (total : Nat) (m : Mem) : Op → Mem × Out
  | .alloc size =>
    match cAllocate total m size with
    | (m', .some o) => (m', .off o)
    | (m', .none) => (m', .none)
    | (m', .valueError) => (m', .valueError)
  | .free offset => cFree m offset
  | .reset => (resetMem m, .ok)
  | .write rbSize chunks => cWrite total m rbSize chunks
  | .writeDict data => cWriteDict total m data

/-- a whole history from a freshly initialised segment -/
def cRun (total : Nat) (m : Mem) (ops : List Op) : Mem :=
  ops.foldl (fun m op => (cStep total m op).1) m

/-- the table-level step the header-level step refines (`write*` change the table like `alloc`, or not at all) -/
def tStep (total : Nat) (t : Table) : Op → Table
  | .alloc size => (allocate t size total).2
  | .free offset => (free t offset).getD t
  | .reset => []
  | .write rbSize chunks =>
    match allocate t (estimate rbSize) total with
    | (.some o, t') =>
      match (feed total (sinkFor total o rbSize) (fun _ => 0) chunks).2.2 with
      | .overflow => if overflowFrees then (free t' o).getD t' else t'
      | _ => t'
    | (_, t') => t'
  | .writeDict data => (allocate t data.length total).2

def tRun (total : Nat) (t : Table) (ops : List Op) : Table := ops.foldl (tStep total) t

end VgiVerif.C28
