import VgiVerif.Prelude.PyStr
import VgiVerif.Gen.Exempt
/-
C20 model: the authentication gate of the HTTP server and what a request can reach behind it.

Transliterates
* `_AuthMiddleware.process_request` (vgi_rpc/http/server/_middleware.py): the `exempt = (…)` expression — interpreted over
  the *extracted* shape `Gen.Exempt.auth` (which comparison each disjunct applies, which templates feed it) — and the guard
  `if self._authenticate is None or exempt: … return`, else the callback, whose rejection is a 401 raised before routing;
* the exempt lists built in `make_wsgi_app` (vgi_rpc/http/server/_factory.py) as templates over `prefix`, each present
  under its extracted condition;
* the route table registered by `make_wsgi_app` as Falcon's compiled router resolves it (leading slashes stripped, split on
  `/`, a literal segment beats the `{method}` field, fall-through to the field when the literal branch dead-ends);
* which responder of each resource runs service code (`on_post` of the RPC / stream / upload / introspection resources,
  `on_delete` of the session resource, `on_get` of the describe page);
* `rpc_methods` skipping underscore names and `RpcServer` registering `__describe__`.
-/
namespace VgiVerif.C20
open VgiVerif.Gen.Exempt VgiVerif.PyStr

/-- configuration of one `make_wsgi_app(server, …)` call, as far as routing and authentication see it -/
structure Cfg where
  pfx : List Char              -- `prefix`
  authConfigured : Bool        -- `authenticate is not None`
  health : Bool                -- `enable_health_endpoint`
  pkce : Bool                  -- authenticate + OAuth metadata with a client_id  (`_pkce_active`)
  oauthMeta : Bool             -- `oauth_resource_metadata is not None`
  upload : Bool                -- `upload_url_provider is not None`
  sticky : Bool                -- `enable_sticky`
  sizeCap : Bool               -- `max_request_bytes is not None`
  describePage : Bool          -- `enable_describe_page and server.describe_enabled`
  landing : Bool               -- `enable_landing_page`
  introspect : Bool            -- `introspect_resolver is not None`
  attrs : List (List Char)     -- public callables `dir(protocol)` offers to `rpc_methods`
  describe : Bool              -- `RpcServer(enable_describe=True)`
deriving Repr

def condHolds (cfg : Cfg) : Cond → Bool
  | .always => true
  | .health => cfg.health
  | .pkce => cfg.pkce
  | .sizeCap => cfg.sizeCap
  | .sticky => cfg.sticky
  | .upload => cfg.upload
  | .oauthMeta => cfg.oauthMeta
  | .describePage => cfg.describePage
  | .landing => cfg.landing
  | .unknown => true           -- an unrecognised condition is treated as "entry present" (never hides an exemption)

/-- one comparison of `req.path` with an exempt entry `p` -/
def cmpMatch : Cmp → List Char → List Char → Bool
  | .startsWith, p, path => p.isPrefixOf path
  | .exact, p, path => decide (path = p)
  | .exactOrSlash, p, path => decide (path = p) || (p ++ ['/']).isPrefixOf path
  | .unknown, _, _ => true

def verbOptions : List Char := ['O', 'P', 'T', 'I', 'O', 'N', 'S']
def verbPost : List Char := ['P', 'O', 'S', 'T']
def verbGet : List Char := ['G', 'E', 'T']
def verbDelete : List Char := ['D', 'E', 'L', 'E', 'T', 'E']

/-- the `exempt = (…)` expression of `_AuthMiddleware.process_request`, over an extracted shape -/
def exempt (sh : AuthShape) (cfg : Cfg) (verb path : List Char) : Bool :=
  (sh.optionsExempt && decide (verb = verbOptions))
  || sh.literals.any (fun cl => cmpMatch cl.1 cl.2 path)
  || sh.entries.any (fun e => condHolds cfg e.cond && cmpMatch e.cmp (cfg.pfx ++ e.suffix) path)

/-! ### methods -/

/-- `rpc_methods`: names starting with `_` are skipped (when the extracted loop says so) -/
def rpcMethods (attrs : List (List Char)) : List (List Char) :=
  if underscoreSkipped then attrs.filter (fun a => !(['_'].isPrefixOf a)) else attrs

/-- `RpcServer.methods`: the protocol's methods plus the synthetic `__describe__` -/
def serverMethods (cfg : Cfg) : List (List Char) :=
  rpcMethods cfg.attrs ++ (if cfg.describe then [describeName] else [])

/-! ### routing (Falcon `CompiledRouter.find`) -/

/-- `uri.lstrip('/').split('/')` -/
def pathSegs (path : List Char) : List (List Char) := splitOn '/' (path.dropWhile (· = '/'))

/-- segments of the templates' `{prefix}` part (`""` contributes none) -/
def pfxSegs (cfg : Cfg) : List (List Char) := if cfg.pfx = [] then [] else pathSegs cfg.pfx

/-- `rest` when `p ++ rest = s` -/
def stripSegs : List (List Char) → List (List Char) → Option (List (List Char))
  | [], s => some s
  | _ :: _, [] => none
  | a :: p, b :: s => if a = b then stripSegs p s else none

inductive Route where
  | wellKnown | landing | health | describePage | introspect | session | upload
  | oauthCallback | oauthLogout | oauthToken
  | rpc (m : List Char) | init (m : List Char) | exchange (m : List Char)
  | notFound
deriving Repr, DecidableEq

def wkSegs : List (List Char) :=
  [['.', 'w', 'e', 'l', 'l', '-', 'k', 'n', 'o', 'w', 'n'],
   ['o', 'a', 'u', 't', 'h', '-', 'p', 'r', 'o', 't', 'e', 'c', 't', 'e', 'd', '-', 'r', 'e', 's', 'o', 'u', 'r', 'c', 'e']]

def sHealth : List Char := ['h', 'e', 'a', 'l', 't', 'h']
def sDescribe : List Char := ['d', 'e', 's', 'c', 'r', 'i', 'b', 'e']
def sIntrospect : List Char := ['_', '_', 'i', 'n', 't', 'r', 'o', 's', 'p', 'e', 'c', 't', '_', 't', 'o', 'k', 'e', 'n', '_', '_']
def sSession : List Char := ['_', '_', 's', 'e', 's', 's', 'i', 'o', 'n', '_', '_']
def sUpload : List Char := ['_', '_', 'u', 'p', 'l', 'o', 'a', 'd', '_', 'u', 'r', 'l', '_', '_']
def sInit : List Char := ['i', 'n', 'i', 't']
def sExchange : List Char := ['e', 'x', 'c', 'h', 'a', 'n', 'g', 'e']
def sOauth : List Char := ['_', 'o', 'a', 'u', 't', 'h']
def sCallback : List Char := ['c', 'a', 'l', 'l', 'b', 'a', 'c', 'k']
def sLogout : List Char := ['l', 'o', 'g', 'o', 'u', 't']
def sToken : List Char := ['t', 'o', 'k', 'e', 'n']

/-- routes below `{prefix}`: literal routes first, then the `{method}` templates -/
def routeRest (cfg : Cfg) : List (List Char) → Route
  | [x] =>
    if x = sHealth ∧ cfg.health then .health
    else if x = sDescribe ∧ cfg.describePage then .describePage
    else if x = sIntrospect then .introspect
    else if x = sSession ∧ cfg.sticky then .session
    else .rpc x
  | [x, y] =>
    if x = sUpload ∧ y = sInit ∧ cfg.upload then .upload
    else if x = sOauth ∧ y = sCallback ∧ cfg.pkce then .oauthCallback
    else if x = sOauth ∧ y = sLogout ∧ cfg.pkce then .oauthLogout
    else if x = sOauth ∧ y = sToken ∧ cfg.pkce then .oauthToken
    else if y = sInit then .init x
    else if y = sExchange then .exchange x
    else .notFound
  | _ => .notFound

/-- the resource a path resolves to -/
def route (cfg : Cfg) (path : List Char) : Route :=
  let s := pathSegs path
  if cfg.oauthMeta ∧ s = wkSegs then .wellKnown
  else if cfg.oauthMeta ∧ cfg.pfx ≠ [] ∧ cfg.pfx ≠ ['/'] ∧ s = wkSegs ++ pfxSegs cfg then .wellKnown
  else if cfg.landing ∧ s = (if cfg.pfx = [] then [[]] else pfxSegs cfg) then .landing
  else match stripSegs (pfxSegs cfg) s with
    | none => .notFound
    | some rest => routeRest cfg rest

/-! ### service code behind a route -/

inductive Code where
  | unary (m : List Char)            -- `_RpcResource.on_post` → the method (incl. `__describe__` introspection)
  | streamInit (m : List Char)       -- `_StreamInitResource.on_post`
  | streamExchange (m : List Char)   -- `_ExchangeResource.on_post`
  | uploadUrl                        -- `_UploadUrlResource.on_post` → `upload_url_provider.generate_upload_url`
  | tokenIntrospect                  -- `_TokenIntrospectionResource.on_post` → `introspect_resolver`
  | sessionClose                     -- `_SessionResource.on_delete` → session teardown hooks
  | describePage                     -- `_DescribePageResource.on_get` → the service's API description
deriving Repr, DecidableEq

/-- service code a routed request may run (the responder that exists for the verb; a well-formed body is assumed) -/
def serviceCode (cfg : Cfg) (verb : List Char) : Route → List Code
  | .rpc m => if verb = verbPost ∧ m ∈ serverMethods cfg then [.unary m] else []
  | .init m => if verb = verbPost ∧ m ∈ serverMethods cfg then [.streamInit m] else []
  | .exchange m => if verb = verbPost ∧ m ∈ serverMethods cfg then [.streamExchange m] else []
  | .upload => if verb = verbPost then [.uploadUrl] else []
  | .introspect => if verb = verbPost ∧ cfg.introspect then [.tokenIntrospect] else []
  | .session => if verb = verbDelete then [.sessionClose] else []
  | .describePage => if verb = verbGet then [.describePage] else []
  | _ => []

structure Req where
  verb : List Char
  path : List Char
  authOk : Bool          -- would the `authenticate` callback accept this request
deriving Repr

structure Resp where
  authCalled : Bool      -- the callback was consulted
  unauthorized : Bool    -- 401 raised by the middleware (routing never happens)
  code : List Code       -- service code reachable by the request
deriving Repr, DecidableEq

/-- `_AuthMiddleware.process_request` followed by routing and the responder -/
def respond (sh : AuthShape) (cfg : Cfg) (rq : Req) : Resp :=
  if cfg.authConfigured && !exempt sh cfg rq.verb rq.path then
    if rq.authOk then ⟨true, false, serviceCode cfg rq.verb (route cfg rq.path)⟩
    else ⟨true, true, []⟩
  else ⟨false, false, serviceCode cfg rq.verb (route cfg rq.path)⟩

/-- a history of requests against one app instance: the middleware keeps nothing between requests
    (`AuthShape.stateless`, extracted), so each request is answered by `respond` alone, whatever came before it -/
def respondAll (sh : AuthShape) (cfg : Cfg) (history : List Req) : List Resp := history.map (respond sh cfg)

end VgiVerif.C20
