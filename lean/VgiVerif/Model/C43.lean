import VgiVerif.Prelude.Regex
import VgiVerif.Prelude.Xfcc
import VgiVerif.Gen.Xfcc
/-
C43 model: transliteration of the XFCC half of `vgi_rpc/http/_mtls.py` over the *extracted*
constants, regexes and guard shapes (`Gen/Xfcc.lean`):

  `_split_respecting_quotes`  → `split`        (quote / escape state machine, branch order kept)
  `_unescape_quoted`          → `unescape`     (`re.sub(r"\\(.)", r"\1", …)` through the extracted pattern)
  `_parse_xfcc`               → `procPair`, `parseElem`, `parse`
  `_extract_cn`               → `splitCn`, `extractCn`
  `mtls_authenticate_xfcc`    → `select`, `authenticate`

`urllib.parse.unquote` is an environment function: every definition that reaches it takes it as the
parameter `unq`.  `str.strip`, `str.lower`, `str.upper` are the extracted CPython tables.
-/
namespace VgiVerif.C43
open VgiVerif.Regex VgiVerif.Xfcc
open VgiVerif.Gen

/-! ### Python `str` helpers -/

/-- `c` is removed by `str.strip()` -/
def isSpace (c : Char) : Bool := Xfcc.spaceRanges.any fun r => r.1 ≤ c.toNat && c.toNat ≤ r.2

def lstrip : Str → Str
  | [] => []
  | c :: cs => if isSpace c then lstrip cs else c :: cs

def rstrip : Str → Str
  | [] => []
  | c :: cs =>
    match rstrip cs with
    | [] => if isSpace c then [] else [c]
    | h :: t => c :: h :: t

/-- `s.strip()` -/
def strip (s : Str) : Str := rstrip (lstrip s)

/-- code point of `chr(n).lower()` as far as comparisons with ASCII strings can tell -/
def lowerNat (n : Nat) : Nat :=
  match Xfcc.lowerAscii.find? (fun e => e.1 == n) with
  | some e => e.2
  | none => n

/-- `key.lower()` up to equality with an ASCII string: every code point whose `lower()` is ASCII and different
from itself is in the extracted table; any other non-ASCII character keeps the result non-ASCII. -/
def lowerKey (s : Str) : Str := s.map fun c => Char.ofNat (lowerNat c.toNat)

/-- `s.find(sep)` for a one-character `sep`, returned as `(s[:i], s[i+1:])`; `none` is `-1` -/
def cutAt (sep : Char) : Str → Option (Str × Str)
  | [] => none
  | c :: cs =>
    if c = sep then some ([], cs)
    else match cutAt sep cs with
      | none => none
      | some (a, b) => some (c :: a, b)

/-! ### `_split_respecting_quotes` -/

/-- `current.append(c)` seen from the result: the character joins the piece being built -/
def pushHead (c : Char) : List Str → List Str
  | [] => [[c]]
  | h :: t => (c :: h) :: t

/-- `_split_respecting_quotes(text, d)` started with `in_quotes = q`.  Branch order of the loop:
quote toggle, escape (consumes two characters), delimiter, plain append. -/
def split (d : Char) : Bool → Str → List Str
  | _, [] => [[]]
  | q, c :: cs =>
    if c = Xfcc.quoteChar then pushHead c (split d (!q) cs)
    else if c = Xfcc.escapeChar ∧ (q = true ∨ Xfcc.escNeedsQuote = false) then
      match cs with
      | e :: r => pushHead c (pushHead e (split d q r))
      | [] =>  -- `i + 1 < len(text)` is false: the remaining two branches
        if c = d ∧ (q = false ∨ Xfcc.delimNeedsUnquoted = false) then [[], []] else [[c]]
    else if c = d ∧ (q = false ∨ Xfcc.delimNeedsUnquoted = false) then [] :: split d q cs
    else pushHead c (split d q cs)

/-! ### `_unescape_quoted` -/

/-- `re.sub(P, r"\1", text)` where `P` is two single-character atoms and group 1 is the second:
the left-most match at a position is the two-character window there. -/
def unescape : Str → Str
  | [] => []
  | [c] => [c]
  | c :: e :: r => if Xfcc.unescapePat.body.matches [c, e] then e :: unescape r else c :: unescape (e :: r)

/-- `if len(value) >= 2 and value[0] == Q and value[-1] == Q: value = _unescape_quoted(value[1:-1])` -/
def dequote (v : Str) : Str :=
  match v with
  | [] => v
  | o :: rest =>
    if o = Xfcc.valueQuote ∧ rest ≠ [] ∧ rest.getLast? = some Xfcc.valueQuote then unescape rest.dropLast else v

/-! ### `_parse_xfcc` -/

/-- `fields[key] = value`, as far as the six `fields.get(...)` read it back -/
def setScalar (f : Elem) (key value : Str) : Elem :=
  if key = Xfcc.keyHash then { f with hash := some value }
  else if key = Xfcc.keyCert then { f with cert := some value }
  else if key = Xfcc.keySubject then { f with subject := some value }
  else if key = Xfcc.keyUri then { f with uri := some value }
  else if key = Xfcc.keyBy then { f with by_ := some value }
  else f

/-- body of `for pair in pairs:` from `eq_idx = pair.find("=")` on -/
def pairBody (unq : Str → Str) (f : Elem) (pair : Str) : Elem :=
  match cutAt Xfcc.kvSep pair with
  | none => f
  | some (k, v) =>
    let key := lowerKey (strip k)
    let value := dequote (strip v)
    let value := if key ∈ Xfcc.unquoteKeys then unq value else value
    if key = Xfcc.listKey then { f with dns := f.dns ++ [value] }
    else setScalar f key value

/-- body of `for pair in pairs:` -/
def procPair (unq : Str → Str) (f : Elem) (pair : Str) : Elem :=
  let pair := strip pair
  if pair = [] then f else pairBody unq f pair

/-- body of `for raw_element in …:`; `none` is `continue` -/
def parseElem (unq : Str → Str) (raw : Str) : Option Elem :=
  let raw := strip raw
  if raw = [] then none
  else some ((split Xfcc.pairDelim false raw).foldl (procPair unq) Elem.empty)

/-- `_parse_xfcc(header_value)` -/
def parse (unq : Str → Str) (header : Str) : List Elem :=
  (split Xfcc.elemDelim false header).filterMap (parseElem unq)

/-! ### `_extract_cn` -/

/-- `re.split(r"(?<!X)Y", s)`: split at every `Y` whose preceding character (in `s`) is not `X` -/
def splitCn : Option Char → Str → List Str
  | _, [] => [[]]
  | prev, c :: cs =>
    if c = Xfcc.cnSep ∧ prev ≠ some Xfcc.cnNotAfter then [] :: splitCn (some c) cs
    else pushHead c (splitCn (some c) cs)

/-- `chr(c).upper()` as far as `startswith(cnPrefix)` can tell (table = every code point whose upper-casing
starts with a character of the prefix; anything else mismatches at its own first character) -/
def upperOf (c : Char) : Str :=
  match Xfcc.upperTable.find? (fun e => e.1 == c.toNat) with
  | some e => e.2.map Char.ofNat
  | none => [c]

/-- `part.upper().startswith(cnPrefix)` -/
def upperStartsWith (part : Str) : Bool := Xfcc.cnPrefix.isPrefixOf (part.flatMap upperOf)

/-- `_extract_cn(subject)` -/
def extractCn (subject : Str) : Str :=
  match ((splitCn none subject).map strip).find? upperStartsWith with
  | some part => part.drop Xfcc.cnSliceStart
  | none => []

/-! ### `authenticate` -/

/-- Python `xs[i]` (`none` = IndexError) -/
def pyIndex {α} (xs : List α) (i : Int) : Option α :=
  if 0 ≤ i then xs[i.toNat]?
  else if (-i).toNat ≤ xs.length then xs[xs.length - (-i).toNat]? else none

/-- `elements[a] if select_element == L else elements[b]` -/
def select (sel : Str) (es : List Elem) : Option Elem :=
  if sel = Xfcc.selectLiteral then pyIndex es Xfcc.selectThen else pyIndex es Xfcc.selectElse

def truthy : Option Str → Bool
  | some (_ :: _) => true
  | _ => false

/-- `_extract_cn(element.subject) if element.subject else ""` -/
def principalOf (e : Elem) : Str :=
  match e.subject with
  | some (c :: cs) => extractCn (c :: cs)
  | _ => []

def claimName (i : Nat) : String := Xfcc.claimNames.getD i ""

/-- the `claims` dict in insertion order -/
def claimsOf (e : Elem) : List (String × ClaimVal) :=
  (if truthy e.hash then [(claimName 0, ClaimVal.str (e.hash.getD []))] else []) ++
  (if truthy e.subject then [(claimName 1, ClaimVal.str (e.subject.getD []))] else []) ++
  (if truthy e.uri then [(claimName 2, ClaimVal.str (e.uri.getD []))] else []) ++
  (if e.dns ≠ [] then [(claimName 3, ClaimVal.list e.dns)] else []) ++
  (if truthy e.by_ then [(claimName 4, ClaimVal.str (e.by_.getD []))] else [])

/-- what happens once an element is selected -/
def finish (hasValidate : Bool) (e : Elem) : Outcome :=
  if hasValidate then .validated e else .ok (principalOf e) (claimsOf e)

/-- the closure returned by `mtls_authenticate_xfcc(validate=…, select_element=sel)` applied to a request whose
`get_header("x-forwarded-client-cert")` is `hdr` -/
def authenticate (unq : Str → Str) (hasValidate : Bool) (sel : Str) (hdr : Option Str) : Outcome :=
  match hdr with
  | none => .failure Xfcc.missingReason
  | some [] => .failure Xfcc.missingReason
  | some (c :: cs) =>
    match parse unq (c :: cs) with
    | [] => .failure Xfcc.emptyReason
    | e :: es =>
      match select sel (e :: es) with
      | some x => finish hasValidate x
      | none => .failure "IndexError"

end VgiVerif.C43
