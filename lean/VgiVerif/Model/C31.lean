import VgiVerif.Prelude.Regex
import VgiVerif.Prelude.PyStr
import VgiVerif.Gen.Fetch
import VgiVerif.Model.C31Url
/-
C31 model: the bookkeeping of `vgi_rpc/external_fetch.py`
  `_request_following_redirects`, `_head_probe`, `_range_probe`, `_content_length_from_content_range`,
  `_read_response_body`, `_read_range_response_body`, `_compute_ranges`, `_content_range_mismatch`, `_fetch_one_chunk`,
  `_fetch_chunks_with_hedging` (as a serial schedule of chunk attempts), `_fetch_with_probe`, `fetch_url` (one retry)
over the *extracted* constants and comparison shapes (`Gen.Fetch`).

The origin is an arbitrary state machine `σ → Req → (fault | response) × σ`; a response body is a list of network
segments (any segmentation) that may end in a stream fault instead of EOF.  aiohttp, asyncio and the hedge *timing*
are runtime: the model is parameterised by a schedule (`List Nat` = order in which chunk attempts complete, duplicates
are hedges) and the theorems quantify over all schedules.  `urljoin`, the URL validator, the pre-signed test and the
codecs are uninterpreted parameters (`Env`).
-/
namespace VgiVerif.C31
open VgiVerif.Regex VgiVerif.PyStr

abbrev Bytes := List UInt8

inductive Method where
  | head | get
deriving Repr, DecidableEq

structure Req where
  method : Method
  url : Url
  range : Option (Nat × Nat)     -- `Range: bytes=s-e`
deriving Repr, DecidableEq

/-- what the HTTP stack raises instead of a response / instead of EOF -/
inductive Fault where
  | disconnected     -- aiohttp.ServerDisconnectedError
  | reset            -- ConnectionResetError
  | timeout          -- TimeoutError
  | other            -- anything else (wrapped for a request; raw `ClientPayloadError` for a body stream)
deriving Repr, DecidableEq

structure Resp where
  status : Nat
  location : Option (List Char) := none
  contentLength : Option (List Char) := none
  acceptRanges : Option (List Char) := none
  contentEncoding : Option (List Char) := none
  contentRange : Option (List Char) := none
  segs : List Bytes := []            -- the body as the network delivers it
  streamFault : Option Fault := none -- raised after the last segment instead of EOF
deriving Repr

abbrev Origin (σ : Type) := σ → Req → Except Fault Resp × σ

structure Env where
  valid : Url → Bool                                   -- the configured validator accepts
  join : Url → List Char → Option Url                  -- `urljoin(current, location)`; none = it raised
  presigned : Url → Bool                               -- `_is_presigned_url`
  decompress : List Char → Bytes → Nat → Option Bytes  -- `_codec.decompress(codec, data, max_output_size=cap)`; none = it raised
  bracketOk : List Char → Bool                         -- validity of a bracketed host literal (urlsplit)

structure Cfg where
  parallelThreshold : Nat := Gen.Fetch.defParallelThreshold
  chunkSize : Nat := Gen.Fetch.defChunkSize
  maxFetch : Nat := Gen.Fetch.defMaxFetch
  maxDecompressed : Option Nat := Gen.Fetch.defMaxDecompressed
  maxRedirects : Nat := Gen.Fetch.defMaxRedirects
deriving Repr

inductive Err where
  | rejected                                   -- ValueError("ExternalLocation URL rejected: …")
  | requestFailed (m : Method) (shown : List Char)   -- ClientConnectionError("ExternalLocation {m} failed for {redacted}")
  | fault (f : Fault)                          -- raw TimeoutError / ConnectionResetError / ServerDisconnectedError / stream error
  | redirectLimit (shown : List Char)
  | noLocation (shown : List Char)
  | badTarget (shown : List Char)
  | targetParse                                -- urljoin / urlparse raised ValueError
  | httpStatus (status : Nat) (shown : List Char)    -- ClientResponseError with the redacted URL
  | declaredTooLarge
  | bodyTooLarge
  | rangeTooLarge
  | rangeMismatch
  | not206 (status : Nat) (shown : List Char)
  | contentRangeMismatch (shown : List Char)   -- a 206 chunk whose Content-Range contradicts the request / probed size
  | reassembledTooLarge
  | decodeFailed (shown : List Char)
  | decodedTooLarge (shown : List Char)
  | unreachable                                -- model artefact: loop fuel exhausted
  | schedule                                   -- model artefact: schedule ended before every chunk was collected
deriving Repr, DecidableEq

/-- one logical request (a probe, the GET, or one chunk attempt): the URLs actually requested, in order -/
structure Group where
  urls : List Url
  redirects : Nat
deriving Repr, DecidableEq

inductive ReadKind where
  | full
  | range (expected : Nat)
deriving Repr, DecidableEq

/-- bytes handed to the fetch code from one response body -/
structure ReadRec where
  kind : ReadKind
  bytes : Nat
deriving Repr, DecidableEq

structure Trace where
  groups : List Group := []
  reads : List ReadRec := []
deriving Repr

def Trace.app (a b : Trace) : Trace := ⟨a.groups ++ b.groups, a.reads ++ b.reads⟩

structure Out (σ α : Type) where
  val : Except Err α
  tr : Trace
  st : σ

/-- comparison operator as written in the source -/
def cmpNat (op : String) (a b : Nat) : Bool :=
  if op = ">" then decide (a > b)
  else if op = ">=" then decide (a ≥ b)
  else if op = "<" then decide (a < b)
  else if op = "<=" then decide (a ≤ b)
  else if op = "==" then decide (a = b)
  else if op = "!=" then decide (a ≠ b)
  else false

/-! ### `_request_following_redirects` -/

structure FollowRes (σ : Type) where
  val : Except Err Resp
  urls : List Url
  redirects : Nat
  st : σ

def requestError (bracketOk : List Char → Bool) (m : Method) (cur : Url) : Fault → Err
  | .other => .requestFailed m (redact bracketOk cur)
  | f => .fault f

/-- the body of the `for redirect_count in range(max_redirects + K)` loop; `fuel` = iterations left -/
def follow {σ : Type} (env : Env) (o : Origin σ) (cfg : Cfg) (m : Method) (rng : Option (Nat × Nat)) :
    Nat → Nat → σ → Url → FollowRes σ
  | 0, _, s, _ => ⟨.error .unreachable, [], 0, s⟩
  | fuel + 1, count, s, cur =>
    if !env.valid cur then ⟨.error .rejected, [], 0, s⟩
    else
      match o s ⟨m, cur, rng⟩ with
      | (.error f, s') => ⟨.error (requestError env.bracketOk m cur f), [cur], 0, s'⟩
      | (.ok r, s') =>
        if !Gen.Fetch.redirectStatuses.contains r.status then ⟨.ok r, [cur], 0, s'⟩
        else if cmpNat Gen.Fetch.redirectLimitCmp count cfg.maxRedirects then
          ⟨.error (.redirectLimit (redact env.bracketOk cur)), [cur], 0, s'⟩
        else
          match r.location with
          | none => ⟨.error (.noLocation (redact env.bracketOk cur)), [cur], 0, s'⟩
          | some [] => ⟨.error (.noLocation (redact env.bracketOk cur)), [cur], 0, s'⟩
          | some (l :: ls) =>
            match env.join cur (l :: ls) with
            | none => ⟨.error .targetParse, [cur], 0, s'⟩
            | some next =>
              match hasSchemeNetloc env.bracketOk next with
              | .error _ => ⟨.error .targetParse, [cur], 0, s'⟩
              | .ok false => ⟨.error (.badTarget (redact env.bracketOk cur)), [cur], 0, s'⟩
              | .ok true =>
                let r := follow env o cfg m rng fuel (count + 1) s' next
                ⟨r.val, cur :: r.urls, r.redirects + 1, r.st⟩

/-- one call of `_request_following_redirects` -/
def request {σ : Type} (env : Env) (o : Origin σ) (cfg : Cfg) (m : Method) (rng : Option (Nat × Nat))
    (s : σ) (url : Url) : FollowRes σ :=
  follow env o cfg m rng (cfg.maxRedirects + Gen.Fetch.redirectRangeOffset) 0 s url

def FollowRes.trace {σ : Type} (f : FollowRes σ) : Trace := ⟨[⟨f.urls, f.redirects⟩], []⟩

/-! ### body readers -/

/-- `StreamReader.read(n)`: a non-empty prefix of what is buffered, at most `n` bytes; `none` = nothing left -/
def streamRead (n : Nat) : List Bytes → Option (Bytes × List Bytes)
  | [] => none
  | seg :: rest =>
    if seg.isEmpty then streamRead n rest
    else if seg.length ≤ n then some (seg, rest)
    else some (seg.take n, seg.drop n :: rest)

def streamFuel (segs : List Bytes) : Nat := (segs.map (fun s => s.length + 1)).sum + 1

structure ReadRes where
  val : Except Err Bytes
  bytes : Nat
deriving Repr

/-- `_read_response_body` loop -/
def readBodyLoop (maxFetch : Nat) (fault : Option Fault) : Nat → List Bytes → Nat → Bytes → ReadRes
  | 0, _, total, _ => ⟨.error .unreachable, total⟩
  | fuel + 1, segs, total, acc =>
    match streamRead Gen.Fetch.readChunk segs with
    | none =>
      match fault with
      | some f => ⟨.error (.fault f), total⟩
      | none => ⟨.ok acc, total⟩
    | some (chunk, segs') =>
      if cmpNat Gen.Fetch.fullReadGuard (total + chunk.length) maxFetch then ⟨.error .bodyTooLarge, total + chunk.length⟩
      else readBodyLoop maxFetch fault fuel segs' (total + chunk.length) (acc ++ chunk)

def readBody (cfg : Cfg) (r : Resp) : ReadRes :=
  readBodyLoop cfg.maxFetch r.streamFault (streamFuel r.segs) r.segs 0 []

/-- `_read_range_response_body` loop -/
def readRangeLoop (maxFetch expected : Nat) (fault : Option Fault) : Nat → List Bytes → Nat → Bytes → ReadRes
  | 0, _, total, _ => ⟨.error .unreachable, total⟩
  | fuel + 1, segs, total, acc =>
    let sentinel := min (expected - total + 1) (maxFetch - total + 1)
    match streamRead (min Gen.Fetch.rangeReadChunk (max 1 sentinel)) segs with
    | none =>
      match fault with
      | some f => ⟨.error (.fault f), total⟩
      | none => if cmpNat Gen.Fetch.rangeFinalGuard total expected then ⟨.error .rangeMismatch, total⟩ else ⟨.ok acc, total⟩
    | some (chunk, segs') =>
      if cmpNat Gen.Fetch.rangeMaxGuard (total + chunk.length) maxFetch then ⟨.error .rangeTooLarge, total + chunk.length⟩
      else if cmpNat Gen.Fetch.rangeExpectedGuard (total + chunk.length) expected then ⟨.error .rangeMismatch, total + chunk.length⟩
      else readRangeLoop maxFetch expected fault fuel segs' (total + chunk.length) (acc ++ chunk)

def readRange (cfg : Cfg) (expected : Nat) (r : Resp) : ReadRes :=
  readRangeLoop cfg.maxFetch expected r.streamFault (streamFuel r.segs) r.segs 0 []

/-! ### header parsing -/

def isPyDigit (c : Char) : Bool := Gen.Fetch.digitZeros.any (fun z => z ≤ c.toNat && c.toNat < z + 10)

def digitVal (c : Char) : Nat :=
  match Gen.Fetch.digitZeros.find? (fun z => z ≤ c.toNat && c.toNat < z + 10) with
  | some z => c.toNat - z
  | none => 0

/-- `int(s)` for a string of decimal digits (`ValueError` above the interpreter's digit limit) -/
def pyIntDigits (s : List Char) : Option Nat :=
  if s.isEmpty || s.length > Gen.Fetch.maxStrDigits then none
  else some (s.foldl (fun a c => a * 10 + digitVal c) 0)

/-- `int(header)` for a `Content-Length` value as the HTTP parser lets it through (ASCII digits) -/
def parseContentLength (s : List Char) : Option Nat :=
  if s.all isAsciiDigit then pyIntDigits s else none

def regexAccepts (p : Pat) (kind : String) (s : List Char) : Bool :=
  if kind = "match" then p.pyMatch s
  else if kind = "fullmatch" then p.pyFullmatch s
  else if kind = "search" then p.pySearch s
  else false

/-- `_content_length_from_content_range`: group 1 is the digit run after the (only) `/` -/
def parseContentRange (s : List Char) : Option Nat :=
  if regexAccepts Gen.Fetch.contentRangePattern Gen.Fetch.contentRangeCall s && Gen.Fetch.contentRangeGroup1 then
    pyIntDigits ((partitionC '/' s).2.2.takeWhile isPyDigit)
  else none

/-- the three groups of the chunk `Content-Range` pattern (`bytes s-e/(total|*)`), cut deterministically once it matched -/
def chunkRangeGroups (s : List Char) : List Char × List Char × List Char :=
  let afterUnit := ((s.dropWhile (fun c => !isPyDigit c)))
  let g1 := afterUnit.takeWhile isPyDigit
  let r1 := (afterUnit.dropWhile isPyDigit).drop 1          -- the '-'
  let g2 := r1.takeWhile isPyDigit
  let r2 := (r1.dropWhile isPyDigit).drop 1                  -- the '/'
  let g3 := match r2 with
    | '*' :: _ => ['*']
    | _ => r2.takeWhile isPyDigit
  (g1, g2, g3)

/-- `_content_range_mismatch(...) is not None` -/
def contentRangeMismatch (cr : Option (List Char)) (start stop : Nat) (total : Option Nat) : Bool :=
  match cr with
  | none => false
  | some s =>
    if regexAccepts Gen.Fetch.chunkRangePattern Gen.Fetch.chunkRangeCall s && Gen.Fetch.chunkRangeCheckRecognised then
      let g := chunkRangeGroups s
      match pyIntDigits g.1, pyIntDigits g.2.1 with
      | some a, some b =>
        if g.2.2 = ['*'] then (a != start || b != stop)
        else match pyIntDigits g.2.2 with
          | none => false
          | some t =>
            if a != start || b != stop then true
            else match total with
              | some n => t != n
              | none => false
      | _, _ => false
    else false

def isSpace (c : Char) : Bool := Gen.Fetch.spaceRanges.any (fun r => r.1 ≤ c.toNat && c.toNat ≤ r.2)

/-- `s.strip()` -/
def strip (s : List Char) : List Char := ((s.dropWhile isSpace).reverse.dropWhile isSpace).reverse

def lowerAscii (s : List Char) : List Char := s.map asciiLower

structure Probe where
  len : Option Nat
  acceptRanges : List Char
  contentEncoding : List Char
deriving Repr, DecidableEq

def statusOk (status : Nat) : Bool := 200 ≤ status && status < 300

/-! ### probes -/

/-- `_head_probe` -/
def headProbe {σ : Type} (env : Env) (o : Origin σ) (cfg : Cfg) (s : σ) (url : Url) : Out σ Probe :=
  let f := request env o cfg .head none s url
  match f.val with
  | .error e => ⟨.error e, f.trace, f.st⟩
  | .ok r =>
    if Gen.Fetch.headFallback.contains r.status then ⟨.ok ⟨none, [], []⟩, f.trace, f.st⟩
    else if !statusOk r.status then ⟨.error (.httpStatus r.status (redact env.bracketOk url)), f.trace, f.st⟩
    else
      ⟨.ok ⟨r.contentLength.bind parseContentLength, r.acceptRanges.getD [], r.contentEncoding.getD []⟩, f.trace, f.st⟩

/-- `_range_probe` -/
def rangeProbe {σ : Type} (env : Env) (o : Origin σ) (cfg : Cfg) (s : σ) (url : Url) : Out σ Probe :=
  let f := request env o cfg .get (some (0, 0)) s url
  match f.val with
  | .error e => ⟨.error e, f.trace, f.st⟩
  | .ok r =>
    let ce := r.contentEncoding.getD []
    if r.status = 206 then
      let rd := readRange cfg 1 r
      let tr : Trace := ⟨f.trace.groups, [⟨.range 1, rd.bytes⟩]⟩
      match rd.val with
      | .error e => ⟨.error e, tr, f.st⟩
      | .ok _ => ⟨.ok ⟨parseContentRange (r.contentRange.getD []), r.acceptRanges.getD "bytes".toList, ce⟩, tr, f.st⟩
    else if r.status = 200 then ⟨.ok ⟨none, [], ce⟩, f.trace, f.st⟩
    else if Gen.Fetch.rangeFallback.contains r.status then ⟨.ok ⟨none, [], []⟩, f.trace, f.st⟩
    else if statusOk r.status then ⟨.ok ⟨none, [], ce⟩, f.trace, f.st⟩
    else ⟨.error (.httpStatus r.status (redact env.bracketOk url)), f.trace, f.st⟩

/-! ### parallel path -/

/-- `_compute_ranges` (inclusive ends) -/
def computeRanges (n c : Nat) : List (Nat × Nat) :=
  (List.range ((n + c - 1) / c)).map fun i => (i * c, min (i * c + c - 1) (n - 1))

/-- `_fetch_one_chunk` -/
def fetchOneChunk {σ : Type} (env : Env) (o : Origin σ) (cfg : Cfg) (s : σ) (url : Url) (rg : Nat × Nat)
    (total : Option Nat := none) : Out σ Bytes :=
  let f := request env o cfg .get (some rg) s url
  match f.val with
  | .error e => ⟨.error e, f.trace, f.st⟩
  | .ok r =>
    if !statusOk r.status then ⟨.error (.httpStatus r.status (redact env.bracketOk url)), f.trace, f.st⟩
    else if r.status ≠ 206 then ⟨.error (.not206 r.status (redact env.bracketOk url)), f.trace, f.st⟩
    else if contentRangeMismatch r.contentRange rg.1 rg.2 total then
      ⟨.error (.contentRangeMismatch (redact env.bracketOk url)), f.trace, f.st⟩
    else
      let expected := rg.2 - rg.1 + 1
      let rd := readRange cfg expected r
      ⟨rd.val, ⟨f.trace.groups, [⟨.range expected, rd.bytes⟩]⟩, f.st⟩

def lookup (i : Nat) : List (Nat × Bytes) → Option Bytes
  | [] => none
  | (j, b) :: r => if j = i then some b else lookup i r

/-- `b"".join(results[i] for i in range(len(ranges)))`; `none` if a chunk is missing -/
def assemble (results : List (Nat × Bytes)) : Nat → Option Bytes
  | 0 => some []
  | n + 1 =>
    match assemble results n, lookup n results with
    | some a, some b => some (a ++ b)
    | _, _ => none

def collected (results : List (Nat × Bytes)) (n : Nat) : Bool := (List.range n).all (fun i => (lookup i results).isSome)

/-- the collection loop of `_fetch_chunks_with_hedging` over a completion schedule of chunk attempts -/
def collect {σ : Type} (env : Env) (o : Origin σ) (cfg : Cfg) (url : Url) (total : Option Nat) (ranges : List (Nat × Nat)) :
    List Nat → List (Nat × Bytes) → Trace → σ → Out σ (List (Nat × Bytes))
  | [], results, tr, s =>
    if collected results ranges.length then ⟨.ok results, tr, s⟩ else ⟨.error .schedule, tr, s⟩
  | i :: rest, results, tr, s =>
    if collected results ranges.length then ⟨.ok results, tr, s⟩     -- `break`: remaining attempts are cancelled
    else
      match ranges[i]? with
      | none => collect env o cfg url total ranges rest results tr s
      | some rg =>
        let r := fetchOneChunk env o cfg s url rg total
        match r.val with
        | .error e =>
          if (lookup i results).isSome then collect env o cfg url total ranges rest results (tr.app r.tr) r.st   -- lost hedge
          else ⟨.error e, tr.app r.tr, r.st⟩
        | .ok data =>
          if (lookup i results).isSome then collect env o cfg url total ranges rest results (tr.app r.tr) r.st
          else collect env o cfg url total ranges rest ((i, data) :: results) (tr.app r.tr) r.st

/-- `_fetch_chunks_with_hedging` -/
def fetchChunks {σ : Type} (env : Env) (o : Origin σ) (cfg : Cfg) (sched : List Nat) (s : σ) (url : Url) (n : Nat) :
    Out σ Bytes :=
  let ranges := computeRanges n cfg.chunkSize
  let c := collect env o cfg url (some n) ranges sched [] {} s
  match c.val with
  | .error e => ⟨.error e, c.tr, c.st⟩
  | .ok results =>
    match assemble results ranges.length with
    | none => ⟨.error .schedule, c.tr, c.st⟩
    | some ordered =>
      if cmpNat Gen.Fetch.reassembledGuard ordered.length cfg.maxFetch then ⟨.error .reassembledTooLarge, c.tr, c.st⟩
      else ⟨.ok ordered, c.tr, c.st⟩

/-! ### `_fetch_with_probe` -/

def maxDecoded (cfg : Cfg) : Nat :=
  match cfg.maxDecompressed with
  | none => cfg.maxFetch * Gen.Fetch.decodedFactor
  | some m => m

/-- the codec named by a `Content-Encoding` value, if it is one of `Encoding` -/
def codecOf (contentEncoding : List Char) : Option (List Char) :=
  let ce := lowerAscii (strip contentEncoding)
  let ce := if ce.isEmpty then ce else strip (partitionC ';' ce).1
  Gen.Fetch.encodings.find? (· == ce)

/-- decompress + decoded-size cap -/
def decodeStep (env : Env) (cfg : Cfg) (url : Url) (contentEncoding : List Char) (data : Bytes) : Except Err Bytes :=
  match codecOf contentEncoding with
  | none =>
    if data.length > maxDecoded cfg then .error (.decodedTooLarge (redact env.bracketOk url)) else .ok data
  | some codec =>
    match env.decompress codec data (maxDecoded cfg) with
    | none => .error (.decodeFailed (redact env.bracketOk url))
    | some d => if d.length > maxDecoded cfg then .error (.decodedTooLarge (redact env.bracketOk url)) else .ok d

/-- the simple path: one GET, whole body -/
def singleGet {σ : Type} (env : Env) (o : Origin σ) (cfg : Cfg) (s : σ) (url : Url) (probeCe : List Char) :
    Out σ (Bytes × List Char) :=
  let f := request env o cfg .get none s url
  match f.val with
  | .error e => ⟨.error e, f.trace, f.st⟩
  | .ok r =>
    if !statusOk r.status then ⟨.error (.httpStatus r.status (redact env.bracketOk url)), f.trace, f.st⟩
    else
      let ce := match r.contentEncoding with
        | some (c :: cs) => c :: cs
        | _ => probeCe
      let rd := readBody cfg r
      let tr : Trace := ⟨f.trace.groups, [⟨.full, rd.bytes⟩]⟩
      match rd.val with
      | .error e => ⟨.error e, tr, f.st⟩
      | .ok data => ⟨.ok (data, ce), tr, f.st⟩

def useParallel (cfg : Cfg) (p : Probe) : Bool :=
  match p.len with
  | none => false
  | some n => contains "bytes".toList (lowerAscii p.acceptRanges) && cmpNat Gen.Fetch.parallelCmp n cfg.parallelThreshold
      && (!Gen.Fetch.parallelNonEmpty || decide (n > 0))

/-- the guard "reject before downloading": a declared size above `max_fetch_bytes` -/
def declaredOver (cfg : Cfg) (p : Probe) : Bool :=
  match p.len with
  | some n => cmpNat Gen.Fetch.declaredGuard n cfg.maxFetch
  | none => false

/-- `_fetch_with_probe` up to (not including) the decode step: the encoded bytes and the codec header that applies -/
def fetchEncoded {σ : Type} (env : Env) (o : Origin σ) (cfg : Cfg) (sched : List Nat) (s : σ) (url : Url) :
    Out σ (Bytes × List Char) :=
  let p := if env.presigned url then rangeProbe env o cfg s url else headProbe env o cfg s url
  match p.val with
  | .error e => ⟨.error e, p.tr, p.st⟩
  | .ok pr =>
    if declaredOver cfg pr then
      ⟨.error .declaredTooLarge, p.tr, p.st⟩
    else if useParallel cfg pr then
      let d := fetchChunks env o cfg sched p.st url (pr.len.getD 0)
      match d.val with
      | .error e => ⟨.error e, p.tr.app d.tr, d.st⟩
      | .ok data => ⟨.ok (data, pr.contentEncoding), p.tr.app d.tr, d.st⟩
    else
      let d := singleGet env o cfg p.st url pr.contentEncoding
      ⟨d.val, p.tr.app d.tr, d.st⟩

/-- `_fetch_with_probe` -/
def fetchWithProbe {σ : Type} (env : Env) (o : Origin σ) (cfg : Cfg) (sched : List Nat) (s : σ) (url : Url) : Out σ Bytes :=
  let e := fetchEncoded env o cfg sched s url
  match e.val with
  | .error err => ⟨.error err, e.tr, e.st⟩
  | .ok (data, ce) => ⟨decodeStep env cfg url ce data, e.tr, e.st⟩

def retryable : Err → Bool
  | .fault .disconnected => true
  | .fault .reset => true
  | _ => false

/-! ### the bounded inflate loops of `_codec` (what keeps "decoded bytes held" near the cap) -/

/-- the per-call output limit handed to the library: `min(_DECOMPRESS_CHUNK_BYTES, max_output_size - total + K)` -/
def inflateLimit (off cap total : Nat) : Nat := min Gen.Fetch.inflateChunk (cap - total + off)

/-- what the library produces for one call when `avail` more decoded bytes exist: at most the limit —
except that a limit of `0` means *unlimited* for `zlib.Decompress.decompress` (and an empty read, i.e. EOF, for a zstd reader) -/
def libAnswer (zeroIsUnlimited : Bool) (limit avail : Nat) : Nat :=
  if limit = 0 then (if zeroIsUnlimited then avail else 0) else min limit avail

/-- decoded bytes produced by the loop `total += len(chunk); if total <guard> cap: raise` over successive library calls
(`avail` = how much each call could produce), until it raises or the input ends -/
def inflateTotal (zeroIsUnlimited : Bool) (guard : String) (off cap : Nat) : List Nat → Nat → Nat
  | [], total => total
  | a :: rest, total =>
    let out := libAnswer zeroIsUnlimited (inflateLimit off cap total) a
    if cmpNat guard (total + out) cap then total + out
    else inflateTotal zeroIsUnlimited guard off cap rest (total + out)

/-- the environment an attempt runs in: the caller's validator if `fetch_url` hands `url_validator` to that attempt's
`_fetch_with_probe`, no validator otherwise (extracted per attempt: `firstAttemptValidated`, `retryValidated`) -/
def withValidator (env : Env) (forwarded : Bool) : Env :=
  if forwarded then env else { env with valid := fun _ => true }

/-- `fetch_url`: the fetch, retried once after a stale-connection error (schedules of the two attempts may differ) -/
def fetchUrl {σ : Type} (env : Env) (o : Origin σ) (cfg : Cfg) (sched1 sched2 : List Nat) (s : σ) (url : Url) : Out σ Bytes :=
  let a := fetchWithProbe (withValidator env Gen.Fetch.firstAttemptValidated) o cfg sched1 s url
  match a.val with
  | .error e =>
    if retryable e && Gen.Fetch.retryRecognised then
      let b := fetchWithProbe (withValidator env Gen.Fetch.retryValidated) o cfg sched2 a.st url
      ⟨b.val, a.tr.app b.tr, b.st⟩
    else a
  | .ok _ => a

/-- one fetch of a sequence issued on one long-lived `FetchConfig`: the validator (and the other callbacks) current at that
time, the two completion schedules, the URL -/
structure SeqStep where
  env : Env
  sched1 : List Nat
  sched2 : List Nat
  url : Url

/-- fetches issued one after the other on ONE `FetchConfig` against one (stateful) origin.  The code keeps nothing of a fetch
for the next one (`Gen.Fetch.validationStateless`; the pooled session carries connections only), so each is `fetchUrl` under
its own validator, started in the origin state the previous one left. -/
def fetchSeq {σ : Type} (o : Origin σ) (cfg : Cfg) : List SeqStep → σ → List (SeqStep × Out σ Bytes)
  | [], _ => []
  | st :: rest, s =>
    let r := fetchUrl st.env o cfg st.sched1 st.sched2 s st.url
    (st, r) :: fetchSeq o cfg rest r.st

end VgiVerif.C31
