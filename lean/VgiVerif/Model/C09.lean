import VgiVerif.Prelude.Regex
import VgiVerif.Prelude.PyStr
import VgiVerif.Gen.Semver
/-
C09 model: `parse_version`, `RpcServer._check_protocol_version`, and the gate placed in front of
dispatch at the three call sites (pipe `serve_one`, HTTP unary, HTTP stream init).
Transliteration of vgi_rpc/metadata.py and vgi_rpc/rpc/_server.py over the *extracted* regex.
-/
namespace VgiVerif.C09
open VgiVerif.Regex VgiVerif.PyStr

/-- value of one decimal digit as Python's `int()` sees it (any Unicode `Nd` code point) -/
def digitVal (c : Char) : Nat :=
  match Gen.Semver.digitZeros.find? (fun z => z ≤ c.toNat && c.toNat < z + 10) with
  | some z => c.toNat - z
  | none => 0

/-- `int(s)` for a string of decimal digits -/
def pyInt (s : List Char) : Nat := s.foldl (fun a c => a * 10 + digitVal c) 0

/-- `SEMVER_REGEX.<callKind>(s) is not None` -/
def regexAccepts (s : List Char) : Bool :=
  if Gen.Semver.callKind = "match" then Gen.Semver.pattern.pyMatch s
  else if Gen.Semver.callKind = "fullmatch" then Gen.Semver.pattern.pyFullmatch s
  else if Gen.Semver.callKind = "search" then Gen.Semver.pattern.pySearch s
  else false

/-- the text the three groups are cut from (a `$` anchor may leave one trailing newline unmatched) -/
def matchedText (s : List Char) : List Char :=
  if Gen.Semver.pattern.endAnchor = .dollar then dropTrailingNewline s else s

/-- `parse_version`: `none` models `ValueError` -/
def parseVersion (s : List Char) : Option (Nat × Nat × Nat) :=
  if regexAccepts s && Gen.Semver.returnsIntGroups then
    match splitOn '.' (matchedText s) with
    | [a, b, c] => some (pyInt a, pyInt b, pyInt c)
    | _ => none
  else none

/-- what the client put under `vgi_rpc.protocol_version` -/
inductive ClientMd where
  | absent
  | undecodable            -- bytes that are not UTF-8
  | text (s : List Char)
deriving Repr, DecidableEq

inductive Direction where
  | notDeclared | undecodable | malformed | clientTooOld | serverTooOld
deriving Repr, DecidableEq

inductive GateResult where
  | pass
  /-- `ProtocolVersionError`; `clientShown = none` is the `<not declared>` / `<undecodable bytes>` placeholder -/
  | refuse (clientShown : Option (List Char)) (dir : Direction)
deriving Repr, DecidableEq

/-- `_check_protocol_version` (server version already parsed to `srv`) -/
def check (srv : Nat × Nat × Nat) : ClientMd → GateResult
  | .absent => .refuse none .notDeclared
  | .undecodable => .refuse none .undecodable
  | .text s =>
    match parseVersion s with
    | none => .refuse (some s) .malformed
    | some (a, b, _) =>
      if a = srv.1 ∧ b = srv.2.1 then .pass
      else if a < srv.1 ∨ (a = srv.1 ∧ b < srv.2.1) then .refuse (some s) .clientTooOld
      else .refuse (some s) .serverTooOld

/-- the gate in front of dispatch at one call site -/
def gate (site : Gen.Semver.GateSite) (srv : Option (Nat × Nat × Nat)) (method : List Char)
    (md : ClientMd) : GateResult :=
  match srv with
  | none => .pass
  | some v => if method = site.exempt then .pass else check v md

end VgiVerif.C09
