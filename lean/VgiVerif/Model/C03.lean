import VgiVerif.Prelude.PyVal
import VgiVerif.Prelude.DcAnn
import VgiVerif.Gen.C03
/-
C03 model — `ArrowSerializableDataclass` (vgi_rpc/utils.py) and the HTTP state payload (vgi_rpc/http/server/_state_token.py).

  infer / inferF        `_infer_arrow_type`, `_ArrowSchemaDescriptor._generate_schema`
  ser / toRow           `_convert_value_for_serialization`, `_to_row_dict`
  serBytes              `_serialize` + `serialize_to_bytes`           (Arrow = `Py.arrowRT`, environment)
  deser / nested        `_convert_value_for_deserialization`
  fromRow / fromBytes   `_validate_single_row_batch`, `deserialize_from_batch`, `deserialize_from_bytes`
  compactPlan, serializeCompact, deserializeCompact        `_compact_plan`, `serialize_compact`, `deserialize_compact`
  serializeState, resolveStateCls, deserializeStateBytes   `_serialize_state_bytes`, `_resolve_state_cls`, `_deserialize_state_bytes`

Serialization dispatches on the *runtime type* of a value in Python; the model dispatches on the annotation, which
coincides on well-typed instances (`inhabits`) — the only instances the checks generate; the order of the
runtime-type tests is extracted (`Gen.C03.serBranches`) and pinned by a theorem.  Deserialization is
annotation-directed in the code and here.  Shapes that were defects on the pinned tree (element conversion for
frozenset / dict; the compact plan claiming explicit-ArrowType fields) are read from `Gen.C03`, so the model follows the source.
-/
namespace VgiVerif.C03
open VgiVerif.Py

def scalarATy (s : Scalar) : ATy :=
  match Gen.C03.scalarArrow.lookup s.name with
  | some t => t
  | Option.none => .binary

mutual
/-- `_infer_arrow_type` -/
def infer : Ann → ATy
  | .scalar s => scalarATy s
  | .intW w => .int w
  | .float32 => .f32
  | .enum _ => .dictStr
  | .opt a => infer a
  | .list a => .list (infer a)
  | .set a => .list (infer a)
  | .map k v => .map (infer k) (infer v)
  | .dc _ fs => .struct (inferF fs)
  | .dcBin _ _ => .binary
  | .schema => .binary
  | .batch => .binary
/-- `_generate_schema`: transient fields do not appear -/
def inferF : Fields → List (List Char × ATy)
  | .nil => []
  | .cons n tr _ a rest => if tr then inferF rest else (n, infer a) :: inferF rest
end

/-- one `(k, v)` item of a dict -/
def pairM (fk fv : V → R V) (p : V × V) : R V := do
  let a ← fk p.1
  let b ← fv p.2
  pure (.tuple [a, b])

mutual
/-- `_convert_value_for_serialization` -/
def ser (env : Env) : Ann → V → R V
  | _, .none => .ok .none
  | .opt a, v => ser env a v
  | .enum _, .enum n => .ok (.str n)
  | .list a, .list xs => do let ys ← xs.mapM (ser env a); pure (.list ys)
  | .set a, .set xs => do let ys ← xs.mapM (ser env a); pure (.list ys)
  | .map k v, .dict kvs => do let ys ← kvs.mapM (pairM (ser env k) (ser env v)); pure (.list ys)
  | .dc _ fs, .obj _ ofs => do let row ← toRow env fs ofs; pure (.dict row)
  | .dcBin _ fs, .obj _ ofs => do let row ← toRow env fs ofs; pure (.dict row)   -- the binary marker only acts on a field
  | .schema, .arrowObj k i => .ok (.ipc (.arrowObj k i))
  | .batch, .arrowObj k i => .ok (.ipc (.arrowObj k i))
  | _, v => .ok v
/-- one field of `_to_row_dict`: a `binary_dataclass` field holding a dataclass is `value.serialize_to_bytes()`,
anything else is converted -/
def serField (env : Env) : Ann → V → R V
  | .dcBin _ fs, .obj _ ofs => do
    let row ← toRow env fs ofs
    let r ← arrowS env (inferF fs) row
    pure (.ipc (.dict r))
  | .opt (.dcBin _ fs), .obj _ ofs => do
    let row ← toRow env fs ofs
    let r ← arrowS env (inferF fs) row
    pure (.ipc (.dict r))
  | a, v => ser env a v
/-- `_to_row_dict`: non-transient fields, `getattr(self, name)` converted -/
def toRow (env : Env) : Fields → List (List Char × V) → R (List (V × V))
  | .nil, _ => .ok []
  | .cons n tr _ a rest, ofs =>
    if tr then toRow env rest ofs
    else
      match fieldGet ofs n with
      | Option.none => .error .typeError           -- AttributeError: not an instance of the class
      | some v => do
        let x ← serField env a v
        let r ← toRow env rest ofs
        pure ((.str n, x) :: r)
end

/-- `_serialize` + `serialize_to_bytes`: one typed array per schema column (a `None` cell is a null), then IPC -/
def serBytes (env : Env) (fs : Fields) (ofs : List (List Char × V)) : R V := do
  let row ← toRow env fs ofs
  let r ← arrowS env (inferF fs) row
  pure (.ipc (.dict r))

/-- `inner_type[value]`, then (legacy) the member whose value equals `value` -/
def enumLookup (ms : List (List Char × Option (List Char))) (s : List Char) : R V :=
  if ms.any (fun m => m.1 == s) then .ok (.enum s)
  else if Gen.C03.enumFallbackByValue then
    match ms.find? (fun m => m.2 == some s) with
    | some m => .ok (.enum m.1)
    | Option.none => .error .keyError
  else .error .keyError

/-- one element of the `as_py()` form of a map: `for k, v in pairs` -/
def unpair : V → R (V × V)
  | .tuple [a, b] => .ok (a, b)
  | .list [a, b] => .ok (a, b)
  | .tuple _ => .error .valueError
  | .list _ => .error .valueError
  | _ => .error .typeError

/-- are all non-transient fields without a default present in the row? (`required_fields`; a 0-column batch skips the test) -/
def requiredOk : Fields → List (V × V) → Bool
  | .nil, _ => true
  | .cons n tr d _ rest, row =>
    (tr || d.isSome || (dictGet row n).isSome) && requiredOk rest row

mutual
/-- `_convert_value_for_deserialization` -/
def deser (env : Env) : Ann → V → R V
  | _, .none => .ok .none
  | .opt a, v => deser env a v
  | .schema, v =>
    if isBytes v then
      match v with
      | .bytes [] => .ok .none
      | .ipc (.arrowObj 0 i) => .ok (.arrowObj 0 i)
      | _ => .error .ipcError
    else .error .typeError
  | .batch, v =>
    if isBytes v then
      match v with
      | .bytes [] => .ok .none
      | .ipc (.arrowObj 1 i) => .ok (.arrowObj 1 i)
      | _ => .error .ipcError
    else .error .typeError
  | .dc n fs, v =>
    if isBytes v then
      match v with
      | .bytes [] => do let o ← fromRow env fs Option.none; pure (.obj n o)
      | .ipc (.dict row) => if row.isEmpty || requiredOk fs row then do let o ← fromRow env fs (some row); pure (.obj n o) else .error .valueError
      | _ => .error .ipcError
    else
      match v with
      | .dict kvs => do let o ← nested env fs kvs; pure (.obj n o)
      | v => .ok v
  | .dcBin n fs, v =>
    if isBytes v then
      match v with
      | .bytes [] => do let o ← fromRow env fs Option.none; pure (.obj n o)
      | .ipc (.dict row) => if row.isEmpty || requiredOk fs row then do let o ← fromRow env fs (some row); pure (.obj n o) else .error .valueError
      | _ => .error .ipcError
    else
      match v with
      | .dict kvs => do let o ← nested env fs kvs; pure (.obj n o)
      | v => .ok v
  | .enum ms, v =>
    match v with
    | .str s => enumLookup ms s
    | _ => .error .typeError
  | .set a, .list xs =>
    if Gen.C03.setRecurses then do let ys ← xs.mapM (deser env a); pure (.set (dedup ys))
    else .ok (.set (dedup xs))
  | .map k v, .list xs => do
    let ps ← xs.mapM unpair
    if Gen.C03.dictRecurses then do
      let qs ← ps.mapM (fun p => do let a ← deser env k p.1; let b ← deser env v p.2; pure (a, b))
      pure (.dict (dictOfPairs qs))
    else pure (.dict (dictOfPairs ps))
  | .list a, .list xs => do let ys ← xs.mapM (deser env a); pure (.list ys)
  | _, v => .ok v
/-- the nested-dataclass branch: `inner_type(**nested_kwargs)` from a struct dict -/
def nested (env : Env) : Fields → List (V × V) → R (List (List Char × V))
  | .nil, _ => .ok []
  | .cons n tr d a rest, kvs =>
    if tr then
      match d with
      | some dv => do let r ← nested env rest kvs; pure ((n, dv) :: r)
      | Option.none => .error .typeError            -- `__init__() missing 1 required positional argument`
    else do
      let x ← deser env a ((dictGet kvs n).getD .none)
      let r ← nested env rest kvs
      pure ((n, x) :: r)
/-- `deserialize_from_batch` after the single-row / required-field validation: `row = none` is the 0-column batch -/
def fromRow (env : Env) : Fields → Option (List (V × V)) → R (List (List Char × V))
  | .nil, _ => .ok []
  | .cons n tr d a rest, row =>
    let present := if tr then Option.none else (match row with | some r => dictGet r n | Option.none => Option.none)
    match present with
    | some v => do
      let x ← deser env a v
      let r ← fromRow env rest row
      pure ((n, x) :: r)
    | Option.none =>
      match d with
      | some dv => do let r ← fromRow env rest row; pure ((n, dv) :: r)
      | Option.none => .error .typeError            -- `cls(**kwargs)` misses the argument
end

/-- `cls.deserialize_from_bytes(data)` -/
def fromBytes (env : Env) (n : List Char) (fs : Fields) (data : V) : R V :=
  match data with
  | .bytes [] => do let o ← fromRow env fs Option.none; pure (.obj n o)
  | .ipc (.dict row) => if row.isEmpty || requiredOk fs row then do let o ← fromRow env fs (some row); pure (.obj n o) else .error .valueError
  | _ => .error .ipcError

/-- field-level round trip: converted, stored in a typed Arrow column, read back with `as_py()`, converted back -/
def roundtrip (env : Env) (a : Ann) (v : V) : R V := do
  let w ← ser env a v
  let x ← arrowRT env (infer a) w
  deser env a x

/-- `cls.deserialize_from_bytes(obj.serialize_to_bytes())` -/
def roundtripBytes (env : Env) (n : List Char) (fs : Fields) (ofs : List (List Char × V)) : R V := do
  let b ← serBytes env fs ofs
  fromBytes env n fs b

/-! ### compact codec -/

/-- top-level `Annotated[…, ArrowType(…)]` on the field -/
def hasExplicitArrowType : Ann → Bool
  | .intW _ | .float32 | .dcBin _ _ => true
  | .opt (.dcBin _ _) => true
  | _ => false

def compactClaims (s : Scalar) : Bool := (Gen.C03.compactTypes.lookup s.name).isSome

/-- `_COMPACT_TYPES.get(inner)` for the Optional-unwrapped, top-level-`Annotated`-stripped annotation -/
def compactScalar (a : Ann) : Option Scalar :=
  if Gen.C03.compactRefusesExplicit && hasExplicitArrowType a then Option.none
  else
    match a with
    | .scalar s => if compactClaims s then some s else Option.none
    | .opt (.scalar s) => if compactClaims s then some s else Option.none
    | .intW _ => if compactClaims .int then some .int else Option.none          -- reachable only without the guard
    | .float32 => if compactClaims .float then some .float else Option.none
    | _ => Option.none

/-- `_compact_plan`: `(name, annotation, exact scalar type)` of every non-transient field, or none -/
def compactPlan (haveMsgpack : Bool) : Fields → Option (List (List Char × Ann × Scalar))
  | .nil => if haveMsgpack then some [] else Option.none
  | .cons n tr _ a rest =>
    if !haveMsgpack then Option.none
    else if tr then compactPlan haveMsgpack rest
    else
      match compactScalar a with
      | Option.none => Option.none
      | some s =>
        match compactPlan haveMsgpack rest with
        | Option.none => Option.none
        | some p => some ((n, a, s) :: p)

/-- `isinstance(value, field.runtime)` -/
def runtimeOk (s : Scalar) (v : V) : Bool :=
  let names := (Gen.C03.compactTypes.lookup s.name).getD []
  match v with
  | .bytes _ | .ipc _ | .packed _ | .tagged _ _ => names.contains "bytes"
  | .str _ => names.contains "str"
  | .int _ => names.contains "int"
  | .bool _ => names.contains "bool" || names.contains "int"       -- bool is a subclass of int
  | .float _ => names.contains "float"
  | _ => false

/-- `type(value) is field.exact` -/
def exactOk (s : Scalar) (v : V) : Bool :=
  match s, v with
  | .bytes, .bytes _ | .bytes, .ipc _ | .bytes, .packed _ | .bytes, .tagged _ _ => true
  | .str, .str _ => true
  | .int, .int _ => true
  | .float, .float _ => true
  | .bool, .bool _ => true
  | _, _ => false

/-- what `msgpack.packb` does with one value of a flat row: ok / `OverflowError` / `TypeError` -/
inductive PackRes where
  | ok | overflow | unsupported
deriving DecidableEq, Repr

def packScalar : V → PackRes
  | .none | .bool _ | .float _ | .str _ | .bytes _ | .ipc _ | .packed _ | .tagged _ _ => .ok
  | .int i => if decide (-9223372036854775808 ≤ i) && decide (i ≤ 18446744073709551615) then .ok else .overflow
  | _ => .unsupported

def packRow : List (V × V) → PackRes
  | [] => .ok
  | (_, v) :: r =>
    match packScalar v with
    | .ok => packRow r
    | e => e

/-- `serialize_compact`: `none` = "use Arrow" -/
def serializeCompact (env : Env) (haveMsgpack : Bool) (fs : Fields) (ofs : List (List Char × V)) : R (Option V) :=
  match compactPlan haveMsgpack fs with
  | Option.none => .ok Option.none
  | some plan => do
    let row ← toRow env fs ofs
    if plan.all (fun f => match dictGet row f.1 with
        | Option.none => true
        | some .none => true
        | some v => runtimeOk f.2.2 v) then
      match packRow row with
      | .ok => pure (some (.packed (.dict row)))
      | .overflow => .error .overflow                 -- `OverflowError` is not caught by `serialize_compact`
      | .unsupported => pure Option.none
    else pure Option.none

/-- the keyword arguments `deserialize_compact` collects from the plan fields present in the map -/
def compactKwargs (env : Env) : List (List Char × Ann × Scalar) → List (V × V) → R (List (List Char × V))
  | [], _ => .ok []
  | (n, a, s) :: rest, row =>
    match dictGet row n with
    | Option.none => compactKwargs env rest row
    | some v => do
      let x ← if exactOk s v then pure v else deser env a v
      let r ← compactKwargs env rest row
      pure ((n, x) :: r)

/-- `cls(**kwargs)`: every field in order from kwargs, a transient field from its default, a missing one from its default -/
def construct : Fields → List (List Char × V) → R (List (List Char × V))
  | .nil, _ => .ok []
  | .cons n tr d _ rest, kw =>
    match (if tr then Option.none else fieldGet kw n) with
    | some v => do let r ← construct rest kw; pure ((n, v) :: r)
    | Option.none =>
      match d with
      | some dv => do let r ← construct rest kw; pure ((n, dv) :: r)
      | Option.none => .error .typeError

def firstByte : V → Option Nat
  | .bytes (b :: _) => some b.toNat
  | .ipc _ => some Gen.C03.ipcFirstByte
  | .packed _ => some Gen.C03.compactMarker
  | .tagged _ _ => some Gen.C03.unionMarker
  | _ => Option.none

/-- `deserialize_compact` -/
def deserializeCompact (env : Env) (haveMsgpack : Bool) (n : List Char) (fs : Fields) (data : V) : R V :=
  match compactPlan haveMsgpack fs with
  | Option.none => .error .ipcError
  | some plan =>
    if firstByte data != some Gen.C03.compactMarker then .error .ipcError
    else
      match data with
      | .packed (.dict row) => do
        let kw ← compactKwargs env plan row
        let o ← construct fs kw
        pure (.obj n o)
      | _ => .error .ipcError

/-! ### HTTP state payload -/

structure StateCls where
  name : List Char
  fs : Fields

inductive StateInfo where
  | single (c : StateCls)
  | union (cs : List StateCls)

/-- `_serialize_state_bytes` -/
def serializeState (env : Env) (haveMsgpack : Bool) (info : StateInfo) (n : List Char) (fs : Fields)
    (ofs : List (List Char × V)) : R V := do
  let c ← serializeCompact env haveMsgpack fs ofs
  let sb ← match c with
    | some b => pure b
    | Option.none => serBytes env fs ofs
  match info with
  | .single _ => pure sb
  | .union cs =>
    match cs.findIdx? (fun c => c.name == n) with
    | Option.none => .error .runtimeError
    | some tag => if tag ≤ Gen.C03.tagMax then pure (.tagged tag sb) else .error .valueError

/-- `_resolve_state_cls` -/
def resolveStateCls (info : StateInfo) (data : V) : R (StateCls × V) :=
  match info with
  | .single c => .ok (c, data)
  | .union cs =>
    if firstByte data != some Gen.C03.unionMarker then .error .runtimeError
    else
      match data with
      | .tagged tag inner =>
        match cs[tag]? with
        | some c => .ok (c, inner)
        | Option.none => .error .runtimeError
      | .bytes (_ :: lo :: hi :: rest) =>
        match cs[lo.toNat + 256 * hi.toNat]? with
        | some c => .ok (c, .bytes rest)
        | Option.none => .error .runtimeError
      | _ => .error .runtimeError

/-- `_deserialize_state_bytes` -/
def deserializeStateBytes (env : Env) (haveMsgpack : Bool) (c : StateCls) (raw : V) : R V :=
  if firstByte raw == some Gen.C03.compactMarker then deserializeCompact env haveMsgpack c.name c.fs raw
  else fromBytes env c.name c.fs raw

/-- the continuation path of `_app_stream`: resolve the class, then decode -/
def deserializeState (env : Env) (haveMsgpack : Bool) (info : StateInfo) (data : V) : R V := do
  let (c, raw) ← resolveStateCls info data
  deserializeStateBytes env haveMsgpack c raw

end VgiVerif.C03
