import VgiVerif.Model.Engine
import VgiVerif.Gen.C10
/-
C10 — stream lifecycle: the Engine model extended with
  * `coerceInput`  : `_coerce_input_batch` (vgi_rpc/rpc/_wire.py) — field-set equality, reorder by `select`, `cast`
                     (Arrow castability is the environment `Env.cast`);
  * the open phase : header IPC stream carrying the sink's logs, then the output stream (both transports);
  * client ops at ANY point — `next` (one `next(it)` on the session's iterator), `tick`, `send`, `close`, `cancel` —
    as step functions over an explicit session state:
      `PipeM` : `StreamSession.exchange/tick/__iter__/close/cancel/_drain_output` (vgi_rpc/rpc/_client.py) against the
                loop of `_serve_stream` with its CANCEL_KEY branch (vgi_rpc/rpc/_server.py);
      `HttpM` : `_init_http_stream_session`, `HttpStreamSession.__iter__/exchange/close/cancel` (vgi_rpc/http/_client.py)
                against `_run_stream_exchange_sync` (cancel branch, producer turn, exchange turn) in
                vgi_rpc/http/server/_app_stream.py.
  Ghost fields record what the server did (`slog`: every `process` / `on_cancel` call with the state's step index and
  the input schema the state saw) and how often the client reached it (`writes` / `reqs`).
No Mathlib; linked into the native driver.
-/
namespace VgiVerif.C10
open VgiVerif.Engine

/-! ## Input batches and `_coerce_input_batch` -/

structure Field where
  name : Str
  ty : Str                        -- Arrow's rendering of type and nullability: "int64", "double not null", …
deriving Repr, DecidableEq

abbrev Schema := List Field

structure Col where
  name : Str
  ty : Str
  data : Nat                      -- identity of the column's values
deriving Repr, DecidableEq

structure IBatch where
  cols : List Col
deriving Repr, DecidableEq

def Col.field (c : Col) : Field := ⟨c.name, c.ty⟩
def IBatch.schema (b : IBatch) : Schema := b.cols.map Col.field
def names (s : Schema) : List Str := s.map (·.name)

/-- Arrow castability: `cast data fromTy toTy` = identity of the cast column, `none` when `cast` raises
ArrowInvalid / ArrowNotImplementedError / ValueError (value dependent: overflow, unparsable strings, nulls) -/
structure Env where
  cast : Nat → Str → Str → Option Nat

/-- `str(schema)` for flat schemas -/
def render (s : Schema) : Str :=
  List.intercalate "\n".toList (s.map fun f => f.name ++ ": ".toList ++ f.ty)

def mismatchExn (decl got : Schema) : Exn :=
  ⟨Gen.C10.coerceCastRaises.toList,
   (Gen.C10.mismatchParts.getD 0 "").toList ++ render decl ++ (Gen.C10.mismatchParts.getD 2 "").toList ++ render got, none⟩

/-- `set(a) == set(b)` -/
def sameSet (a b : List Str) : Bool := a.all (fun x => b.contains x) && b.all (fun x => a.contains x)

/-- one name of `RecordBatch.select(names)`: the column must be unique (pyarrow raises `KeyError` otherwise) -/
def selectCol (cols : List Col) (n : Str) : Option Col :=
  match cols.filter (fun c => c.name = n) with
  | [c] => some c
  | _ => none

def selectCols (cols : List Col) : List Str → Option (List Col)
  | [] => some []
  | n :: r =>
    match selectCol cols n with
    | none => none
    | some c =>
      match selectCols cols r with
      | none => none
      | some cs => some (c :: cs)

/-- `RecordBatch.cast(target_schema)` column by column (names already agree position-wise) -/
def castCols (env : Env) : List Col → Schema → Option (List Col)
  | [], [] => some []
  | c :: cs, f :: fs =>
    match env.cast c.data c.ty f.ty with
    | none => none
    | some d =>
      match castCols env cs fs with
      | none => none
      | some r => some (⟨f.name, f.ty, d⟩ :: r)
  | _, _ => none

/-- `_coerce_input_batch(batch, target_schema)`, statement by statement -/
def coerceInput (env : Env) (decl : Schema) (b : IBatch) : Except Exn IBatch :=
  if b.schema = decl then .ok b                                               -- fast path
  else if !sameSet (names b.schema) (names decl) then .error (mismatchExn decl b.schema)
  else
    match (if names b.schema ≠ names decl then
             (match selectCols b.cols (names decl) with
              | some cs => Except.ok (IBatch.mk cs)
              | none => .error (mismatchExn decl b.schema))      -- a declared name occurs twice: KeyError → TypeError
           else .ok b) with
    | .error e => .error e
    | .ok b1 =>
      if b1.schema ≠ decl then
        match castCols env b1.cols decl with
        | some cs => .ok ⟨cs⟩
        | none => .error (mismatchExn decl b1.schema)
      else .ok b1

/-- the zero-column tick batch of producer streams -/
def tickBatch : IBatch := ⟨[]⟩

/-! ## Programs -/

/-- what the server did, in order -/
inductive SEv where
  | process (k : Nat) (insch : Schema)     -- `state.process` call number `k` of the state; schema of the input it received
  | onCancel (k : Nat)                     -- `state.on_cancel`, with the state's step index
deriving Repr, DecidableEq

structure Prog where
  decl : Schema                   -- declared input schema; `[]` (= `_EMPTY_SCHEMA`) makes it a producer
  steps : List Step
deriving Repr

def Prog.isProducer (p : Prog) : Bool := p.decl.isEmpty

/-- the step script's `k`-th call; past its end a producer finishes and an exchange echoes (harness convention) -/
def Prog.stepAt (p : Prog) (k : Nat) : Step :=
  match p.steps[k]? with
  | some s => s
  | none => if p.isProducer then ⟨[], .finish, []⟩ else ⟨[], .emit ⟨1000 + k, 1, []⟩, []⟩

/-- `OutputCollector(producer_mode = input_schema == _EMPTY_SCHEMA)` + `state.process` + `validate` + flush -/
def runStep (p : Prog) (k : Nat) : StepOut :=
  if p.isProducer then processStep (p.stepAt k) else processExchangeStep (p.stepAt k)

/-! ### One `process()` call at collector-operation level

`OutputCollector.client_log / emit / finish` (vgi_rpc/rpc/_types.py) may be called in ANY order inside one `process()`
call; the server looks at the collector only after the call returned (`validate`, `_flush_collector`, `out.finished`).
`collect` plays an ordered operation list against the collector's guards; `normalize` is the Engine `Step` the call
amounts to.  Nothing in it depends on whether `finish()` came before or after `emit()` — unless `emit` refuses a finished
collector, which the extracted `Gen.C10.emitRefusesAfterFinish` would switch on. -/

inductive COp where
  | log (l : Log)
  | emit (b : Batch)
  | finish
  | raise (e : Exn)
deriving Repr, DecidableEq

structure Acc where
  pre : List Log                  -- client logs before the data batch
  data : Option Batch             -- `_data_batch_idx is not None`
  post : List Log                 -- client logs after the data batch
  fin : Bool                      -- `_finished`
deriving Repr

def onlyOneDataExn : Exn := ⟨"RuntimeError".toList, Gen.C10.onlyOneDataMsg.toList, none⟩
def emitAfterFinishExn : Exn := ⟨"RuntimeError".toList, Gen.C10.emitAfterFinishMsg.toList, none⟩

/-- run the operations up to the first exception (the state's own `raise`, or a collector guard);
`pm` = `producer_mode`, `raf` = emit refuses a finished collector -/
def collect (pm raf : Bool) : Acc → List COp → Acc × Option Exn
  | a, [] => (a, none)
  | a, .log l :: r =>
    collect pm raf (match a.data with
                    | some _ => { a with post := a.post ++ [l] }
                    | none => { a with pre := a.pre ++ [l] }) r
  | a, .emit b :: r =>
    match a.data with
    | some _ => (a, some onlyOneDataExn)
    | none => if raf && a.fin then (a, some emitAfterFinishExn) else collect pm raf { a with data := some b } r
  | a, .finish :: r => if pm then collect pm raf { a with fin := true } r else (a, some finishOnExchangeExn)
  | a, .raise e :: _ => (a, some e)

/-- the Engine step one call amounts to: on an exception the logs emitted so far and the error (the data batch of a
failed call is never written); otherwise data / finish as the collector stands when the call returns -/
def normalizeWith (pm raf : Bool) (ops : List COp) : Step :=
  match collect pm raf ⟨[], none, [], false⟩ ops with
  | (a, some e) => ⟨a.pre ++ a.post, .raise e, []⟩
  | (a, none) =>
    match a.data, a.fin with
    | some b, true => ⟨a.pre, .emitFinish b, a.post⟩
    | some b, false => ⟨a.pre, .emit b, a.post⟩
    | none, true => ⟨a.pre, .finish, []⟩
    | none, false => ⟨a.pre, .nothing, []⟩

def normalize (pm : Bool) (ops : List COp) : Step := normalizeWith pm Gen.C10.emitRefusesAfterFinish ops

structure Method where
  prog : Prog
  header : Option Nat             -- declared header (its value), `none` = the method declares no header type
  initLogs : List Log             -- `ctx.client_log` calls of the method body (go to the sink)
  init : Option Exn               -- the method body raised before returning its `Stream`
deriving Repr

/-- log batches as the `on_log` callbacks they cause -/
def lgEv (ls : List Log) : List Ev := ls.map .log

def isData : Ev → Bool | .data _ => true | _ => false
def isHeader : Ev → Bool | .header _ => true | _ => false
def isError : Ev → Bool | .error .. => true | _ => false

/-- deliver the log batches of a stream that is being drained to its end (`_drain_output`: EXCEPTION and data batches
are stepped over) -/
def drainAll : List Item → List Ev
  | [] => []
  | .log l :: r => .log l :: drainAll r
  | _ :: r => drainAll r

/-! ## Socket family -/
namespace PipeM

structure St where
  k : Nat                         -- server: the state's step index (`process` calls so far)
  live : Bool                     -- server: still inside the `while True` loop of `_serve_stream`
  unread : List Item              -- written by the server, not yet read by the client
  closed : Bool                   -- client: `_closed`
  genDead : Bool                  -- client: the generator returned by `__iter__` has terminated
  wschema : Option Schema         -- client: schema of `_input_writer` (fixed by the first batch written)
  slog : List SEv                 -- ghost
  writes : Nat                    -- ghost: number of times the client wrote to the transport
deriving Repr

def refusedEv : Ev := .error Gen.C10.pipeRefuseType.toList Gen.C10.pipeRefuseMsg.toList none

/-- `_write_batch` on a writer opened with another schema: pyarrow raises ArrowInvalid → RpcError("TransportError") -/
def transportEv (op : String) : Ev :=
  .error "TransportError".toList ("Transport failed during stream ".toList ++ op.toList ++ " (write)".toList) none

/-- one pass of the `_serve_stream` loop body for a non-cancel input batch -/
def serveBatch (env : Env) (p : Prog) (s : St) (b : IBatch) : St × List Item :=
  if !s.live then (s, [])                                   -- the server is past its loop, draining input
  else
    match coerceInput env p.decl b with
    | .error e => ({ s with live := false }, [.err e])
    | .ok b' =>
      let s' := { s with k := s.k + 1, slog := s.slog ++ [.process s.k b'.schema] }
      match runStep p s.k with
      | .cont items => (s', items)
      | .done items => ({ s' with live := false }, items)
      | .fail items => ({ s' with live := false }, items)

/-- `close()` -/
def close (s : St) : St × List Ev :=
  if s.closed then (s, [])
  else ({ s with closed := true, live := false, unread := [], writes := s.writes + 1 }, drainAll s.unread)

/-- `cancel()`: the server meets the CANCEL_KEY batch inside its loop (→ `on_cancel`, break) or while draining -/
def cancel (s : St) : St × List Ev :=
  if s.closed then (s, [])
  else
    ({ s with closed := true, live := false, unread := [], writes := s.writes + 1,
              slog := if s.live then s.slog ++ [.onCancel s.k] else s.slog },
     drainAll s.unread)

inductive Outcome where
  | data | error | eos
deriving Repr, DecidableEq

/-- `_read_response` (+ `close()` on RpcError) once the server has reacted with `items` -/
def recv (s2 : St) (items : List Item) : St × List Ev × Outcome :=
  match readUntilData (s2.unread ++ items) with
  | (evs, .gotData rest) => ({ s2 with unread := rest }, evs, .data)
  | (evs, .raised) =>
    let r := close { s2 with unread := [] }
    (r.1, evs ++ r.2, .error)
  | (evs, .eos) => ({ s2 with unread := [] }, evs, .eos)
  | (evs, .gotToken _ rest) => ({ s2 with unread := rest }, evs, .eos)      -- never written by this server

/-- the batch's schema differs from the one the input IPC writer was opened with -/
def wrongSchema (s : St) (b : IBatch) : Bool :=
  match s.wschema with
  | some w => decide (w ≠ b.schema)
  | none => false

/-- the common part of `exchange()` and `tick()`: guard, `_write_batch`, `_read_response`, close on RpcError -/
def sendRecv (env : Env) (p : Prog) (op : String) (s : St) (b : IBatch) : St × List Ev × Outcome :=
  if s.closed then (s, [refusedEv], .error)
  else if wrongSchema s b then
    ({ s with closed := true }, [transportEv op], .error)
  else
    let r := serveBatch env p { s with wschema := some b.schema, writes := s.writes + 1 } b
    recv r.1 r.2

/-- `exchange(input)`: StopIteration propagates without closing -/
def exchange (env : Env) (p : Prog) (s : St) (b : IBatch) : St × List Ev :=
  match sendRecv env p "exchange" s b with
  | (s', evs, .eos) => (s', evs ++ [.fin])
  | (s', evs, _) => (s', evs)

/-- `tick()`: closes on StopIteration as well -/
def tick (env : Env) (p : Prog) (s : St) : St × List Ev × Outcome :=
  match sendRecv env p "tick" s tickBatch with
  | (s', evs, .eos) =>
    let r := close s'
    (r.1, evs ++ r.2 ++ [.fin], .eos)
  | r => r

/-- one `next(it)` on the generator of `__iter__` (`while True: yield self.tick()` / `except StopIteration: break`) -/
def next (env : Env) (p : Prog) (s : St) : St × List Ev × Bool :=
  if s.genDead then (s, [.fin], false)
  else
    match tick env p s with
    | (s', evs, .data) => (s', evs, true)
    | (s', evs, _) => ({ s' with genDead := true }, evs, false)

inductive Op where
  | next | tick | send (b : IBatch) | close | cancel
deriving Repr

def step (env : Env) (p : Prog) (s : St) : Op → St × List Ev
  | .next => let (s', e, _) := next env p s; (s', e)
  | .tick => let (s', e, _) := tick env p s; (s', e)
  | .send b => exchange env p s b
  | .close => close s
  | .cancel => cancel s

def run (env : Env) (p : Prog) : St → List Op → St × List (List Ev)
  | s, [] => (s, [])
  | s, op :: r =>
    let (s', e) := step env p s op
    let (s'', es) := run env p s' r
    (s'', e :: es)

/-- `for b in session` for at most `n` batches: `next` until the iterator stops yielding -/
def nextN (env : Env) (p : Prog) : Nat → St → St × List Ev
  | 0, s => (s, [])
  | n + 1, s =>
    match next env p s with
    | (s', evs, true) => let (s'', e2) := nextN env p n s'; (s'', evs ++ e2)
    | (s', evs, false) => (s', evs)

def st0 (unread : List Item) (live : Bool) : St :=
  { k := 0, live := live, unread := unread, closed := false, genDead := false, wschema := none, slog := [], writes := 0 }

/-- the stream call: `_serve_stream` up to its loop, `_make_stream_caller` on the client.
Returns the events of the open and the session (none when the open raised). -/
def openS (m : Method) : List Ev × Option St :=
  match m.init, m.header with
  | some e, some _ => (lgEv m.initLogs ++ [errEv e], none)     -- `_read_stream_header` meets the logs, then the error
  | some e, none => ([], some (st0 (logItems m.initLogs ++ [.err e]) false))   -- unread until the first read (C01 finding)
  | none, some h => (lgEv m.initLogs ++ [.header h], some (st0 [] true))      -- sink flushed into the header stream
  | none, none => ([], some (st0 (logItems m.initLogs) true))  -- sink flushed at the start of the output stream

end PipeM

/-! ## HTTP -/
namespace HttpM

/-- where the generator returned by `HttpStreamSession.__iter__` is suspended -/
inductive Gen where
  | fresh
  | pending (j : Nat)             -- inside `yield from self._pending_batches`, `j` batches handed out
  | reader (items : List Item)    -- inside the `while True` over a continuation response, `items` unread
  | dead
deriving Repr

structure St where
  pend : List Batch               -- `_pending_batches`
  perr : Option Ev                -- `_pending_error`
  finished : Bool                 -- `_finished`
  tok : Option Nat                -- `_state_bytes`: the cursor token; its state's step index
  gen : Gen
  slog : List SEv                 -- ghost
  reqs : Nat                      -- ghost: HTTP requests sent
deriving Repr

structure Cfg where
  env : Env
  brk : Nat → Bool                -- break decision of `_run_http_producer_turn` after the data batch of step `pos`
  chk : Bool                      -- `__iter__` checks `_finished` before following a token (Gen.C10.iterChecksFinishedAtToken)
  lost : Nat → Bool := fun _ => false
                                  -- the network: the response of POST attempt number `r` of the session (0 = the first
                                  -- `/init` attempt) is lost AFTER the server handled the request; the client is answered
                                  -- with a retryable gateway status (502/503/504) instead
  retries : Option Nat := none    -- `HttpRetryConfig.max_retries` of the client; `none` = no retry config
  retryCancel : Bool := false     -- `cancel()` sends its POST through `_post_with_retry` (Gen.C10.cancelRetried)

/-- how a request ended for the client -/
inductive Sent where
  | ok                            -- an answer of the server arrived
  | transient                     -- `_post_with_retry` ran out of attempts: HttpTransientError
  | garbage                       -- the gateway's answer reached `_open_response_stream`: RpcError("HttpError")
deriving Repr, DecidableEq

/-- `_request_with_retry`: attempts made for a request whose first attempt is POST number `r`, with `n` retries left, and
whether the last one was answered -/
def attempts (lost : Nat → Bool) : Nat → Nat → Nat × Bool
  | 0, r => (1, !lost r)
  | n + 1, r => if lost r then ((attempts lost n (r + 1)).1 + 1, (attempts lost n (r + 1)).2) else (1, true)

/-- one logical request: `_post_with_retry(config)` where the call site uses it (`retrying`) and a retry config exists,
a bare `client.post` otherwise.  Returns the number of POSTs the server handled and the outcome. -/
def post (c : Cfg) (retrying : Bool) (r : Nat) : Nat × Sent :=
  match (if retrying then c.retries else none) with
  | none => (1, if c.lost r then .garbage else .ok)
  | some n => ((attempts c.lost n r).1, if (attempts c.lost n r).2 then .ok else .transient)

/-- the stateless server does the same thing for every attempt -/
def rep (n : Nat) (l : List SEv) : List SEv := (List.replicate n l).flatten

def failEv : Sent → Ev
  | .transient => .error "HttpTransientError".toList [] none      -- message text not modelled
  | _ => .error "HttpError".toList [] none

def refusedEv : Ev := .error Gen.C10.httpRefuseType.toList Gen.C10.httpRefuseMsg.toList none

/-- the `process` calls of `Http.turn` (a call past the script's end is the state's default `finish`) -/
def turnLog (brk : Nat → Bool) : Nat → List Step → List SEv
  | pos, [] => [.process pos []]
  | pos, s :: r =>
    .process pos [] ::
      (match processStep s with
       | .cont _ => if brk pos then [] else turnLog brk (pos + 1) r
       | _ => [])

/-- `_run_stream_exchange_sync` for a non-cancel request carrying the cursor token of step `pos` -/
def serve (c : Cfg) (p : Prog) (pos : Nat) (b : IBatch) : List Item × List SEv :=
  if p.isProducer then (Http.turn c.brk pos (p.steps.drop pos), turnLog c.brk pos (p.steps.drop pos))
  else
    match coerceInput c.env p.decl b with
    | .error e => ([.err e], [])
    | .ok b' =>
      ((match runStep p pos with | .cont items => items | .done items => items | .fail items => items),
       [.process pos b'.schema])

/-- `HttpStreamSession.exchange` reading one response body (as `Engine.Http.readExchange`, and: an EXCEPTION batch among
the batches that trail the data batch makes `exchange()` raise instead of returning the data — only reachable when
`exchange()` is used on a producer stream, whose turn may carry several steps) -/
def readX : List Item → List Ev × Bool
  | [] => ([], false)
  | .log l :: r => let (e, ok) := readX r; (.log l :: e, ok)
  | .data b :: r =>
    let t := Http.trailing r
    if t.any isError then (t, false) else (t ++ [.data b], true)
  | .err e :: _ => ([errEv e], false)
  | .token _ :: r => readX r

/-- `exchange(input)` — deliberately a bare `client.post` (not retried: `process()` may have side effects) -/
def send (c : Cfg) (p : Prog) (s : St) (b : IBatch) : St × List Ev :=
  match s.tok with
  | none => (s, [refusedEv])
  | some pos =>
    match (post c false s.reqs).2 with
    | .ok =>
      (match readX (serve c p pos b).1 with
       | (evs, true) =>
         ({ s with slog := s.slog ++ rep (post c false s.reqs).1 (serve c p pos b).2,
                   reqs := s.reqs + (post c false s.reqs).1,
                   tok := if p.isProducer then s.tok else some (pos + 1) }, evs)
       | (evs, false) =>
         ({ s with slog := s.slog ++ rep (post c false s.reqs).1 (serve c p pos b).2,
                   reqs := s.reqs + (post c false s.reqs).1 },
          match evs.getLast? with
          | some (.error ..) => evs
          | _ => evs ++ [.fin]))            -- `_read_batch_with_log_check` met the end of the body: StopIteration
    | o =>                                  -- the server ran `process`; the client keeps its old token
      ({ s with slog := s.slog ++ rep (post c false s.reqs).1 (serve c p pos b).2,
                reqs := s.reqs + (post c false s.reqs).1 }, [failEv o])

/-- the generator running inside its `while True` loop over a response body -/
def pull (c : Cfg) (p : Prog) : Nat → St → List Item → St × List Ev × Bool
  | _, s, [] => ({ s with gen := .dead }, [.fin], false)
  | f, s, .log l :: r => let q := pull c p f s r; (q.1, .log l :: q.2.1, q.2.2)
  | _, s, .data b :: r => ({ s with gen := .reader r }, [.data b], true)
  | _, s, .err e :: _ => ({ s with gen := .dead }, [errEv e], false)
  | 0, s, .token _ :: _ => ({ s with gen := .dead }, [], false)       -- out of fuel: not reached (fuel > script length)
  | f + 1, s, .token pos :: _ =>
    if c.chk && s.finished then ({ s with gen := .dead }, [.fin], false)
    else
      match (post c true s.reqs).2 with                            -- `_send_continuation`: retried
      | .ok =>
        pull c p f { s with slog := s.slog ++ rep (post c true s.reqs).1 (serve c p pos tickBatch).2,
                            reqs := s.reqs + (post c true s.reqs).1 }
          (serve c p pos tickBatch).1
      | o =>
        ({ s with slog := s.slog ++ rep (post c true s.reqs).1 (serve c p pos tickBatch).2,
                  reqs := s.reqs + (post c true s.reqs).1, gen := .dead },
         [failEv o], false)

def fuel (p : Prog) : Nat := p.steps.length + 2

/-- the generator past `yield from self._pending_batches` -/
def afterPendingEnd (c : Cfg) (p : Prog) (s : St) : St × List Ev × Bool :=
  match s.perr with
  | some e => ({ s with pend := [], perr := none, gen := .dead }, [e], false)
  | none =>
    if s.finished then ({ s with pend := [], gen := .dead }, [.fin], false)
    else
      match s.tok with
      | none => ({ s with pend := [], gen := .dead }, [.fin], false)
      | some pos =>
        match (post c true s.reqs).2 with
        | .ok =>
          pull c p (fuel p)
            { s with pend := [], slog := s.slog ++ rep (post c true s.reqs).1 (serve c p pos tickBatch).2,
                     reqs := s.reqs + (post c true s.reqs).1 }
            (serve c p pos tickBatch).1
        | o =>
          ({ s with pend := [], slog := s.slog ++ rep (post c true s.reqs).1 (serve c p pos tickBatch).2,
                    reqs := s.reqs + (post c true s.reqs).1, gen := .dead }, [failEv o], false)

/-- the generator at / after `yield from self._pending_batches` with `j` batches handed out -/
def afterPending (c : Cfg) (p : Prog) (s : St) (j : Nat) : St × List Ev × Bool :=
  match s.pend[j]? with
  | some b => ({ s with gen := .pending (j + 1) }, [.data b], true)
  | none => afterPendingEnd c p s

/-- one `next(it)` -/
def next (c : Cfg) (p : Prog) (s : St) : St × List Ev × Bool :=
  match s.gen with
  | .dead => (s, [.fin], false)
  | .fresh => afterPending c p s 0
  | .pending j => afterPending c p s j
  | .reader items => pull c p (fuel p) s items

/-- `cancel()` against the cancel branch of `_run_stream_exchange_sync`: every attempt that reaches the server runs
`on_cancel`; whatever the answer, the client swallows it -/
def cancel (c : Cfg) (s : St) : St × List Ev :=
  match s.finished, s.tok with
  | false, some pos =>
    ({ s with finished := true, tok := none,
              slog := s.slog ++ rep (post c c.retryCancel s.reqs).1 [.onCancel pos],
              reqs := s.reqs + (post c c.retryCancel s.reqs).1 }, [])
  | _, _ => ({ s with finished := true, tok := none }, [])

inductive Op where
  | next | send (b : IBatch) | close | cancel
deriving Repr

def step (c : Cfg) (p : Prog) (s : St) : Op → St × List Ev
  | .next => let (s', e, _) := next c p s; (s', e)
  | .send b => send c p s b
  | .close => (s, [])                       -- `close()` is a no-op over HTTP
  | .cancel => cancel c s

def run (c : Cfg) (p : Prog) : St → List Op → St × List (List Ev)
  | s, [] => (s, [])
  | s, op :: r =>
    let (s', e) := step c p s op
    let (s'', es) := run c p s' r
    (s'', e :: es)

def nextN (c : Cfg) (p : Prog) : Nat → St → St × List Ev
  | 0, s => (s, [])
  | n + 1, s =>
    match next c p s with
    | (s', evs, true) => let (s'', e2) := nextN c p n s'; (s'', evs ++ e2)
    | (s', evs, false) => (s', evs)

/-- the sink's logs that travel in the `/init` body (`_write_stream_header` flushes and resets the sink) -/
def sinkLogs (m : Method) : List Log := match m.header with | some _ => [] | none => m.initLogs

/-- body of the `/init` response after the header stream, and the `process` calls the init turn made -/
def initBody (c : Cfg) (m : Method) : List Item × List SEv :=
  if m.prog.isProducer then
    (logItems (sinkLogs m) ++ Http.turn c.brk 0 m.prog.steps, turnLog c.brk 0 m.prog.steps)
  else (logItems (sinkLogs m) ++ [.token 0], [])

/-- events of the open: logs of the header stream, logs of the body, then the header becomes available -/
def openEvs (m : Method) (pr : Http.InitParse) : List Ev :=
  (match m.header with | some _ => lgEv m.initLogs | none => []) ++ pr.evs ++
    (match m.header with | some h => [.header h] | none => [])

def session (c : Cfg) (m : Method) (pr : Http.InitParse) : St :=
  { pend := pr.pending, perr := pr.err, finished := pr.cursor.isNone, tok := pr.cursor, gen := .fresh,
    slog := rep (post c true 0).1 (initBody c m).2, reqs := (post c true 0).1 }

/-- `_make_stream_caller` (the `/init` POST is retried) + `_init_http_stream_session` -/
def openS (c : Cfg) (m : Method) : List Ev × Option St :=
  match (post c true 0).2 with
  | .ok =>
    (match m.init with
     | some e => (lgEv m.initLogs ++ [errEv e], none)          -- the sink's logs precede the error in the error stream
     | none =>
       match (Http.parseInit (initBody c m).1).err, (Http.parseInit (initBody c m).1).pending, m.header with
       | some e, [], none => ((Http.parseInit (initBody c m).1).evs ++ [e], none)  -- nothing delivered yet: raised at open
       | _, _, _ => (openEvs m (Http.parseInit (initBody c m).1), some (session c m (Http.parseInit (initBody c m).1))))
  | o => ([failEv o], none)

/-- open a stream and iterate it to its end (`for b in session`): enough `next`s for every buffered batch and every step -/
def openIterate (c : Cfg) (m : Method) : List Ev :=
  match openS c m with
  | (oe, none) => oe
  | (oe, some s0) => oe ++ (nextN c m.prog (s0.pend.length + m.prog.steps.length + 1) s0).2

end HttpM

end VgiVerif.C10
