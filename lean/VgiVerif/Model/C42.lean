import VgiVerif.Prelude.Sched
import VgiVerif.Gen.C42
import VgiVerif.Spec.C42
/-
C42 model: the serve-start notification.

  vgi_rpc/rpc/_server.py            RpcServer._notify_transport, RpcServer.serve (the call of `_notify_transport`
                                    in front of the serve loop), the `transport_kind` property
  vgi_rpc/http/server/_middleware.py  _TransportNotifyMiddleware.process_request

as a transition system of the Sched kit.  Any number of threads; every thread repeatedly runs one of

  HTTP request:   req ; rdKind v        (UNLOCKED fast-path read of `server.transport_kind`)
                        v ≠ None → serving
                        v = None → _notify_transport(HTTP, ∅)
  serve(tr):      serve b              → _notify_transport(b)         (b from the transport class, `Gen.serveTable`)
  _notify_transport(b):
                  acq ; rdKind v ; [rdCaps c]      -- the test `kind == b.kind and caps == b.caps` (short-circuit)
                        equal → rel → serving
                        else  → hookStart b.kind ; (hookOk | hookRaise)      -- the hook is the environment: either outcome
                                hookRaise → rel ; failed                      -- exception propagates, nothing written
                                hookOk    → wrKind b.kind ; wrCaps b.caps ; rel → serving
                        (implementation without a hook: straight to wrKind)
  serving:        dispatch k c *  ; done         -- method calls; each observes the recorded (kind, caps)

Every label is an event the harness observes on the real code (no internal steps).  The two commit
assignments are separate steps, so the proofs cover the state between them.

Ghost state (never read by a guard that models code): `pending`, `lastOk`, `fired`, `atAcq`, `ranHook`, the counters.
-/
namespace VgiVerif.C42
open VgiVerif.Sched

/-- index into `Gen.C42.kinds` -/
abbrev Kind := Nat
/-- identifier of a capability set (index into `Gen.C42.capsTable`; equality is all that matters) -/
abbrev Caps := Nat

/-- a binding: what `_notify_transport(kind, capabilities)` records -/
structure B where
  kind : Kind
  caps : Caps
deriving Repr, DecidableEq

/-- the binding the HTTP middleware announces (extracted) -/
def httpB : B := ⟨Gen.C42.mwKind, Gen.C42.mwCaps⟩

inductive Pc where
  | idle
  | mwRead              -- in `process_request`, fast-path read pending
  | want (b : B)        -- `_notify_transport(b)` called, lock not yet held
  | locked (b : B)      -- lock held; `self._transport_kind == kind` pending
  | kindEq (b : B)      -- kinds equal; `self._transport_capabilities == capabilities` pending
  | leaving (b : B)     -- test true, or commit complete: the recorded binding is `b`; release pending
  | differ (b : B)      -- test false; hook lookup / call pending
  | inHook (b : B)      -- `hook(kind)` running (lock held)
  | hooked (b : B)      -- hook returned (or there is none); `self._transport_kind = kind` pending
  | half (b : B)        -- kind written; `self._transport_capabilities = capabilities` pending
  | raised (b : B)      -- hook raised; leaving the `with` block (release pending)
  | failing             -- lock released, exception propagating to the caller
  | serving             -- past the notification: methods may be dispatched
deriving Repr, DecidableEq

/-- inside `with self._transport_lock:` -/
def Pc.inCS : Pc → Bool
  | .locked _ | .kindEq _ | .leaving _ | .differ _ | .inHook _ | .hooked _ | .half _ | .raised _ => true
  | _ => false

inductive Label where
  | req (t : Tid)                          -- an HTTP request reaches the middleware
  | serve (t : Tid) (b : B)                -- `serve(transport)` computed `b` and calls `_notify_transport`
  | rdKind (t : Tid) (v : Option Kind)     -- a read of `_transport_kind` returned v
  | rdCaps (t : Tid) (c : Caps)            -- a read of `_transport_capabilities` returned c
  | acq (t : Tid)
  | rel (t : Tid)
  | hookStart (t : Tid) (k : Kind)         -- `on_serve_start(k)` entered
  | hookOk (t : Tid) (k : Kind)            -- `on_serve_start(k)` returned
  | hookRaise (t : Tid) (k : Kind)         -- `on_serve_start(k)` raised
  | wrKind (t : Tid) (k : Kind)            -- `self._transport_kind = k`
  | wrCaps (t : Tid) (c : Caps)            -- `self._transport_capabilities = c`
  | dispatch (t : Tid) (k : Kind) (c : Caps)   -- a method body runs and observes the binding (k, c)
  | done (t : Tid)                         -- request / serve loop finished
  | failed (t : Tid)                       -- request / serve call ended with the hook's exception
deriving Repr, DecidableEq

structure St where
  kind : Option Kind := none        -- `_transport_kind`
  caps : Caps := 0                  -- `_transport_capabilities` (0 = frozenset())
  lock : Lock := {}
  pc : Tid → Pc := fun _ => .idle
  -- ghost
  pending : Nat := 0                -- hook successes (or hook-less passes) whose commit is not complete
  lastOk : Option B := none         -- the binding most recently justified by a hook success (or hook-less pass)
  fired : Kind → Bool := fun _ => false   -- kinds for which the hook has succeeded (or was passed hook-less)
  hookOks : Nat := 0
  hookRaises : Nat := 0
  skips : Nat := 0                  -- hook-less passes (implementation without `on_serve_start`)
  commits : Nat := 0                -- completed commits
  dispatches : Nat := 0
  atAcq : Option B := none          -- the binding that was recorded when the current/last lock owner acquired
  ranHook : Bool := false           -- the current/last lock owner has entered the hook

/-- the recorded binding as a pair (`none` = unbound) -/
def St.bound (s : St) : Option B := s.kind.map (fun k => ⟨k, s.caps⟩)

/-- `present`: the implementation defines a callable `on_serve_start` -/
def cstep (present : Bool) (s : St) : Label → Option St
  | .req t =>
    match s.pc t with
    | .idle => some { s with pc := upd s.pc t .mwRead }
    | _ => none
  | .serve t b =>
    match s.pc t with
    | .idle => some { s with pc := upd s.pc t (.want b) }
    | _ => none
  | .rdKind t v =>
    if v = s.kind then
      match s.pc t with
      | .mwRead => some { s with pc := upd s.pc t (if v = none then .want httpB else .serving) }
      | .locked b => some { s with pc := upd s.pc t (if v = some b.kind then .kindEq b else .differ b) }
      | .serving => some s
      | _ => none
    else none
  | .rdCaps t c =>
    if c = s.caps then
      match s.pc t with
      | .kindEq b => some { s with pc := upd s.pc t (if c = b.caps then .leaving b else .differ b) }
      | .serving => some s
      | _ => none
    else none
  | .acq t =>
    match s.pc t with
    | .want b =>
      match s.lock.acquire t with
      | some l => some { s with lock := l, pc := upd s.pc t (.locked b), atAcq := s.bound, ranHook := false }
      | none => none
    | _ => none
  | .rel t =>
    match s.lock.release t with
    | some l =>
      match s.pc t with
      | .leaving _ => some { s with lock := l, pc := upd s.pc t .serving }
      | .raised _ => some { s with lock := l, pc := upd s.pc t .failing }
      | _ => none
    | none => none
  | .hookStart t k =>
    match s.pc t with
    | .differ b => if present ∧ k = b.kind then some { s with pc := upd s.pc t (.inHook b), ranHook := true } else none
    | _ => none
  | .hookOk t k =>
    match s.pc t with
    | .inHook b =>
      if k = b.kind then
      some { s with pc := upd s.pc t (.hooked b), pending := s.pending + 1, lastOk := some b,
                    fired := fun k' => if k' = b.kind then true else s.fired k', hookOks := s.hookOks + 1 }
      else none
    | _ => none
  | .hookRaise t k =>
    match s.pc t with
    | .inHook b => if k = b.kind then some { s with pc := upd s.pc t (.raised b), hookRaises := s.hookRaises + 1 } else none
    | _ => none
  | .wrKind t k =>
    match s.pc t with
    | .hooked b => if k = b.kind then some { s with kind := some k, pc := upd s.pc t (.half b) } else none
    | .differ b =>
      if !present ∧ k = b.kind then
        some { s with kind := some k, pc := upd s.pc t (.half b), pending := s.pending + 1, lastOk := some b,
                      fired := fun k' => if k' = b.kind then true else s.fired k', skips := s.skips + 1 }
      else none
    | _ => none
  | .wrCaps t c =>
    match s.pc t with
    | .half b =>
      if c = b.caps then
        some { s with caps := c, pc := upd s.pc t (.leaving b), pending := s.pending - 1, commits := s.commits + 1 }
      else none
    | _ => none
  | .dispatch t k c =>
    match s.pc t with
    | .serving => if s.kind = some k ∧ s.caps = c then some { s with dispatches := s.dispatches + 1 } else none
    | _ => none
  | .done t =>
    match s.pc t with
    | .serving => some { s with pc := upd s.pc t .idle }
    | _ => none
  | .failed t =>
    match s.pc t with
    | .failing => some { s with pc := upd s.pc t .idle }
    | _ => none

/-- the notification protocol as a transition system of the Sched kit -/
def ts (present : Bool) : TS St Label := { init := {}, step := cstep present }

/-- the thread a label belongs to -/
def Label.tid : Label → Tid
  | .req t | .serve t _ | .rdKind t _ | .rdCaps t _ | .acq t | .rel t | .hookStart t _ | .hookOk t _ | .hookRaise t _
  | .wrKind t _ | .wrCaps t _ | .dispatch t _ _ | .done t | .failed t => t

def Label.isHookOk : Label → Bool
  | .hookOk _ _ => true
  | _ => false

/-- what the spec monitor sees of a label (the hook log, the writes of the binding, the dispatch log) -/
def toEv : Label → Option Spec.Ev
  | .hookOk _ k => some (.hookOk k)
  | .hookRaise _ k => some (.hookRaise k)
  | .wrKind _ k => some (.setKind k)
  | .wrCaps _ c => some (.setCaps c)
  | .dispatch _ k c => some (.dispatch (some k) c)
  | _ => none

def B.pair (b : B) : Nat × Nat := (b.kind, b.caps)

/-- the notification of thread `t` as observed at the moment it is about to release the lock -/
def callAtRel (s : St) (t : Tid) : Option Spec.Call :=
  match s.pc t with
  | .leaving b => some ⟨b.pair, s.atAcq.map B.pair, s.ranHook, s.ranHook, s.bound.map B.pair, true⟩
  | .raised b => some ⟨b.pair, s.atAcq.map B.pair, s.ranHook, false, s.bound.map B.pair, false⟩
  | _ => none

end VgiVerif.C42
