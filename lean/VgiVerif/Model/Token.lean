import VgiVerif.Gen.Token
/-
Shared `Token` model (DESIGN §4.2, Appendix B) — used by C12, C13 (and meant for C14 / C25).

Three layers, bottom-up:

* **framing** (concrete bytes): `struct.pack("<Q"/"<I")`, 16-byte call id, u32-prefixed segments, codec tag byte —
  transliteration of `_seal_cursor_token/_open_cursor_token`, `_seal_call_token/_open_call_token`, `_read_segment`,
  `_pack_plaintext/_unpack_plaintext` of `vgi_rpc/http/server/_state_token.py`, positions and guards included.
  `struct.unpack_from` is partial (`none` = `struct.error`), so "the guards suffice" is a theorem (`Res.crash` unreachable).
* **identity** (concrete bytes): `_compute_aad`, `_compute_call_aad`, `_CallStateCache._identity`.
* **envelope** (symbolic, Dolev–Yao): a decoded envelope is a term `Tok`; `crypto.open_bytes` succeeds iff key, AAD and
  version match.  base64 + envelope parsing is the environment `Wire` (`enc`/`dec`).

All constants come from `Gen.Token` (regenerated from the source on every run).
-/
namespace VgiVerif.Token
open VgiVerif.Gen

abbrev Bytes := List UInt8

/-! ## framing -/

/-- `struct.pack("<I"/"<Q", n)`: `w` little-endian bytes -/
def leBytes : Nat → Nat → Bytes
  | 0, _ => []
  | w + 1, n => UInt8.ofNat (n % 256) :: leBytes w (n / 256)

/-- value of little-endian bytes -/
def leVal : Bytes → Nat
  | [] => 0
  | b :: r => b.toNat + 256 * leVal r

/-- `struct.unpack_from(fmt, d, pos)[0]` for a `w`-byte little-endian unsigned format; `none` = `struct.error` -/
def unpackFrom (w : Nat) (d : Bytes) (pos : Nat) : Option Nat :=
  if pos + w ≤ d.length then some (leVal ((d.drop pos).take w)) else none

/-- Python slice `d[a:b]` -/
def slice (d : Bytes) (a b : Nat) : Bytes := (d.drop a).take (b - a)

/-- every `raise` of the token path that is a *token check* (one constructor per raise site) -/
inductive Reject where
  | curB64 | curSeal | curMinLen | curTrailing | curExpired
  | callB64 | callSeal | callMinLen | callTrailing | callExpired
  | codecEmpty | codecTag | codecZstd
  | segHeader | segBody
  | pairing        -- two genuine tokens of different streams (`_resolve_call_from_token`)
  | method         -- call minted by another method's /init (`_unpack_and_recover_state`)
deriving Repr, DecidableEq

/-- outcome of a step of the token path -/
inductive Res (α : Type) where
  | ok (a : α)
  | reject (r : Reject)      -- `_RpcHttpError(..., 400)` raised by a token check
  | missingCall              -- cache miss and no call token in the request (400, its own message)
  | decodeError              -- authentic tokens whose content does not deserialize (400 "Failed to deserialize …")
  | crash                    -- an exception that is not `_RpcHttpError` would escape (struct.error …)
deriving Repr, DecidableEq

def Res.bind {α β} (x : Res α) (f : α → Res β) : Res β :=
  match x with
  | .ok a => f a
  | .reject r => .reject r
  | .missingCall => .missingCall
  | .decodeError => .decodeError
  | .crash => .crash

instance : Monad Res where
  pure := .ok
  bind := Res.bind

/-- `_read_segment(data, pos)` → `(data[pos+4 : seg_end], seg_end)` -/
def readSegment (d : Bytes) (pos : Nat) : Res (Bytes × Nat) :=
  if pos + Token.headerLen > d.length then .reject .segHeader
  else
    match unpackFrom Token.lenFmtWidth d pos with
    | none => .crash
    | some n =>
      let segEnd := pos + Token.headerLen + n
      if segEnd > d.length then .reject .segBody
      else .ok (slice d (pos + Token.headerLen) segEnd, segEnd)

/-- a u32-prefixed segment as the sealers write it -/
def packSeg (b : Bytes) : Bytes := leBytes Token.lenFmtWidth b.length ++ b

/-- cursor plaintext of `_seal_cursor_token` -/
def packCursorPlain (createdAt : Nat) (callId state : Bytes) : Bytes :=
  leBytes Token.tsFmtWidth createdAt ++ (callId ++ packSeg state)

/-- framing part of `_open_cursor_token` (after decryption and codec): `(state_bytes, call_id)` -/
def unpackCursorPlain (p : Bytes) : Res (Bytes × Bytes) :=
  if p.length < Token.minCursorPlaintextLen then .reject .curMinLen
  else
    let callId := slice p Token.timestampLen (Token.timestampLen + Token.callIdLen)
    match readSegment p (Token.timestampLen + Token.callIdLen) with
    | .ok (st, payloadEnd) => if payloadEnd ≠ p.length then .reject .curTrailing else .ok (st, callId)
    | .reject r => .reject r
    | .missingCall => .missingCall
    | .decodeError => .decodeError
    | .crash => .crash

/-- the five segments of a call token -/
structure CallBody where
  callState : Bytes
  typeName : Bytes      -- UTF-8 of the call-state class name
  schema : Bytes
  inputSchema : Bytes
  streamId : Bytes      -- UTF-8 of the chain-correlation id
deriving Repr, DecidableEq

/-- call plaintext of `_seal_call_token` -/
def packCallPlain (createdAt : Nat) (callId : Bytes) (b : CallBody) : Bytes :=
  leBytes Token.tsFmtWidth createdAt ++ (callId ++ (packSeg b.callState ++ (packSeg b.typeName ++
    (packSeg b.schema ++ (packSeg b.inputSchema ++ packSeg b.streamId)))))

/-- framing part of `_open_call_token`: `(call_id, body)` -/
def unpackCallPlain (p : Bytes) : Res (Bytes × CallBody) :=
  if p.length < Token.minCallPlaintextLen then .reject .callMinLen
  else
    let callId := slice p Token.timestampLen (Token.timestampLen + Token.callIdLen)
    match readSegment p (Token.timestampLen + Token.callIdLen) with
    | .ok (s1, p1) =>
      match readSegment p p1 with
      | .ok (s2, p2) =>
        match readSegment p p2 with
        | .ok (s3, p3) =>
          match readSegment p p3 with
          | .ok (s4, p4) =>
            match readSegment p p4 with
            | .ok (s5, payloadEnd) =>
              if payloadEnd ≠ p.length then .reject .callTrailing else .ok (callId, ⟨s1, s2, s3, s4, s5⟩)
            | .reject r => .reject r | .missingCall => .missingCall | .decodeError => .decodeError | .crash => .crash
          | .reject r => .reject r | .missingCall => .missingCall | .decodeError => .decodeError | .crash => .crash
        | .reject r => .reject r | .missingCall => .missingCall | .decodeError => .decodeError | .crash => .crash
      | .reject r => .reject r | .missingCall => .missingCall | .decodeError => .decodeError | .crash => .crash
    | .reject r => .reject r | .missingCall => .missingCall | .decodeError => .decodeError | .crash => .crash

/-- the TTL test both openers run last: `if token_ttl > 0: created_at = unpack_from("<Q", plaintext, 0); if int(time.time()) - created_at > token_ttl: raise` -/
def ttlCheck (expired : Reject) (p : Bytes) (ttl : Nat) (now : Int) : Res Unit :=
  if ttl > 0 then
    match unpackFrom Token.tsFmtWidth p 0 with
    | none => .crash
    | some created => if now - (created : Int) > (ttl : Int) then .reject expired else .ok ()
  else .ok ()

/-- the TTL test of `_open_call_token_dated`: `created_at = unpack_from("<Q", plaintext, 0)` unconditionally, then
    `if token_ttl > 0 and int(time.time()) - created_at > token_ttl: raise` -/
def ttlCheckFlat (expired : Reject) (p : Bytes) (ttl : Nat) (now : Int) : Res Unit :=
  match unpackFrom Token.tsFmtWidth p 0 with
  | none => .crash
  | some created => if ttl > 0 ∧ now - (created : Int) > (ttl : Int) then .reject expired else .ok ()

/-- the call opener's TTL test, in the shape the source has (`Gen.Token.callTtlFlat`) -/
def callTtlCheck (p : Bytes) (ttl : Nat) (now : Int) : Res Unit :=
  if Token.callTtlFlat then ttlCheckFlat .callExpired p ttl now else ttlCheck .callExpired p ttl now

/-- zstd as an environment (python-zstandard); `decompress = none` is `ZstdError` -/
structure Zstd where
  compress : Bytes → Bytes
  decompress : Bytes → Option Bytes

def Zstd.Lawful (z : Zstd) : Prop := ∀ p, z.decompress (z.compress p) = some p

/-- `_pack_plaintext` -/
def packTagged (z : Zstd) (p : Bytes) : Bytes :=
  let packed := z.compress p
  if packed.length < p.length then Token.codecZstd :: packed else Token.codecRaw :: p

/-- `_unpack_plaintext` -/
def unpackTagged (z : Zstd) (d : Bytes) : Res Bytes :=
  match d with
  | [] => .reject .codecEmpty
  | tag :: body =>
    if tag = Token.codecRaw then .ok body
    else if tag ≠ Token.codecZstd then .reject .codecTag
    else
      match z.decompress body with
      | none => .reject .codecZstd
      | some p => .ok p

/-! ## identity -/

/-- Python `str.encode()` (UTF-8) of a string given as code points -/
def utf8 (s : List Char) : Bytes := s.flatMap String.utf8EncodeChar

/-- `auth is None or not auth.authenticated` ↦ `anonymous`; otherwise `(auth.domain or "", auth.principal or "")` -/
inductive Identity where
  | anonymous
  | user (domain principal : List Char)
deriving Repr, DecidableEq

/-- the identity tail shared by both AADs -/
def identityTail : Identity → Bytes
  | .anonymous => Token.anonTail
  | .user d p => Token.userTag :: (utf8 d ++ Token.identitySep :: utf8 p)

/-- `_compute_aad(auth)` — cursor tokens (and sticky-session tokens) -/
def aad (i : Identity) : Bytes := Token.cursorPrefix ++ identityTail i

/-- the method segment of the call AAD in a given layout: `w = 0` — `method.encode() + sep`; `w > 0` — the fixed-width
    field `method.encode()[:w].ljust(w, pad)` -/
def methodFieldWith (w : Nat) (pad sep : UInt8) (method : List Char) : Bytes :=
  if w = 0 then utf8 method ++ [sep]
  else (utf8 method).take w ++ List.replicate (w - ((utf8 method).take w).length) pad

/-- the method segment as the source lays it out (`Gen.Token.callAadMethodWidth`, `…Pad`, `methodSep`) -/
def methodField (method : List Char) : Bytes :=
  methodFieldWith Token.callAadMethodWidth Token.callAadMethodPad Token.methodSep method

/-- `_compute_call_aad(auth, method)`; `bound = Gen.Token.callAadHasMethod` -/
def callAad (bound : Bool) (method : List Char) (i : Identity) : Bytes :=
  Token.callPrefix ++ ((if bound then methodField method else []) ++ identityTail i)

/-- `_CallStateCache._identity(auth)` (a `str`) -/
def cacheIdent : Identity → List Char
  | .anonymous => Char.ofNat 0 :: "anonymous".toList
  | .user d p => d ++ Char.ofNat 0 :: p

/-- no NUL byte in the UTF-8 encoding -/
def NulFree (s : List Char) : Prop := (0 : UInt8) ∉ utf8 s

def Identity.NulFreeDomain : Identity → Prop
  | .anonymous => True
  | .user d _ => NulFree d

/-! ## symbolic envelope -/

abbrev KeyId := Nat

/-- what a base64-decoded token *is* -/
inductive Tok where
  | raw (bs : Bytes)                                                           -- not a valid seal under any key
  | sealed (key : KeyId) (aad : Bytes) (ver : Nat) (nonce : Nat) (payload : Bytes)
deriving Repr, DecidableEq

/-- `crypto.open_bytes(raw, key, aad=…, version=…)`; `none` = `SealError` -/
def openBytes (t : Tok) (key : KeyId) (aad : Bytes) (ver : Nat) : Option Bytes :=
  match t with
  | .sealed k a v _ p => if k = key ∧ a = aad ∧ v = ver then some p else none
  | .raw _ => none

/-- base64 text ↔ envelope (environment): `enc` = `base64.b64encode(envelope bytes)`,
    `dec` = `base64.b64decode(text, validate=True)` read as an envelope (`none` = decode error) -/
structure Wire where
  enc : Tok → Bytes
  dec : Bytes → Option Tok

def Wire.Lawful (E : Wire) : Prop := ∀ t, E.dec (E.enc t) = some t

/-- what the opener sees of a presented text: the decoded envelope, and whether re-encoding gives the text back -/
structure WireObs where
  decoded : Option Tok
  canonical : Bool
deriving Repr, DecidableEq

def Wire.observe (E : Wire) (w : Bytes) : WireObs :=
  ⟨E.dec w, match E.dec w with | some t => E.enc t == w | none => false⟩

/-- `_decode_token` (strict) / plain `b64decode(validate=True)` (pinned tree) -/
def decodeObs (strict : Bool) (o : WireObs) : Option Tok :=
  match o.decoded with
  | none => none
  | some t => if strict && !o.canonical then none else some t

/-- `_open_cursor_token` on an observed text → `(state_bytes, call_id)` -/
def openCursorObs (strict : Bool) (z : Zstd) (key : KeyId) (aadBytes : Bytes) (ttl : Nat) (now : Int) (o : WireObs) :
    Res (Bytes × Bytes) :=
  match decodeObs strict o with
  | none => .reject .curB64
  | some t =>
    match openBytes t key aadBytes Token.cursorTokenVersion with
    | none => .reject .curSeal
    | some sealedPlain =>
      match unpackTagged z sealedPlain with
      | .ok plain =>
        match unpackCursorPlain plain with
        | .ok r =>
          match ttlCheck .curExpired plain ttl now with
          | .ok () => .ok r
          | .reject r => .reject r | .missingCall => .missingCall | .decodeError => .decodeError | .crash => .crash
        | .reject r => .reject r | .missingCall => .missingCall | .decodeError => .decodeError | .crash => .crash
      | .reject r => .reject r | .missingCall => .missingCall | .decodeError => .decodeError | .crash => .crash

/-- `created_at` as `_open_call_token_dated` returns it (read from the first `tsFmtWidth` bytes of the plaintext) -/
def createdAtOf (plain : Bytes) : Nat := leVal (plain.take Token.tsFmtWidth)

/-- `_open_call_token_dated` on an observed text → `(call_id, body, created_at)`; `created_at` is what the call-state
    cache ages its entry from -/
def openCallObs (strict : Bool) (z : Zstd) (key : KeyId) (aadBytes : Bytes) (ttl : Nat) (now : Int) (o : WireObs) :
    Res (Bytes × CallBody × Nat) :=
  match decodeObs strict o with
  | none => .reject .callB64
  | some t =>
    match openBytes t key aadBytes Token.callTokenVersion with
    | none => .reject .callSeal
    | some sealedPlain =>
      match unpackTagged z sealedPlain with
      | .ok plain =>
        match unpackCallPlain plain with
        | .ok r =>
          match callTtlCheck plain ttl now with
          | .ok () => .ok (r.1, r.2, createdAtOf plain)
          | .reject r => .reject r | .missingCall => .missingCall | .decodeError => .decodeError | .crash => .crash
        | .reject r => .reject r | .missingCall => .missingCall | .decodeError => .decodeError | .crash => .crash
      | .reject r => .reject r | .missingCall => .missingCall | .decodeError => .decodeError | .crash => .crash

/-! ## the server: `_unpack_and_recover_state` -/

/-- `_ResolvedCall` as far as the token path is concerned -/
structure CacheEntry where
  method : List Char
  body : CallBody
deriving Repr, DecidableEq

/-- `_CallStateCache._entries`: `(call_id, _identity(auth)) ↦ (expires_at, resolved)` (LRU order belongs to C14) -/
abbrev Cache := Bytes → List Char → Option (Int × CacheEntry)

/-- `_CallStateCache.put` (the caller supplies the deadline, see `cacheDeadline`) -/
def Cache.put (c : Cache) (cid : Bytes) (ident : List Char) (e : Int × CacheEntry) : Cache :=
  fun cid' s' => if cid' = cid ∧ s' = ident then some e else c cid' s'

/-- `_CallStateCache.get(call_id, auth, now)`: an entry whose deadline has passed (`expires_at <= now`) is a miss; a hit
    does **not** move the deadline (`Gen.Token.cacheGetRefreshes = false`).  For `token_ttl > 0` deadlines are whole
    seconds, so comparing with `int(now)` is exact. -/
def Cache.get (c : Cache) (cid : Bytes) (ident : List Char) (now : Int) : Option CacheEntry :=
  match c cid ident with
  | some (exp, e) => if exp ≤ now then none else some e
  | none => none

/-- deadline of a cache entry: `put(…, _call_cache_birth(app, created_at, now))` = `birth + cache.ttl` where the birth is
    the call token's `created_at` when tokens expire (then `cache.ttl = token_ttl`), else `now` (`cache.ttl = 3600`) -/
def cacheDeadline (ttl : Nat) (createdAt : Nat) (now : Int) : Int :=
  if ttl > 0 then (createdAt : Int) + (ttl : Int) else now + 3600

structure Server where
  key : KeyId
  ttl : Nat

/-- shapes read off the source -/
structure Shape where
  strictB64 : Bool
  methodBound : Bool
deriving Repr, DecidableEq

def Shape.extracted : Shape := ⟨Token.strictB64, Token.methodBound⟩

/-- what an observed request carries -/
structure ReqObs where
  who : Identity
  method : List Char
  now : Int
  cursor : WireObs
  call : Option WireObs

/-- content decoders of authentic tokens (pyarrow / dataclass deserialisation), as an environment -/
structure Decoders where
  callDecodes : CallBody → Bool        -- schemas + call state deserialize, type name is one the method declares
  stateDecodes : Bytes → Bool          -- `_resolve_state_cls` + `_deserialize_state_bytes` + bind + rehydrate do not raise
  hitTypeDeclared : CacheEntry → Bool  -- cache hit: the cached call state's type is one the serving method declares

/-- side effects of one `_unpack_and_recover_state`, in order -/
inductive Effect where
  | cachePut | stateDecode | bindCallState | rehydrate
deriving Repr, DecidableEq

structure Accepted where
  state : Bytes
  callId : Bytes
  entry : CacheEntry
  hit : Bool
  created : Nat          -- miss path: `created_at` of the opened call token (the written entry ages from it); 0 on a hit
deriving Repr, DecidableEq

/-- `_resolve_call_from_token` (the cache-miss path) -/
def resolveCallFromToken (sh : Shape) (z : Zstd) (D : Decoders) (srv : Server) (r : ReqObs) (expected : Bytes) :
    Res (CacheEntry × Nat) :=
  match r.call with
  | none => .missingCall
  | some co =>
    match openCallObs sh.strictB64 z srv.key (callAad sh.methodBound r.method r.who) srv.ttl r.now co with
    | .ok (cid, body, created) =>
      if cid ≠ expected then .reject .pairing
      else if D.callDecodes body then .ok (⟨r.method, body⟩, created) else .decodeError
    | .reject x => .reject x | .missingCall => .missingCall | .decodeError => .decodeError | .crash => .crash

/-- last step: state decode + `bind_call_state` + `rehydrate` -/
def finishRecover (D : Decoders) (st cid : Bytes) (e : CacheEntry) (hit : Bool) (created : Nat)
    (effs : List Effect) : List Effect × Res Accepted :=
  (effs ++ [.stateDecode, .bindCallState, .rehydrate],
    if D.stateDecodes st then .ok ⟨st, cid, e, hit, created⟩ else .decodeError)

/-- `_unpack_and_recover_state`: cursor first, then cache; on a miss the call token (and the cache write); on a hit the
    method check and the declared-call-state-type check — "the cache must answer exactly as a cold worker would";
    then state decode + hooks -/
def recoverObs (sh : Shape) (z : Zstd) (D : Decoders) (srv : Server) (cache : Cache) (r : ReqObs) :
    List Effect × Res Accepted :=
  match openCursorObs sh.strictB64 z srv.key (aad r.who) srv.ttl r.now r.cursor with
  | .ok (st, cid) =>
    match cache.get cid (cacheIdent r.who) r.now with
    | some e =>
      if sh.methodBound && e.method != r.method then ([], .reject .method)
      else if !D.hitTypeDeclared e then ([], .decodeError)
      else finishRecover D st cid e true 0 []
    | none =>
      match resolveCallFromToken sh z D srv r cid with
      | .ok (e, created) => finishRecover D st cid e false created [.cachePut]
      | .reject x => ([], .reject x) | .missingCall => ([], .missingCall)
      | .decodeError => ([], .decodeError) | .crash => ([], .crash)
  | .reject x => ([], .reject x) | .missingCall => ([], .missingCall)
  | .decodeError => ([], .decodeError) | .crash => ([], .crash)

/-- a request as bytes on the wire -/
structure Req where
  who : Identity
  method : List Char
  now : Int
  cursor : Bytes
  call : Option Bytes

def Req.observe (E : Wire) (r : Req) : ReqObs :=
  ⟨r.who, r.method, r.now, E.observe r.cursor, r.call.map E.observe⟩

def recover (sh : Shape) (E : Wire) (z : Zstd) (D : Decoders) (srv : Server) (cache : Cache) (r : Req) :
    List Effect × Res Accepted :=
  recoverObs sh z D srv cache (r.observe E)

/-! ## responses -/

/-- the raise site (as numbered by the extractor) of every token check -/
def Reject.site : Reject → String
  | .curB64 => "_open_cursor_token#0" | .curSeal => "_open_cursor_token#1" | .curMinLen => "_open_cursor_token#2"
  | .curTrailing => "_open_cursor_token#3" | .curExpired => "_open_cursor_token#4"
  | .callB64 => Token.callOpener ++ "#0" | .callSeal => Token.callOpener ++ "#1" | .callMinLen => Token.callOpener ++ "#2"
  | .callTrailing => Token.callOpener ++ "#3" | .callExpired => Token.callOpener ++ "#4"
  | .codecEmpty => "_unpack_plaintext#0" | .codecTag => "_unpack_plaintext#1" | .codecZstd => "_unpack_plaintext#2"
  | .segHeader => "_read_segment#0" | .segBody => "_read_segment#1"
  | .pairing => "_resolve_call_from_token#1"
  | .method => "_unpack_and_recover_state#0"

def Reject.all : List Reject :=
  [.curB64, .curSeal, .curMinLen, .curTrailing, .curExpired, .callB64, .callSeal, .callMinLen, .callTrailing,
   .callExpired, .codecEmpty, .codecTag, .codecZstd, .segHeader, .segBody, .pairing, .method]

/-- HTTP status + message of the response to a rejected token, looked up in the extracted raise sites -/
def responseIn (sites : List (String × String × String)) (r : Reject) : Option (String × String) :=
  (sites.find? (fun s => s.1 == r.site)).map (fun s => (s.2.2, s.2.1))

def response (r : Reject) : Option (String × String) := responseIn Token.rejectSites r

/-! ## minted tokens (history) -/

structure CursorMint where
  who : Identity
  method : List Char        -- endpoint that minted it (ghost)
  callId : Bytes
  t : Nat
  state : Bytes
  nonce : Nat
deriving Repr, DecidableEq

structure CallMint where
  who : Identity
  method : List Char
  callId : Bytes
  t : Nat
  body : CallBody
  nonce : Nat
deriving Repr, DecidableEq

def CursorMint.tok (z : Zstd) (key : KeyId) (m : CursorMint) : Tok :=
  .sealed key (aad m.who) Token.cursorTokenVersion m.nonce (packTagged z (packCursorPlain m.t m.callId m.state))

def CallMint.tok (sh : Shape) (z : Zstd) (key : KeyId) (m : CallMint) : Tok :=
  .sealed key (callAad sh.methodBound m.method m.who) Token.callTokenVersion m.nonce
    (packTagged z (packCallPlain m.t m.callId m.body))

/-- what the sealers can frame: `struct.pack` raises beyond these -/
def fitsLen (b : Bytes) : Prop := b.length < 256 ^ Token.lenFmtWidth

def CursorMint.WF (m : CursorMint) : Prop :=
  m.callId.length = Token.callIdLen ∧ m.t < 256 ^ Token.tsFmtWidth ∧ fitsLen m.state ∧ m.who.NulFreeDomain

def CallBody.WF (b : CallBody) : Prop :=
  fitsLen b.callState ∧ fitsLen b.typeName ∧ fitsLen b.schema ∧ fitsLen b.inputSchema ∧ fitsLen b.streamId

def CallMint.WF (m : CallMint) : Prop :=
  m.callId.length = Token.callIdLen ∧ m.t < 256 ^ Token.tsFmtWidth ∧ m.body.WF ∧ m.who.NulFreeDomain ∧ NulFree m.method

/-- everything minted under the server key by all workers sharing it, and the workers' caches -/
structure World where
  cursors : List CursorMint
  calls : List CallMint
  caches : Nat → Cache

def World.empty : World := ⟨[], [], fun _ _ _ => none⟩

def World.toks (sh : Shape) (z : Zstd) (key : KeyId) (W : World) : List Tok :=
  W.cursors.map (CursorMint.tok z key) ++ W.calls.map (CallMint.tok sh z key)

/-- Dolev–Yao: envelopes an attacker holding `keys` can present -/
inductive Known (minted : List Tok) (keys : List KeyId) : Tok → Prop where
  | minted {t} : t ∈ minted → Known minted keys t
  | raw (bs) : Known minted keys (.raw bs)
  | ownSeal {k} (a v n p) : k ∈ keys → Known minted keys (.sealed k a v n p)

/-- whatever the presented texts decode to is something the attacker can know -/
def ReqKnown (E : Wire) (minted : List Tok) (keys : List KeyId) (r : Req) : Prop :=
  (∀ t, E.dec r.cursor = some t → Known minted keys t) ∧
  (∀ c t, r.call = some c → E.dec c = some t → Known minted keys t)

def setCache (W : World) (i : Nat) (c : Cache) : World :=
  { W with caches := fun j => if j = i then c else W.caches j }

/-- one step of the system (all workers share `srv.key`; worker `i` owns cache `i`) -/
inductive Step (sh : Shape) (E : Wire) (z : Zstd) (D : Decoders) (srv : Server) (keys : List KeyId) : World → World → Prop where
  /-- `/init` of `method` on worker `i` at time `now`: mints the call token (fresh call id), warms the cache with the
      deadline of that token, may mint a cursor -/
  | init (W : World) (i : Nat) (km : CallMint) (cur : Option (Nat × Bytes × Nat)) (now : Int) :
      km.WF → (∀ k ∈ W.calls, k.callId ≠ km.callId) →
      (∀ c, cur = some c → c.1 < 256 ^ Token.tsFmtWidth ∧ fitsLen c.2.1) →
      Step sh E z D srv keys W
        { cursors := (match cur with
                      | some (t, st, n) => [⟨km.who, km.method, km.callId, t, st, n⟩]
                      | none => []) ++ W.cursors,
          calls := km :: W.calls,
          caches := (setCache W i ((W.caches i).put km.callId (cacheIdent km.who)
                      (cacheDeadline srv.ttl km.t now, ⟨km.method, km.body⟩))).caches }
  /-- an accepted `/exchange` (continuation, exchange or cancel) on worker `i`; may mint the next cursor -/
  | turn (W : World) (i : Nat) (r : Req) (acc : Accepted) (effs : List Effect) (next : Option (Nat × Bytes × Nat)) :
      ReqKnown E (W.toks sh z srv.key) keys r → r.who.NulFreeDomain → NulFree r.method →
      recover sh E z D srv (W.caches i) r = (effs, .ok acc) →
      (∀ c, next = some c → c.1 < 256 ^ Token.tsFmtWidth ∧ fitsLen c.2.1) →
      Step sh E z D srv keys W
        { cursors := (match next with
                      | some (t, st, n) => [⟨r.who, r.method, acc.callId, t, st, n⟩]
                      | none => []) ++ W.cursors,
          calls := W.calls,
          caches := (setCache W i (if acc.hit then W.caches i
                                    else (W.caches i).put acc.callId (cacheIdent r.who)
                                      (cacheDeadline srv.ttl acc.created r.now, acc.entry))).caches }
  /-- eviction / expiry / restart: a cache loses entries -/
  | evict (W : World) (i : Nat) (c : Cache) :
      (∀ cid s e, c cid s = some e → W.caches i cid s = some e) →
      Step sh E z D srv keys W (setCache W i c)

inductive Reachable (sh : Shape) (E : Wire) (z : Zstd) (D : Decoders) (srv : Server) (keys : List KeyId) : World → Prop where
  | start : Reachable sh E z D srv keys World.empty
  | step {W W'} : Reachable sh E z D srv keys W → Step sh E z D srv keys W W' → Reachable sh E z D srv keys W'

/-! ## opaqueness (symbolic) -/

/-- what a party holding `keys` can read off an envelope -/
inductive View where
  | bytes (bs : Bytes)
  | opened (key : KeyId) (aad : Bytes) (ver nonce : Nat) (payload : Bytes)
  | opaque (ver nonce : Nat) (payloadLen : Nat)          -- version byte, nonce, ciphertext length — nothing else
deriving Repr, DecidableEq

def view (keys : List KeyId) : Tok → View
  | .raw bs => .bytes bs
  | .sealed k a v n p => if k ∈ keys then .opened k a v n p else .opaque v n p.length

end VgiVerif.Token
