import VgiVerif.Model.Engine
import VgiVerif.Prelude.JsonSchema
import VgiVerif.Gen.C34
/-
C34 — access-log records: what is written, how many, and whether each validates.

Transliterated (over the constants and shapes extracted into `Gen.C34`):
  * `emit`                 `_emit_access_log` (vgi_rpc/rpc/_server.py): the `extra` literal, every conditional store, the
                           empty-message fallback, the hand-over to the request's sink / the logger;
  * `helperMsg`            `_truncate_error_message`;
  * `Pipe.unary/stream`    the dispatch shells `_serve_unary` / `_serve_stream` of `serve_one` (status / error_type /
                           error_message locals, the two `finally` blocks of `_serve_stream`, the cancel branch);
  * `Http.unary/init/cont/exch/cancel`  `_run_unary_sync` (vgi_rpc/http/server/_app_unary.py), `_run_stream_init_sync`,
                           `_run_http_producer_turn`, `_run_http_exchange_turn`, `_exchange_error_response`, the cancel branch of
                           `_run_stream_exchange_sync`, all through `_dispatch_telemetry` / `_DispatchOutcome`
                           (vgi_rpc/http/server/_app_stream.py);
  * `Http.egress`          `_AccessLogEgressMiddleware` (vgi_rpc/http/server/_middleware.py): per-request sink, deferred emission;
  * `build` / `format`     `VgiJsonFormatter._build_payload`, `VgiAccessLogFormatter.format` (vgi_rpc/logging_utils.py);
  * the clients, as far as they decide which requests exist: `StreamSession` (tick / exchange / close / cancel, closing on
    the first error or end) and `HttpStreamSession` (`_init_http_stream_session`, `__iter__` following tokens lazily,
    `exchange`, `cancel`).
What a `process()` call does comes from `Engine` (`processStep`, `Http.turn`).  Arrow, codecs, sockets, the AEAD token,
timestamps, uuid4 and byte counts are abstracted (placeholders / presence flags).
-/
namespace VgiVerif.C34
open VgiVerif.Engine
open VgiVerif.JsonSchema (JV Schema Atom F Pat fullMatch)

abbrev Key := VgiVerif.Gen.C34.Key
namespace G
export VgiVerif.Gen.C34 (schema msgLimit emptyFallback emitBase emitCond emitOnce pipeViaHelper httpMsgHelper telemetryOnce
  okStatus unaryErr initRaise exchangeRaise exchangeOvershoot producerTurn sidAtInit sidOnHit sidOnMiss refusedEmits jsonAsciiOnly sentinelBase sentinelCond shedOrder
  sentinelErrFallback egressCond egressOnce)
end G

inductive St where | ok | error
deriving Repr, DecidableEq
inductive MT where | unary | stream
deriving Repr, DecidableEq
/-- `truncated`: "payload_omitted" | true | "record_too_large" -/
inductive Trunc where | payloadOmitted | shed | tooLarge
deriving Repr, DecidableEq

def St.str : St → Str
  | .ok => ['o', 'k']
  | .error => ['e', 'r', 'r', 'o', 'r']
def MT.str : MT → Str
  | .unary => ['u', 'n', 'a', 'r', 'y']
  | .stream => ['s', 't', 'r', 'e', 'a', 'm']
def tooLargeStr : Str := ['r', 'e', 'c', 'o', 'r', 'd', '_', 't', 'o', 'o', '_', 'l', 'a', 'r', 'g', 'e']
def Trunc.jv : Trunc → JV
  | .payloadOmitted => .str ['p', 'a', 'y', 'l', 'o', 'a', 'd', '_', 'o', 'm', 'i', 't', 't', 'e', 'd']
  | .shed => .bool true
  | .tooLarge => .str tooLargeStr

/-- the server's identity, its logger configuration and the (trusted) id generator -/
structure Env where
  serverId : Str
  protocol : Str
  protocolHash : Str
  serverVersion : Str             -- "" = not configured
  debug : Bool                    -- the access logger is enabled for DEBUG
  principal : Str
  authDomain : Str
  authenticated : Bool
  claims : Bool                   -- the caller's redacted claims are a non-empty object
  requestId : Str                 -- "" = none
  httpRemote : Str                -- remote_addr of HTTP requests
  sid : Nat → Str                 -- uuid4().hex minted for the n-th stream call
  cacheHit : Nat → Option Nat → Bool
    -- does the request of the n-th call at cursor `some pos` (continuation / exchange turn) or its cancel (`none`) find the
    -- call in the worker's call-state cache?  Arbitrary: cache size 0 / eviction by other streams / a cold worker all miss.

/-- one formatted access-log line (the JSON object), field by field; `Bool` / `Option` = the key is present / absent -/
structure Record where
  message : Str
  serverId : Str
  protocol : Str
  protocolHash : Str
  method : Str
  methodType : MT
  principal : Str
  authDomain : Str
  authenticated : Bool
  remoteAddr : Str
  status : St
  errorType : Str
  errorMessage : Option Str
  cancelled : Bool
  serverVersion : Option Str
  requestId : Option Str
  httpStatus : Option Nat
  requestData : Bool
  originalRequestBytes : Bool
  truncated : Option Trunc
  streamId : Option Str
  claims : Option Bool            -- some true = the redacted claims, some false = `{}` (shed)
  requestState : Bool
  responseState : Bool
  requestBytes : Bool
  responseBytes : Bool
  stats : Bool
deriving Repr, DecidableEq

/-! ### placeholders for values produced by trusted code (formatTime, base64 of Arrow bytes, counters) -/
def tsPlaceholder : Str := "2026-01-01T00:00:00.000Z".toList
def b64Placeholder : Str := ['Q', 'Q', '=', '=']
def levelInfo : Str := ['I', 'N', 'F', 'O']
def loggerName : Str := ['v', 'g', 'i', '_', 'r', 'p', 'c', '.', 'a', 'c', 'c', 'e', 's', 's']

def flag (b : Bool) (v : JV) : Option JV := if b then some v else none

/-- the record as a finite map over the schema's keys -/
def Record.get (r : Record) : Key → Option JV
  | .timestamp => some (.str tsPlaceholder)
  | .level => some (.str levelInfo)
  | .logger => some (.str loggerName)
  | .message => some (.str r.message)
  | .server_id => some (.str r.serverId)
  | .protocol => some (.str r.protocol)
  | .protocol_hash => some (.str r.protocolHash)
  | .method => some (.str r.method)
  | .method_type => some (.str r.methodType.str)
  | .principal => some (.str r.principal)
  | .auth_domain => some (.str r.authDomain)
  | .authenticated => some (.bool r.authenticated)
  | .remote_addr => some (.str r.remoteAddr)
  | .duration_ms => some (.num 0)
  | .status => some (.str r.status.str)
  | .error_type => some (.str r.errorType)
  | .error_message => r.errorMessage.map .str
  | .cancelled => flag r.cancelled (.bool true)
  | .server_version => r.serverVersion.map .str
  | .request_id => r.requestId.map .str
  | .http_status => r.httpStatus.map fun (n : Nat) => JV.int (n : Int)
  | .request_data => flag r.requestData (.str b64Placeholder)
  | .original_request_bytes => flag r.originalRequestBytes (.int 0)
  | .truncated => r.truncated.map Trunc.jv
  | .stream_id => r.streamId.map .str
  | .claims => r.claims.map fun _ => .obj
  | .request_state => flag r.requestState (.str b64Placeholder)
  | .response_state => flag r.responseState (.str b64Placeholder)
  | .request_bytes => flag r.requestBytes (.int 0)
  | .response_bytes => flag r.responseBytes (.int 0)
  | .input_batches => flag r.stats (.int 0)
  | .output_batches => flag r.stats (.int 0)
  | .input_rows => flag r.stats (.int 0)
  | .output_rows => flag r.stats (.int 0)
  | .input_bytes => flag r.stats (.int 0)
  | .output_bytes => flag r.stats (.int 0)
  | _ => none        -- trace_id, span_id, session_*, sample_rate, dropped_records, externalized_bytes: not on these paths

def Record.keys (r : Record) : List Key := VgiVerif.Gen.C34.Key.all.filter fun k => (r.get k).isSome

/-- the record validates against access_log.schema.json (as transcribed into `Gen.C34.schema`) -/
def SchemaOk (r : Record) : Bool := G.schema.ok r.get

/-! ## `_emit_access_log` -/

/-- what a dispatch site passes -/
structure Site where
  method : Str
  methodType : MT
  status : St
  errorType : Str
  errorMessage : Str              -- "" = the default
  httpStatus : Option Nat := none
  cancelled : Bool := false
  stats : Bool := true
  requestState : Bool := false    -- `request_state is not None`
  responseState : Bool := false
deriving Repr

/-- request-scoped context variables read by `_emit_access_log` -/
structure Ambient where
  streamId : Str                  -- `_current_stream_id` ("" = unset)
  hasBatch : Bool                 -- `_current_request_batch is not None`
  requestBytes : Bool             -- `_current_request_wire_bytes >= 0`
  remoteAddr : Str
deriving Repr

def nonEmpty (s : Str) : Option Str := if s = [] then none else some s

/-- `if status == "error" and not error_message: error_message = error_type or <literal>` -/
def withFallback (status : St) (errorType msg : Str) : Str :=
  match G.emptyFallback with
  | some lit => if status = .error ∧ msg = [] then (if errorType = [] then lit else errorType) else msg
  | none => msg

def statusWord (protocol method : Str) (status : St) : Str := protocol ++ ['.'] ++ method ++ [' '] ++ status.str

/-- the `extra` dict (plus the message), as the formatter will print it; `response_bytes` is stamped later by the egress
middleware -/
def emit (env : Env) (amb : Ambient) (s : Site) : Record :=
  { message := statusWord env.protocol s.method s.status
    serverId := env.serverId, protocol := env.protocol, protocolHash := env.protocolHash
    method := s.method, methodType := s.methodType
    principal := env.principal, authDomain := env.authDomain, authenticated := env.authenticated
    remoteAddr := amb.remoteAddr
    status := s.status, errorType := s.errorType
    cancelled := s.cancelled
    errorMessage := nonEmpty (withFallback s.status s.errorType s.errorMessage)
    serverVersion := nonEmpty env.serverVersion
    requestId := nonEmpty env.requestId
    httpStatus := s.httpStatus
    requestData := amb.hasBatch && env.debug
    originalRequestBytes := amb.hasBatch && !env.debug
    truncated := if amb.hasBatch && !env.debug then some .payloadOmitted else none
    streamId := nonEmpty amb.streamId
    claims := if env.claims then some true else none
    requestState := env.debug && s.requestState
    responseState := env.debug && s.responseState
    requestBytes := amb.requestBytes
    responseBytes := false
    stats := s.stats }

/-- `_truncate_error_message(exc)` -/
def helperMsg (e : Exn) : Str :=
  match G.msgLimit with
  | none => e.text
  | some n => e.text.take n

/-! ## What one `process()` call amounts to for the dispatch shell -/

inductive Cls where
  | cont                          -- a data batch was emitted, the stream goes on
  | done                          -- finished
  | fail (e : Exn)                -- an exception left `process()` / `validate()`
deriving Repr, DecidableEq

def failExn : List Item → Exn
  | .err e :: _ => e
  | _ :: r => failExn r
  | [] => noDataExn

def cls : StepOut → Cls
  | .cont _ => .cont
  | .done _ => .done
  | .fail items => .fail (failExn items)

/-- past the end of its script a generated producer finishes and a generated exchange keeps answering (svcgen) -/
def stepAt (ex : Bool) (steps : List Step) (k : Nat) : Step :=
  match steps[k]? with
  | some s => s
  | none => if ex then ⟨[], .emit ⟨1000 + k, 1, []⟩, []⟩ else ⟨[], .finish, []⟩

def runStep (ex : Bool) (s : Step) : StepOut := if ex then processExchangeStep s else processStep s

def clsAt (ex : Bool) (steps : List Step) (k : Nat) : Cls := cls (runStep ex (stepAt ex steps k))

/-! ## Programs -/

structure UnaryM where
  name : Str
  out : Except Exn Nat

structure StreamM where
  name : Str
  exchange : Bool
  header : Bool
  init : Option Exn               -- `some e`: the method raises before returning its Stream
  steps : List Step

inductive Fin where | close | cancel
deriving Repr, DecidableEq

/-- one client call.  `demand` = how many batches the caller pulls (`none` = to the end).  Two oracles stand for byte
counts the model does not compute (HTTP only, arbitrary): `over` = the wire-cap verdict on a response that was otherwise
fine (`_enforce_response_budgets`; `none` = within budget), `brk pos` = the producer turn ends with a token after the step
at `pos` (no cap: always; cap: once the body has reached it). -/
inductive Call where
  | unary (m : UnaryM) (over : Option Exn)
  | producer (m : StreamM) (brk : Nat → Bool) (demand : Option Nat) (fin : Fin)
  | exchange (m : StreamM) (sends : Nat) (over : Nat → Option Exn) (fin : Fin)

inductive Transport where
  | pipe                                   -- pipe / unix / tcp / shm: one `serve_one` per call
  | http
deriving Repr, DecidableEq

/-! ## Socket family: `serve_one` -/
namespace Pipe

def amb (sid : Str) : Ambient := ⟨sid, true, false, []⟩

/-- `error_message = str(exc)` at the pipe sites -/
def msg (e : Exn) : Str := if G.pipeViaHelper then helperMsg e else e.text

def site (name : Str) (mt : MT) (err : Option Exn) (cancelled : Bool) : Site :=
  match err with
  | none => { method := name, methodType := mt, status := .ok, errorType := [], errorMessage := [], cancelled := cancelled }
  | some e => { method := name, methodType := mt, status := .error, errorType := e.type, errorMessage := msg e,
                cancelled := cancelled }

/-- `_serve_unary`: one `finally`, one record -/
def unary (env : Env) (m : UnaryM) : List Record :=
  let err := match m.out with | .ok _ => none | .error e => some e
  [emit env (amb []) (site m.name .unary err false)]

/-- the client's input IPC stream as the server reads it -/
inductive In where | data | cancel
deriving Repr, DecidableEq

inductive LoopEnd where
  | err (e : Exn)
  | finished
  | eos
  | cancelled
deriving Repr, DecidableEq

/-- the `while True` of `_serve_stream`: read an input; a cancel batch breaks; otherwise one `process()` -/
def loop (ex : Bool) (steps : List Step) : Nat → List In → LoopEnd
  | _, [] => .eos
  | _, .cancel :: _ => .cancelled
  | pos, .data :: r =>
    match clsAt ex steps pos with
    | .cont => loop ex steps (pos + 1) r
    | .done => .finished
    | .fail e => .err e

/-- `_serve_stream`: the inner `finally` emits only when init failed (and the function returns); otherwise the outer
`finally` emits after the loop -/
def stream (env : Env) (n : Nat) (m : StreamM) (inputs : List In) : List Record :=
  let a := amb (env.sid n)
  match m.init with
  | some e =>
    -- except: status = "error" … return ; finally (inner): `if status == "error": _emit_access_log(…)`
    [emit env a (site m.name .stream (some e) false)]
  | none =>
    -- inner finally: status is "ok", nothing emitted; loop; outer finally
    let inner : List Record := []
    let outer := match loop m.exchange m.steps 0 inputs with
      | .err e => emit env a (site m.name .stream (some e) false)
      | .finished => emit env a (site m.name .stream none false)
      | .eos => emit env a (site m.name .stream none false)
      | .cancelled => emit env a (site m.name .stream none true)
    inner ++ [outer]

/-- what `StreamSession` writes: one input per pull / exchange while it is open, then the cancel batch or EOS.  Inputs the
client would not send any more (it closes itself at the first error or end) are never read by `loop` either. -/
def inputs (n : Nat) (fin : Fin) : List In :=
  List.replicate n .data ++ (match fin with | .close => [] | .cancel => [.cancel])

/-- pulls needed to drain a producer: its script plus the call that finishes -/
def pulls (m : StreamM) : Option Nat → Nat
  | none => m.steps.length + 1
  | some k => k

def call (env : Env) (n : Nat) : Call → List Record
  | .unary m _ => unary env m
  | .producer m _ d fin => stream env n m (inputs (pulls m d) fin)
  | .exchange m sends _ fin => stream env n m (inputs sends fin)

end Pipe

/-! ## HTTP -/
namespace Http

def amb (env : Env) (sid : Str) : Ambient := ⟨sid, true, true, env.httpRemote⟩

/-- `_current_stream_id` while `/init` runs: set to the fresh id before the telemetry shell is entered -/
def initSid (env : Env) (n : Nat) : Str := if G.sidAtInit then env.sid n else []

/-- `_current_stream_id` while a continuation, exchange turn or cancel runs: `_unpack_and_recover_state` resolves the call
from the cache (hit) or from the echoed call token (miss) and publishes the id it carries — on the paths the code does -/
def contSid (env : Env) (n : Nat) (key : Option Nat) : Str :=
  if (if env.cacheHit n key then G.sidOnHit else G.sidOnMiss) then env.sid n else []

def msg (e : Exn) : Str := if G.httpMsgHelper then helperMsg e else []

def stOf (o : Option Nat) : Nat := o.getD G.okStatus

/-- `_DispatchOutcome` at the exit of `_dispatch_telemetry` -/
structure Outcome where
  err : Option Exn := none
  http : Nat := G.okStatus
  cancelled : Bool := false
  requestState : Bool := false
  responseState : Bool := false
deriving Repr

def site (name : Str) (mt : MT) (o : Outcome) : Site :=
  match o.err with
  | none => { method := name, methodType := mt, status := .ok, errorType := [], errorMessage := [], httpStatus := some o.http,
              cancelled := o.cancelled, requestState := o.requestState, responseState := o.responseState }
  | some e => { method := name, methodType := mt, status := .error, errorType := e.type, errorMessage := msg e,
                httpStatus := some o.http, cancelled := o.cancelled, requestState := o.requestState,
                responseState := o.responseState }

/-- `_AccessLogEgressMiddleware`: the handler's records sit in the request's sink; `process_response` stamps
`response_bytes` (when the body size is known) and emits each of them once -/
def egress (known : Bool) (sink : List Record) : List Record :=
  if G.egressOnce then sink.map fun r => { r with responseBytes := known } else []

/-- `_dispatch_telemetry`: the `finally` appends one record built from the outcome -/
def telemetry (env : Env) (a : Ambient) (name : Str) (o : Outcome) : List Record :=
  if G.telemetryOnce then [emit env a (site name .stream o)] else []

def firstErr : List Item → Option Exn
  | [] => none
  | .err e :: _ => some e
  | _ :: r => firstErr r

def hasToken : List Item → Bool
  | [] => false
  | .token _ :: _ => true
  | _ :: r => hasToken r

/-- `_run_unary_sync`: method error, or a fine result refused by the response budget -/
def unary (env : Env) (m : UnaryM) (over : Option Exn) : List Record :=
  let err := match m.out with | .ok _ => over | .error e => some e
  let o : Outcome := { err := err, http := if err.isSome then G.unaryErr else G.okStatus }
  let s := site m.name .unary o
  egress true [emit env (amb env []) s]

/-- a producer turn's outcome: the `except` of `_run_http_producer_turn` stores the error, a minted token the response state -/
def turnOutcome (items : List Item) (requestState : Bool) : Outcome :=
  { err := firstErr items, http := if (firstErr items).isSome then stOf G.producerTurn else G.okStatus,
    requestState := requestState, responseState := hasToken items }

/-- `POST /{method}/init` (`_run_stream_init_sync`) -/
def init (env : Env) (brk : Nat → Bool) (n : Nat) (m : StreamM) : List Record :=
  let a := amb env (initSid env n)
  match m.init with
  | some e => egress true (telemetry env a m.name { err := some e, http := stOf G.initRaise })
  | none =>
    if m.exchange then egress true (telemetry env a m.name { responseState := true })
    else egress true (telemetry env a m.name (turnOutcome (Engine.Http.initBody brk [] m.steps) false))

/-- producer continuation (`_run_stream_exchange_sync` → `_run_http_producer_turn`); the body is streamed: no length -/
def cont (env : Env) (brk : Nat → Bool) (n : Nat) (m : StreamM) (pos : Nat) : List Record :=
  egress false (telemetry env (amb env (contSid env n (some pos))) m.name
    (turnOutcome (Engine.Http.serveContinuation brk m.steps pos) true))

/-- exchange turn (`_run_http_exchange_turn`, `_exchange_error_response`) at cursor `pos`.  The function has three error
paths, each with its own `http_status` (extracted separately: `exchangeResolve`, `exchangeCoerce`, `exchangeRaise`); a
generated exchange sends inline, conforming batches, so only the third — `state.process()` and what follows it — is reachable
here; the other two refuse the *input* before the method runs. -/
def exchOutcome (m : StreamM) (pos : Nat) (over : Option Exn) : Outcome :=
  match clsAt true m.steps pos with
  | .fail e => { err := some e, http := stOf G.exchangeRaise, requestState := true }
  | _ =>
    match over with
    | some e => { err := some e, http := stOf G.exchangeOvershoot, requestState := true, responseState := true }
    | none => { requestState := true, responseState := true }

def exch (env : Env) (n : Nat) (m : StreamM) (pos : Nat) (over : Option Exn) : List Record :=
  egress true (telemetry env (amb env (contSid env n (some pos))) m.name (exchOutcome m pos over))

/-- the cancel branch of `_run_stream_exchange_sync` -/
def cancel (env : Env) (n : Nat) (m : StreamM) : List Record :=
  egress true (telemetry env (amb env (contSid env n none)) m.name { cancelled := true, requestState := true })

/-- a continuation / exchange turn / cancel request the worker refuses before any dispatch shell (`_unpack_and_recover_state`
raises: cursor or call token that does not open, is expired, was minted for another method or key, or names a call that
cannot be resolved).  Nothing is dispatched.  If the code logs it at all it does so with the context the request has at that
point: no stream id is published yet (`_current_stream_id` is still ""), status error, the refusal as the error. -/
def refused (env : Env) (name : Str) (cause : Exn) (status : Nat) : List Record :=
  if G.refusedEmits then egress true (telemetry env (amb env []) name { err := some cause, http := status }) else []

/-! ### `HttpStreamSession`: which requests a call makes -/

inductive Req where
  | init
  | cont (pos : Nat)
  | exch (pos : Nat) (over : Option Exn)
  | cancel
deriving Repr

/-- `__iter__` past the init batches: read the response; a data batch satisfies one pull (the generator is suspended when
no pull is left), a token is followed at once by the next continuation request.  `d` = pulls left (`none` = unbounded),
at least one when called. -/
def followReqs (server : Nat → List Item) : Nat → List Item → Option Nat → List Nat
  | _, [], _ => []
  | fuel, .log _ :: r, d => followReqs server fuel r d
  | fuel, .data _ :: r, d =>
    match d with
    | none => followReqs server fuel r none
    | some 0 => []
    | some 1 => []
    | some (k + 2) => followReqs server fuel r (some (k + 1))
  | _, .err _ :: _, _ => []
  | 0, .token _ :: _, _ => []
  | fuel + 1, .token pos :: _, d => pos :: followReqs server fuel (server pos) d

/-- pulls left after the init response's pending batches were handed out (`none` = the caller stopped before) -/
def afterPending (pending : Nat) : Option Nat → Option (Option Nat)
  | none => some none
  | some k => if k ≤ pending then none else some (some (k - pending))

/-- continuation requests of a producer call -/
def producerConts (brk : Nat → Bool) (m : StreamM) (demand : Option Nat) : List Nat :=
  let p := Engine.Http.parseInit (Engine.Http.initBody brk [] m.steps)
  match afterPending p.pending.length demand with
  | none => []
  | some d =>
    if p.err.isSome then [] else
    match p.cursor with
    | none => []
    | some c => c :: followReqs (Engine.Http.serveContinuation brk m.steps) (m.steps.length + 1)
                  (Engine.Http.serveContinuation brk m.steps c) d

/-- `cancel()` contacts the server unless the init response already ended the stream (`__iter__` never updates
`_finished` / `_state_bytes`) -/
def producerCanCancel (brk : Nat → Bool) (m : StreamM) : Bool :=
  let p := Engine.Http.parseInit (Engine.Http.initBody brk [] m.steps)
  p.err.isNone && p.cursor.isSome

/-- `exchange()`: the cursor advances only when the turn succeeded (the data batch carries the refreshed token) -/
def exchReqs (m : StreamM) (over : Nat → Option Exn) : Nat → Nat → List Req
  | _, 0 => []
  | pos, k + 1 =>
    .exch pos (over pos) ::
      (match (exchOutcome m pos (over pos)).err with
       | none => exchReqs m over (pos + 1) k
       | some _ => exchReqs m over pos k)

def finReq (can : Bool) : Fin → List Req
  | .close => []
  | .cancel => if can then [.cancel] else []

def requests : Call → List Req
  | .unary _ _ => [.init]
  | .producer m brk d fin =>
    match m.init with
    | some _ => [.init]
    | none => .init :: (producerConts brk m d).map .cont ++ finReq (producerCanCancel brk m) fin
  | .exchange m sends over fin =>
    match m.init with
    | some _ => [.init]
    | none => .init :: exchReqs m over 0 sends ++ finReq true fin

def serve (env : Env) (brk : Nat → Bool) (n : Nat) (m : StreamM) : Req → List Record
  | .init => init env brk n m
  | .cont pos => cont env brk n m pos
  | .exch pos over => exch env n m pos over
  | .cancel => cancel env n m

def call (env : Env) (n : Nat) (c : Call) : List Record :=
  match c with
  | .unary m over => unary env m over
  | .producer m brk _ _ => (requests c).flatMap (serve env brk n m)
  | .exchange m _ _ _ => (requests c).flatMap (serve env (fun _ => true) n m)

end Http

/-- the records of one call (the `n`-th of the program) on a transport -/
def callRecords (env : Env) : Transport → Nat → Call → List Record
  | .pipe, n, c => Pipe.call env n c
  | .http, n, c => Http.call env n c

def runFrom (env : Env) (t : Transport) : Nat → List Call → List (List Record)
  | _, [] => []
  | n, c :: r => callRecords env t n c :: runFrom env t (n + 1) r

/-- the access log of a program, grouped by call -/
def run (env : Env) (t : Transport) (prog : List Call) : List (List Record) := runFrom env t 0 prog

/-- how many requests reach a dispatch shell (socket family: one `serve_one` per call; HTTP: one per POST) -/
def dispatches : Transport → Call → Nat
  | .pipe, _ => 1
  | .http, c => (Http.requests c).length

/-! ## The formatter -/

/-- stage 1: `del obj["request_data"]`, `original_request_bytes`, `truncated = True` -/
def shedRequestData (r : Record) : Record :=
  { r with requestData := false, originalRequestBytes := true, truncated := some .shed }

/-- stage 2: `obj["claims"] = {}`, `truncated = True` -/
def shedClaims (r : Record) : Record := { r with claims := some false, truncated := some .shed }

/-- stage 3: the sentinel dict -/
def sentinel (r : Record) : Record :=
  { message := tooLargeStr
    serverId := r.serverId, protocol := r.protocol, protocolHash := r.protocolHash, method := r.method
    methodType := r.methodType, principal := r.principal, authDomain := r.authDomain, authenticated := r.authenticated
    remoteAddr := r.remoteAddr, status := r.status, errorType := r.errorType
    errorMessage :=
      if G.sentinelCond.contains .error_message && r.status = .error then
        some (match r.errorMessage with
              | some m => if m = [] then G.sentinelErrFallback else m
              | none => G.sentinelErrFallback)
      else none
    cancelled := false, serverVersion := none, requestId := none, httpStatus := none, requestData := false
    originalRequestBytes := false, truncated := some .tooLarge
    streamId := if G.sentinelCond.contains .stream_id then r.streamId else none
    claims := none, requestState := false, responseState := false, requestBytes := false, responseBytes := false
    stats := false }

/-- the candidate after stage 1 (only a record that carries `request_data` changes) -/
def stage1 (r : Record) : Record := if r.requestData then shedRequestData r else r

/-- the candidate after stage 2 (only a record that carries `claims` changes) -/
def stage2 (r : Record) : Record := if (stage1 r).claims.isSome then shedClaims (stage1 r) else stage1 r

/-- `VgiAccessLogFormatter.format`; `fits x` = `_encoded_len(x) <= max_record_bytes` (any function) -/
def format (fits : Record → Bool) (r : Record) : Record :=
  if fits r then r
  else if r.requestData && fits (stage1 r) then stage1 r
  else if (stage1 r).claims.isSome && fits (stage2 r) then stage2 r
  else sentinel (stage2 r)

/-! ## The line as written: `json.dumps(obj, default=str[, ensure_ascii=…])` -/

def hexDigit (n : Nat) : Char := if n < 10 then Char.ofNat (48 + n) else Char.ofNat (87 + n)

/-- `\uXXXX` of a 16-bit code unit -/
def u4 (n : Nat) : Str := ['\\', 'u', hexDigit (n / 4096 % 16), hexDigit (n / 256 % 16), hexDigit (n / 16 % 16), hexDigit (n % 16)]

/-- one character of a JSON string as `json.dumps` writes it (`encode_basestring_ascii` when `asciiOnly`, else
`encode_basestring`): quote, backslash and C0 controls are always escaped; with `ensure_ascii` everything outside
`' '..'~'` becomes `\uXXXX` (a surrogate pair above U+FFFF), otherwise it is written raw -/
def escChar (asciiOnly : Bool) (c : Char) : Str :=
  if c = '"' then ['\\', '"']
  else if c = '\\' then ['\\', '\\']
  else if c = '\n' then ['\\', 'n']
  else if c = '\r' then ['\\', 'r']
  else if c = '\t' then ['\\', 't']
  else if c.toNat = 8 then ['\\', 'b']
  else if c.toNat = 12 then ['\\', 'f']
  else if c.toNat < 0x20 then u4 c.toNat
  else if asciiOnly && decide (0x7e < c.toNat) then
    (if c.toNat < 0x10000 then u4 c.toNat
     else u4 (0xd800 + (c.toNat - 0x10000) / 1024) ++ u4 (0xdc00 + (c.toNat - 0x10000) % 1024))
  else [c]

def renderStr (asciiOnly : Bool) (s : Str) : Str := ['"'] ++ s.flatMap (escChar asciiOnly) ++ ['"']

/-- how Python prints what is not a string — integers, floats, a nested (claims) object: trusted to be printable ASCII
(`int.__repr__`, `float.__repr__`; the nested object goes through the same `json.dumps`) -/
structure Tokens where
  int : Int → Str
  num : Int → Str
  obj : Str

def renderJV (asciiOnly : Bool) (tk : Tokens) : JV → Str
  | .str s => renderStr asciiOnly s
  | .int n => tk.int n
  | .num m => tk.num m
  | .bool true => ['t', 'r', 'u', 'e']
  | .bool false => ['f', 'a', 'l', 's', 'e']
  | .obj => tk.obj
  | .null => ['n', 'u', 'l', 'l']

def renderFields (asciiOnly : Bool) (tk : Tokens) : List (Key × JV) → Str
  | [] => []
  | [(k, v)] => renderStr asciiOnly k.name.toList ++ [':', ' '] ++ renderJV asciiOnly tk v
  | (k, v) :: r => renderStr asciiOnly k.name.toList ++ [':', ' '] ++ renderJV asciiOnly tk v ++ [',', ' '] ++ renderFields asciiOnly tk r

/-- the text the handler writes for a record (up to the order of the keys) -/
def renderLine (tk : Tokens) (r : Record) : Str :=
  ['{'] ++ renderFields G.jsonAsciiOnly tk (r.keys.filterMap fun k => (r.get k).map fun v => (k, v)) ++ ['}']

end VgiVerif.C34
