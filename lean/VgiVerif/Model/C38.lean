import VgiVerif.Prelude.PyFloat
import VgiVerif.Gen.Retry
/-
C38 model — transliteration of vgi_rpc/http/_retry.py
  (`HttpRetryConfig.__post_init__`, `_parse_retry_after` on a classified header, `_compute_delay`,
   `_request_with_retry`, `_post_with_retry`)
and of the POST skeleton of the client methods of vgi_rpc/http/_client.py
  (`HttpStreamSession.exchange / cancel / _send_continuation`, the unary and stream-init callers of `_HttpProxy`),
over the *extracted* shapes of `VgiVerif.Gen.Retry`.

Floats are `PyFloat.F` (exact rational | NaN | ±inf).  The transport is a *fault script*: what each successive
transmission meets.  `random.uniform` is a function of the number of draws made so far.
-/
namespace VgiVerif.C38
open VgiVerif.PyFloat VgiVerif.Gen.Retry

/-- an `HttpRetryConfig` as constructed (before / regardless of validation) -/
structure Cfg where
  maxRetries : Int
  backoffBase : F
  backoffMax : F
  retryable : List Nat
  retryOnConn : Bool
  respectRA : Bool
deriving Repr

/-- the `Retry-After` header of a response, classified by how `_parse_retry_after` reads it -/
inductive RA
  | absent
  | secs (x : F)        -- `float(v)` succeeded (includes "nan", "inf", "-5", "1e999")
  | date (delta : Rat)  -- an HTTP-date with a zone, `delta` seconds after `now`
  | dateNaive           -- an HTTP-date without a usable zone: aware − naive raises `TypeError`
  | garbage
deriving DecidableEq, Repr

/-- what one transmission meets -/
inductive Fault
  | connectErr          -- `httpx2.ConnectError`
  | timeout             -- `httpx2.TimeoutException` (any subclass)
  | disconnect          -- `httpx2.RemoteProtocolError` whose text has the disconnect marker
  | otherProto          -- any other exception
  | status (code : Nat) (ra : RA)
deriving DecidableEq, Repr

inductive ExcKind
  | connectErr | timeout | disconnect | otherProto
  | overflow            -- `OverflowError` out of `_compute_delay`
deriving DecidableEq, Repr

inductive Outcome
  | resp (code : Nat)                          -- the response is returned
  | transient (code : Nat) (ra : Option F)     -- `HttpTransientError(code, …, retry_after)`
  | raised (k : ExcKind)
deriving DecidableEq, Repr

/-- one transmission: what it met and the `_sleep(d)` that followed it (if any) -/
structure Step where
  fault : Fault
  slept : Option F
deriving DecidableEq, Repr

/-- first field `__post_init__` rejects -/
inductive BadField | maxRetries | backoffBase | backoffMax
deriving DecidableEq, Repr

/-- does the bound pass the check `__post_init__` applies to it -/
def boundOk (k : BoundCheck) (x : F) : Bool :=
  match k with
  | .negOnly => !(F.lt x (.fin 0))                          -- `if x < 0: raise`
  | .finiteNonneg => F.le (.fin 0) x && F.lt x .posInf      -- `if not (0 <= x < math.inf): raise`
  | .unknown => true

/-- `HttpRetryConfig.__post_init__` with the given bound checks: `none` = accepted -/
def validateWith (baseCk maxCk : BoundCheck) (c : Cfg) : Option BadField :=
  if c.maxRetries < 0 then some .maxRetries
  else if !boundOk baseCk c.backoffBase then some .backoffBase
  else if !boundOk maxCk c.backoffMax then some .backoffMax
  else none

/-- `HttpRetryConfig.__post_init__` as extracted -/
def validate (c : Cfg) : Option BadField := validateWith baseCheck maxCheck c

/-- `_get_retry_after` / `_parse_retry_after` on a classified header -/
def parseRA : RA → Option F
  | .absent => none
  | .secs x => some x
  | .date d => some (F.pyMax (.fin 0) (.fin d))            -- `max(0.0, delay)`
  | .dateNaive => none
  | .garbage => none

/-- `config.backoff_base * (2 ** k)`: the int is converted to float first (`OverflowError` from 2**1024 on);
    `clamp = some K` is `2 ** min(attempt, K)`, `none` is `2 ** attempt` -/
def expDelayWith (clamp : Option Nat) (c : Cfg) (attempt : Nat) : Except ExcKind F :=
  let k := match clamp with
    | some m => min attempt m
    | none => attempt
  if 1024 ≤ k then .error .overflow else .ok (F.mulPow2 c.backoffBase k)

/-- `_compute_delay(attempt, config, retry_after)` for a given exponent clamp and jitter guard;
    returns the delay and whether `random.uniform` was drawn -/
def computeDelayWith (clamp : Option Nat) (guard : Bool) (c : Cfg) (attempt : Nat) (ra : Option F) (r : Rat) :
    Except ExcKind (F × Bool) :=
  match expDelayWith clamp c attempt with
  | .error e => .error e
  | .ok e =>
    -- `random.uniform(0, exp_delay) if exp_delay < math.inf else exp_delay`  (guard)  /  `random.uniform(0, exp_delay)`
    let drew := !guard || F.lt e .posInf
    let jittered := if drew then F.uniform0 e r else e
    -- `delay = min(jittered, config.backoff_max)`
    let delay := F.pyMin jittered c.backoffMax
    -- `if config.respect_retry_after and retry_after is not None: delay = max(delay, min(retry_after, config.backoff_max))`
    let delay := if c.respectRA then
        match ra with
        | some x => F.pyMax delay (F.pyMin x c.backoffMax)
        | none => delay
      else delay
    .ok (delay, drew)

/-- as extracted -/
def expDelay (c : Cfg) (attempt : Nat) : Except ExcKind F := expDelayWith expClamp c attempt

/-- `_compute_delay` as extracted -/
def computeDelay (c : Cfg) (attempt : Nat) (ra : Option F) (r : Rat) : Except ExcKind (F × Bool) :=
  computeDelayWith expClamp jitterGuard c attempt ra r

structure Run where
  steps : List Step
  outcome : Outcome
  draws : Nat         -- number of `random.uniform` calls made so far
deriving Repr

/-- what the transport does once the script is used up: a plain 200 -/
def okFault : Fault := .status 200 .absent

/-- `attempt >= config.max_retries` -/
def lastAttempt (c : Cfg) (attempt : Nat) : Bool := decide (c.maxRetries ≤ (attempt : Int))

/-- what one loop iteration decides after the transmission met `f`, before any delay is computed -/
inductive Decision
  | stop (o : Outcome)          -- `return resp` / `raise` / `break`
  | retry (ra : Option F)       -- go on to `_compute_delay(attempt, config, ra)` and `_sleep`
deriving DecidableEq, Repr

/-- the except clauses and the status checks of one iteration of the loop, in source order -/
def decide1 (c : Cfg) (attempt : Nat) (f : Fault) : Decision :=
  let connFault (k : ExcKind) : Decision :=
    -- `if not config.retry_on_connection_error or attempt >= config.max_retries: raise`
    if !c.retryOnConn || lastAttempt c attempt then .stop (.raised k) else .retry none
  match f with
  | .otherProto => .stop (.raised .otherProto)      -- marker absent / not a caught class: propagates
  | .disconnect => connFault .disconnect
  | .connectErr => connFault .connectErr
  | .timeout => connFault .timeout
  | .status code ra =>
    if !c.retryable.contains code then .stop (.resp code)                        -- `return resp`
    else if lastAttempt c attempt then .stop (.transient code (parseRA ra))     -- `break` → `HttpTransientError`
    else .retry (parseRA ra)

/-- the `for attempt in range(config.max_retries + 1)` loop of `_request_with_retry`;
    `fuel` = iterations left in the range -/
def go (c : Cfg) (jit : Nat → Rat) : Nat → Nat → Nat → List Fault → Run
  | 0, _, draws, _ => ⟨[], .transient 0 none, draws⟩      -- range exhausted without a response (defensive branch)
  | fuel + 1, attempt, draws, script =>
    let f := script.headD okFault
    match decide1 c attempt f with
    | .stop o => ⟨[⟨f, none⟩], o, draws⟩
    | .retry ra =>
      match computeDelay c attempt ra (jit draws) with
      | .error e => ⟨[⟨f, none⟩], .raised e, draws⟩
      | .ok (d, drew) =>
        let r := go c jit fuel (attempt + 1) (if drew then draws + 1 else draws) script.tail
        ⟨⟨f, some d⟩ :: r.steps, r.outcome, r.draws⟩

/-- `_request_with_retry(make_request, config=c)` against a fault script -/
def run (c : Cfg) (jit : Nat → Rat) (draws : Nat) (script : List Fault) : Run :=
  go c jit (c.maxRetries + 1).toNat 0 draws script

/-- the outcome of one plain `client.post(...)` -/
def plainOutcome : Fault → Outcome
  | .connectErr => .raised .connectErr
  | .timeout => .raised .timeout
  | .disconnect => .raised .disconnect
  | .otherProto => .raised .otherProto
  | .status code _ => .resp code

/-- one POST call site: `_post_with_retry(client, …, config=cfg)` or `client.post(…)` -/
def post1 (cfg : Option Cfg) (retried : Bool) (jit : Nat → Rat) (draws : Nat) (script : List Fault) : Run :=
  match retried, cfg with
  | true, some c => run c jit draws script
  | _, _ => let f := script.headD okFault; ⟨[⟨f, none⟩], plainOutcome f, draws⟩

/-- how a client method ends, as far as its POSTs are concerned -/
inductive Ending
  | completed (last : Option Nat)     -- all call sites passed; status of the last response
  | failed (o : Outcome)              -- a POST raised (transport error / `HttpTransientError`)
  | externalizeFailed                 -- `externalize(body)` raised before a re-send
  | swallowed                         -- the exception was swallowed (`except Exception: return`)
deriving DecidableEq, Repr

structure ClientRun where
  rounds : List (List Step)     -- one entry per executed call site
  ending : Ending
  draws : Nat
deriving Repr

/-- does the `if` a call site sits under hold for the latest response; `extra` is the second conjunct of a `statusAnd` -/
def guardHolds (g : Guard) (last : Option Nat) (extra : Bool) : Bool :=
  match g with
  | .always => true
  | .status n => last == some n
  | .statusAnd n => last == some n && extra
  | .other => false

/-- the status of a returned response -/
def respCode : Outcome → Option Nat
  | .resp code => some code
  | _ => none

/-- an exception inside `try: … except Exception: return` is swallowed -/
def failEnding (p : PostSite) (e : Ending) : Ending := if p.swallowed then .swallowed else e

/-- the POST skeleton of a client method, call site by call site -/
def runPosts (cfg : Option Cfg) (jit : Nat → Rat) (extra extOk : Bool) :
    List PostSite → Option Nat → Nat → List Fault → ClientRun
  | [], last, draws, _ => ⟨[], .completed last, draws⟩
  | p :: ps, last, draws, script =>
    if guardHolds p.guard last extra then
      if p.externalizeFirst && !extOk then ⟨[], failEnding p .externalizeFailed, draws⟩
      else
        let r := post1 cfg p.retried jit draws script
        match respCode r.outcome with
        | some code =>
          let rest := runPosts cfg jit extra extOk ps (some code) r.draws (script.drop r.steps.length)
          ⟨r.steps :: rest.rounds, rest.ending, rest.draws⟩
        | none => ⟨[r.steps], failEnding p (.failed r.outcome), r.draws⟩
    else runPosts cfg jit extra extOk ps last draws script

/-- the extracted call-site program of a client method -/
def siteProg (name : String) : Option (List PostSite) :=
  if name = "exchange" then some exchangeProg
  else if name = "cancel" then some cancelProg
  else if name = "continuation" then some continuationProg
  else if name = "unary" then some unaryProg
  else if name = "init" then some initProg
  else none

/-! ### the idempotence state of a stream session (`_finished`, `_state_bytes`) across API calls, re-entrant ones included -/

/-- `finished` = `self._finished`, `token` = `self._state_bytes is not None` -/
structure Sess where
  finished : Bool
  token : Bool
deriving DecidableEq, Repr

/-- what can happen to that state, in any order (a re-entrant call from `on_log` is just an interleaving) -/
inductive SessOp
  | cancel        -- `session.cancel()`
  | storeToken    -- `exchange()` / `next_with_token()` / iteration storing the state token of the response they were reading
deriving DecidableEq, Repr

/-- `HttpStreamSession.cancel()`: new state and number of cancel POSTs (0 or 1) -/
def cancelStep (g : CancelGuard) (s : Sess) : Sess × Nat :=
  let quiet : Bool := match g with
    | .finishedOrNoToken => s.finished || !s.token
    | .noTokenOnly => !s.token
    | .unknown => false
  (⟨true, false⟩, if quiet then 0 else 1)

/-- number of cancel POSTs of a session over a sequence of operations -/
def cancelPosts (g : CancelGuard) : Sess → List SessOp → Nat
  | _, [] => 0
  | s, .cancel :: ops => (cancelStep g s).2 + cancelPosts g (cancelStep g s).1 ops
  | s, .storeToken :: ops => cancelPosts g ⟨s.finished, true⟩ ops

/-- all transmissions of a client-method run, in order -/
def ClientRun.sends (r : ClientRun) : List Step := r.rounds.flatten

end VgiVerif.C38
