import VgiVerif.Prelude.Codec
import VgiVerif.Prelude.PyStr
import VgiVerif.Prelude.HdrStr
import VgiVerif.Gen.Negotiate
import VgiVerif.Model.C18
/-
C19 model: `parse_encoding_list` (vgi_rpc/_codec.py), `_CompressionMiddleware.__init__` (codec filtering),
`_pick_response_encoding`, the response half of `process_request`, `process_response`
(vgi_rpc/http/server/_middleware.py) and the pre-compressed producer path of `_app_stream.py`
(`_current_response_codec` → `pa.CompressedOutputStream` → `_current_body_precompressed`).
-/
namespace VgiVerif.C19
open VgiVerif.Codec VgiVerif.PyStr VgiVerif.HdrStr

/-- one iteration of `for raw in header_value.split(","):` with `out` / `seen` so far -/
def parseStep (out : List Enc) (raw : List Char) : List Enc :=
  let t0 := if Gen.Codec.parseStripThenLower then lower (strip raw) else strip (lower raw)
  if t0.isEmpty && Gen.Codec.parseSkipsEmpty then out                                   -- `if not token: continue`
  else
    let t := if t0.contains Gen.Codec.paramSep then strip (t0.takeWhile (· != Gen.Codec.paramSep)) else t0
    -- `for enc in Encoding: if enc.value == token and enc not in seen: out.append(enc); seen.add(enc); break`
    match Enc.all.find? (fun e => decide (e.value = t) && !out.contains e) with
    | some e => out ++ [e]
    | none => out

/-- `parse_encoding_list(header_value)` -/
def parseEncodingList (h : List Char) : List Enc := (splitOn Gen.Codec.listSep h).foldl parseStep []

/-- `_CompressionMiddleware.__init__`: `{enc: lvl for enc, lvl in encode_levels.items() if enc in runtime}` -/
def mkLevels (requested : List (Enc × Int)) (runtime : List Enc) : List (Enc × Int) :=
  requested.filter (fun p => runtime.contains p.1)

/-- the body of the `for enc in …` loop of `_pick_response_encoding` -/
def pickLoop (levels custom standard : List Enc) : List Enc → Option Enc × Bool
  | [] => (none, if Gen.Negotiate.fallThrough = "(None, bool(custom))" then !custom.isEmpty else false)
  | e :: r =>
    if Gen.Negotiate.identityStops && e = .identity then (none, false)
    else if levels.contains e then
      (some e, if Gen.Negotiate.usedCustomRule = "custom_and_not_standard" then custom.contains e && !standard.contains e
               else custom.contains e)
    else pickLoop levels custom standard r

/-- candidates in the order the loop walks them -/
def candidates (custom standard : List Enc) : List Enc :=
  if Gen.Negotiate.candidateOrder = "custom_first" then custom ++ standard.filter (fun e => !custom.contains e)
  else standard ++ custom.filter (fun e => !standard.contains e)

/-- `_pick_response_encoding` on already parsed lists; `levels` = keys of `self._levels` -/
def pick (levels custom standard : List Enc) : Option Enc × Bool :=
  pickLoop levels custom standard (candidates custom standard)

/-- `_pick_response_encoding(req)`: headers absent = `None` → `""` -/
def pickHeaders (levels : List Enc) (acceptEncoding xVgiAcceptEncoding : Option (List Char)) : Option Enc × Bool :=
  pick levels (parseEncodingList (xVgiAcceptEncoding.getD [])) (parseEncodingList (acceptEncoding.getD []))

/-- `_current_response_codec.set(chosen.value if chosen is not None and chosen.value in ("zstd","gzip") else None)` -/
def publishedCodec (chosen : Option Enc) : Option Enc :=
  match chosen with
  | some e => if Gen.Negotiate.publishedCodecs.contains (String.ofList e.value) then some e else none
  | none => none

/-- compressors used on the response side (environment) -/
structure RespLibs where
  /-- `cctx.stream_writer(out, size=size)` fed 64 KiB chunks -/
  zstdStream : Int → Bytes → Bytes
  /-- `cctx.compress(body)` (stream without seek/tell) -/
  zstdOneShot : Int → Bytes → Bytes
  /-- `compressobj(level, DEFLATED, 31)` fed chunks + `flush(Z_FINISH)` -/
  gzipStream : Int → Bytes → Bytes
  /-- `pa.CompressedOutputStream(sink, codec)` written by the IPC writer -/
  arrowCompress : Enc → Bytes → Bytes

/-- what the resource handler left on `resp` -/
inductive Stream where
  | none                                            -- `resp.stream is None`
  | other (body : Bytes)                            -- something that is not an `IOBase` (e.g. an iterable)
  | io (body : Bytes) (seekable : Bool)             -- an `IOBase` (`BytesIO`; `pa.BufferReader` registers as one too)
deriving Repr, DecidableEq

structure RespIn where
  arrowContentType : Bool
  precompressed : Bool        -- `_current_body_precompressed.get()`
  stream : Stream
deriving Repr, DecidableEq

structure RespOut where
  body : Bytes
  contentEncoding : Option Enc
  xVgiContentEncoding : Option Enc
deriving Repr, DecidableEq

def Stream.bytes : Stream → Bytes
  | .none => [] | .other b => b | .io b _ => b

/-- `resp.set_header("X-VGI-Content-Encoding" | "Content-Encoding", encoding.value)` at stamping site `i` -/
def stamp (site : Nat) (e : Enc) (useCustom : Bool) (body : Bytes) : RespOut :=
  let names := Gen.Negotiate.stampSites.getD site ("", "")
  let name := if useCustom then names.1 else names.2
  ⟨body, if name = "Content-Encoding" then some e else none, if name = "X-VGI-Content-Encoding" then some e else none⟩

/-- `_CompressionMiddleware.process_response` -/
def processResponse (RL : RespLibs) (levels : List (Enc × Int)) (chosen : Option Enc) (useCustom : Bool) (r : RespIn) : RespOut :=
  let pass : RespOut := ⟨r.stream.bytes, none, none⟩
  match chosen with
  | none => pass
  | some e =>
    if !r.arrowContentType then pass
    else if r.precompressed then stamp 0 e useCustom r.stream.bytes
    else match r.stream with
      | .none => pass
      | .other _ => pass
      | .io body seekable =>
        if body.isEmpty then pass                             -- `if size == 0: return` / `if not body: return`
        else match levels.lookup e with
          | none => pass                                        -- (KeyError; unreachable: chosen ∈ levels)
          | some lvl =>
            match e with
            | .zstd => stamp 1 e useCustom (if seekable then RL.zstdStream lvl body else RL.zstdOneShot lvl body)
            | .gzip => stamp 1 e useCustom (RL.gzipStream lvl body)
            | .identity => pass                                 -- the final `else: return`

/-- producer turn that owns the response body (`_app_stream.py`): compress INTO the IPC sink when a codec was published
and Arrow accepts it; returns (body — handed over as a `pa.BufferReader` —, `_current_body_precompressed`) -/
def producerBody (RL : RespLibs) (published : Option Enc) (arrowAccepts : Bool) (ipc : Bytes) : Bytes × Bool :=
  match published with
  | some e => if arrowAccepts then (RL.arrowCompress e ipc, true) else (ipc, false)
  | none => (ipc, false)

/-- a whole unary response: negotiate on the request, handler leaves an `IOBase` with the IPC bytes, middleware runs -/
def respondUnary (RL : RespLibs) (levels : List (Enc × Int)) (ae xae : Option (List Char)) (ipc : Bytes) : RespOut :=
  let (chosen, useCustom) := pickHeaders (levels.map (·.1)) ae xae
  processResponse RL levels chosen useCustom ⟨true, false, .io ipc true⟩

/-- a whole producer-continuation response -/
def respondProducer (RL : RespLibs) (levels : List (Enc × Int)) (arrowAccepts : Bool) (ae xae : Option (List Char)) (ipc : Bytes) : RespOut :=
  let (chosen, useCustom) := pickHeaders (levels.map (·.1)) ae xae
  let (body, pre) := producerBody RL (publishedCodec chosen) arrowAccepts ipc
  processResponse RL levels chosen useCustom ⟨true, pre, .io body true⟩

/-- what a client does with the response: decode by whichever header announces a coding -/
def clientDecode (L : Libs) (o : RespOut) : Res :=
  match o.contentEncoding, o.xVgiContentEncoding with
  | some e, _ => (C18.decompress L e o.body none).out
  | none, some e => (C18.decompress L e o.body none).out
  | none, none => .ok o.body

end VgiVerif.C19
