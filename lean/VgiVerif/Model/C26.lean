import VgiVerif.Prelude.Sched
import VgiVerif.Gen.C26
/-
C26 model: `vgi_rpc/http/server/_sticky.py` — the locking protocol of sticky sessions (as repaired by
"fix: sticky session close hook could run during, and calls could dispatch after, the end of their session").

Transliterated, at the granularity of one step per lock / clock operation (the scheduling points of the
deterministic scheduler):

* `_StickyMiddleware.process_request` (resume path: `registry.get` ; `entry.lock.acquire()` ; `registry.is_live`
  ; session_lost | dispatch), `_close_session`, `process_response` (release), `_open_session` → `registry.open`;
* `_SessionRegistry.get` (in-line expiry), `is_live`, `close`, `drain_expired`, `shutdown`, `open`, `_close_entry`;
* `_SessionResource.on_delete`; `_ReaperThread.run` (= repeated `drain_expired`).

Any number of threads (`Tid`) and sessions (`Sid`); every thread is, when idle, free to start any operation
(request / DELETE / opening call / sweep / shutdown), so the model contains every mix of request threads, DELETE
threads, reaper and shutdown.  The clock moves by arbitrary `tick`s (backwards too).

`_close_entry`'s wait for the entry lock is a parameter (`Disc`, extracted from the source): blocking
(`with entry.lock:` — the repaired code), or bounded (`entry.lock.acquire(timeout=…)`), in which case the timed
acquire may FAIL while another thread holds the lock (`entTimeout`) and the close goes on without the lock (or is
skipped), as the source says.  `step` is the model of the extracted discipline `Gen.Sticky`; `stepD` that of any.

Shared state: the registry lock, the registry (`live`, with `order` = dict insertion order, `expires`, the
stored principal check `pmatch`), one `RLock` and one `closed` flag per entry.  Ghost state (`dsp`, `crun`,
`cstart`, `cend`) records exactly what the spec's observer computes from the begin/end/close events.
-/
namespace VgiVerif.C26
open VgiVerif.Sched VgiVerif.Gen.C26

/-- session identifiers (allocation order of `secrets.token_bytes`) -/
abbrev Sid := Nat

/-- evaluate an extracted Python comparison on integers -/
def cmpInt : Cmp → Int → Int → Bool
  | .lt, a, b => a < b
  | .le, a, b => a ≤ b
  | .gt, a, b => a > b
  | .ge, a, b => a ≥ b
  | .eq, a, b => a == b
  | .ne, a, b => a != b

/-- `get`: `entry.expires_at <cmp> now` -/
def getExpired (expires now : Int) : Bool := cmpInt getExpiredCmp expires now
/-- `drain_expired`: `e.expires_at <cmp> now` -/
def sweepExpired (expires now : Int) : Bool := cmpInt sweepExpiredCmp expires now

/-- how `_close_entry` waits for the entry lock -/
structure Disc where
  /-- `none`: blocking acquire; `some ms`: `acquire(timeout=ms)` — the acquire can fail while the lock is held -/
  closeWaitMillis : Option Nat
  /-- after a failed timed acquire the `closed` check and `state.close()` run anyway (else the close is skipped) -/
  proceedsWithoutLock : Bool
deriving Repr, DecidableEq

/-- the discipline of the source, as extracted -/
def srcDisc : Disc := ⟨closeLockWaitMillis, closeProceedsWithoutLock⟩

/-- which endpoint called `registry.get` -/
inductive Kind where
  | req   -- `_StickyMiddleware.process_request`
  | del   -- `_SessionResource.on_delete`
deriving Repr, DecidableEq

/-- what the thread does when `_close_entry` returns -/
inductive Cont where
  | lost                      -- `get` evicted the expired entry: the caller answers session_lost / DELETE 200
  | disp                      -- `close_session()` of a dispatching request (it still holds the entry lock once)
  | del                       -- DELETE: back inside `with entry.lock:` (it still holds the entry lock once)
  | opener                    -- `close_session()` of the call that opened the session (holds no entry lock)
  | sweep (rest : List Sid)   -- `drain_expired` / `shutdown`: the remaining popped entries
deriving Repr, DecidableEq

/-- program counter of one thread -/
inductive Pc where
  | idle
  | inReg (next : Pc)                       -- inside `with self._lock:` of the registry; `next` after the release
  | getClock (k : Kind) (s : Sid)           -- `get`: about to read `time.time()`
  | getAcq (k : Kind) (s : Sid) (now : Int) -- `get`: about to take the registry lock
  | lostPending                             -- about to answer session_lost (request) / 200 (DELETE)
  | cAcq (s : Sid) (c : Cont)               -- `_close_entry`: about to `with entry.lock:`
  | cOpen (s : Sid) (c : Cont)              -- … lock held, `closed` was False and is now True, hook not yet started
  | cRun (s : Sid) (c : Cont)               -- … inside `state.close()`
  | cRel (s : Sid) (c : Cont)               -- … about to leave `with entry.lock:`
  | uOpen (s : Sid) (c : Cont)              -- … timed acquire FAILED: `closed` set, hook not yet started, lock NOT held
  | uRun (s : Sid) (c : Cont)               -- … inside `state.close()` without the entry lock
  | eAcq (k : Kind) (s : Sid)               -- registry hit: about to `entry.lock.acquire()` / `with entry.lock:`
  | liveAcq (s : Sid)                       -- request holds the entry lock: about to `is_live`
  | lostRel (s : Sid)                       -- `is_live` was False: about to release the entry lock
  | ready (s : Sid)                         -- `is_live` was True: dispatch is about to begin
  | disp (s : Sid)                          -- dispatching (method body)
  | csAcq (s : Sid) (c : Cont)              -- `close_session()` → `registry.close`: about to take the registry lock
  | finRel (s : Sid)                        -- `process_response`: about to release the entry lock
  | delAcq (s : Sid)                        -- DELETE inside `with entry.lock:`: `registry.close` about to take the registry lock
  | delRel (s : Sid)                        -- DELETE: about to leave `with entry.lock:`
  | sweepAcq (now : Int)                    -- `drain_expired`: clock read, about to take the registry lock
  | shutAcq                                 -- `shutdown`: about to take the registry lock
  | openClock (ttl : Int) (pm : Bool)       -- `open`: about to read `time.time()`
  | openAlloc (exp : Int) (pm : Bool)       -- `open`: about to draw the session id
  | openAcq (s : Sid) (exp : Int) (pm : Bool) -- `open`: about to take the registry lock
  | openSeal (s : Sid)                      -- `_seal_session_token`: about to read `time.time()`
  | opened (s : Sid)                        -- the opening call goes on (it may `close_session()`)
deriving Repr, DecidableEq

inductive Label where
  | tick (d : Int)                               -- the clock moves (any amount, backwards too)
  | reqBegin (t : Tid) (s : Sid)                 -- a request presenting a valid token for `s` enters the middleware
  | delBegin (t : Tid) (s : Sid)                 -- DELETE with a valid token for `s`
  | openBegin (t : Tid) (ttl : Int) (pm : Bool)  -- `ctx.open_session(state, ttl)`; `pm`: stored principal key = the caller's
  | shutBegin (t : Tid)                          -- `shutdown()`
  | readClock (t : Tid) (v : Int)                -- `time.time()` returned v (by an idle thread: `drain_expired` begins)
  | allocSid (t : Tid) (s : Sid)                 -- `secrets.token_bytes` drew the (fresh) id
  | regAcq (t : Tid) | regRel (t : Tid)          -- registry lock
  | entAcq (t : Tid) (s : Sid) | entRel (t : Tid) (s : Sid)   -- entry lock of `s`
  | entTimeout (t : Tid) (s : Sid)               -- `entry.lock.acquire(timeout=…)` of `_close_entry` returned False
  | lost (t : Tid)                               -- session_lost / DELETE 200 answered
  | dispatchBegin (t : Tid) (s : Sid)
  | mstep (t : Tid)                              -- one step of the method body
  | closeSession (t : Tid)                       -- `ctx.close_session()`
  | dispatchEnd (t : Tid) (s : Sid)
  | closeStart (t : Tid) (s : Sid) | closeEnd (t : Tid) (s : Sid)   -- `state.close()` entered / returned
  | openDone (t : Tid)                           -- the opening call returns
deriving Repr, DecidableEq

/-- the thread that performs a label (`none` for the clock) -/
def Label.tid : Label → Option Tid
  | .tick _ => none
  | .reqBegin t _ | .delBegin t _ | .openBegin t _ _ | .shutBegin t | .readClock t _ | .allocSid t _
  | .regAcq t | .regRel t | .entAcq t _ | .entRel t _ | .entTimeout t _ | .lost t | .dispatchBegin t _ | .mstep t
  | .closeSession t | .dispatchEnd t _ | .closeStart t _ | .closeEnd t _ | .openDone t => some t

structure St where
  clock : Int := 0
  reg : Lock := {}
  nextSid : Nat := 0                      -- ids drawn so far
  order : List Sid := []                  -- keys ever inserted, in dict insertion order
  live : Sid → Bool := fun _ => false     -- `sid in self._entries`
  expires : Sid → Int := fun _ => 0
  pmatch : Sid → Bool := fun _ => true    -- `entry.principal_key == principal_key` for the presenting principal
  ent : Sid → RLock := fun _ => {}
  closedFlag : Sid → Bool := fun _ => false
  pc : Tid → Pc := fun _ => .idle
  -- ghost: the spec observer's state
  dsp : Tid → Sid → Bool := fun _ _ => false    -- t is between dispatchBegin and dispatchEnd on s
  crun : Tid → Sid → Bool := fun _ _ => false   -- t is between closeStart and closeEnd on s
  cstart : Sid → Nat := fun _ => 0
  cend : Sid → Nat := fun _ => 0

/-- two-level update -/
def upd2 (f : Tid → Sid → Bool) (t : Tid) (s : Sid) (v : Bool) : Tid → Sid → Bool :=
  fun x y => if x = t ∧ y = s then v else f x y

/-- `for entry in expired: self._close_entry(entry)` -/
def closeList : List Sid → Pc
  | [] => .idle
  | s :: r => .cAcq s (.sweep r)

/-- where `_close_entry(s)` returns to -/
def afterClose (s : Sid) : Cont → Pc
  | .lost => .lostPending
  | .disp => .disp s
  | .del => .delRel s
  | .opener => .opened s
  | .sweep r => closeList r

/-- set `live` to false on a list of ids -/
def killAll (live : Sid → Bool) (l : List Sid) : Sid → Bool := fun x => if x ∈ l then false else live x

/-- the registry operation performed inside `with self._lock:`; result = (new state, continuation) -/
def regOp (st : St) : Pc → Option (St × Pc)
  | .getAcq k s now =>
    if st.live s = false then some (st, .lostPending)
    else if getExpired (st.expires s) now then some ({ st with live := upd st.live s false }, .cAcq s .lost)
    else if st.pmatch s = false then some (st, .lostPending)
    else some (st, .eAcq k s)
  | .liveAcq s => some (st, if st.live s then .ready s else .lostRel s)
  | .csAcq s c =>
    if st.live s then some ({ st with live := upd st.live s false }, .cAcq s c) else some (st, afterClose s c)
  | .delAcq s =>
    if st.live s then some ({ st with live := upd st.live s false }, .cAcq s .del) else some (st, .delRel s)
  | .sweepAcq now =>
    let ex := st.order.filter (fun s => st.live s && sweepExpired (st.expires s) now)
    some ({ st with live := killAll st.live ex }, closeList ex)
  | .shutAcq =>
    let ex := st.order.filter (fun s => st.live s)
    some ({ st with live := killAll st.live ex }, closeList ex)
  | .openAcq s exp pm =>
    some ({ st with order := st.order ++ [s], live := upd st.live s true, expires := upd st.expires s exp,
                    pmatch := upd st.pmatch s pm }, .openSeal s)
  | _ => none

def stepD (dc : Disc) (st : St) : Label → Option St
  | .tick d => some { st with clock := st.clock + d }
  | .reqBegin t s =>
    match st.pc t with
    | .idle => some { st with pc := upd st.pc t (.getClock .req s) }
    | _ => none
  | .delBegin t s =>
    match st.pc t with
    | .idle => some { st with pc := upd st.pc t (.getClock .del s) }
    | _ => none
  | .openBegin t ttl pm =>
    match st.pc t with
    | .idle => some { st with pc := upd st.pc t (.openClock ttl pm) }
    | _ => none
  | .shutBegin t =>
    match st.pc t with
    | .idle => some { st with pc := upd st.pc t .shutAcq }
    | _ => none
  | .readClock t v =>
    if v = st.clock then
      match st.pc t with
      | .idle => some { st with pc := upd st.pc t (.sweepAcq v) }
      | .getClock k s => some { st with pc := upd st.pc t (.getAcq k s v) }
      | .openClock ttl pm => some { st with pc := upd st.pc t (.openAlloc (v + ttl) pm) }
      | .openSeal s => some { st with pc := upd st.pc t (.opened s) }
      | _ => none
    else none
  | .allocSid t s =>
    match st.pc t with
    | .openAlloc exp pm =>
      if s = st.nextSid then some { st with nextSid := st.nextSid + 1, pc := upd st.pc t (.openAcq s exp pm) } else none
    | _ => none
  | .regAcq t =>
    match st.reg.acquire t with
    | none => none
    | some l =>
      match regOp st (st.pc t) with
      | none => none
      | some (st', next) => some { st' with reg := l, pc := upd st.pc t (.inReg next) }
  | .regRel t =>
    match st.pc t with
    | .inReg next =>
      match st.reg.release t with
      | none => none
      | some l => some { st with reg := l, pc := upd st.pc t next }
    | _ => none
  | .entAcq t s =>
    match (st.ent s).acquire t with
    | none => none
    | some l =>
      match st.pc t with
      | .cAcq s' c =>
        if s' = s then
          (if st.closedFlag s then some { st with ent := upd st.ent s l, pc := upd st.pc t (.cRel s c) }
           else some { st with ent := upd st.ent s l, closedFlag := upd st.closedFlag s true, pc := upd st.pc t (.cOpen s c) })
        else none
      | .eAcq k s' =>
        if s' = s then
          some { st with ent := upd st.ent s l, pc := upd st.pc t (match k with | .req => .liveAcq s | .del => .delAcq s) }
        else none
      | _ => none
  | .entTimeout t s =>
    -- only a bounded wait can fail, and only while another thread holds the lock (the model does not track the
    -- deadline: the timeout may fire at any such moment)
    match st.pc t with
    | .cAcq s' c =>
      if s' = s ∧ dc.closeWaitMillis.isSome = true ∧ (st.ent s).acquire t = none then
        (if dc.proceedsWithoutLock then
          (if st.closedFlag s then some { st with pc := upd st.pc t (afterClose s c) }
           else some { st with closedFlag := upd st.closedFlag s true, pc := upd st.pc t (.uOpen s c) })
         else some { st with pc := upd st.pc t (afterClose s c) })
      else none
    | _ => none
  | .entRel t s =>
    match (st.ent s).release t with
    | none => none
    | some l =>
      match st.pc t with
      | .cRel s' c => if s' = s then some { st with ent := upd st.ent s l, pc := upd st.pc t (afterClose s c) } else none
      | .lostRel s' => if s' = s then some { st with ent := upd st.ent s l, pc := upd st.pc t .lostPending } else none
      | .finRel s' => if s' = s then some { st with ent := upd st.ent s l, pc := upd st.pc t .idle } else none
      | .delRel s' => if s' = s then some { st with ent := upd st.ent s l, pc := upd st.pc t .idle } else none
      | _ => none
  | .lost t =>
    match st.pc t with
    | .lostPending => some { st with pc := upd st.pc t .idle }
    | _ => none
  | .dispatchBegin t s =>
    match st.pc t with
    | .ready s' => if s' = s then some { st with pc := upd st.pc t (.disp s), dsp := upd2 st.dsp t s true } else none
    | _ => none
  | .mstep t =>
    match st.pc t with
    | .disp _ => some st
    | .opened _ => some st
    | _ => none
  | .closeSession t =>
    match st.pc t with
    | .disp s => some { st with pc := upd st.pc t (.csAcq s .disp) }
    | .opened s => some { st with pc := upd st.pc t (.csAcq s .opener) }
    | _ => none
  | .dispatchEnd t s =>
    match st.pc t with
    | .disp s' => if s' = s then some { st with pc := upd st.pc t (.finRel s), dsp := upd2 st.dsp t s false } else none
    | _ => none
  | .closeStart t s =>
    match st.pc t with
    | .cOpen s' c =>
      if s' = s then
        some { st with pc := upd st.pc t (.cRun s c), crun := upd2 st.crun t s true, cstart := upd st.cstart s (st.cstart s + 1) }
      else none
    | .uOpen s' c =>
      if s' = s then
        some { st with pc := upd st.pc t (.uRun s c), crun := upd2 st.crun t s true, cstart := upd st.cstart s (st.cstart s + 1) }
      else none
    | _ => none
  | .closeEnd t s =>
    match st.pc t with
    | .cRun s' c =>
      if s' = s then
        some { st with pc := upd st.pc t (.cRel s c), crun := upd2 st.crun t s false, cend := upd st.cend s (st.cend s + 1) }
      else none
    | .uRun s' c =>
      if s' = s then
        some { st with pc := upd st.pc t (afterClose s c), crun := upd2 st.crun t s false, cend := upd st.cend s (st.cend s + 1) }
      else none
    | _ => none
  | .openDone t =>
    match st.pc t with
    | .opened _ => some { st with pc := upd st.pc t .idle }
    | _ => none

/-- the model of the source: the extracted discipline -/
def step (st : St) (l : Label) : Option St := stepD srcDisc st l

/-- the sticky-session machinery as a transition system of the Sched kit -/
def ts : TS St Label := { init := {}, step := step }

/-- the same machinery under any discipline (used by `Findings/C26.lean`) -/
def tsD (d : Disc) : TS St Label := { init := {}, step := stepD d }

end VgiVerif.C26
