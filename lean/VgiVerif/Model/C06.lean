import VgiVerif.Gen.Validate
import VgiVerif.Model.C09
/-
C06 model — request validation in front of every method invocation.

Transliterates, over the shapes extracted into `Gen.Validate`:
  * `_read_request` (vgi_rpc/rpc/_wire.py): pointer resolution (a request routed through shared memory / an external
    location arrives as a zero-row pointer batch and is replaced by the batch it resolves to), the row-count guard,
    recording of the request schema (from which of the two batches — extracted), `as_py()` per column into a `dict`
    (later duplicates overwrite), the handler around `as_py()`;
  * `_deserialize_params` / `_deserialize_value`, `_validate_call_signature`, `_validate_params` (same file);
  * the four dispatch sites — `RpcServer.serve_one` + `_serve_unary` / `_serve_stream` (vgi_rpc/rpc/_server.py),
    `_run_unary_sync` (vgi_rpc/http/server/_app_unary.py), `_run_stream_init_sync` (…/_app_stream.py): the steps are run
    in the *extracted source order*; an exception raised by a step travels through the extracted chain of enclosing
    `try` statements of that step (first matching `except` clause per level, rewrap handlers re-raise into the outer
    levels); `_set_http_status` turns the extracted status into `200` + `X-VGI-RPC-Error`.
The protocol-version gate is the one of Model/C09 (`C09.GateResult`).

Abstractions: an Arrow type is its canonical descriptor (`Ty`, computed by the harness, compared with
`DataType.__eq__` on every run); a Python exception is its class name + the handler classes it is an instance of;
`as_py()` values are abstracted to what the validation steps look at (None / str / bytes / list / anything else) with the
outcome of the conversions Python performs on them (`dict(v)`, `frozenset(v)`, dataclass deserialisation) as data.
-/
namespace VgiVerif.C06
open VgiVerif.Gen.Validate

abbrev Str := List Char
/-- canonical descriptor of an Arrow `DataType` -/
abbrev Ty := Str

/-- a Python exception object: class name + which of the handler classes it is an instance of -/
structure Exn where
  cls : Str
  isa : List HCls
deriving Repr, DecidableEq

def Exn.isA (e : Exn) (c : HCls) : Bool := e.isa.contains c

/-- the exceptions the framework itself raises while validating -/
def typeError : Exn := ⟨"TypeError".toList, isaTypeError⟩
def keyError : Exn := ⟨"KeyError".toList, isaKeyError⟩
def rpcError : Exn := ⟨"RpcError".toList, isaRpcError⟩
def protocolVersionError : Exn := ⟨"ProtocolVersionError".toList, isaProtocolVersionError⟩
def ipcError : Exn := ⟨"IPCError".toList, isaIPCError⟩

/-- outcome of a conversion Python performs on a caller-supplied value -/
inductive Conv where
  | ok
  | raises (e : Exn)
deriving Repr, DecidableEq

/-- what `_deserialize_value` does for a parameter, decided by its declared Python type -/
inductive PyKind where
  | plain
  | enum (members : List Str)
  | dict
  | fset
  | dataclass
deriving Repr, DecidableEq

/-- a declared parameter: name, Arrow type and nullability of its field in `params_schema`, whether the Protocol gives
it a default, and its deserialisation kind -/
structure Param where
  name : Str
  ty : Ty
  nullable : Bool
  hasDefault : Bool
  kind : PyKind
deriving Repr, DecidableEq

abbrev Decl := List Param

/-- a value as `column[0].as_py()` produced it (first six) or as `_deserialize_value` left it (last two) -/
inductive Val where
  | null
  | str (s : Str)
  | bytes (asDataclass : Conv)
  | list (asDict asSet : Conv)
  | other
  | unreadable (e : Exn)          -- `as_py()` itself raised
  | member (s : Str)              -- an Enum member
  | obj                           -- a deserialised dataclass / dict / frozenset
deriving Repr, DecidableEq

structure Col where
  name : Str
  ty : Ty
  nullable : Bool
  val : Val
deriving Repr, DecidableEq

structure Request where
  cols : List Col
  rows : Nat
  /-- `batch.validate(full=True)` accepts the batch read off the wire (the `ValidatedReader` check) -/
  ipcValid : Bool
  /-- the request arrived as a zero-row *pointer* batch (shared-memory side channel / external location) with this
  schema; `cols` / `rows` then describe the batch it resolved to.  `none` = an inline request. -/
  pointer : Option (List Col) := none
deriving Repr, DecidableEq

abbrev Kwargs := List (Str × Val)

/-- `d[k] = v` on an insertion-ordered dict -/
def kwSet : Kwargs → Str → Val → Kwargs
  | [], k, v => [(k, v)]
  | (k', v') :: r, k, v => if k' = k then (k, v) :: r else (k', v') :: kwSet r k v

inductive Reason where
  | invalidBatch
  | rowCount
  | noPythonValue (col : Str)
  | nameMismatch
  | version
  | deserType (param : Str)        -- "Expected bytes/str for … deserialization"
  | deserKey (param : Str)         -- unknown Enum member
  | deserConv (param : Str)        -- the conversion of the value raised
  | unexpected (names : List Str)
  | missing (names : List Str)
  | fieldCount (want got : Nat)
  | fieldName (i : Nat)
  | fieldType (i : Nat)
  | fieldNullable (i : Nat)
  | nullNotOptional (param : Str)
  | method                         -- raised by the method body
deriving Repr, DecidableEq

abbrev Rej := Exn × Reason

/-! ## `_read_request` (the part after the metadata checks) -/

/-- `kwargs = {f.name: column(i)[0].as_py()}` column by column; `wrap` = classes of the `except` around `as_py()` -/
def readValues (wrap : List HCls) : List Col → Kwargs → Except Rej Kwargs
  | [], kw => .ok kw
  | c :: r, kw =>
    match c.val with
    | .unreadable e =>
      if wrap.any e.isA then .error (rpcError, .noPythonValue c.name) else .error (e, .noPythonValue c.name)
    | v => readValues wrap r (kwSet kw c.name v)

/-- the schema `_current_request_param_schema` holds when `_validate_call_signature` runs: the one of the batch the
kwargs were read from iff it is recorded after pointer resolution (extracted), else the pointer batch's own -/
def recordedSchema (rq : Request) : List Col :=
  match rq.pointer with
  | none => rq.cols
  | some p => if readRecordsResolved then rq.cols else p

/-- `vwrap` = classes of the `except` around the validating batch read, `wrap` = of the one around `as_py()` -/
def readRequestWith (vwrap wrap : List HCls) (rq : Request) : Except Rej (Kwargs × Option (List Col)) :=
  if !rq.ipcValid then
    (if vwrap.any ipcError.isA then .error (rpcError, .invalidBatch) else .error (ipcError, .invalidBatch))
  else if readRowGuard && (decide (rq.cols.length > 0) && decide (rq.rows ≠ 1)) then .error (rpcError, .rowCount)
  else
    match readValues wrap rq.cols [] with
    | .error r => .error r
    | .ok kw => .ok (kw, if readRecordsSchema then some (recordedSchema rq) else none)

def readRequest (rq : Request) : Except Rej (Kwargs × Option (List Col)) :=
  readRequestWith readValidationWrap readWrap rq

/-! ## `_deserialize_params` -/

def convOut (name : Str) : Conv → Except Rej Val
  | .ok => .ok .obj
  | .raises e => .error (e, .deserConv name)

def deserValue (p : Param) (v : Val) : Except Rej Val :=
  match p.kind with
  | .dataclass =>
    match v with
    | .bytes c => convOut p.name c
    | _ => .error (typeError, .deserType p.name)
  | .enum members =>
    match v with
    | .str s => if members.contains s then .ok (.member s) else .error (keyError, .deserKey p.name)
    | _ => .error (typeError, .deserType p.name)
  | .dict =>
    match v with
    | .list c _ => convOut p.name c
    | v => .ok v
  | .fset =>
    match v with
    | .list _ c => convOut p.name c
    | v => .ok v
  | .plain => .ok v

def findParam (d : Decl) (k : Str) : Option Param := d.find? (fun p => p.name = k)

def deserEntry (d : Decl) (kv : Str × Val) : Except Rej (Str × Val) :=
  if kv.2 = .null then .ok kv
  else
    match findParam d kv.1 with
    | none => .ok kv
    | some p =>
      match deserValue p kv.2 with
      | .ok v => .ok (kv.1, v)
      | .error r => .error r

/-- `for name, value in kwargs.items(): … kwargs[name] = _deserialize_value(…)` (keys of a dict are distinct, so the
in-place update during iteration is a map; the first failing entry raises) -/
def deserializeParams (d : Decl) : Kwargs → Except Rej Kwargs
  | [] => .ok []
  | kv :: r =>
    match deserEntry d kv with
    | .error e => .error e
    | .ok kv' =>
      match deserializeParams d r with
      | .error e => .error e
      | .ok r' => .ok (kv' :: r')

/-! ## `_validate_call_signature` -/

inductive CheckRes where
  | pass
  | stop                  -- `return`
  | reject (r : Rej)
deriving Repr, DecidableEq

def fieldCheck (i : Nat) (c : Col) (p : Param) : FieldCheck → Option Rej
  | .name => if c.name ≠ p.name then some (typeError, .fieldName i) else none
  | .type => if c.ty ≠ p.ty then some (typeError, .fieldType i) else none
  | .nullable => if c.nullable ≠ p.nullable then some (typeError, .fieldNullable i) else none

/-- `for index, (field, declared) in enumerate(zip(request_schema, params_schema, strict=True))` -/
def fieldLoop (fcs : List FieldCheck) (i : Nat) : List Col → Decl → Option Rej
  | c :: cs, p :: ps =>
    match fcs.findSome? (fieldCheck i c p) with
    | some r => some r
    | none => fieldLoop fcs (i + 1) cs ps
  | _, _ => none

def isExempt (k : Str) : Bool := unexpectedExempt.any (fun s => s.toList = k)

def unexpectedNames (d : Decl) (kw : Kwargs) : List Str :=
  (kw.map (·.1)).filter (fun k => !(d.any (fun p => p.name = k)) && !(isExempt k))

def missingNames (d : Decl) (kw : Kwargs) : List Str :=
  (d.filter (fun p => !(kw.any (fun kv => kv.1 = p.name)) && !p.hasDefault)).map (·.name)

def sigCheck (d : Decl) (kw : Kwargs) (sch : Option (List Col)) : SigCheck → CheckRes
  | .unexpected => if unexpectedNames d kw = [] then .pass else .reject (typeError, .unexpected (unexpectedNames d kw))
  | .missing => if missingNames d kw = [] then .pass else .reject (typeError, .missing (missingNames d kw))
  | .noSchemaReturn => if sch = none then .stop else .pass
  | .fieldCount =>
    match sch with
    | none => .pass
    | some cols => if cols.length ≠ d.length then .reject (typeError, .fieldCount d.length cols.length) else .pass
  | .perField =>
    match sch with
    | none => .pass
    | some cols =>
      match fieldLoop fieldChecks 0 cols d with
      | some r => .reject r
      | none => .pass

def runSig (d : Decl) (kw : Kwargs) (sch : Option (List Col)) : List SigCheck → Except Rej Unit
  | [] => .ok ()
  | c :: cs =>
    match sigCheck d kw sch c with
    | .pass => runSig d kw sch cs
    | .stop => .ok ()
    | .reject r => .error r

def validateSignature (d : Decl) (kw : Kwargs) (sch : Option (List Col)) : Except Rej Unit :=
  runSig d kw sch sigChecks

/-! ## `_validate_params` -/

def validateParams (d : Decl) : Kwargs → Except Rej Unit
  | [] => .ok ()
  | (k, v) :: r =>
    if v ≠ .null then validateParams d r
    else
      match findParam d k with
      | none => validateParams d r
      | some p => if p.nullable then validateParams d r else .error (typeError, .nullNotOptional k)

/-! ## The validation of one request against one declared signature, in the order of `serve_one` -/

def validateCall (d : Decl) (rq : Request) : Except Rej Kwargs :=
  match readRequest rq with
  | .error r => .error r
  | .ok (kw, sch) =>
    match deserializeParams d kw with
    | .error r => .error r
    | .ok kw' =>
      match validateSignature d kw' sch with
      | .error r => .error r
      | .ok () =>
        match validateParams d kw' with
        | .error r => .error r
        | .ok () => .ok kw'

/-! ## Dispatch sites -/

/-- what goes back to the caller -/
inductive Wire where
  | result                                  -- the method returned normally
  | http (status : Nat) (marker : Bool)     -- an error response after `_set_http_status`
  | errorStream                             -- socket family: an error batch / error stream was written, the loop continues
  | errorStreamThenEscape                   -- written, then re-raised (the connection ends)
  | escaped                                 -- the exception left the dispatch function, nothing was written
deriving Repr, DecidableEq

def finalHttp (code : Nat) : Wire :=
  if code = markerFrom then .http markerTo markerHeader else .http code false

/-- an exception travelling outwards through the enclosing `try` statements -/
def propagate (e : Exn) : List (List Handler) → Wire × Exn
  | [] => (.escaped, e)
  | lvl :: outer =>
    match lvl.find? (fun h => h.classes.any e.isA) with
    | none => propagate e outer
    | some h =>
      match h.action with
      | .status n => (finalHttp n, e)
      | .rewrapTypeError => propagate typeError outer
      | .streamReturn => (.errorStream, e)
      | .streamReraise => (.errorStreamThenEscape, e)

structure Call where
  decl : Decl
  rq : Request
  /-- HTTP: the method in the URL equals `vgi_rpc.method` of the batch -/
  nameMatches : Bool
  gate : C09.GateResult
  /-- what the method body does when invoked: `none` = returns, `some e` = raises `e` -/
  behave : Option Exn
deriving Repr

structure St where
  kw : Kwargs := []
  schema : Option (List Col) := none

structure Resp where
  invokedWith : Option Kwargs
  wire : Wire
  err : Option Exn
  why : Option Reason
deriving Repr, DecidableEq

/-- one validation step (everything except `invoke`) -/
def step (c : Call) (st : St) : Phase → Except Rej St
  | .read =>
    match readRequest c.rq with
    | .error r => .error r
    | .ok (kw, sch) => .ok { kw := kw, schema := sch }
  | .nameCheck => if c.nameMatches then .ok st else .error (typeError, .nameMismatch)
  | .gate =>
    match c.gate with
    | .pass => .ok st
    | .refuse _ _ => .error (protocolVersionError, .version)
  | .deserialize =>
    match deserializeParams c.decl st.kw with
    | .error r => .error r
    | .ok kw => .ok { st with kw := kw }
  | .signature =>
    match validateSignature c.decl st.kw st.schema with
    | .error r => .error r
    | .ok () => .ok st
  | .params =>
    match validateParams c.decl st.kw with
    | .error r => .error r
    | .ok () => .ok st
  | .invoke => .ok st

def run (site : Site) (c : Call) : List Phase → St → Resp
  | [], _ => ⟨none, .result, none, none⟩
  | .invoke :: _, st =>
    match c.behave with
    | none => ⟨some st.kw, .result, none, none⟩
    | some e => let (w, e') := propagate e (site.chain .invoke); ⟨some st.kw, w, some e', some .method⟩
  | p :: rest, st =>
    match step c st p with
    | .ok st' => run site c rest st'
    | .error (e, why) => let (w, e') := propagate e (site.chain p); ⟨none, w, some e', some why⟩

/-- the dispatch function of one site on one call -/
def serve (site : Site) (c : Call) : Resp := run site c site.phases {}

end VgiVerif.C06
