import VgiVerif.Prelude.PyStr
import VgiVerif.Gen.Sticky
/-
Sequential model of the sticky-session machinery (shared by C25 and C27; C26 adds the interleavings).

Transliteration of vgi_rpc/http/server/_sticky.py
  `_seal_session_token` / `_open_session_token`      → `packFrame`, `parseFrame`, `openSessionToken`
  `_SessionRegistry.open/get/close/drain_expired/shutdown` → `Reg.*`
  `_StickySink`, `_StickyMiddleware.process_request / _open_session / _close_session / process_response`
                                                      → `resolve`, `stepAction`, `serve`
  `_SessionResource.on_delete`                        → `onDelete`
of `CallContext.open_session / close_session / session` (vgi_rpc/rpc/_common.py) → `stepAction`,
and of `_compute_aad` (vgi_rpc/http/server/_state_token.py) → `aad`,
over the constants / shapes extracted into `Gen.Sticky`.

Abstractions (DESIGN §3.4, Appendix B):
* AEAD is symbolic: a sealed envelope is the term `Tok.sealed key aad ver nonce payload`; everything else is `Tok.raw`.
* base64 is a `Codec`: `enc` (the canonical text `urlsafe_b64encode(..).rstrip("=")`), `dec` (the *lenient* decoder — any
  function with `dec (enc t) = some t`).
* identities are given by the UTF-8 bytes of `domain` / `principal` (`None` ≡ `""`, as in the code).
* `time.time()`, `secrets.token_bytes`, `os.urandom` are the deterministic counters of `Env` (the harness installs the same).
* `Entry.owner` / `Req.client` are ghost fields (which client's request opened the session); no function branches on them.
-/
namespace VgiVerif.Sticky
open VgiVerif.Gen

abbrev Bytes := List UInt8

/-! ### `struct` little-endian unsigned fields -/

/-- `n` on `k` bytes, little-endian (`struct.pack("<Q", n)` for `k = 8`) -/
def leBytes : Nat → Nat → Bytes
  | 0, _ => []
  | k + 1, n => UInt8.ofNat (n % 256) :: leBytes k (n / 256)

def leVal : Bytes → Nat
  | [] => 0
  | b :: r => b.toNat + 256 * leVal r

/-- `Struct.size` -/
def structSize (widths : List Nat) : Nat := widths.sum

/-- the integer fields of a packed struct -/
def structFields : List Nat → Bytes → List Nat
  | [], _ => []
  | w :: ws, b => leVal (b.take w) :: structFields ws (b.drop w)

inductive OpenErr where
  | lost     -- `SessionLostError`
  | crash    -- any other exception escaping (`struct.error`, `ValueError` of a tuple unpack, …)
deriving DecidableEq, Repr

/-- `Struct.unpack_from(buf, off)` — raises `struct.error` when fewer than `size` bytes remain -/
def unpackFrom (widths : List Nat) (buf : Bytes) (off : Nat) : Except OpenErr (List Nat) :=
  if off + structSize widths ≤ buf.length then .ok (structFields widths (buf.drop off)) else .error .crash

def prefixSize : Nat := structSize Sticky.prefixWidths
def suffixSize : Nat := structSize Sticky.suffixWidths

/-- `struct.pack` of a list of values (caller guarantees the ranges, see `SealOk`) -/
def structPack : List Nat → List Nat → Bytes
  | w :: ws, v :: vs => leBytes w v ++ structPack ws vs
  | _, _ => []

/-- the plaintext frame of `_seal_session_token` -/
def packFrame (created : Nat) (serverId sid : Bytes) (expires : Nat) : Bytes :=
  structPack Sticky.prefixWidths [created, serverId.length] ++ serverId ++ sid ++ structPack Sticky.suffixWidths [expires]

/-- the parsing half of `_open_session_token` (after the AEAD open): `(server_id bytes, session_id, expires_at)` -/
def parseFrame (pt : Bytes) : Except OpenErr (Bytes × Bytes × Nat) :=
  if pt.length < prefixSize then .error .lost
  else
    match unpackFrom Sticky.prefixWidths pt 0 with
    | .error e => .error e
    | .ok [_created, serverIdLen] =>
      let sidPos := prefixSize + serverIdLen
      let endPos := sidPos + Sticky.sessionIdLen + suffixSize
      if pt.length ≠ endPos then .error .lost
      else
        let serverId := (pt.drop prefixSize).take serverIdLen
        let sid := (pt.drop sidPos).take Sticky.sessionIdLen
        match unpackFrom Sticky.suffixWidths pt (sidPos + Sticky.sessionIdLen) with
        | .error e => .error e
        | .ok [expires] => .ok (serverId, sid, expires)
        | .ok _ => .error .crash
    | .ok _ => .error .crash

/-- UTF-8 of `bytes.decode("ascii", errors="replace")` (each non-ASCII byte becomes U+FFFD) -/
def asciiReplaceUtf8 (b : Bytes) : Bytes :=
  b.flatMap fun x => if x.toNat < 128 then [x] else [0xEF, 0xBF, 0xBD]

/-! ### symbolic AEAD and the base64 layer -/

inductive Tok where
  | raw (bs : Bytes)
  | sealed (key : Nat) (aad : Bytes) (ver : Nat) (nonce : Nat) (payload : Bytes)
deriving DecidableEq, Repr

/-- `crypto.open_bytes(raw, key, aad=aad, version=ver)`; `none` is `SealError` -/
def openBytes (key : Nat) (aad : Bytes) (ver : Nat) : Tok → Option Bytes
  | .sealed k a v _ p => if k = key ∧ a = aad ∧ v = ver then some p else none
  | .raw _ => none

structure Codec (Wire : Type) where
  /-- `urlsafe_b64encode(sealed).rstrip(b"=").decode("ascii")` -/
  enc : Tok → Wire
  /-- `urlsafe_b64decode(token + padding)`, the lenient decoder (`none`: it raised) -/
  dec : Wire → Option Tok
  dec_enc : ∀ t, dec (enc t) = some t

/-- `_open_session_token`, parametric in the one shape that differs between the pinned and the repaired tree:
does it compare the re-encoded envelope with the presented text? -/
def openSessionTokenP {Wire : Type} [DecidableEq Wire] (canonical : Bool) (C : Codec Wire) (w : Wire) (key : Nat) (aad : Bytes) :
    Except OpenErr (Bytes × Bytes × Nat) :=
  match C.dec w with
  | none => .error .lost
  | some t =>
    if canonical = true ∧ C.enc t ≠ w then .error .lost
    else
      match openBytes key aad Sticky.tokenVersion t with
      | none => .error .lost
      | some pt => parseFrame pt

/-- `_open_session_token` as extracted -/
def openSessionToken {Wire : Type} [DecidableEq Wire] (C : Codec Wire) (w : Wire) (key : Nat) (aad : Bytes) :
    Except OpenErr (Bytes × Bytes × Nat) :=
  openSessionTokenP Sticky.canonicalCheck C w key aad

/-! ### identities -/

inductive Identity where
  | anon                                   -- `auth is None or not auth.authenticated`
  | user (domain principal : Bytes)        -- UTF-8 of `auth.domain or ""`, `auth.principal or ""`
deriving DecidableEq, Repr

/-- `_compute_aad` -/
def aad : Identity → Bytes
  | .anon => Sticky.aadPrefix ++ Sticky.aadAnonTail
  | .user d p => Sticky.aadPrefix ++ Sticky.aadUserTag ++ d ++ Sticky.aadSep ++ p

/-- `_StickyMiddleware._principal_key` (UTF-8 of the str) -/
def pkey : Identity → Bytes
  | .anon => Sticky.pkeyAnon
  | .user d p => d ++ Sticky.pkeySep ++ p

/-! ### the registry -/

structure Entry where
  sid : Bytes
  expires : Nat        -- `expires_at` (the harness keeps the clock integral)
  pkey : Bytes
  state : Nat          -- label of the state object
  owner : Nat          -- ghost: the client whose request opened it
deriving DecidableEq, Repr

structure Reg where
  entries : List Entry := []
  draining : Bool := false
deriving DecidableEq, Repr

def Reg.find (r : Reg) (sid : Bytes) : Option Entry := r.entries.find? (fun e => e.sid == sid)

/-- `del self._entries[sid]` / `.pop(sid, None)` -/
def Reg.remove (r : Reg) (sid : Bytes) : Reg := { r with entries := r.entries.filter (fun e => !(e.sid == sid)) }

/-- `self._entries[sid] = entry` -/
def Reg.insert (r : Reg) (e : Entry) : Reg := { r with entries := (r.remove e.sid).entries ++ [e] }

def expired (e : Entry) (now : Nat) : Bool :=
  if Sticky.expiryStrict then decide (e.expires < now) else decide (e.expires ≤ now)

def checkPrincipal : Bool := Sticky.getSteps.contains "principal"
def checkServerId : Bool := Sticky.validateSteps.contains "server_id"

/-- `_SessionRegistry.get`: new registry, the entry (or `None`), labels of the states whose `close()` ran -/
def Reg.get (r : Reg) (sid pk : Bytes) (now : Nat) : Reg × Option Entry × List Nat :=
  match r.find sid with
  | none => (r, none, [])
  | some e =>
    if expired e now then (r.remove sid, none, [e.state])
    else if checkPrincipal ∧ e.pkey ≠ pk then (r, none, [])
    else (r, some e, [])

/-- `_SessionRegistry.is_live`: is `e` still the registered entry of `sid`? -/
def Reg.isLive (r : Reg) (sid : Bytes) (e : Entry) : Bool := r.find sid == some e

/-- does `process_request` re-validate the entry once it holds the entry lock? -/
def revalidates : Bool := Sticky.validateSteps.contains "revalidate"

/-- lookup as `process_request` does it: `get`, acquire the entry lock, `is_live` re-validation (a miss releases the lock and
is answered `session_lost`).  Sequentially nothing can end the session in between (`Reg.getLive_eq` in `Lemmas/Sticky`);
the interleavings are C26's. -/
def Reg.getLive (r : Reg) (sid pk : Bytes) (now : Nat) : Reg × Option Entry × List Nat :=
  match r.get sid pk now with
  | (r', some e, cl) => if revalidates && !(r'.isLive sid e) then (r', none, cl) else (r', some e, cl)
  | x => x

/-- `_SessionRegistry.close` -/
def Reg.close (r : Reg) (sid : Bytes) : Reg × Bool × List Nat :=
  match r.find sid with
  | none => (r, false, [])
  | some e => (r.remove sid, true, [e.state])

/-- `_SessionRegistry.drain_expired` -/
def Reg.drainExpired (r : Reg) (now : Nat) : Reg × List Nat :=
  ({ r with entries := r.entries.filter (fun e => !(decide (e.expires < now))) },
   (r.entries.filter (fun e => decide (e.expires < now))).map (·.state))

/-- `_SessionRegistry.shutdown` -/
def Reg.shutdown (r : Reg) : Reg × List Nat := ({ r with entries := [] }, r.entries.map (·.state))

/-! ### one worker, one request -/

structure Cfg where
  serverId : Bytes      -- UTF-8 of `RpcServer.server_id`
  key : Nat             -- which AEAD key (`token_key`)
  defaultTtl : Nat
deriving DecidableEq, Repr

/-- process-wide deterministic stand-ins: `time.time()`, `secrets.token_bytes`, `os.urandom` -/
structure Env where
  now : Nat
  sidCtr : Nat
  nonceCtr : Nat
deriving DecidableEq, Repr

structure Mint where
  wk : Nat
  serverId : Bytes
  key : Nat
  ident : Identity
  sid : Bytes
  created : Nat
  expires : Nat
  nonce : Nat
  tok : Tok
  client : Nat
deriving DecidableEq, Repr

/-- everything one request on one worker reads and writes -/
structure World where
  reg : Reg
  env : Env
  mints : List Mint := []
  closedLog : List Nat := []       -- labels of states whose `close()` ran, in order
deriving DecidableEq, Repr

structure Req (Wire : Type) where
  ident : Identity
  accept : Option (List Char) := none     -- raw `VGI-Session-Accept` value
  session : Option Wire := none           -- `VGI-Session` value after `.strip()`; `none` = absent or empty
  client : Nat := 0                        -- ghost
  path : List Char := "/run".toList        -- `req.path` relative to the app's URL prefix (`/{method}`, `/{method}/init`, …)

/-- the exemption test at the top of `_StickyMiddleware.process_request`, on the path relative to the app prefix
(the exempt prefixes are `{prefix}/health` and `{prefix}/__session__`) -/
def exemptPath (path : List Char) : Bool :=
  Sticky.exemptSuffixes.any fun s =>
    let p := s.toList
    if Sticky.exemptCompare == "eq_or_subtree" then path == p || (p ++ ['/']).isPrefixOf path
    else if Sticky.exemptCompare == "startswith" then p.isPrefixOf path
    else if Sticky.exemptCompare == "eq" then path == p
    else false

/-- Python `str.isspace` restricted to Latin-1 (what a WSGI header value can carry) -/
def isSpaceLatin1 (c : Char) : Bool := [9, 10, 11, 12, 13, 28, 29, 30, 31, 32, 133, 160].contains c.toNat

def strip (s : List Char) : List Char := ((s.dropWhile isSpaceLatin1).reverse.dropWhile isSpaceLatin1).reverse

/-- `(req.get_header(SESSION_ACCEPT_HEADER) or "").strip().lower() == "true"` -/
def acceptOpens (v : Option (List Char)) : Bool :=
  match v with
  | none => false
  | some s => (strip s).map PyStr.asciiLower == "true".toList

/-- request-scoped state: `_current_session_context`, the `_StickySink`, `req.context.sticky_entry*` -/
structure RS where
  sc : Option (Bytes × Nat) := none      -- (session id, state label)
  accept : Bool := false
  mint : Option Tok := none
  closed : Bool := false
  lockHeld : Option Bytes := none
deriving DecidableEq, Repr

inductive Resolve where
  | fresh                 -- no token presented
  | lost                  -- `SessionLostError` in the middleware: response completed, no dispatch
  | resumed (e : Entry)
deriving DecidableEq, Repr

/-- the token half of `_StickyMiddleware.process_request` -/
def resolve {Wire : Type} [DecidableEq Wire] (C : Codec Wire) (cfg : Cfg) (W : World) (rq : Req Wire) : World × Resolve :=
  match rq.session with
  | none => (W, .fresh)
  | some w =>
    match openSessionToken C w cfg.key (aad rq.ident) with
    | .error _ => (W, .lost)
    | .ok (serverId, sid, _expires) =>
      if checkServerId ∧ asciiReplaceUtf8 serverId ≠ cfg.serverId then (W, .lost)
      else
        match W.reg.getLive sid (pkey rq.ident) W.env.now with
        | (reg', none, cl) => ({ W with reg := reg', closedLog := W.closedLog ++ cl }, .lost)
        | (reg', some e, cl) => ({ W with reg := reg', closedLog := W.closedLog ++ cl }, .resumed e)

inductive Action where
  | open (label : Nat) (ttl : Option Int)     -- `ctx.open_session(state, ttl)` (whole seconds; may be 0 or negative)
  | close                                     -- `ctx.close_session()`
  | use                                       -- read `ctx.session`
  | noop
  | reap (at_ : Nat)                          -- environment, while the method runs: a reaper tick whose clock reads `at_`
  | shutdown                                  -- environment, while the method runs: `DrainHandle.shutdown()`
deriving DecidableEq, Repr

/-- an API call of the method (as opposed to something the environment does meanwhile) -/
def Action.isApi : Action → Bool
  | .reap _ => false
  | .shutdown => false
  | _ => true

inductive MethodErr where
  | notOptedIn | alreadyActive | draining | sealFailed
  | notAvailable            -- "sticky sessions not available on this transport" (no sink: the middleware was skipped)
deriving DecidableEq, Repr

inductive ActOut where
  | opened (sid : Bytes)
  | closed (hit : Bool)
  | used (state : Option Nat)
  | noop
  | env                      -- the environment acted
  | failed (e : MethodErr)
deriving DecidableEq, Repr

/-- `struct.pack` / `_seal_session_token` accept the values -/
def sealOk (cfg : Cfg) (created expires : Nat) : Bool :=
  decide (cfg.serverId.length ≤ Sticky.maxServerIdLen) && decide (created < 256 ^ Sticky.prefixWidths.headD 0)
    && decide (cfg.serverId.length < 256 ^ (Sticky.prefixWidths.drop 1).headD 0) && decide (expires < 256 ^ Sticky.suffixWidths.headD 0)

/-- the TTL `_SessionRegistry.open` applies: `default if ttl is None else ttl` (or, in the other extracted shape, `ttl or default`) -/
def effTtl (ttl : Option Int) (d : Nat) : Int :=
  match ttl with
  | none => d
  | some t => if Sticky.ttlDefaultOnFalsy && t == 0 then d else t

/-- `expires_at = time.time() + effective_ttl` (a negative instant cannot be packed: see `openSealOk`) -/
def expiresOf (now : Nat) (ttl : Option Int) (d : Nat) : Nat := ((now : Int) + effTtl ttl d).toNat

/-- sealing the token of this `open_session` succeeds -/
def openSealOk (cfg : Cfg) (now : Nat) (ttl : Option Int) : Bool :=
  decide (0 ≤ (now : Int) + effTtl ttl cfg.defaultTtl) && sealOk cfg now (expiresOf now ttl cfg.defaultTtl)

def sidOfCtr (n : Nat) : Bytes := leBytes Sticky.sessionIdLen n

/-- one API call of the method body, parametric in the one shape that differs between the pinned and the repaired tree:
does `_StickySink.open` reset `closed`? -/
def stepActionP (openResetsClosed : Bool) (cfg : Cfg) (wk : Nat) (ident : Identity) (client : Nat) (W : World) (rs : RS) :
    Action → World × RS × ActOut
  | .open label ttl =>
    if !rs.accept then (W, rs, .failed .notOptedIn)
    else if rs.sc.isSome then (W, rs, .failed .alreadyActive)
    else if Sticky.drainCheckFirst && W.reg.draining then (W, rs, .failed .draining)
    else
      let sid := sidOfCtr W.env.sidCtr
      let expires := expiresOf W.env.now ttl cfg.defaultTtl
      let reg' := W.reg.insert ⟨sid, expires, pkey ident, label, client⟩
      let env' := { W.env with sidCtr := W.env.sidCtr + 1 }
      if !openSealOk cfg W.env.now ttl then
        -- `_seal_session_token` raises after the registry insertion
        ({ W with reg := reg', env := env' }, rs, .failed .sealFailed)
      else
        let tok := Tok.sealed cfg.key (aad ident) Sticky.tokenVersion W.env.nonceCtr (packFrame W.env.now cfg.serverId sid expires)
        let m : Mint := ⟨wk, cfg.serverId, cfg.key, ident, sid, W.env.now, expires, W.env.nonceCtr, tok, client⟩
        ({ W with reg := reg', env := { env' with nonceCtr := W.env.nonceCtr + 1 }, mints := W.mints ++ [m] },
         { rs with sc := some (sid, label), mint := some tok,
                   closed := if openResetsClosed then false else rs.closed },
         .opened sid)
  | .close =>
    match rs.sc with
    | none =>   -- the callback reports a miss
      (W, { rs with closed := if Sticky.sinkCloseAssignsHit then false else Sticky.sinkCloseSetsClosed || rs.closed }, .closed false)
    | some (sid, _) =>
      let (reg', hit, cl) := W.reg.close sid
      ({ W with reg := reg', closedLog := W.closedLog ++ cl },
       { rs with sc := none, lockHeld := if Sticky.closeSessionReleasesLock then none else rs.lockHeld,
                 closed := if Sticky.sinkCloseAssignsHit then hit
                           else (Sticky.sinkCloseSetsClosed || (Sticky.sinkCloseOnHitOnly && hit)) || rs.closed,
                 mint := if Sticky.sinkCloseClearsMint then none else rs.mint },
       .closed hit)
  | .use => (W, rs, .used (rs.sc.map (·.2)))
  | .noop => (W, rs, .noop)
  | .reap at_ =>
    let (r, cl) := W.reg.drainExpired at_
    ({ W with reg := r, closedLog := W.closedLog ++ cl }, rs, .env)
  | .shutdown =>
    let (r, cl) := W.reg.shutdown
    ({ W with reg := r, closedLog := W.closedLog ++ cl }, rs, .env)

/-- one API call of the method body, as extracted -/
def stepAction (cfg : Cfg) (wk : Nat) (ident : Identity) (client : Nat) (W : World) (rs : RS) (a : Action) : World × RS × ActOut :=
  stepActionP Sticky.sinkOpenResetsClosed cfg wk ident client W rs a

/-- the method body: API calls in order; an exception ends it unless the method swallows it -/
def runScript (cfg : Cfg) (wk : Nat) (ident : Identity) (client : Nat) (swallow : Bool) :
    World → RS → List Action → World × RS × List ActOut × Option MethodErr
  | W, rs, [] => (W, rs, [], none)
  | W, rs, a :: as =>
    match stepAction cfg wk ident client W rs a with
    | (W', rs', .failed e) =>
      if swallow then
        let (W'', rs'', os, err) := runScript cfg wk ident client swallow W' rs' as
        (W'', rs'', .failed e :: os, err)
      else (W', rs', [.failed e], some e)
    | (W', rs', o) =>
      let (W'', rs'', os, err) := runScript cfg wk ident client swallow W' rs' as
      (W'', rs'', o :: os, err)

inductive Outcome where
  | lost                       -- error_kind session_lost, method not dispatched
  | ok
  | failed (e : MethodErr)     -- the method raised
deriving DecidableEq, Repr

structure Resp (Wire : Type) where
  outcome : Outcome
  session : Option Wire       -- `VGI-Session` response header
  close : Bool                -- `VGI-Session-Close: true`
  log : List ActOut           -- what the method did (empty iff not dispatched or an empty script)

def emitSession : Bool := Sticky.respEmit.contains "session_if_mint"
def emitClose : Bool := Sticky.respEmit.contains "close_if_closed"

/-- `process_request` → dispatch → `process_response` -/
def serve {Wire : Type} [DecidableEq Wire] (C : Codec Wire) (cfg : Cfg) (wk : Nat) (W : World) (rq : Req Wire)
    (script : List Action) (swallow : Bool) : World × Resp Wire :=
  match resolve C cfg W rq with
  | (W₁, .lost) => (W₁, ⟨.lost, none, false, []⟩)
  | (W₁, r) =>
    let rs₀ : RS :=
      match r with
      | .resumed e => { sc := some (e.sid, e.state), accept := acceptOpens rq.accept, lockHeld := some e.sid }
      | _ => { accept := acceptOpens rq.accept }
    let (W₂, rs, log, err) := runScript cfg wk rq.ident rq.client swallow W₁ rs₀ script
    (W₂, ⟨match err with | none => .ok | some e => .failed e,
          if emitSession then rs.mint.map C.enc else none,
          emitClose && rs.closed, log⟩)

/-- one step of a method dispatched WITHOUT the sticky machinery (exempt path: no sink, no session context) -/
def bypassStep (W : World) : Action → World × ActOut
  | .open _ _ => (W, .failed .notAvailable)
  | .close => (W, .failed .notAvailable)
  | .use => (W, .used none)
  | .noop => (W, .noop)
  | .reap at_ =>
    let (r, cl) := W.reg.drainExpired at_
    ({ W with reg := r, closedLog := W.closedLog ++ cl }, .env)
  | .shutdown =>
    let (r, cl) := W.reg.shutdown
    ({ W with reg := r, closedLog := W.closedLog ++ cl }, .env)

def bypassRun (swallow : Bool) : World → List Action → World × List ActOut × Option MethodErr
  | W, [] => (W, [], none)
  | W, a :: as =>
    match bypassStep W a with
    | (W', .failed e) =>
      if swallow then
        let (W'', os, err) := bypassRun swallow W' as
        (W'', .failed e :: os, err)
      else (W', [.failed e], some e)
    | (W', o) =>
      let (W'', os, err) := bypassRun swallow W' as
      (W'', o :: os, err)

/-- a POST on an RPC route as the app handles it: exempt paths skip the sticky middleware altogether -/
def handle {Wire : Type} [DecidableEq Wire] (C : Codec Wire) (cfg : Cfg) (wk : Nat) (W : World) (rq : Req Wire)
    (script : List Action) (swallow : Bool) : World × Resp Wire :=
  if exemptPath rq.path then
    let (W', log, err) := bypassRun swallow W script
    (W', ⟨match err with | none => .ok | some e => .failed e, none, false, log⟩)
  else serve C cfg wk W rq script swallow

def deleteExit (name : String) : Nat × Bool :=
  match Sticky.deleteExits.find? (fun x => x.1 == name) with
  | some x => x.2
  | none => (0, false)

/-- `_SessionResource.on_delete`: (HTTP status, `VGI-Session-Close` header set) -/
def onDelete {Wire : Type} [DecidableEq Wire] (C : Codec Wire) (cfg : Cfg) (W : World) (rq : Req Wire) : World × (Nat × Bool) :=
  match rq.session with
  | none => (W, deleteExit "no_header")
  | some w =>
    match openSessionToken C w cfg.key (aad rq.ident) with
    | .error .lost => (W, deleteExit "open_failed")
    | .error .crash => (W, (500, false))
    | .ok (serverId, sid, _) =>
      if asciiReplaceUtf8 serverId ≠ cfg.serverId then (W, deleteExit "server_id")
      else
        match W.reg.get sid (pkey rq.ident) W.env.now with
        | (reg', none, cl) => ({ W with reg := reg', closedLog := W.closedLog ++ cl }, deleteExit "registry_miss")
        | (reg', some _, cl) =>
          let (reg'', _, cl') := reg'.close sid
          ({ W with reg := reg'', closedLog := W.closedLog ++ cl ++ cl' }, deleteExit "hit")

/-! ### several workers -/

structure Net where
  cfg : Nat → Cfg
  regs : Nat → Reg
  env : Env
  mints : List Mint := []
  closedLog : List Nat := []

def Net.world (n : Net) (wk : Nat) : World := ⟨n.regs wk, n.env, n.mints, n.closedLog⟩

def Net.put (n : Net) (wk : Nat) (W : World) : Net :=
  { n with regs := fun i => if i = wk then W.reg else n.regs i, env := W.env, mints := W.mints, closedLog := W.closedLog }

inductive Op (Wire : Type) where
  | call (wk : Nat) (rq : Req Wire) (script : List Action) (swallow : Bool)
  | delete (wk : Nat) (rq : Req Wire)
  | tick (dt : Nat)
  | reap (wk : Nat)                      -- one reaper tick: `drain_expired()`
  | shutdown (wk : Nat)
  | setDraining (wk : Nat) (b : Bool)

inductive Obs (Wire : Type) where
  | resp (r : Resp Wire)
  | deleted (status : Nat) (closeHeader : Bool)
  | none

def Net.step {Wire : Type} [DecidableEq Wire] (C : Codec Wire) (n : Net) : Op Wire → Net × Obs Wire
  | .call wk rq script swallow =>
    let (W, r) := handle C (n.cfg wk) wk (n.world wk) rq script swallow
    (n.put wk W, .resp r)
  | .delete wk rq =>
    let (W, (st, h)) := onDelete C (n.cfg wk) (n.world wk) rq
    (n.put wk W, .deleted st h)
  | .tick dt => ({ n with env := { n.env with now := n.env.now + dt } }, .none)
  | .reap wk =>
    let (r, cl) := (n.regs wk).drainExpired n.env.now
    (n.put wk { n.world wk with reg := r, closedLog := n.closedLog ++ cl }, .none)
  | .shutdown wk =>
    let (r, cl) := (n.regs wk).shutdown
    (n.put wk { n.world wk with reg := r, closedLog := n.closedLog ++ cl }, .none)
  | .setDraining wk b => (n.put wk { n.world wk with reg := { n.regs wk with draining := b } }, .none)

def Net.run {Wire : Type} [DecidableEq Wire] (C : Codec Wire) (n : Net) (ops : List (Op Wire)) : Net :=
  ops.foldl (fun n op => (n.step C op).1) n

end VgiVerif.Sticky
