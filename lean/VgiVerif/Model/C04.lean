import VgiVerif.Gen.C04
/-
C04 — connection-level model of the socket family (pipe / subprocess / unix / tcp).

The two directions of a connection are FIFO queues of *frames*: `op` (schema message = an IPC stream begins), `it x`
(one record batch, classified), `eos` (end-of-stream marker).  A queue of whole IPC streams is the same thing with the
brackets made explicit; the unread suffix is the read cursor.  Each peer blocks only on reads (OS buffers are assumed
to hold the bounded messages used), so each peer is a Mealy machine over the frames it receives:

  * server  `srvOn`   — `RpcServer.serve` / `serve_one` / `_read_request` (first batch, drain to EOS, then the checks) /
                        unknown method / version gate / validation `try` / `_serve_unary` / `_serve_stream` (init `try`,
                        header stream, input reader, loop with the cancel branch, `except Exception` → error batch,
                        output EOS, final drain of the input) / `_drain_refused_stream_input`      (vgi_rpc/rpc/_server.py)
  * client  `cliStart` (what an operation writes before its first read) and `cliOn` (reaction to one received frame) —
                        `_RpcProxy` unary / stream callers, `_read_unary_response`, `_read_header_batch` (rpc/_wire.py),
                        `StreamSession.tick / exchange / close / cancel / _drain_output`            (rpc/_client.py)

Batch *contents* (values, log texts) are abstracted — `Engine` (C01) models them; here only what decides how many frames
each side writes and reads matters: log / data / error on the way back, request / input / cancel on the way in, the
service's behaviour per method (how many logs, raises or not, the step script), the outcome of the request checks and the
`on_log` callback's behaviour (`pol n` = the callback raises on the n-th log delivered during the call).

Branches that differ between the pinned and the repaired tree are selected by the extracted `Gen.C04.Shape`.
No imports besides Gen (linked into the native driver).
-/
namespace VgiVerif.C04
open VgiVerif.Gen.C04 (Shape)

/-! ## Frames -/

/-- outcome of the checks `serve_one` performs on a request before it runs the method (their logic is C06 / C09) -/
structure Request where
  method : Nat          -- index into the server's method table; out of range = the server has no such method
  versionOk : Bool      -- `_check_protocol_version` passes (always, when the server declares no version)
  paramsOk : Bool       -- `_deserialize_params` / `_validate_call_signature` / `_validate_params` pass
  clientRejects : Bool  -- CLIENT side: `_send_request` raises before the request is on the wire (`_validate_params`: None for a
                        --   non-optional parameter; `_write_request`: a value `pa.array` cannot convert to the parameter's type —
                        --   a str for an int, an int beyond 64 bits, a str that is not encodable)
  resultDecodes : Bool  -- CLIENT side, unary: `_validate_result` / `_deserialize_value` accept the value the server returns
                        --   (false when the two Protocols differ: enum member unknown to the client, None for a non-optional
                        --   result, a value of another type than the declared dataclass, …)
deriving Repr, DecidableEq

/-- client → server batches -/
inductive CItem where
  | req (r : Request)   -- request batch (carries `vgi_rpc.method`)
  | inp                 -- tick / exchange input batch
  | cancel              -- zero-row batch carrying `vgi_rpc.cancel`
deriving Repr, DecidableEq

/-- server → client batches, as `_dispatch_log_or_error` classifies them -/
inductive SItem where
  | log | data | err
deriving Repr, DecidableEq

inductive Fr (α : Type) where
  | op | it (a : α) | eos
deriving Repr, DecidableEq

abbrev CFr := Fr CItem
abbrev SFr := Fr SItem

def logs (n : Nat) : List SFr := List.replicate n (.it .log)
def errStream : List SFr := [.op, .it .err, .eos]          -- `_write_error_stream`
/-- `_write_error_stream(..., sink=sink)`: the client logs buffered before the failure, then the error batch -/
def errStreamL (n : Nat) : List SFr := [.op] ++ logs n ++ [.it .err, .eos]

/-! ## Service -/

inductive Act where
  | emit | finish | emitFinish | raise | nothing
deriving Repr, DecidableEq

/-- one `process()` call: `pre` logs, the action, `post` logs (emitted after the data batch) -/
structure StepB where
  pre : Nat
  act : Act
  post : Nat
deriving Repr, DecidableEq

/-- what calling the stream method yields -/
inductive Init where
  | ok            -- a Stream (with the header when one is declared)
  | raises        -- the method raises
  | nonStream     -- returns something that is not a Stream
  | noHeader      -- returns a Stream with header=None
deriving Repr, DecidableEq

inductive Method where
  | unary (nlogs : Nat) (raises : Bool)
  | stream (exchange header : Bool) (initLogs : Nat) (init : Init) (steps : List StepB)
deriving Repr, DecidableEq

structure Svc where
  methods : List Method
deriving Repr

/-- `process()` number k: past the script a producer finishes, an exchange keeps answering -/
def stepAt (ex : Bool) (steps : List StepB) (k : Nat) : StepB :=
  steps.getD k (if ex then ⟨0, .emit, 0⟩ else ⟨0, .finish, 0⟩)

inductive Cont where
  | cont | done | fail
deriving Repr, DecidableEq

/-- `OutputCollector` + `_flush_collector` + the loop's `except Exception` (same rules as Engine.processStep /
processExchangeStep): what one `process()` call puts on the output stream.  `fl`: a failing call's log batches are
written ahead of its error batch (`_flush_collector_logs`); else they are dropped with the collector. -/
def stepOut (fl : Bool) (ex : Bool) (s : StepB) : Cont × List SItem :=
  let lg (n : Nat) : List SItem := List.replicate n .log
  match s.act, ex with
  | .emit, _ => (.cont, lg s.pre ++ [.data] ++ lg s.post)
  | .finish, false => (.done, lg s.pre ++ lg s.post)
  | .emitFinish, false => (.done, lg s.pre ++ [.data] ++ lg s.post)
  | .finish, true => (.fail, (if fl then lg s.pre ++ lg s.post else []) ++ [.err])      -- finish() raises on an exchange
  | .emitFinish, true => (.fail, (if fl then lg s.pre ++ lg s.post else []) ++ [.err])
  | .raise, _ => (.fail, (if fl then lg s.pre else []) ++ [.err])
  | .nothing, _ => (.fail, (if fl then lg s.pre else []) ++ [.err])

/-! ## Server -/

inductive SrvPc where
  | boundary                                   -- `serve`: about to `ipc.open_stream` the next request
  | reqOpen                                    -- `_read_request`: waiting for the first batch
  | reqDrain (r : Request)                     -- `_drain_stream(reader)` before any validation
  | reqBad                                     -- the first batch carries no `vgi_rpc.method`: drained, then a ProtocolError reply
  | refOpen                                    -- `_drain_refused_stream_input`: `ipc.open_stream`
  | refDrain                                   --   … `_drain_stream`
  | inOpen (ex hdr : Bool) (il : Nat) (steps : List StepB)    -- `_serve_stream`: `ipc.open_stream(transport.reader)` for the input
  | loop (ex : Bool) (steps : List StepB) (k : Nat)           -- reading the next input batch; `k` process() calls so far
  | finDrain                                   -- output stream closed; `_drain_stream(input_reader)`
  | dead                                       -- `serve` returned / an exception escaped: nothing is read any more
deriving Repr, DecidableEq

def Method.headerless : Method → Bool
  | .stream _ false _ _ _ => true
  | _ => false

/-- `_drain_refused_stream_input(transport, info)` when the call site has it: only a header-less stream's client has
(or will have) an input stream on the wire -/
def refuse (site : Bool) (m : Method) : SrvPc := if site && m.headerless then .refOpen else .boundary

def initFails (hdr : Bool) : Init → Bool
  | .ok => false
  | .raises => true
  | .nonStream => true
  | .noHeader => hdr

/-- `serve_one` after `_read_request` returned `(method_name, kwargs)` -/
def dispatch (sh : Shape) (svc : Svc) (r : Request) : SrvPc × List SFr :=
  match svc.methods[r.method]? with
  | none => (if sh.drainUnknown then .refOpen else .boundary, errStream)
  | some m =>
    if !r.versionOk then (refuse sh.drainVersion m, errStream)
    else if !r.paramsOk then (refuse sh.drainParams m, errStream)
    else match m with
      | .unary n raises => (.boundary, [.op] ++ logs n ++ [.it (if raises then .err else .data), .eos])
      | .stream ex hdr il init steps =>
        if initFails hdr init then
          if init = .raises || sh.initChecks then
            (refuse sh.drainInit m, if sh.initErrorFlushesLogs then errStreamL il else errStream)
          else (.dead, [])                       -- AttributeError / TypeError outside every handler: `serve` dies, no reply
        else (.inOpen ex hdr il steps, if hdr then [.op] ++ logs il ++ [.it .data, .eos] else [])

def srvOn (sh : Shape) (svc : Svc) : SrvPc → CFr → SrvPc × List SFr
  | .boundary, .op => (.reqOpen, [])
  | .boundary, _ => (.dead, errStream)                        -- not an IPC stream: error reply, then `serve` stops
  | .reqOpen, .it (.req r) => (.reqDrain r, [])
  | .reqOpen, .it _ => (.reqBad, [])
  | .reqOpen, .eos =>                                         -- a request stream without a batch
      if sh.emptyRequestReplies then (.boundary, errStream) else (.dead, [])   -- (else StopIteration ends the `serve` loop)
  | .reqOpen, .op => (.dead, errStream)
  | .reqDrain r, .it _ => (.reqDrain r, [])
  | .reqDrain r, .eos => dispatch sh svc r
  | .reqDrain _, .op => (.dead, errStream)
  | .reqBad, .it _ => (.reqBad, [])
  | .reqBad, .eos => (.boundary, errStream)                   -- "Missing 'vgi_rpc.method'"
  | .reqBad, .op => (.dead, errStream)
  | .refOpen, .op => (.refDrain, [])
  | .refOpen, _ => (.boundary, [])                            -- suppressed ArrowInvalid
  | .refDrain, .it _ => (.refDrain, [])
  | .refDrain, .eos => (.boundary, [])
  | .refDrain, .op => (.boundary, [])
  | .inOpen ex hdr il steps, .op => (.loop ex steps 0, [.op] ++ (if hdr then [] else logs il))
  | .inOpen _ _ _ _, _ => (.dead, [])
  | .loop _ _ _, .it .cancel => (.finDrain, [.eos])
  | .loop ex steps k, .it _ =>
      match stepOut sh.failFlushesLogs ex (stepAt ex steps k) with
      | (.cont, out) => (.loop ex steps (k + 1), out.map .it)
      | (_, out) => (.finDrain, out.map .it ++ [.eos])
  | .loop _ _ _, .eos => (.boundary, [.eos])                  -- input ended: output EOS; the final drain finds the reader exhausted
  | .loop _ _ _, .op => (.dead, [])
  | .finDrain, .it _ => (.finDrain, [])
  | .finDrain, .eos => (.boundary, [])
  | .finDrain, .op => (.dead, [])
  | .dead, _ => (.dead, [])

/-- the server consumes every frame that is there (it never blocks on a write): (pc, unread frames, frames written) -/
def srvFold (sh : Shape) (svc : Svc) : SrvPc → List CFr → SrvPc × List CFr × List SFr
  | pc, [] => (pc, [], [])
  | .dead, fs => (.dead, fs, [])
  | pc, f :: fs =>
    let (pc', out) := srvOn sh svc pc f
    let (pc'', rest, out') := srvFold sh svc pc' fs
    (pc'', rest, out ++ out')

/-! ## Client -/

/-- `StreamSession` fields that matter: input writer opened, output reader opened, output reader exhausted, `_closed` -/
structure Sess where
  inOpen : Bool
  outOpen : Bool
  outEnded : Bool
  closed : Bool
deriving Repr, DecidableEq

def Sess.fresh : Sess := ⟨false, false, false, false⟩

/-- what an operation gave back to the caller -/
inductive Res where
  | none | value | error | data | fin | raised | refused | closed | cancelled | opened | noSession | transport
deriving Repr, DecidableEq

inductive Purpose where
  | tick | send
deriving Repr, DecidableEq

/-- the read the client is blocked in -/
inductive Wait where
  | unaryOpen (dec : Bool) | unaryRead (dec : Bool) | unaryDrain (r : Res)      -- `dec`: the result value will decode
  | hdrOpen | hdrRead | hdrDrain (ok : Bool) | hdrAbortDrain | abortOpen | abortDrain
  | sessOpen (p : Purpose) | sessRead (p : Purpose)
  | closeOpen (r : Res) | sessDrain (r : Res) (cb : Bool)
deriving Repr, DecidableEq

structure Cli where
  sess : Option Sess
  w : Option Wait        -- none: no operation in progress
  res : Res
  nlog : Nat             -- logs handed to `on_log` since the call began
deriving Repr, DecidableEq

def Cli.idle : Cli := ⟨none, none, .none, 0⟩

def Cli.fin (c : Cli) (r : Res) : Cli × List CFr := ({ c with w := none, res := r }, [])
def Cli.wait (c : Cli) (w : Wait) : Cli × List CFr := ({ c with w := some w }, [])

/-- `close()` / `cancel()` input side: end the input stream, opening it first when nothing was sent yet -/
def endInput (s : Sess) (extra : List CFr) : List CFr := (if s.inOpen then [] else [.op]) ++ extra ++ [.eos]

def Sess.close (s : Sess) : Sess := { s with closed := true, inOpen := true }

inductive Op where
  | call (r : Request)
  | open_ (r : Request) (hdr : Bool)     -- `hdr`: the CLIENT's protocol declares a header for the method
  | tick | send | close | cancel
deriving Repr, DecidableEq

def reqFrames (r : Request) : List CFr := [.op, .it (.req r), .eos]

/-- what an operation does before its first blocking read -/
def cliStart (sh : Shape) (op : Op) (c : Cli) : Cli × List CFr :=
  -- the caller gets the conversion error; if the batch is built inside the `with new_ipc_stream(...)` block, unwinding
  -- through the writer's `__exit__` has by then put a batch-less stream on the wire
  let rejected (c : Cli) : Cli × List CFr :=
    ({ c with nlog := 0, res := .raised, w := none }, if sh.requestBuiltBeforeStream then [] else [.op, .eos])
  match op with
  | .call r =>
    if r.clientRejects then rejected c
    else ({ c with nlog := 0, res := .none, w := some (.unaryOpen r.resultDecodes) }, reqFrames r)
  | .open_ r hdr =>
    if r.clientRejects then rejected { c with sess := none }
    else if hdr then ({ c with nlog := 0, res := .none, sess := none, w := some .hdrOpen }, reqFrames r)
    else ({ c with nlog := 0, res := .opened, sess := some .fresh, w := none }, reqFrames r)
  | .tick | .send =>
    let p : Purpose := if op = .tick then .tick else .send
    match c.sess with
    | none => c.fin .noSession
    | some s =>
      if s.closed then c.fin .refused
      else
        let out : List CFr := (if s.inOpen then [] else [.op]) ++ [.it .inp]
        let s' := { s with inOpen := true }
        if s.outEnded then
          -- the output reader is exhausted: StopIteration at once (tick then closes the session)
          match p with
          | .tick => ({ c with sess := some s'.close, w := none, res := .fin }, out ++ [.eos])
          | .send => ({ c with sess := some s', w := none, res := .fin }, out)
        else ({ c with sess := some s', w := some (if s.outOpen then .sessRead p else .sessOpen p) }, out)
  | .close | .cancel =>
    let r : Res := if op = .close then .closed else .cancelled
    match c.sess with
    | none => c.fin .noSession
    | some s =>
      if s.closed then c.fin r
      else
        let out := endInput s (if op = .close then [] else [.it .cancel])
        if !s.outOpen then ({ c with sess := some s.close, w := some (.closeOpen r) }, out)
        else if s.outEnded then ({ c with sess := some s.close, w := none, res := r }, out)
        else ({ c with sess := some s.close, w := some (.sessDrain r true) }, out)

def updSess (c : Cli) (f : Sess → Sess) : Cli := { c with sess := c.sess.map f }

/-- reaction to one received frame while blocked in `w` -/
def cliOn (sh : Shape) (pol : Nat → Bool) (c : Cli) : Wait → SFr → Cli × List CFr
  -- unary caller: `ipc.open_stream`, `_read_unary_response`
  | .unaryOpen d, .op => c.wait (.unaryRead d)
  | .unaryOpen _, _ => c.fin .transport
  | .unaryRead _, .it .log =>
      let c' := { c with nlog := c.nlog + 1 }
      if pol c.nlog then (if sh.unaryDrainOnCb then c'.wait (.unaryDrain .raised) else c'.fin .raised) else (c', [])
  | .unaryRead _, .it .err => c.wait (.unaryDrain .error)
  | .unaryRead d, .it .data =>
      -- the result batch: `_drain_stream(reader)`, then `as_py` / `_validate_result` / `_deserialize_value`
      if d then c.wait (.unaryDrain .value)
      else if sh.unaryDrainBeforeDecode then c.wait (.unaryDrain .raised)
      else c.fin .raised                       -- the decode raises with the rest of the response still unread
  | .unaryRead _, .eos => c.fin .raised
  | .unaryRead _, .op => c.fin .transport
  | .unaryDrain _, .it _ => (c, [])
  | .unaryDrain r, .eos => c.fin r
  | .unaryDrain _, .op => c.fin .transport
  -- stream caller with a declared header: `_read_stream_header`
  | .hdrOpen, .op => c.wait .hdrRead
  | .hdrOpen, _ => c.fin .transport
  | .hdrRead, .it .log =>
      let c' := { c with nlog := c.nlog + 1 }
      if pol c.nlog then (if sh.hdrDrainOnCb then c'.wait .hdrAbortDrain else c'.fin .raised) else (c', [])
  | .hdrRead, .it .err => c.wait (.hdrDrain false)
  | .hdrRead, .it .data => c.wait (.hdrDrain true)
  | .hdrRead, .eos => c.fin .error
  | .hdrRead, .op => c.fin .transport
  | .hdrDrain _, .it _ => (c, [])
  | .hdrDrain ok, .eos => if ok then ({ c with sess := some .fresh, w := none, res := .opened }, []) else c.fin .error
  | .hdrDrain _, .op => c.fin .transport
  | .hdrAbortDrain, .it _ => (c, [])
  | .hdrAbortDrain, .eos =>
      -- the callback raised: `StreamSession(…, on_log=None).close()` ends the stream the server has opened
      if sh.hdrAbortCloses then ({ c with w := some .abortOpen }, [.op, .eos]) else c.fin .raised
  | .hdrAbortDrain, .op => c.fin .raised
  | .abortOpen, .op => c.wait .abortDrain
  | .abortOpen, _ => c.fin .raised
  | .abortDrain, .it _ => (c, [])
  | .abortDrain, _ => c.fin .raised
  -- session reads: `_read_response` inside tick / exchange
  | .sessOpen p, .op => (updSess { c with w := some (.sessRead p) } fun s => { s with outOpen := true }, [])
  | .sessOpen _, _ => (updSess { c with w := none, res := .transport } fun s => { s with closed := true }, [])
  | .sessRead _, .it .log =>
      let c' := { c with nlog := c.nlog + 1 }
      if pol c.nlog then c'.fin .raised else (c', [])
  | .sessRead _, .it .data => c.fin .data
  | .sessRead _, .it .err =>
      -- RpcError → `self.close()`: input EOS, then `_drain_output`
      (updSess { c with w := some (.sessDrain .error true) } Sess.close,
       match c.sess with | some s => endInput s [] | none => [])
  | .sessRead .tick, .eos =>
      -- StopIteration → `self.close()`: input EOS; the drain finds the reader exhausted
      (updSess { c with w := none, res := .fin } fun s => { s.close with outEnded := true },
       match c.sess with | some s => endInput s [] | none => [])
  | .sessRead .send, .eos => (updSess { c with w := none, res := .fin } fun s => { s with outEnded := true }, [])
  | .sessRead _, .op => (updSess { c with w := none, res := .transport } fun s => { s with closed := true }, [])
  -- close / cancel: open the output reader if needed, `_drain_output`
  | .closeOpen r, .op => (updSess { c with w := some (.sessDrain r true) } fun s => { s with outOpen := true }, [])
  | .closeOpen r, _ => c.fin r
  | .sessDrain _ cb, .it .log =>
      if cb then
        let c' := { c with nlog := c.nlog + 1 }
        if pol c.nlog then (if sh.cliDrainSurvivesCb then c'.wait (.sessDrain .raised false) else c'.fin .raised)
        else (c', [])
      else (c, [])
  | .sessDrain r _, .it .err => if sh.cliDrainOverErr then (c, []) else c.fin r
  | .sessDrain _ _, .it .data => (c, [])
  | .sessDrain r _, .eos => (updSess { c with w := none, res := r } fun s => { s with outEnded := true }, [])
  | .sessDrain r _, .op => c.fin r

/-- the client consumes frames while it is blocked in a read: (client, unread frames, frames written) -/
def cliFold (sh : Shape) (pol : Nat → Bool) : Cli → List SFr → Cli × List SFr × List CFr
  | c, [] => (c, [], [])
  | c, f :: fs =>
    match c.w with
    | none => (c, f :: fs, [])
    | some w =>
      let (c', out) := cliOn sh pol c w f
      let (c'', rest, out') := cliFold sh pol c' fs
      (c'', rest, out ++ out')

/-! ## Connection -/

structure St where
  c2s : List CFr         -- written by the client, not yet read by the server
  s2c : List SFr         -- written by the server, not yet read by the client
  srv : SrvPc
  cli : Cli
  wc : List CFr          -- everything the client wrote during the current call   (bookkeeping for the correspondence)
  ws : List SFr          -- everything the server wrote during the current call
deriving Repr, DecidableEq

def St.init : St := ⟨[], [], .boundary, .idle, [], []⟩

/-- one scheduling round: the server runs until it blocks, then the client does -/
def round (sh : Shape) (svc : Svc) (pol : Nat → Bool) (st : St) : St :=
  let (srv', crest, sout) := srvFold sh svc st.srv st.c2s
  let (cli', srest, cout) := cliFold sh pol st.cli (st.s2c ++ sout)
  { c2s := crest ++ cout, s2c := srest, srv := srv', cli := cli', wc := st.wc ++ cout, ws := st.ws ++ sout }

/-- run one client operation to quiescence.  Every operation is one lockstep exchange, so a fixed number of rounds
suffices (that it does — the client is never left in a read, nothing is left for the server — is `C04_live`). -/
def execOp (sh : Shape) (svc : Svc) (pol : Nat → Bool) (op : Op) (st : St) : St :=
  let (cli', out) := cliStart sh op st.cli
  let st1 : St := { st with cli := cli', c2s := st.c2s ++ out, wc := st.wc ++ out }
  round sh svc pol (round sh svc pol (round sh svc pol st1))

/-- the operation finished for the caller and the server has consumed everything that was sent -/
def St.settled (st : St) : Bool := st.cli.w.isNone && st.c2s.isEmpty

/-- stuck for good: the client waits for a frame, nothing is in flight in either direction that would produce one -/
def St.blocked (st : St) : Bool := st.cli.w.isSome && st.s2c.isEmpty && (st.c2s.isEmpty || st.srv = .dead)

/-! ## Calls and histories -/

inductive SOp where
  | tick | send | close | cancel
deriving Repr, DecidableEq

def SOp.toOp : SOp → Op
  | .tick => .tick | .send => .send | .close => .close | .cancel => .cancel

/-- One call as the property counts them: a unary call, or a stream call = open, any sequence of session operations,
then leaving the `with` block (`__exit__` = `close()`, a no-op if the session is already closed).
`pol` is the `on_log` callback's behaviour during the call. -/
inductive Call where
  | unary (pol : Nat → Bool) (r : Request)
  | stream (pol : Nat → Bool) (r : Request) (hdr : Bool) (ops : List SOp)

structure OpOut where
  res : Res
  settled : Bool
  blocked : Bool
deriving Repr, DecidableEq

def opOut (st : St) : OpOut := ⟨st.cli.res, st.settled, st.blocked⟩

def execOps (sh : Shape) (svc : Svc) (pol : Nat → Bool) : List Op → St → St × List OpOut
  | [], st => (st, [])
  | op :: ops, st =>
    let st' := execOp sh svc pol op st
    let (st'', outs) := execOps sh svc pol ops st'
    (st'', opOut st' :: outs)

def Call.ops : Call → List Op
  | .unary _ r => [.call r]
  | .stream _ r hdr ops => .open_ r hdr :: (ops.map SOp.toOp ++ [.close])

def Call.pol : Call → Nat → Bool
  | .unary p _ => p
  | .stream p _ _ _ => p

structure CallOut where
  outs : List OpOut
  wc : List CFr
  ws : List SFr
deriving Repr, DecidableEq

/-- the session object is gone once the `with` block is left; the bookkeeping restarts with the next call -/
def forget (st : St) : St := { st with cli := { st.cli with sess := none, res := .none, nlog := 0 }, wc := [], ws := [] }

def runCall (sh : Shape) (svc : Svc) (c : Call) (st : St) : St × CallOut :=
  let (st', outs) := execOps sh svc c.pol c.ops st
  (forget st', ⟨outs, st'.wc, st'.ws⟩)

def runHist (sh : Shape) (svc : Svc) : List Call → St → St × List CallOut
  | [], st => (st, [])
  | c :: cs, st =>
    let (st', o) := runCall sh svc c st
    let (st'', os) := runHist sh svc cs st'
    (st'', o :: os)

end VgiVerif.C04
