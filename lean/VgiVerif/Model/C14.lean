import VgiVerif.Gen.C14
/-
C14 model: the per-worker call-state cache and the continuation-request resolution around it.

Transliterates
  vgi_rpc/http/server/_state_token.py   `_CallStateCache` (`_identity`, `get`, `put`), the identity tail of
                                        `_compute_aad` / `_compute_call_aad`, the TTL checks of `_open_cursor_token` /
                                        `_open_call_token_dated`
  vgi_rpc/http/server/_app_stream.py    `_unpack_and_recover_state`, `_resolve_call_from_token`, `_call_cache_birth`,
                                        the warm-up `put` of `_run_stream_init_sync`
  vgi_rpc/http/server/_app.py           cache construction (`ttl = float(token_ttl) if token_ttl > 0 else 3600.0`)
over the constants, comparison operators and call-site *shape* extracted into `Gen.C14`.

Tokens are symbolic (Dolev–Yao): a client can present any token some worker issued (by index), under any identity, to
any worker and any method's endpoint, or junk; it cannot seal.  Opening succeeds iff the AAD of the presenting identity
(for a call token: and the endpoint's method, `_compute_call_aad(auth, method)`) equals the AAD the token was sealed under
and the token is fresh.  Every token failure raises the one `_token_rejected()` (`Reject.tokenRejected`).  The byte-level
framing and AAD layout are C12's model, not this one; method names are distinct NUL-free identifiers, so binding the
name is binding the method index.
Time is in ticks, `tps` ticks per second: `time.time()` is `now / tps` seconds as a real number, `int(time.time())` is
the Nat quotient — so the float/int mixture of the code (cache: floats, tokens: whole seconds) is kept.
-/
namespace VgiVerif.C14
open VgiVerif.Gen.C14 (Anchor Shape)

/-- `AuthContext` as the token layer sees it: `auth is None or not auth.authenticated` | `(domain or "", principal or "")` -/
inductive Ident where
  | anon
  | user (domain principal : List Char)
deriving DecidableEq, Repr

/-- `_CallStateCache._identity` -/
def identKey : Ident → List Char
  | .anon => Gen.C14.anonKey
  | .user d p => d ++ Gen.C14.keySep ++ p

/-- the identity tail of `_compute_aad` / `_compute_call_aad` (what follows the fixed per-kind prefix) -/
def aadTail : Ident → List Char
  | .anon => Gen.C14.aadAnonTail
  | .user d p => Gen.C14.aadUserTag ++ d ++ Gen.C14.aadSep ++ p

/-- `_ResolvedCall`: call state (value and class), both schemas, stream id — opaque content — and the minting method -/
structure RC where
  content : Nat
  /-- class of the call state; `none` = the stream carries no call state (`call_state_bytes == b""`) -/
  stype : Option Nat
  /-- `_ResolvedCall.method`: the stream method whose `/init` minted the call -/
  method : Nat
deriving DecidableEq, Repr

/-- what one `/init` minted: the call token's payload, its AAD identity and `created_at`; the call id is its index -/
structure Call where
  owner : Ident
  created : Nat
  rc : RC
deriving DecidableEq, Repr

/-- one issued cursor token -/
structure Cursor where
  cid : Nat
  sealedFor : Ident
  created : Nat
  pos : Nat
  /-- method whose state class serialised the cursor state -/
  writer : Nat
deriving DecidableEq, Repr

inductive CurRef where
  | issued (i : Nat)
  | junk
deriving DecidableEq, Repr

inductive CallRef where
  | issued (cid : Nat)
  | junk
  | absent
deriving DecidableEq, Repr

/-- a `POST /{method}/exchange` request -/
structure Req where
  ident : Ident
  method : Nat
  cur : CurRef
  call : CallRef
  cancel : Bool
deriving DecidableEq, Repr

structure Cfg where
  shape : Shape
  /-- `token_ttl` in seconds; 0 = tokens never expire -/
  ttl : Nat
  /-- clock resolution -/
  tps : Nat
  /-- `_declared_call_state_types(state_info of method m)` contains class `t` -/
  declares : Nat → Nat → Bool
  /-- method `m`'s state class decodes (and binds, rehydrates) a cursor state written by method `m'` -/
  decodes : Nat → Nat → Bool

/-! ### `_CallStateCache` -/

structure Entry where
  cid : Nat
  ikey : List Char
  expires : Nat
  rc : RC
deriving DecidableEq, Repr

/-- `_entries` in `OrderedDict` order (oldest first) and `_max_entries` -/
structure Cache where
  cap : Nat
  entries : List Entry
deriving DecidableEq, Repr

def Entry.hasKey (e : Entry) (cid : Nat) (ikey : List Char) : Bool := e.cid == cid && e.ikey == ikey

/-- `get(call_id, auth, now)`; `refresh = some x`: a hit re-stores the entry with expiry `x` (`now + self._ttl`) -/
def Cache.get (c : Cache) (cid : Nat) (ikey : List Char) (now : Nat) (refresh : Option Nat) : Cache × Option RC :=
  match c.entries.find? (·.hasKey cid ikey) with
  | none => (c, none)
  | some e =>
    if Gen.C14.entryDead e.expires now then
      ({ c with entries := c.entries.filter (fun x => !x.hasKey cid ikey) }, none)
    else
      ({ c with entries := c.entries.filter (fun x => !x.hasKey cid ikey) ++ [{ e with expires := refresh.getD e.expires }] },
       some e.rc)

/-- `put(call_id, auth, resolved, now)` with `expires = now + ttl` already computed -/
def Cache.put (c : Cache) (cid : Nat) (ikey : List Char) (rc : RC) (expires : Nat) : Cache :=
  let es := c.entries.filter (fun x => !x.hasKey cid ikey) ++ [⟨cid, ikey, expires, rc⟩]
  { c with entries := es.drop (es.length - c.cap) }

/-- one call of a cache method.  Each is a single critical section (`Gen.C14.entriesOnlyUnderLock`), so whatever the
    threads of a worker do, the cache goes through a *sequence* of these -/
inductive CacheOp where
  | get (cid : Nat) (ikey : List Char) (now : Nat) (refresh : Option Nat)
  | put (cid : Nat) (ikey : List Char) (rc : RC) (expires : Nat)
deriving DecidableEq, Repr

/-- run a sequence of cache calls; the log pairs every call with what it returned (`put` returns `None`) -/
def applyOps : Cache → List CacheOp → Cache × List (CacheOp × Option RC)
  | c, [] => (c, [])
  | c, .get cid k now rf :: rest =>
    let r := c.get cid k now rf
    let t := applyOps r.1 rest
    (t.1, (.get cid k now rf, r.2) :: t.2)
  | c, .put cid k rc x :: rest =>
    let t := applyOps (c.put cid k rc x) rest
    (t.1, (.put cid k rc x, none) :: t.2)

/-- `(anchor) + self._ttl` in ticks; `anchor` per call site (`_call_cache_birth`) -/
def expiry (cfg : Cfg) (a : Anchor) (now created : Nat) : Nat :=
  (match a with
   | .now => now
   | .created => if cfg.ttl > 0 then created * cfg.tps else now) + Gen.C14.cacheTtl cfg.ttl * cfg.tps

/-- what `get` does to a hit's expiry, per the extracted shape -/
def hitRefresh (cfg : Cfg) (now : Nat) : Option Nat :=
  if cfg.shape.hitRefreshes then some (now + Gen.C14.cacheTtl cfg.ttl * cfg.tps) else none

/-! ### workers -/

structure World where
  now : Nat
  caches : List Cache
  calls : List Call
  cursors : List Cursor
deriving DecidableEq, Repr

def World.cache (W : World) (w : Nat) : Cache := (W.caches[w]?).getD ⟨0, []⟩
def World.setCache (W : World) (w : Nat) (c : Cache) : World := { W with caches := W.caches.set w c }
def World.nowS (cfg : Cfg) (W : World) : Nat := W.now / cfg.tps

def World.start (caps : List Nat) (t0 : Nat) : World :=
  { now := t0, caches := caps.map (fun c => ⟨c, []⟩), calls := [], cursors := [] }

/-- the distinguishable HTTP 400s: the uniform `_token_rejected()` (cursor or call token malformed / not authentic for
    this caller or method / expired / naming another call / cached call of another method), "Missing call token",
    "Call token declares call-state type …", "Failed to deserialize state" -/
inductive Reject where
  | tokenRejected | callMissing | callType | stateDecode
deriving DecidableEq, Repr

inductive Outcome where
  /-- resolution succeeded: method `m` runs (or is cancelled) on call `rc` and the cursor's state -/
  | served (m : Nat) (rc : RC) (cur : Cursor) (cancel : Bool)
  | rejected (r : Reject)
deriving DecidableEq, Repr

/-- `_open_cursor_token(token, key, _compute_aad(auth), token_ttl)` -/
def openCursor (cfg : Cfg) (W : World) (rq : Req) : Except Reject Cursor :=
  match rq.cur with
  | .junk => .error .tokenRejected
  | .issued i =>
    match W.cursors[i]? with
    | none => .error .tokenRejected
    | some c =>
      if aadTail c.sealedFor ≠ aadTail rq.ident then .error .tokenRejected
      else if Gen.C14.tokenExpired cfg.ttl (W.nowS cfg) c.created then .error .tokenRejected
      else .ok c

/-- the declared-call-state-type check (`if call_state_bytes:` … `_declared_call_state_types(state_info).get(type)`) -/
def typeOk (cfg : Cfg) (m : Nat) (rc : RC) : Bool :=
  match rc.stype with
  | none => true
  | some t => cfg.declares m t

/-- `_resolve_call_from_token(…, method_name)`: the resolved call and the token's `created_at`.  The call token opens
    under `_compute_call_aad(auth, method_name)`: identity tail *and* method must be the ones it was sealed with.
    The result is `_ResolvedCall(…, method_name)`. -/
def resolveCall (cfg : Cfg) (W : World) (rq : Req) (cid : Nat) : Except Reject (RC × Nat) :=
  match rq.call with
  | .absent => .error .callMissing
  | .junk => .error .tokenRejected
  | .issued k =>
    match W.calls[k]? with
    | none => .error .tokenRejected
    | some cl =>
      if aadTail cl.owner ≠ aadTail rq.ident ∨ cl.rc.method ≠ rq.method then .error .tokenRejected
      else if Gen.C14.tokenExpired cfg.ttl (W.nowS cfg) cl.created then .error .tokenRejected
      else if k ≠ cid then .error .tokenRejected
      else if !typeOk cfg rq.method cl.rc then .error .callType
      else .ok ({ cl.rc with method := rq.method }, cl.created)

/-- state decode, then cancel / dispatch; a dispatched turn answers with a fresh cursor -/
def finish (cfg : Cfg) (W : World) (rq : Req) (c : Cursor) (rc : RC) : World × Outcome :=
  if !cfg.decodes rq.method c.writer then (W, .rejected .stateDecode)
  else if rq.cancel then (W, .served rq.method rc c true)
  else ({ W with cursors := W.cursors ++ [⟨c.cid, rq.ident, W.nowS cfg, c.pos + 1, rq.method⟩] },
        .served rq.method rc c false)

/-- `_unpack_and_recover_state` on worker `w`, followed by the turn -/
def serveCont (cfg : Cfg) (W : World) (w : Nat) (rq : Req) : World × Outcome :=
  match openCursor cfg W rq with
  | .error r => (W, .rejected r)
  | .ok c =>
    match (W.cache w).get c.cid (identKey rq.ident) W.now (hitRefresh cfg W.now) with
    | (cache1, some rc) =>
      if cfg.shape.hitChecksMethod && rc.method != rq.method then (W.setCache w cache1, .rejected .tokenRejected)
      else if cfg.shape.hitChecksType && !typeOk cfg rq.method rc then (W.setCache w cache1, .rejected .callType)
      else finish cfg (W.setCache w cache1) rq c rc
    | (cache1, none) =>
      match resolveCall cfg W rq c.cid with
      | .error r => (W.setCache w cache1, .rejected r)
      | .ok (rc, created) =>
        finish cfg
          (W.setCache w (cache1.put c.cid (identKey rq.ident) rc (expiry cfg cfg.shape.missAnchor W.now created)))
          rq c rc

/-- `_run_stream_init_sync` from the mint on: call token, warm-up `put`, first cursor -/
def serveInit (cfg : Cfg) (W : World) (w : Nat) (ident : Ident) (m : Nat) (content : Nat) (stype : Option Nat) : World :=
  let rc : RC := ⟨content, stype, m⟩
  let created := W.nowS cfg
  let cid := W.calls.length
  let cache := (W.cache w).put cid (identKey ident) rc (expiry cfg cfg.shape.initAnchor W.now created)
  { (W.setCache w cache) with
    calls := W.calls ++ [⟨ident, created, rc⟩]
    cursors := W.cursors ++ [⟨cid, ident, created, 0, m⟩] }

inductive Step where
  | tick (d : Nat)
  | init (w : Nat) (ident : Ident) (m : Nat) (content : Nat) (stype : Option Nat)
  | cont (w : Nat) (rq : Req)
deriving DecidableEq, Repr

def step (cfg : Cfg) (W : World) : Step → World
  | .tick d => { W with now := W.now + d }
  | .init w ident m content stype => serveInit cfg W w ident m content stype
  | .cont w rq => (serveCont cfg W w rq).1

def run (cfg : Cfg) (W : World) (h : List Step) : World := h.foldl (step cfg) W

/-- the same workers with every cache emptied (capacities kept) -/
def World.emptied (W : World) : World := { W with caches := W.caches.map (fun c => { c with entries := [] }) }

end VgiVerif.C14
