import VgiVerif.Prelude.Sched
import VgiVerif.Gen.Nonce
/-
C23 model: `vgi_rpc/http/_replay.py` — `NonceCache.__init__` (validation), `check_and_add`, `_sweep`.

Sequential core: `step : St → now → nonce → St × Bool` over an insertion-ordered association list
(the `OrderedDict`), composed of the three phases of the critical section (`sweepSt`, `testSt`,
`insertSt`), with the comparison operators taken from the extracted source (`Gen.Nonce`).

Concurrent model (Sched kit): threads run `call ; readClock ; acquire ; sweep ; test ; insert ; release ;
ret` (the clock is read OUTSIDE the lock, as in the code; the three phases are separate steps so that the
proofs cover every intermediate state).

Times are `Int` (the harness uses floats that are exact multiples of a quantum, scaled), nonces are
`Nat` identifiers of distinct strings (the dict only uses equality).
-/
namespace VgiVerif.C23
open VgiVerif.Sched VgiVerif.Gen.Nonce

/-- evaluate an extracted Python comparison on integers -/
def cmpInt : Cmp → Int → Int → Bool
  | .lt, a, b => a < b
  | .le, a, b => a ≤ b
  | .gt, a, b => a > b
  | .ge, a, b => a ≥ b
  | .eq, a, b => a == b
  | .ne, a, b => a != b

/-- `(nonce, expires_at)`, oldest first -/
abbrev Entry := Nat × Int

structure St where
  entries : List Entry := []
  evicted : Nat := 0
  replays : Nat := 0
deriving Repr, DecidableEq

/-- `__init__` validation: `false` models `ValueError` -/
def validate (ttl : Int) (cap : Int) : Bool :=
  !(cmpInt ttlRejectCmp ttl 0) && !(cmpInt capRejectCmp cap 0)

/-- `_sweep`'s test `expires_at > now` (entry still live, sweep stops) -/
def live (expires now : Int) : Bool := cmpInt sweepLiveCmp expires now

/-- `_sweep`: drop entries from the front until the first live one -/
def sweep (now : Int) : List Entry → List Entry
  | [] => []
  | e :: r => if live e.2 now then e :: r else sweep now r

/-- `nonce in self._entries` -/
def hasKey (n : Nat) (l : List Entry) : Bool := l.any (fun e => e.1 == n)

/-- loop guard `len(self._entries) >= self.capacity` -/
def full (len cap : Nat) : Bool := cmpInt evictCmp len cap

/-- `while len(entries) >= capacity: entries.popitem(last=False); evicted += 1` → (entries, #evicted).
(On an empty dict `popitem` would raise; unreachable when `capacity ≥ 1`, which `__init__` enforces.) -/
def evict (cap : Nat) : List Entry → List Entry × Nat
  | [] => ([], 0)
  | e :: r => if full (r.length + 1) cap then ((evict cap r).1, (evict cap r).2 + 1) else (e :: r, 0)

/-- phase 1 of the critical section: `self._sweep(now)` -/
def sweepSt (now : Int) (s : St) : St := { s with entries := sweep now s.entries }

/-- phase 2: the membership test; `true` = replay (`_replays += 1; return False`) -/
def testSt (n : Nat) (s : St) : St × Bool :=
  if hasKey n s.entries then ({ s with replays := s.replays + 1 }, true) else (s, false)

/-- phase 3: evict-oldest loop, insert, `return True` -/
def insertSt (cap : Nat) (ttl : Int) (now : Int) (n : Nat) (s : St) : St :=
  { s with entries := (evict cap s.entries).1 ++ [(n, now + ttl)], evicted := s.evicted + (evict cap s.entries).2 }

/-- `check_and_add` with the clock reading `now` (body of the `with self._lock:` block) -/
def step (cap : Nat) (ttl : Int) (s : St) (now : Int) (n : Nat) : St × Bool :=
  let s1 := sweepSt now s
  let (s2, replay) := testSt n s1
  if replay then (s2, false) else (insertSt cap ttl now n s2, true)

/-- one sequential operation: the clock reading and the nonce -/
structure Op where
  now : Int
  nonce : Nat
deriving Repr, DecidableEq

def runFrom (cap : Nat) (ttl : Int) (s : St) : List Op → St
  | [] => s
  | op :: r => runFrom cap ttl (step cap ttl s op.now op.nonce).1 r

def resultsFrom (cap : Nat) (ttl : Int) (s : St) : List Op → List Bool
  | [] => []
  | op :: r => (step cap ttl s op.now op.nonce).2 :: resultsFrom cap ttl (step cap ttl s op.now op.nonce).1 r

/-- the cache after a sequential history, starting empty -/
def run (cap : Nat) (ttl : Int) (ops : List Op) : St := runFrom cap ttl {} ops
/-- the accept/reject results of a sequential history -/
def results (cap : Nat) (ttl : Int) (ops : List Op) : List Bool := resultsFrom cap ttl {} ops

/-! ### concurrent model -/

/-- program counter of one thread inside / around `check_and_add` -/
inductive Pc where
  | idle
  | called (n : Nat)                              -- check_and_add(n) entered
  | read (n : Nat) (now : Int)                    -- `now = self._clock()` done, lock not yet held
  | locked (n : Nat) (now : Int) (tacq : Int)     -- inside `with self._lock:` (tacq = true time of the acquire)
  | swept (n : Nat) (now : Int) (tacq : Int)      -- `_sweep(now)` done
  | absent (n : Nat) (now : Int) (tacq : Int)     -- membership test was false
  | exiting                                       -- result decided (recorded in `hist`), lock still held
  | returning                                     -- lock released, result not yet returned
deriving Repr, DecidableEq

/-- inside the critical section (lock held) -/
def Pc.inCS : Pc → Bool
  | .locked .. | .swept .. | .absent .. | .exiting => true
  | _ => false

inductive Label where
  | tick (d : Int)                    -- the true clock moves by d (d < 0 models a non-monotone clock source)
  | call (t : Tid) (n : Nat)
  | readClock (t : Tid) (v : Int)     -- `now = self._clock()` returned v
  | acquire (t : Tid)
  | sweep (t : Tid)                   -- internal
  | test (t : Tid)                    -- internal
  | insert (t : Tid)                  -- internal
  | release (t : Tid)
  | ret (t : Tid) (r : Bool)          -- check_and_add returned r
deriving Repr, DecidableEq

/-- ghost: one linearised operation (appended inside the critical section of the call) -/
structure Lin where
  tid : Tid
  op : Op
  res : Bool
  tacq : Int      -- true time at which the call acquired the lock
deriving Repr, DecidableEq

structure CSt where
  cache : St := {}
  lock : Lock := {}
  clock : Int := 0
  pc : Tid → Pc := fun _ => .idle
  hist : List Lin := []

/-- last linearised result of thread `t` -/
def lastRes (t : Tid) (h : List Lin) : Option Bool := (h.reverse.find? (fun e => e.tid == t)).map (·.res)

/-- `mono = true`: the true clock never goes back (negative ticks are not steps) -/
def cstep (mono : Bool) (cap : Nat) (ttl : Int) (s : CSt) : Label → Option CSt
  | .tick d => if mono && decide (d < 0) then none else some { s with clock := s.clock + d }
  | .call t n =>
    match s.pc t with
    | .idle => some { s with pc := upd s.pc t (.called n) }
    | _ => none
  | .readClock t v =>
    match s.pc t with
    | .called n => if v = s.clock then some { s with pc := upd s.pc t (.read n v) } else none
    | _ => none
  | .acquire t =>
    match s.pc t with
    | .read n now =>
      match s.lock.acquire t with
      | some l => some { s with lock := l, pc := upd s.pc t (.locked n now s.clock) }
      | none => none
    | _ => none
  | .sweep t =>
    match s.pc t with
    | .locked n now ta =>
      if s.lock.owner = some t then some { s with cache := sweepSt now s.cache, pc := upd s.pc t (.swept n now ta) } else none
    | _ => none
  | .test t =>
    match s.pc t with
    | .swept n now ta =>
      if s.lock.owner = some t then
        (if (testSt n s.cache).2 then
          some { s with cache := (testSt n s.cache).1, pc := upd s.pc t .exiting,
                        hist := s.hist ++ [⟨t, ⟨now, n⟩, false, ta⟩] }
        else some { s with pc := upd s.pc t (.absent n now ta) })
      else none
    | _ => none
  | .insert t =>
    match s.pc t with
    | .absent n now ta =>
      if s.lock.owner = some t then
        some { s with cache := insertSt cap ttl now n s.cache, pc := upd s.pc t .exiting,
                      hist := s.hist ++ [⟨t, ⟨now, n⟩, true, ta⟩] }
      else none
    | _ => none
  | .release t =>
    match s.pc t with
    | .exiting =>
      match s.lock.release t with
      | some l => some { s with lock := l, pc := upd s.pc t .returning }
      | none => none
    | _ => none
  | .ret t r =>
    match s.pc t with
    | .returning => if lastRes t s.hist = some r then some { s with pc := upd s.pc t .idle } else none
    | _ => none

/-- the threaded NonceCache as a transition system of the Sched kit -/
def ts (mono : Bool) (cap : Nat) (ttl : Int) : TS CSt Label := { init := {}, step := cstep mono cap ttl }

/-- internal labels the model inserts in front of an observed label: the critical-section phases run
(at the latest) just before the lock is released -/
def expand (s : CSt) : Label → List Label
  | .release t =>
    match s.pc t with
    | .locked n now _ =>
      if (testSt n (sweepSt now s.cache)).2
      then [.sweep t, .test t, .release t] else [.sweep t, .test t, .insert t, .release t]
    | .swept n _ _ => if (testSt n s.cache).2 then [.test t, .release t] else [.test t, .insert t, .release t]
    | .absent .. => [.insert t, .release t]
    | _ => [.release t]
  | l => [l]

/-- observed trace (harness events) → final model state, internal steps inserted by `expand` -/
def observe (mono : Bool) (cap : Nat) (ttl : Int) (ls : List Label) : Option CSt := (ts mono cap ttl).runExpand expand ls

end VgiVerif.C23
