import VgiVerif.Prelude.PyStr
import VgiVerif.Gen.Fetch
/-
C31 model, URL part: the slice of `urllib.parse.urlsplit / urlparse / urlunparse` that
`vgi_rpc.external_fetch.redact_url` and the redirect-target check rely on, and `redact_url` itself.

Transliteration of CPython 3.13 `urllib/parse.py` over the *extracted* tables (`Gen.Fetch.schemeChars`,
`usesParams`, `c0OrSpace`, `unsafeRemoved`).  Two things are not modelled and are explicit inputs / outcomes:
  * the validity of a bracketed host (`ipaddress.ip_address`, IPvFuture regex) is the oracle `bracketOk`;
  * a netloc with non-ASCII characters needs NFKC normalisation (`_checknetloc`): the model answers `unsupported`.
-/
namespace VgiVerif.C31
open VgiVerif.PyStr

abbrev Url := List Char

/-- `s.partition(sep)` for a one-character separator: (before, found, after) -/
def partitionC (sep : Char) (s : List Char) : List Char × Bool × List Char :=
  match s.dropWhile (· != sep) with
  | [] => (s.takeWhile (· != sep), false, [])
  | _ :: b => (s.takeWhile (· != sep), true, b)

/-- `s.rpartition(sep)`: (before, found, after); when absent: ("", false, s) -/
def rpartitionC (sep : Char) (s : List Char) : List Char × Bool × List Char :=
  match partitionC sep s.reverse with
  | (ra, true, rb) => (rb.reverse, true, ra.reverse)
  | (_, false, _) => ([], false, s)

def isC0OrSpace (c : Char) : Bool := Gen.Fetch.c0OrSpace.contains c.toNat
def isUnsafeRemoved (c : Char) : Bool := Gen.Fetch.unsafeRemoved.contains c.toNat
def isSchemeChar (c : Char) : Bool := Gen.Fetch.schemeChars.contains c.toNat
def isAsciiAlpha (c : Char) : Bool := (65 ≤ c.toNat && c.toNat ≤ 90) || (97 ≤ c.toNat && c.toNat ≤ 122)
def isAscii (c : Char) : Bool := c.toNat < 128
def isAsciiDigit (c : Char) : Bool := 48 ≤ c.toNat && c.toNat ≤ 57

/-- `url.lstrip(_WHATWG_C0_CONTROL_OR_SPACE)` then removal of tab / CR / LF -/
def cleanUrl (u : List Char) : List Char :=
  (u.dropWhile isC0OrSpace).filter (fun c => !isUnsafeRemoved c)

/-- scheme detection of `urlsplit`: (`scheme.lower()`, rest) or ("", url) -/
def splitScheme (u : List Char) : List Char × List Char :=
  match partitionC ':' u with
  | (a, true, b) =>
    match a with
    | [] => ([], u)
    | c0 :: _ => if isAsciiAlpha c0 && a.all isSchemeChar then (a.map asciiLower, b) else ([], u)
  | (_, false, _) => ([], u)

def isNetlocEnd (c : Char) : Bool := c == '/' || c == '?' || c == '#'

/-- `_splitnetloc(url, 2)` when the URL starts with `//` -/
def splitNetloc (rest : List Char) : List Char × List Char :=
  match rest with
  | '/' :: '/' :: r => (r.takeWhile (fun c => !isNetlocEnd c), r.dropWhile (fun c => !isNetlocEnd c))
  | _ => ([], rest)

structure Split where
  scheme : List Char
  netloc : List Char
  path : List Char
  query : List Char
  fragment : List Char
deriving Repr, DecidableEq

inductive ParseErr where
  | invalid        -- `ValueError` from urlsplit
  | unsupported    -- non-ASCII netloc: outside the model
deriving Repr, DecidableEq

/-- `urlsplit(url)` -/
def urlsplit (bracketOk : List Char → Bool) (u0 : List Char) : Except ParseErr Split :=
  let u := cleanUrl u0
  let sr := splitScheme u
  let nr := splitNetloc sr.2
  let netloc := nr.1
  if !netloc.all isAscii then .error .unsupported
  else if netloc.contains '[' != netloc.contains ']' then .error .invalid
  else if netloc.contains '[' && !bracketOk (partitionC ']' (partitionC '[' netloc).2.2).1 then .error .invalid
  else
    let fr := partitionC '#' nr.2
    let qr := partitionC '?' fr.1
    .ok ⟨sr.1, netloc, qr.1, qr.2.2, fr.2.2⟩

/-- the path with `;params` of the last segment removed (`_splitparams`), as `urlparse` does for `uses_params` schemes -/
def dropParams (path : List Char) : List Char :=
  match rpartitionC '/' path with
  | (pre, true, last) => pre ++ '/' :: last.takeWhile (· != ';')
  | (_, false, _) => path.takeWhile (· != ';')

/-- `urlparse(url).path` -/
def parsedPath (sp : Split) : List Char :=
  if Gen.Fetch.usesParams.contains sp.scheme && sp.path.contains ';' then dropParams sp.path else sp.path

/-- `_hostinfo`: (hostname, port text) -/
def hostInfo (netloc : List Char) : List Char × List Char :=
  let hostinfo := (rpartitionC '@' netloc).2.2
  let br := partitionC '[' hostinfo
  if br.2.1 then
    let hb := partitionC ']' br.2.2
    (hb.1, (partitionC ':' hb.2.2).2.2)
  else
    let hp := partitionC ':' hostinfo
    (hp.1, hp.2.2)

/-- `.hostname` lower-casing (the zone after `%` is kept) -/
def lowerHost (h : List Char) : List Char :=
  let p := partitionC '%' h
  p.1.map asciiLower ++ (if p.2.1 then '%' :: p.2.2 else [])

def digitChar (n : Nat) : Char := Char.ofNat (48 + n % 10)

/-- decimal text of a natural number (`str(int)`), structural on fuel -/
def decDigits : Nat → Nat → List Char
  | 0, _ => []
  | f + 1, n => if n < 10 then [digitChar n] else decDigits f (n / 10) ++ [digitChar n]

def natToDec (n : Nat) : List Char := decDigits (n + 1) n

def decValue (s : List Char) : Nat := s.foldl (fun a c => a * 10 + (c.toNat - 48)) 0

/-- `f"[{host}]" if ":" in host and not host.startswith("[") else host` -/
def renderHost (host : List Char) : List Char :=
  if host.contains ':' && !(host.head? == some '[') then '[' :: host ++ [']'] else host

/-- `urlunsplit` with a non-empty netloc: a non-empty path gets a leading slash if it lacks one -/
def leadSlash : List Char → List Char
  | [] => []
  | c :: r => if c == '/' then c :: r else '/' :: c :: r

def invalidUrl : List Char := "<invalid-url>".toList

/-- `redact_url` before the `except (TypeError, ValueError)` collapse -/
def redactE (bracketOk : List Char → Bool) (url : List Char) : Except ParseErr (List Char) :=
  match urlsplit bracketOk url with
  | .error e => .error e
  | .ok sp =>
    if sp.scheme.isEmpty || sp.netloc.isEmpty then .error .invalid
    else
      let hi := hostInfo sp.netloc
      if hi.1.isEmpty then .error .invalid
      else
        let rendered := renderHost (lowerHost hi.1)
        let path' := leadSlash (parsedPath sp)
        if hi.2.isEmpty then .ok (sp.scheme ++ ':' :: '/' :: '/' :: rendered ++ path')
        else if hi.2.all isAsciiDigit && decValue hi.2 ≤ 65535 then
          .ok (sp.scheme ++ ':' :: '/' :: '/' :: rendered ++ ':' :: natToDec (decValue hi.2) ++ path')
        else .error .invalid

/-- `redact_url(url)` -/
def redact (bracketOk : List Char → Bool) (url : List Char) : List Char :=
  match redactE bracketOk url with
  | .ok s => s
  | .error _ => invalidUrl

/-- `urlparse(u).scheme` and `.netloc` both non-empty (redirect-target check); error = `urlparse` raised -/
def hasSchemeNetloc (bracketOk : List Char → Bool) (u : List Char) : Except ParseErr Bool :=
  match urlsplit bracketOk u with
  | .error e => .error e
  | .ok sp => .ok (!sp.scheme.isEmpty && !sp.netloc.isEmpty)

end VgiVerif.C31
