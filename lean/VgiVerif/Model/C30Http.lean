import VgiVerif.Model.C30
/-
C30 over HTTP: the Engine.Http readers with one more case (a pointer is resolved right after `_dispatch_log_or_error`):
  * `turnX`        — `_run_http_producer_turn` over the per-step server outputs of `C30.serveAll` (each `process()` call is
                     flushed through `_flush_collector(…, external_config)`; the cursor token carries the step index, so every
                     step is flushed exactly once whatever the break decisions)
  * `followX`      — `HttpStreamSession.__iter__` (vgi_rpc/http/_client.py): token → next turn; log → on_log; otherwise
                     `resolve_external_location` then yield
  * `parseInitX`   — `_init_http_stream_session`: eager parse of the /init body; a pointer met there is resolved at open
  * `readExchangeX`— `HttpStreamSession.exchange`: `_read_batch_with_log_check` (resolves), then the trailing batches
No Mathlib, no Lean.*.
-/
namespace VgiVerif.C30.Http
open VgiVerif.Engine VgiVerif.C30

/-- one response body: the outputs of consecutive `process()` calls until a break decision or the end -/
def turnX (brk : Nat → Bool) : Nat → List StepOutX → List WItem
  | _, [] => []
  | pos, o :: r =>
    match o with
    | .cont items => items ++ (if brk pos then [.plain (.token (pos + 1))] else turnX brk (pos + 1) r)
    | .done items => items
    | .fail items => items

def serveContinuationX (brk : Nat → Bool) (outs : List StepOutX) (pos : Nat) : List WItem :=
  turnX brk pos (outs.drop pos)

def initBodyX (brk : Nat → Bool) (initLogs : List Log) (outs : List StepOutX) : List WItem :=
  (logItems initLogs).map .plain ++ turnX brk 0 outs

/-- eager parse of the init body.  `failed` = a pointer could not be resolved: the open raises -/
structure InitParseX where
  evs : List Ev
  pending : List Batch
  cursor : Option Nat
  err : Option Ev
  failed : Bool
deriving Repr

def parseInitX (R : Resolver) : List WItem → InitParseX
  | [] => ⟨[], [], none, none, false⟩
  | .plain (.log l) :: r => let p := parseInitX R r; { p with evs := .log l :: p.evs }
  | .plain (.data b) :: r => let p := parseInitX R r; { p with pending := b :: p.pending }
  | .plain (.err e) :: _ => ⟨[], [], none, some (errEv e), false⟩
  | .plain (.token pos) :: _ => ⟨[], [], some pos, none, false⟩
  | .ptr q :: r =>
    match R q with
    | .ok (logs, b) => let p := parseInitX R r; { p with evs := logs.map .log ++ p.evs, pending := b :: p.pending }
    | .error _ => ⟨[], [], none, none, true⟩

def followX (R : Resolver) (server : Nat → List WItem) : Nat → List WItem → List Ev
  | _, [] => [.fin]
  | fuel, .plain (.log l) :: r => .log l :: followX R server fuel r
  | fuel, .plain (.data b) :: r => .data b :: followX R server fuel r
  | _, .plain (.err e) :: _ => [errEv e]
  | 0, .plain (.token _) :: _ => []
  | fuel + 1, .plain (.token pos) :: _ => followX R server fuel (server pos)
  | fuel, .ptr q :: r =>
    match R q with
    | .ok (logs, b) => logs.map .log ++ (.data b :: followX R server fuel r)
    | .error _ => []

def assembleX (p : InitParseX) (after : Nat → List Ev) : List Ev :=
  if p.failed then [] else
  p.evs ++ p.pending.map Ev.data ++
    (match p.err with
     | some e => [e]
     | none => match p.cursor with
       | none => [.fin]
       | some pos => after pos)

/-- open + iterate to the end over HTTP, the server's outputs possibly offloaded -/
def iterateX (R : Resolver) (brk : Nat → Bool) (initLogs : List Log) (outs : List StepOutX) : List Ev :=
  assembleX (parseInitX R (initBodyX brk initLogs outs))
    (fun pos => followX R (serveContinuationX brk outs) (outs.length + 1) (serveContinuationX brk outs pos))

def trailingX : List WItem → List Ev
  | [] => []
  | .plain (.log l) :: r => .log l :: trailingX r
  | .plain (.err e) :: _ => [errEv e]
  | _ :: r => trailingX r

def readExchangeX (R : Resolver) : List WItem → List Ev × Bool
  | [] => ([], false)
  | .plain (.log l) :: r => let (e, ok) := readExchangeX R r; (.log l :: e, ok)
  | .plain (.data b) :: r => (trailingX r ++ [.data b], true)
  | .plain (.err e) :: _ => ([errEv e], false)
  | .plain (.token _) :: r => readExchangeX R r
  | .ptr q :: r =>
    match R q with
    | .ok (logs, b) => (logs.map .log ++ (trailingX r ++ [.data b]), true)
    | .error _ => ([], false)

def exchangeOneX (R : Resolver) (o : StepOutX) : List Ev × Bool :=
  match o with
  | .cont items => readExchangeX R items
  | .done items => ((readExchangeX R items).1, false)
  | .fail items => ((readExchangeX R items).1, false)

def exchangeAllX (R : Resolver) : List StepOutX → List Ev
  | [] => []
  | o :: r =>
    match exchangeOneX R o with
    | (evs, true) => evs ++ exchangeAllX R r
    | (evs, false) => evs

end VgiVerif.C30.Http
