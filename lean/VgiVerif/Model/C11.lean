import VgiVerif.Model.Engine
import VgiVerif.Gen.C11
/-
C11 — HTTP producer output is independent of chunking and resumption: the size-aware layer on top of `Engine.Http`.

Transliterated
  * `_run_http_producer_turn` (vgi_rpc/http/server/_app_stream.py): the `while True` loop with the REAL break decision
    `should_continue = max_bytes is not None and <ipc sink>.tell() < max_bytes` (expression and mint guard come from
    `Gen.C11`, regenerated from the source): `turn cap sz told pos steps`.  `told` is `tell()` — the IPC bytes this
    turn has written (stream preamble = schema message, on `/init` also the sink's log batches); `sz` gives the bytes one
    IPC batch adds.  After `_flush_collector` and the `finished` exit, the decision either mints the cursor token
    (carrying the state's step index) and breaks, or runs the next `process()`.
  * `_run_http_producer_init` / `_run_stream_exchange_sync`: `initBody`, `serve` (a continuation is answered from the token
    alone by whichever worker receives it — `pool pos` is that worker's cap).
  * `HttpStreamSession.__iter__` is `Engine.Http.follow` / `assemble`; `turnsOf` cuts what it reads into response bodies.
  * `_encode_resume_token` / `_decode_resume_token` (vgi_rpc/http/_client.py) on byte lists: `encodeResume`, `decodeResume`.
Arrow bytes, codecs and the AEAD are abstracted: sizes are parameters (measured by the harness), a token is its position.
No Mathlib.
-/
namespace VgiVerif.C11
open VgiVerif.Engine

/-! ## sizes -/

/-- bytes a list of IPC batches adds to the stream -/
def bytes (sz : Item → Nat) : List Item → Nat
  | [] => 0
  | x :: r => sz x + bytes sz r

/-- what one `process()` call flushes (its log batches and data batch, or the error batch) -/
def stepItems (s : Step) : List Item :=
  match processStep s with
  | .cont items => items
  | .done items => items
  | .fail items => items

/-- bytes step `s` adds to the body (“the batch written”, with its log batches) -/
def wire (sz : Item → Nat) (s : Step) : Nat := bytes sz (stepItems s)

/-! ## the producer turn with the real break decision -/

/-- `_run_http_producer_turn`.  `told` = `tell()` before `process()` number `pos` runs. -/
def turn (cap : Option Nat) (sz : Item → Nat) : Nat → Nat → List Step → List Item
  | _, _, [] => []                                   -- process() past the end of the script finishes; nothing is flushed
  | told, pos, s :: r =>
      match processStep s with
      | .cont items =>
          -- flush, `out.finished` is false, then the decision on tell() AFTER the flush
          items ++ (if Gen.C11.mintWhen (Gen.C11.shouldContinue cap (told + bytes sz items))
                    then [.token (pos + 1)]            -- mint (state index = pos + 1), write the sentinel, break
                    else turn cap sz (told + bytes sz items) (pos + 1) r)
      | .done items => items                          -- flush, `if out.finished: break` — no token
      | .fail items => items                          -- exception → the call's log batches, then the error batch; no token

/-- the break oracle the real decision amounts to for ONE turn that starts at step `pos` with `told` bytes written:
position `p` breaks iff the decision says so on the bytes written up to and including step `p` -/
def brkOf (cap : Option Nat) (sz : Item → Nat) (told pos : Nat) (rest : List Step) : Nat → Bool :=
  fun p => Gen.C11.mintWhen (Gen.C11.shouldContinue cap
    (told + bytes sz ((rest.take (p - pos + 1)).flatMap stepItems)))

/-- number of `process()` calls of the turn that wrote to the body -/
def ran (cap : Option Nat) (sz : Item → Nat) : Nat → List Step → Nat
  | _, [] => 0
  | told, s :: r =>
      match processStep s with
      | .cont items =>
          if Gen.C11.mintWhen (Gen.C11.shouldContinue cap (told + bytes sz items)) then 1
          else 1 + ran cap sz (told + bytes sz items) r
      | _ => 1

/-! ## server and client -/

/-- a continuation request carrying the token for step `pos`, answered by a worker whose cap is `pool pos`.
`pre` = bytes of the stream preamble (schema message). -/
def serve (pool : Nat → Option Nat) (sz : Item → Nat) (pre : Nat) (steps : List Step) (pos : Nat) : List Item :=
  turn (pool pos) sz pre pos (steps.drop pos)

/-- data stream of the `/init` response: sink logs, then the first turn (its `tell()` already counts them) -/
def initBody (cap0 : Option Nat) (sz : Item → Nat) (pre : Nat) (initLogs : List Log) (steps : List Step) : List Item :=
  logItems initLogs ++ turn cap0 sz (pre + bytes sz (logItems initLogs)) 0 steps

/-- open + iterate to the end -/
def iterate (cap0 : Option Nat) (pool : Nat → Option Nat) (sz : Item → Nat) (pre : Nat)
    (initLogs : List Log) (steps : List Step) : List Ev :=
  Http.assemble (Http.parseInit (initBody cap0 sz pre initLogs steps))
    (fun pos => Http.follow (serve pool sz pre steps) (steps.length + 1) (serve pool sz pre steps pos))

/-- number of HTTP responses the client consumes following a body to the end of the stream -/
def countTurns (server : Nat → List Item) : Nat → List Item → Nat
  | _, [] => 1
  | _, .err _ :: _ => 1
  | 0, .token _ :: _ => 1
  | fuel + 1, .token pos :: _ => 1 + countTurns server fuel (server pos)
  | fuel, .log _ :: r => countTurns server fuel r
  | fuel, .data _ :: r => countTurns server fuel r

/-- the response bodies the client consumes, in order (for the correspondence run) -/
def turnsOf (server : Nat → List Item) : Nat → List Item → List (List Item)
  | 0, body => [body]
  | fuel + 1, body =>
      match body.findSome? (fun | .token p => some p | _ => none) with
      | none => [body]
      | some p => body :: turnsOf server fuel (server p)

/-! ## producers that read their tick

`process(input, …)` receives a tick batch.  Over HTTP the FIRST `process()` of the `/init` turn gets the init request's
Arrow metadata as the tick's `custom_metadata` (application keys such as `vgi.cache.if_none_match` ride there); every
other call — later calls of the same turn, every call of a continuation turn — gets the empty `_TICK_BATCH`.  A tick is
modelled by the one bit a producer can tell apart: does it carry the init request's metadata.  A reactive producer has,
at every position, the step it plays on an empty tick and the step it plays on a metadata-carrying one.
Which tick each call gets comes from `Gen.C11` (`initFirstTick`, `contFirstTick`, `tickAfterProcess`). -/

structure RStep where
  plain : Step          -- played on the empty tick
  hinted : Step         -- played on a tick that carries the init request's metadata
deriving Repr

def RStep.play (s : RStep) (carriesInitMd : Bool) : Step := if carriesInitMd then s.hinted else s.plain

/-- `_run_http_producer_turn` for a reactive producer: `tick` is what the next `process()` receives -/
def turnT (cap : Option Nat) (sz : Item → Nat) : Bool → Nat → Nat → List RStep → List Item
  | _, _, _, [] => []
  | tick, told, pos, s :: r =>
      match processStep (s.play tick) with
      | .cont items =>
          items ++ (if Gen.C11.mintWhen (Gen.C11.shouldContinue cap (told + bytes sz items))
                    then [.token (pos + 1)]
                    else turnT cap sz (Gen.C11.tickAfterProcess tick) (told + bytes sz items) (pos + 1) r)
      | .done items => items
      | .fail items => items

/-- the script a turn plays when only its first call sees the turn's first tick -/
def resolve (tick : Bool) : List RStep → List Step
  | [] => []
  | s :: r => s.play tick :: r.map (·.plain)

def serveT (pool : Nat → Option Nat) (sz : Item → Nat) (pre : Nat) (rs : List RStep) (pos : Nat) : List Item :=
  turnT (pool pos) sz Gen.C11.contFirstTick pre pos (rs.drop pos)

def initBodyT (cap0 : Option Nat) (sz : Item → Nat) (pre : Nat) (initLogs : List Log) (rs : List RStep) : List Item :=
  logItems initLogs ++ turnT cap0 sz Gen.C11.initFirstTick (pre + bytes sz (logItems initLogs)) 0 rs

def iterateT (cap0 : Option Nat) (pool : Nat → Option Nat) (sz : Item → Nat) (pre : Nat)
    (initLogs : List Log) (rs : List RStep) : List Ev :=
  Http.assemble (Http.parseInit (initBodyT cap0 sz pre initLogs rs))
    (fun pos => Http.follow (serveT pool sz pre rs) (rs.length + 1) (serveT pool sz pre rs pos))

/-! ## `next_with_token`: one response per call

`HttpStreamSession.next_with_token` reads ONE continuation response: log batches go to `on_log`, the data batch is kept,
the sentinel's token is remembered; then the end-of-stream test (`Gen.C11.nwtEndOfStream`, extracted) decides between
`(None, None)` and `(batch, token)`. -/

/-- what the read loop has after the response: the data batch (if any) and the next token (if any) -/
def nwtScan : List Item → Option Batch × Option Nat
  | [] => (none, none)
  | .log _ :: r => nwtScan r
  | .data b :: r => (some b, (nwtScan r).2)          -- a second data batch raises: one per response is the precondition
  | .token p :: r => ((nwtScan r).1, some p)
  | .err _ :: _ => (none, none)                       -- RpcError

/-- `(batch, next token)` as returned to the caller; `none` = `(None, None)`, the stream is declared finished -/
def nwtRead (body : List Item) : Option (Batch × Option Nat) :=
  match nwtScan body with
  | (some b, t) => if Gen.C11.nwtEndOfStream true b.rows then none else some (b, t)
  | (none, _) => none

/-! ## resume token (`_encode_resume_token` / `_decode_resume_token`) -/

abbrev Bytes := List UInt8

/-- `struct.pack("<I", n)` generalised to the extracted width: little-endian base-256 digits -/
def leBytes : Nat → Nat → Bytes
  | 0, _ => []
  | w + 1, n => UInt8.ofNat (n % 256) :: leBytes w (n / 256)

/-- `struct.unpack_from("<I", …)` -/
def leVal : Bytes → Nat
  | [] => 0
  | b :: r => b.toNat + 256 * leVal r

inductive TokErr where
  | structError            -- struct.pack: 'I' format requires 0 <= number <= 4294967295
  | tooShort               -- ValueError("Malformed resume token: too short")
  | overrun                -- ValueError("Malformed resume token: state length overruns the blob")
deriving Repr, DecidableEq

/-- `struct.pack("<I", len(state_bytes)) + state_bytes + (call_state_bytes or b"")` -/
def encodeResume (state : Bytes) (call : Option Bytes) : Except TokErr Bytes :=
  if state.length < 256 ^ Gen.C11.lenWidth then
    .ok (leBytes Gen.C11.lenWidth state.length ++ state ++ call.getD [])
  else .error .structError

def decodeResume (token : Bytes) : Except TokErr (Bytes × Option Bytes) :=
  if Gen.C11.tooShort token.length then .error .tooShort
  else
    let stateLen := leVal (token.take Gen.C11.lenWidth)
    let end_ := Gen.C11.payloadStart + stateLen
    if Gen.C11.overruns end_ token.length then .error .overrun
    else
      let call := token.drop end_
      .ok ((token.take end_).drop Gen.C11.payloadStart, if call.isEmpty then none else some call)   -- `call or None`

/-- what the tail normalisation makes of the call token: `b""` and `None` are the same blob -/
def normCall : Option Bytes → Option Bytes
  | some [] => none
  | c => c

end VgiVerif.C11
