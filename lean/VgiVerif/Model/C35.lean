import VgiVerif.Prelude.ClaimTree
import VgiVerif.Gen.C35
/-
C35 model: transliteration of `vgi_rpc/logging_utils.py` — `_DEFAULT_CLAIM_REDACT_RE.search(k)` over the
*extracted* alternatives, `redact_claims` (`_redact_mapping` / `_redact_value`), `apply_claim_redaction`
(fail closed) — and of the claims branch of `_emit_access_log` in `vgi_rpc/rpc/_server.py`.
-/
namespace VgiVerif.C35
open VgiVerif.ClaimTree

/-- consume a prefix of `s` matching the per-character classes; `none` = no match here -/
def clsPrefix : List (List Nat) → List Char → Option (List Char)
  | [], s => some s
  | _ :: _, [] => none
  | cl :: cls, c :: cs => if cl.contains c.toNat then clsPrefix cls cs else none

/-- the alternative matches at the very start of `s` (`$` = end, or just before one final newline) -/
def matchHere (a : Gen.C35.Alt) (s : List Char) : Bool :=
  match clsPrefix a.lit s with
  | none => false
  | some rest => if a.endAnchored then rest == [] || rest == ['\n'] else true

/-- … at some position of `s` -/
def searchFrom (a : Gen.C35.Alt) : List Char → Bool
  | [] => matchHere a []
  | c :: cs => matchHere a (c :: cs) || searchFrom a cs

def altMatches (a : Gen.C35.Alt) (s : List Char) : Bool :=
  if a.startAnchored then matchHere a s else searchFrom a s

/-- `_DEFAULT_CLAIM_REDACT_RE.search(k) is not None` -/
def sensitive (k : Key) : Bool :=
  Gen.C35.keyTest == "search" && Gen.C35.alts.any (fun a => altMatches a k)

/-- `REDACTED` -/
def placeholder : Json := .atom (.str Gen.C35.placeholder)

mutual
/-- `_redact_value` -/
def redactV : Json → Json
  | .atom a => .atom a
  | .arr xs => if Gen.C35.recurseSeq then .arr (redactL xs) else .arr xs
  | .obj kvs => if Gen.C35.recurseMap then .obj (redactO kvs) else .obj kvs
/-- `[_redact_value(item) for item in value]` -/
def redactL : JList → JList
  | .nil => .nil
  | .cons h t => .cons (redactV h) (redactL t)
/-- `_redact_mapping`: `{k: (REDACTED if RE.search(k) else _redact_value(v)) for k, v in claims.items()}` -/
def redactO : JObj → JObj
  | .nil => .nil
  | .cons k v t => .cons k (if sensitive k then placeholder else redactV v) (redactO t)
end

/-- `redact_claims` -/
def redactClaims (c : JObj) : JObj := redactO c

/-- an installed redactor either returns what should be logged or raises -/
abbrev Redactor := JObj → Except Unit JObj

/-- the default `_claim_redactor` -/
def defaultRedactor : Redactor := fun c => .ok (redactClaims c)

/-- `apply_claim_redaction`: a raising redactor yields `{}` when the `except Exception: return {}` shape is present;
otherwise the exception would escape to `_emit_access_log`'s own handler and the whole record is lost (modelled as `none`) -/
def applyRedaction (r : Redactor) (c : JObj) : Option JObj :=
  match r c with
  | .ok x => some x
  | .error _ => if Gen.C35.failClosed then some .nil else none

/-- the claims branch of `_emit_access_log`: what ends up under `extra["claims"]` (`none` = key absent) -/
def logged (r : Redactor) (c : JObj) : Option JObj :=
  if c.isEmpty then none
  else match applyRedaction r c with
    | none => none
    | some x => if x.isEmpty then none else some x

end VgiVerif.C35
