import VgiVerif.Prelude.Regex
import VgiVerif.Prelude.PyStr
import VgiVerif.Prelude.Base64
import VgiVerif.Prelude.ProxyProofTypes
import VgiVerif.Gen.C22
/-
C22 model: transliteration of `vgi_rpc/http/_proof.py` (`canonical_string`, `_b64`/`_unb64`,
`verify_proof`, `proxy_proof_gate`'s `gate` closure, `ProofError`) and of
`vgi_rpc/http/_replay.py::NonceCache.check_and_add/_sweep`, over the *extracted* regexes, constants and
comparison operators (`Gen.C22`).  HMAC-SHA256 is a parameter.  Python exceptions other than
`ProofError` are the `raised` outcome.
-/
namespace VgiVerif.C22
open VgiVerif.Regex VgiVerif.PyStr VgiVerif.PP

/-- `_X_RE.<reCall>(s) is not None` -/
def applyRe (p : Pat) (s : Str) : Bool :=
  if Gen.C22.reCall = "match" then p.pyMatch s
  else if Gen.C22.reCall = "fullmatch" then p.pyFullmatch s
  else if Gen.C22.reCall = "search" then p.pySearch s
  else false

/-- `sep.join(parts)` on bytes -/
def joinBytes (sep : Bytes) : List Bytes → Bytes
  | [] => []
  | [x] => x
  | x :: y :: r => x ++ sep ++ joinBytes sep (y :: r)

/-- `canonical_string`: `b"\x00".join((_DOMAIN_PREFIX, kid.encode(), ts.encode(), nonce.encode(), origin_id.encode()))` -/
def canonicalString (kid ts nonce origin : Str) : Bytes :=
  joinBytes [0] [Gen.C22.domainPrefix, utf8 kid, utf8 ts, utf8 nonce, utf8 origin]

/-! ### `NonceCache` (vgi_rpc/http/_replay.py) -/

/-- `_sweep`: drop from the front until the first live entry -/
def sweep (now : Int) : List (Str × Int) → List (Str × Int)
  | [] => []
  | (n, e) :: r => if Gen.C22.liveCmp.eval e now then (n, e) :: r else sweep now r

/-- `while len(entries) <evictCmp> capacity: entries.popitem(last=False)` -/
def evict (cap : Nat) : List (Str × Int) → List (Str × Int)
  | [] => []
  | x :: r => if Gen.C22.evictCmp.eval ((r.length + 1 : Nat) : Int) (cap : Int) then evict cap r else x :: r

/-- `check_and_add(nonce)` with the cache clock reading `now`; returns the cache afterwards and "fresh" -/
def checkAndAdd (c : NonceState) (now : Int) (nonce : Str) : NonceState × Bool :=
  let es := sweep now c.entries
  if es.any (fun e => e.1 == nonce) then ({ c with entries := es }, false)
  else ({ c with entries := evict c.capacity es ++ [(nonce, now + c.ttl)] }, true)

/-! ### `verify_proof` -/

inductive Outcome where
  | done (r : Result)          -- returned claims / raised `ProofError(reason)`
  | raised (what : String)     -- any other exception
deriving Repr, DecidableEq

def okClaims (label kid origin : Str) : Claims :=
  [("verified".toList, "true".toList), ("proxy".toList, label), ("kid".toList, kid),
   ("origin_id".toList, origin), ("reason".toList, "ok".toList)]

/-- `verify_proof(token, secrets=cfg.keys, origin_id=cfg.origin, skew_seconds=cfg.skew, nonce_cache=cache, now=now)`;
`mono` is what the cache's own clock reads if `check_and_add` is reached. -/
def verifyProof (hmac : Hmac) (cfg : Config) (token : Str) (now : Int) (cache : Option NonceState) (mono : Int) :
    Outcome × Option NonceState :=
  if Gen.C22.lenCmp.eval (token.length : Int) (Gen.C22.maxHeaderBytes : Int) then (.done (.err .malformed), cache)
  else
    let parts := splitOn '.' token
    if Gen.C22.fieldCountCmp.eval (parts.length : Int) (Gen.C22.fieldCount : Int) then (.done (.err .malformed), cache)
    else match parts with
      | [version, kid, tsRaw, nonce, macB64] =>
        if version ≠ Gen.C22.version then (.done (.err .malformed), cache)
        else if !applyRe Gen.C22.kidRe kid then (.done (.err .malformed), cache)
        else if !applyRe Gen.C22.tsRe tsRaw then (.done (.err .malformed), cache)
        else if !applyRe Gen.C22.nonceRe nonce then (.done (.err .malformed), cache)
        else if !applyRe Gen.C22.macRe macB64 then (.done (.err .malformed), cache)
        else match cfg.keys.lookup kid with
          | none => (.done (.err .unknownKid), cache)
          | some (secret, label) =>
            let age : Int := now - (decVal tsRaw : Int)
            if Gen.C22.expiredCmp.eval age cfg.skew then (.done (.err .expired), cache)
            else if Gen.C22.notYetCmp.eval (-age) cfg.skew then (.done (.err .notYetValid), cache)
            else
              let expected := hmac secret (canonicalString kid tsRaw nonce cfg.origin)
              match Base64.decode macB64 with
              | none => (.raised "binascii.Error", cache)
              | some received =>
                if received ≠ expected then (.done (.err .badMac), cache)          -- hmac.compare_digest
                else match cache with
                  | none => (.done (.ok (okClaims label kid cfg.origin)), none)
                  | some c =>
                    let (c', fresh) := checkAndAdd c mono nonce
                    if !fresh then (.done (.err .replayed), some c')
                    else (.done (.ok (okClaims label kid cfg.origin)), some c')
      | _ => (.raised "ValueError: unpack", cache)

/-! ### `proxy_proof_gate` -/

/-- the `try:` body of `gate(req)`: `raw = req.get_header(PROOF_HEADER)` is `none` when the header is absent.
Parametric in how "absent" is tested (`if not raw` / `if raw is None`), which extraction reads from the source. -/
def gateVerifyWith (absent : AbsentTest) (hmac : Hmac) (cfg : Config) (raw : Option Str) (now : Int)
    (cache : Option NonceState) (mono : Int) : Outcome × Option NonceState :=
  match raw with
  | none => (.done (.err .noProof), cache)
  | some r =>
    if absent = .falsy ∧ r = [] then (.done (.err .noProof), cache)
    else if Gen.C22.commaGuard && r.contains ',' then (.done (.err .malformed), cache)
    else verifyProof hmac cfg r now cache mono

/-- the gate of the tree under test -/
def gateVerify (hmac : Hmac) (cfg : Config) (raw : Option Str) (now : Int) (cache : Option NonceState) (mono : Int) :
    Outcome × Option NonceState :=
  gateVerifyWith Gen.C22.absentTest hmac cfg raw now cache mono

inductive Mode where
  | allow | require
deriving Repr, DecidableEq

/-- `ProofError(reason, detail)`; its `vgi_auth_reason` attribute is always `AuthReason.PROXY_REQUIRED` -/
structure ProofError where
  reason : Reason
  detail : Str
deriving Repr, DecidableEq

/-- `str(exc)`: `super().__init__(detail or reason)` -/
def ProofError.str (e : ProofError) : Str := if e.detail = [] then e.reason.code.toList else e.detail

def failClaims (origin : Str) (r : Reason) : Claims :=
  [("verified".toList, "false".toList), ("proxy".toList, []), ("kid".toList, []),
   ("origin_id".toList, origin), ("reason".toList, r.code.toList)]

inductive GateOut where
  | claims (c : Claims)            -- the gate returned
  | refused (e : ProofError)       -- the gate raised `ProofError` (a `PermissionError`)
  | raised (what : String)         -- anything else escaped
deriving Repr, DecidableEq

/-- the whole `gate(req)` closure, including the `except ProofError` handler -/
def gate (hmac : Hmac) (mode : Mode) (cfg : Config) (raw : Option Str) (now : Int) (cache : Option NonceState)
    (mono : Int) : GateOut × Option NonceState :=
  match gateVerify hmac cfg raw now cache mono with
  | (.done (.ok c), st) => (.claims c, st)
  | (.done (.err r), st) =>
    match mode with
    | .require => (.refused ⟨r, Gen.C22.requireDetail⟩, st)
    | .allow => (.claims (failClaims cfg.origin r), st)
  | (.raised w, st) => (.raised w, st)

/-- What `_AuthMiddleware` + the 401 serializer make of a `ProofError`: status 401,
`VGI-Auth-Reason` / body `reason` = `classify_auth_failure(exc)` = the exception's `vgi_auth_reason`
(the constant `proxy_required`), body `detail` = `str(exc)`, and the app's static proxy note. -/
structure Resp401 where
  status : Nat
  reason : Str
  detail : Str
  proxyHint : Str
deriving Repr, DecidableEq

def http401 (proxyHint : Str) (e : ProofError) : Resp401 :=
  { status := 401, reason := "proxy_required".toList, detail := e.str, proxyHint := proxyHint }

/-- the HTTP header value a WSGI server hands over for a list of header instances -/
def wsgiJoin (sep : Str) : List Str → Option Str
  | [] => none
  | vals => some (join sep vals)

/-- a history of requests through one gate (the closure keeps one `NonceCache`) -/
def runGate (hmac : Hmac) (cfg : Config) (sep : Str) : Option NonceState → List Req → List Outcome × Option NonceState
  | st, [] => ([], st)
  | st, r :: rs =>
    let step := gateVerify hmac cfg (wsgiJoin sep r.vals) r.now st r.mono
    let rest := runGate hmac cfg sep step.2 rs
    (step.1 :: rest.1, rest.2)

end VgiVerif.C22
