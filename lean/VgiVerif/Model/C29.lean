import VgiVerif.Model.Engine
import VgiVerif.Gen.C29
/-
C29 — shared-memory side channel of the pipe transport: routing, resolution and region accounting.

Transliterates (message level, over `Engine`'s wire items):
  * `maybe_write_to_shm` (vgi_rpc/shm.py)                       → `put`      (guards in source order; inline fallback)
  * `ShmSegment.allocate_and_write` / `_ShmSink`                 → `alloc` of the abstract allocator + `Mem.write`
  * `resolve_shm_batch` / `_deserialize_from_shm` + `release_fn` → `resolve` / `recv` / `World.freeOff`
  * `_flush_collector` (shm route), `_write_result_batch`        → `putItems`, `callOp`
  * `_read_batch_with_log_check`                                 → `readW`
  * `_read_unary_response` (release in `finally`)                → `callOp`
  * `_read_request` (pointer request resolved, released)         → `callOp` (`req`)
  * `_serve_stream` loop (resolve, coerce, release previous input, process, flush; `finally` release; drain)
                                                                 → `serverStep`, `sendOp`, `closeOp`
  * `StreamSession._write_batch / tick / exchange / close / cancel / _drain_output` → `sendOp`, `closeOp`
  * `AnnotatedBatch.release()`                                   → `releaseOp`

The allocator is abstract (`Allocator`: state, `alloc`, `free`, `live`); C28 owns its invariants.  `firstFit` is the concrete
instance used by the driver for the correspondence run (transliteration of `ShmAllocator.allocate/free`).
Memory is a map from byte offset to the (write id, batch) that last wrote it, so that "a held zero-copy batch still reads
as what was written" is expressible.  Branch points whose absence would be a leak are read from `Gen.C29` (extracted).
Imports only Engine + Gen (linked into the native driver).
-/
namespace VgiVerif.C29
open VgiVerif.Engine

/-! ## Allocator (abstract) -/

/-- (offset, length) -/
abbrev Region := Nat × Nat

structure Allocator where
  σ : Type
  init : σ
  alloc : σ → Nat → Option (Nat × σ)
  free : σ → Nat → σ
  live : σ → List Region

/-- `ShmAllocator.allocate`: first gap of at least `size` in the offset-sorted table; `prev` = end of the previous entry -/
def ffInsert (size total : Nat) : Nat → List Region → Option (Nat × List Region)
  | prev, [] => if total - prev ≥ size ∧ prev ≤ total then some (prev, [(prev, size)]) else none
  | prev, (o, l) :: r =>
      if o - prev ≥ size ∧ prev ≤ o then some (prev, (prev, size) :: (o, l) :: r)
      else match ffInsert size total (o + l) r with
        | some (x, r') => some (x, (o, l) :: r')
        | none => none

/-- `ShmAllocator.free`: remove the first entry starting at `off` -/
def ffFree (off : Nat) : List Region → List Region
  | [] => []
  | (o, l) :: r => if o = off then r else (o, l) :: ffFree off r

/-- the concrete allocator of `vgi_rpc/shm.py` for a segment of `total` bytes -/
def firstFit (total : Nat) : Allocator where
  σ := List Region
  init := []
  alloc := fun t size =>
    if size = 0 then none
    else if t.length ≥ Gen.C29.maxAllocs then none
    else ffInsert size total Gen.C29.headerSize t
  free := fun t off => ffFree off t
  live := fun t => t

/-! ## Memory and the world shared by both peers -/

/-- byte offset ↦ (write id, batch) of the write that last touched it -/
abbrev Mem := Nat → Option (Nat × Batch)

def Mem.write (m : Mem) (o n wid : Nat) (b : Batch) : Mem :=
  fun c => if o ≤ c ∧ c < o + n then some (wid, b) else m c

def Mem.intact (m : Mem) (o n wid : Nat) (b : Batch) : Bool :=
  (List.range n).all fun i => m (o + i) == some (wid, b)

structure World (A : Allocator) where
  a : A.σ
  mem : Mem
  nextW : Nat

/-- what a resolved pointer batch references -/
structure Hnd where
  off : Nat
  len : Nat
  wid : Nat
  b : Batch
deriving DecidableEq, Repr

def Hnd.region (h : Hnd) : Region := (h.off, h.len)

/-- `shm.free(offset)` -/
def World.freeOff {A : Allocator} (w : World A) (o : Nat) : World A := { w with a := A.free w.a o }

/-- `release_fn()` of a resolved batch (`none`: the batch arrived inline, nothing to free) -/
def World.free {A : Allocator} (w : World A) : Option Hnd → World A
  | none => w
  | some h => w.freeOff h.off

/-- routing parameters: segment attached?, `SHM_MIN_BATCH_BYTES`, `batch.nbytes`, bytes requested from the allocator
(`get_record_batch_size + _STREAM_OVERHEAD`, or the serialized size of a dictionary batch) -/
structure Cfg where
  shm : Bool
  thr : Nat
  nbytes : Batch → Nat
  need : Batch → Nat

/-- one batch on the wire: inline, or a zero-row pointer batch carrying (offset, length) -/
inductive WItem where
  | inl (i : Item)
  | ptr (off len : Nat)
deriving Repr, DecidableEq

/-- `maybe_write_to_shm` -/
def put {A : Allocator} (cfg : Cfg) (w : World A) (b : Batch) : WItem × World A :=
  if !cfg.shm || b.rows == 0 then (.inl (.data b), w)
  else if cfg.nbytes b < cfg.thr then (.inl (.data b), w)
  else match A.alloc w.a (cfg.need b) with
    | none => (.inl (.data b), w)
    | some (o, a') =>
        (.ptr o (cfg.need b), { a := a', mem := w.mem.write o (cfg.need b) w.nextW b, nextW := w.nextW + 1 })

/-- `_flush_collector` with a segment: every batch goes through `maybe_write_to_shm` (log / error batches have zero rows) -/
def putItems {A : Allocator} (cfg : Cfg) (w : World A) : List Item → List WItem × World A
  | [] => ([], w)
  | .data b :: r =>
      let p := put cfg w b
      let q := putItems cfg p.2 r
      (p.1 :: q.1, q.2)
  | i :: r =>
      let q := putItems cfg w r
      (.inl i :: q.1, q.2)

def corruptExn : Exn := ⟨"ArrowInvalid".toList, "shared-memory region was overwritten".toList, none⟩

/-- `shm.read_buffer` + `_deserialize_from_shm`: the bytes of the region as they are *now* -/
def resolve {A : Allocator} (w : World A) (o n : Nat) : Option (Nat × Batch) :=
  match w.mem o with
  | some (wid, b) => if Mem.intact w.mem o n wid b then some (wid, b) else none
  | none => none

/-- `resolve_shm_batch` on one wire batch -/
def recv {A : Allocator} (w : World A) : WItem → Item × Option Hnd
  | .inl i => (i, none)
  | .ptr o n =>
      match resolve w o n with
      | some (wid, b) => (.data b, some ⟨o, n, wid, b⟩)
      | none => (.err corruptExn, none)

inductive REnd where
  | gotData (b : Batch) (h : Option Hnd) (rest : List WItem)
  | raised
  | eos
deriving Repr

/-- `_read_batch_with_log_check` with a segment: logs → `on_log`; first non-log batch is resolved and returned -/
def readW {A : Allocator} (w : World A) : List WItem → List Ev × REnd
  | [] => ([], .eos)
  | x :: r =>
      match recv w x with
      | (.log l, _) => let q := readW w r; (.log l :: q.1, q.2)
      | (.data b, h) => ([.data b], .gotData b h r)
      | (.err e, _) => ([errEv e], .raised)
      | (.token _, _) => readW w r

def inlLogs (ls : List Log) : List WItem := (logItems ls).map .inl

/-- `_drain_output`: remaining log batches are delivered; anything else is stepped over (a skipped pointer batch is
released when `clientDrainReleases`) -/
def drainW {A : Allocator} (w : World A) : List WItem → List Ev × World A
  | [] => ([], w)
  | x :: r =>
      match recv w x with
      | (.log l, _) => let q := drainW w r; (.log l :: q.1, q.2)
      | (_, h) => drainW (if Gen.C29.clientDrainReleases then w.free h else w) r

/-! ## Connection state and client operations -/

/-- a data batch delivered to the caller: its release handle (if it came through the segment) and whether the caller
has released it -/
structure HeldB where
  b : Batch
  h : Option Hnd
  released : Bool
deriving Repr

structure Sess where
  exch : Bool
  early : Bool                  -- the server's `process()` releases its input itself (`input.release()`), before emitting
  initErr : Option Exn          -- the method failed at init: the server answered with an error stream and drains the input
  carry : List WItem            -- written by the server, not yet read by the client
  rest : List Step
  srvDone : Bool                -- the server has left its stream loop (finish / error / input EOS)
  closed : Bool                 -- `StreamSession._closed`
  prevIn : Option Hnd           -- `prev_input` of `_serve_stream`
deriving Repr

structure Conn (A : Allocator) where
  w : World A
  held : List HeldB
  sess : Option Sess

def Conn.init (A : Allocator) : Conn A := ⟨⟨A.init, fun _ => none, 0⟩, [], none⟩

inductive Op where
  /-- unary call; `req = some b`: the request batch is offered to the segment by the client (C++-style client) -/
  | call (logs : List Log) (out : Except Exn Nat) (req : Option Batch)
  | openS (exch early : Bool) (init : Option Exn) (initLogs : List Log) (steps : List Step)
  | tick
  /-- exchange input; `coerce = some e`: `_coerce_input_batch` raises `e` for this batch -/
  | send (inp : Batch) (coerce : Option Exn)
  | close
  | cancel
  | release (k : Nat)
deriving Repr

/-- what the two sides observe during one client operation -/
structure OpOut where
  evs : List Ev
  srvIn : List Batch            -- batches handed to the server's user code (request kwargs / `process()` input), as resolved
deriving Repr, DecidableEq

def closedErr : Ev := .error "ProtocolError".toList "Stream has been closed or cancelled".toList none

def sessionOpen (s : Option Sess) : Bool :=
  match s with
  | some s => !s.closed
  | none => false

def asValue : Ev → Ev
  | .data b => .value b.id
  | e => e

def dataOf : Item → List Batch
  | .data b => [b]
  | _ => []

/-- result batch of a unary call returning `v` (one row; identity = the value) -/
def resultBatch (v : Nat) : Batch := ⟨v, 1, []⟩

/-- request side of a unary call: `_read_request` resolves a pointer request and releases it in its `finally`;
returns what the method was handed and the world afterwards -/
def reqPhase {A : Allocator} (cfg : Cfg) (w : World A) (req : Option Batch) : List Batch × World A :=
  match req with
  | none => ([], w)
  | some rb =>
      let q := put cfg w rb
      let r := recv q.2 q.1
      (dataOf r.1, if Gen.C29.requestFinallyReleases then q.2.free r.2 else q.2)

/-- response side: `_write_result_batch`, then `_read_unary_response` (release in its `finally`) -/
def respPhase {A : Allocator} (cfg : Cfg) (w : World A) (logs : List Log) (v : Nat) : List Ev × World A :=
  let q := put cfg w (resultBatch v)
  match readW q.2 (inlLogs logs ++ [q.1]) with
  | (evs, .gotData _ h _) => (evs.map asValue, if Gen.C29.unaryFinallyReleases then q.2.free h else q.2)
  | (evs, _) => (evs, q.2)

/-- `_RpcProxy` unary caller + `serve_one` / `_serve_unary` -/
def callOp {A : Allocator} (cfg : Cfg) (c : Conn A) (logs : List Log) (out : Except Exn Nat) (req : Option Batch) :
    OpOut × Conn A :=
  let p := reqPhase cfg c.w req
  match out with
  | .error e => (⟨logs.map Ev.log ++ [errEv e], p.1⟩, { c with w := p.2 })
  | .ok v => let r := respPhase cfg p.2 logs v; (⟨r.1, p.1⟩, { c with w := r.2 })

def stepOut (exch : Bool) (st : Step) : StepOut := if exch then processExchangeStep st else processStep st

/-- the step the next `process()` call plays; past the end of the script it calls `finish()` -/
def headStep : List Step → Step
  | [] => ⟨[], .finish, []⟩
  | st :: _ => st

/-- what the loop iteration produces: a coercion failure is answered with an error batch, otherwise `process()` runs -/
def stepOutOf (exch : Bool) (rest : List Step) (coerce : Option Exn) : StepOut :=
  match coerce with
  | some e => .fail [.err e]
  | none => stepOut exch (headStep rest)

/-- the script advances only when `process()` ran -/
def restAfter (rest : List Step) (coerce : Option Exn) : List Step :=
  match coerce with
  | some _ => rest
  | none => rest.tail

/-- `_write_batch`: a tick batch (`none`) has zero rows and is never routed -/
def pinOf {A : Allocator} (cfg : Cfg) (w : World A) (inp : Option Batch) : WItem × World A :=
  match inp with
  | none => (.inl (.data ⟨0, 0, []⟩), w)
  | some b => put cfg w b

/-- the batch the client sent, as a wire-independent item -/
def inItem (inp : Option Batch) : Item :=
  match inp with
  | none => .data ⟨0, 0, []⟩
  | some b => .data b

/-- the input `process()` was handed (nothing for a tick or when coercion failed) -/
def seenOf (inp : Option Batch) (coerce : Option Exn) (resolved : Item) : List Batch :=
  match inp, coerce with
  | some _, none => dataOf resolved
  | _, _ => []

/-- what one iteration of the `_serve_stream` loop leaves behind -/
structure SrvOut (A : Allocator) where
  wire : List WItem
  w : World A
  prevIn : Option Hnd
  done : Bool
  rest : List Step

/-- one iteration of the `_serve_stream` loop for an input that resolved to handle `hIn` -/
def serverStep {A : Allocator} (cfg : Cfg) (w : World A) (s : Sess) (hIn : Option Hnd) (coerce : Option Exn) : SrvOut A :=
  match coerce with
  | some e =>
      -- `_coerce_input_batch` raised: the just-resolved region is released on the spot, the error batch is written,
      -- the `finally` releases the previous input
      let w1 := if Gen.C29.coerceFailureReleases then w.free hIn else w
      let w2 := if Gen.C29.finalReleasedBeforeEos then w1.free s.prevIn else w1
      ⟨[.inl (.err e)], w2, none, true, s.rest⟩
  | none =>
      let w0 := if Gen.C29.prevReleasedBeforeProcess then w.free s.prevIn else w
      -- user code may release its input early; the framework's own later release of the same batch is then a no-op
      -- (when the release closure is idempotent)
      let w1 := if s.early then w0.free hIn else w0
      let hIn := if s.early && Gen.C29.releaseIdempotent then none else hIn
      let fin := fun (x : World A) => if Gen.C29.finalReleasedBeforeEos then x.free hIn else x
      -- `process()` past the end of the script calls `finish()`
      let r := s.rest.tail
      match stepOut s.exch (headStep s.rest) with
      | .cont items => let q := putItems cfg w1 items; ⟨q.1, q.2, hIn, false, r⟩
      | .done items => let q := putItems cfg w1 items; ⟨q.1, fin q.2, none, true, r⟩
      | .fail items => ⟨items.map .inl, fin w1, none, true, r⟩

/-- the client closes its side: input EOS; a server still in its loop leaves it and releases the last input; the rest of
the output is drained -/
def closeSess {A : Allocator} (w : World A) (s : Sess) (carry : List WItem) : List Ev × World A × Sess :=
  let w1 := if s.srvDone then w else (if Gen.C29.finalReleasedBeforeEos then w.free s.prevIn else w)
  let d := drainW w1 carry
  (d.1, d.2, { s with carry := [], srvDone := true, closed := true, prevIn := none })

/-- what the client does with the outcome of `_read_response` -/
def finishRead {A : Allocator} (c : Conn A) (w : World A) (s1 : Sess) (isTick : Bool) (seen : List Batch)
    (rd : List Ev × REnd) : OpOut × Conn A :=
  match rd with
  | (evs, .gotData b h rest) =>
      -- the batch is handed to the caller, who owns its release
      (⟨evs, seen⟩, { w := w, held := c.held ++ [⟨b, h, false⟩], sess := some { s1 with carry := rest } })
  | (evs, .raised) =>
      -- RpcError: the session closes itself
      let z := closeSess w s1 []
      (⟨evs ++ z.1, seen⟩, { c with w := z.2.1, sess := some z.2.2 })
  | (evs, .eos) =>
      -- StopIteration: `tick()` closes the session, `exchange()` lets it propagate
      if isTick then
        let z := closeSess w s1 []
        (⟨evs ++ [.fin], seen⟩, { c with w := z.2.1, sess := some z.2.2 })
      else (⟨evs ++ [.fin], seen⟩, { c with w := w, sess := some { s1 with carry := [] } })

/-- a server that is not (or no longer) in its stream loop drains the client's input unresolved -/
def drainInput {A : Allocator} (w : World A) : WItem → World A
  | .ptr o _ => if Gen.C29.drainFreesPointers then w.freeOff o else w
  | .inl _ => w

/-- `StreamSession.tick` (`inp = none`) / `exchange` (`inp = some b`) against `_serve_stream` -/
def sendOp {A : Allocator} (cfg : Cfg) (c : Conn A) (s : Sess) (inp : Option Batch) (coerce : Option Exn) :
    OpOut × Conn A :=
  if s.closed then (⟨[closedErr], []⟩, c)
  else
    let pin := pinOf cfg c.w inp
    match s.initErr with
    | some e =>
        -- the server answered the failed init with an error stream (the logs the method emitted, then the error) and
        -- drains the input unresolved
        (⟨(readW (drainInput pin.2 pin.1) s.carry).1 ++ [errEv e], []⟩,
         { c with w := drainInput pin.2 pin.1, sess := some { s with carry := [], srvDone := true, closed := true } })
    | none =>
      if s.srvDone then
        -- the server left its loop earlier: the input is drained unresolved; the client reads what is left
        let w1 := drainInput pin.2 pin.1
        finishRead c w1 s inp.isNone [] (readW w1 s.carry)
      else
        -- server: resolve the input, run one loop iteration
        let rin := recv pin.2 pin.1
        let so := serverStep cfg pin.2 s rin.2 coerce
        let seen := seenOf inp coerce rin.1
        let s1 : Sess := { s with rest := so.rest, srvDone := so.done, prevIn := so.prevIn }
        finishRead c so.w s1 inp.isNone seen (readW so.w (s.carry ++ so.wire))

/-- `StreamSession.close` / `cancel` -/
def closeOp {A : Allocator} (c : Conn A) (s : Sess) : OpOut × Conn A :=
  if s.closed then (⟨[], []⟩, c)
  else
    let z := closeSess c.w s s.carry
    (⟨z.1, []⟩, { c with w := z.2.1, sess := some z.2.2 })

/-- `AnnotatedBatch.release()` on the `k`-th batch the caller was handed -/
def releaseOp {A : Allocator} (c : Conn A) (k : Nat) : Conn A :=
  match c.held[k]? with
  | none => c
  | some hb =>
      if hb.released && Gen.C29.releaseIdempotent then c
      else { c with w := c.w.free hb.h, held := c.held.set k { hb with released := true } }

/-- one client operation.  Operations that the client API refuses or that would break the lockstep protocol (a call or
an open while a stream is open; stream operations without a stream) are ignored: they never reach the wire. -/
def step {A : Allocator} (cfg : Cfg) (c : Conn A) : Op → OpOut × Conn A
  | .call logs out req => if sessionOpen c.sess then (⟨[], []⟩, c) else callOp cfg c logs out req
  | .openS exch early init il steps =>
      if sessionOpen c.sess then (⟨[], []⟩, c)
      else (⟨[], []⟩, { c with sess := some ⟨exch, early, init, inlLogs il, steps, init.isSome, false, none⟩ })
  | .tick => match c.sess with
      | some s => sendOp cfg c s none none
      | none => (⟨[], []⟩, c)
  | .send inp coerce => match c.sess with
      | some s => sendOp cfg c s (some inp) coerce
      | none => (⟨[], []⟩, c)
  | .close => match c.sess with
      | some s => closeOp c s
      | none => (⟨[], []⟩, c)
  | .cancel => match c.sess with
      | some s => closeOp c s
      | none => (⟨[], []⟩, c)
  | .release k => (⟨[], []⟩, releaseOp c k)

/-- a whole client history on one connection: per-operation observations and the final state -/
def run {A : Allocator} (cfg : Cfg) : Conn A → List Op → List OpOut × Conn A
  | c, [] => ([], c)
  | c, op :: r =>
      let p := step cfg c op
      let q := run cfg p.2 r
      (p.1 :: q.1, q.2)

/-! ## Accounting views -/

/-- handles of batches the caller holds and has not released -/
def clientRefs (held : List HeldB) : List Hnd :=
  held.filterMap fun hb => if hb.released then none else hb.h

/-- the server's `prev_input`, while it is in its stream loop -/
def serverRefs (s : Option Sess) : List Hnd :=
  match s with
  | some s => s.prevIn.toList
  | none => []

def refs {A : Allocator} (c : Conn A) : List Hnd := clientRefs c.held ++ serverRefs c.sess

/-- the caller releases everything it still holds (`release k` for every k) -/
def releaseAll {A : Allocator} (c : Conn A) : Conn A :=
  (List.range c.held.length).foldl releaseOp c

end VgiVerif.C29
