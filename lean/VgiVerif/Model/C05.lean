import VgiVerif.Gen.C05
/-
C05 — the decision procedure of one request on a socket / pipe server:
  `RpcServer.serve` (which exception classes end the loop) / `serve_one` (handlers around `_read_request`, version gate,
  validation, data-plane shm attach, `_serve_unary`)                                   vgi_rpc/rpc/_server.py
  `_read_request` (first read, drain before validation, metadata checks, trace context, shm pointer resolution,
  row count, kwargs extraction) / `_drain_stream`                                      vgi_rpc/rpc/_wire.py
  `_maybe_attach_shm` / `_ConnectionShm.refresh` (attach guards)                       vgi_rpc/rpc/_server.py, shm.py

Control flow and exception propagation are transliterated; *which class each `except` catches* comes from the extracted
tables (`Gen.C05`), with Python's subclass relation taken from the interpreter.  What the primitives do on the concrete
bytes (pyarrow reads, `bytes.decode`, `int()`, `ShmSegment.attach`, `resolve_shm_batch`, `as_py()`, the request checks, the
method) is an INPUT: each either returns, raises some class, or — reads only — blocks waiting for more bytes.
No imports besides Gen (linked into the native driver).
-/
namespace VgiVerif.C05
open VgiVerif.Gen.C05 (Exc)

/-- the handler tables of the tree under test (`Tables.gen`) or of another tree (Findings) -/
structure Tables where
  supers : Exc → List Exc
  serveLoop : List (List Exc)
  readRequestTry : List (List Exc × Bool)
  versionGate : List Exc
  validation : List Exc
  methodCall : List Exc
  versionReplyFirst : Bool
  validationReplyFirst : Bool
  initReplyFirst : Bool
  attachMdDecode : List Exc
  attachGuard : List Exc
  attachConvert : List Exc
  resolveConvert : List Exc
  firstRead : List Exc
  firstReadDrains : Bool
  firstDrainSkips : List Exc
  firstDrainEnds : List Exc
  traceDecode : List Exc
  methodDecode : List Exc
  pointerGuard : List Exc
  asPyGuard : List Exc
  releaseGuard : List Exc
  drainSkips : List Exc
  drainEnds : List Exc

def Tables.gen : Tables :=
  { supers := Gen.C05.supers, serveLoop := Gen.C05.serveLoop, readRequestTry := Gen.C05.readRequestTry,
    versionGate := Gen.C05.versionGate, validation := Gen.C05.validation, methodCall := Gen.C05.methodCall, versionReplyFirst := Gen.C05.versionReplyFirst,
    validationReplyFirst := Gen.C05.validationReplyFirst, initReplyFirst := Gen.C05.initReplyFirst,
    attachMdDecode := Gen.C05.attachMdDecode, attachGuard := Gen.C05.attachGuard, attachConvert := Gen.C05.attachConvert, resolveConvert := Gen.C05.resolveConvert, firstRead := Gen.C05.firstRead,
    firstReadDrains := Gen.C05.firstReadDrainsOnIpcError, firstDrainSkips := Gen.C05.firstReadDrainSkips,
    firstDrainEnds := Gen.C05.firstReadDrainEnds, traceDecode := Gen.C05.traceDecode,
    methodDecode := Gen.C05.methodDecode, pointerGuard := Gen.C05.pointerGuard, asPyGuard := Gen.C05.asPyGuard, releaseGuard := Gen.C05.releaseGuard,
    drainSkips := Gen.C05.drainSkips, drainEnds := Gen.C05.drainEnds }

/-- `isinstance(e, c)` -/
def isA (T : Tables) (e c : Exc) : Bool := (T.supers e).contains c

/-- `except (c₁, c₂, …)` catches `e` -/
def caught (T : Tables) (cs : List Exc) (e : Exc) : Bool := cs.any (isA T e)

/-- what a primitive does -/
inductive Step where
  | ok
  | raises (e : Exc)
  | blocks                      -- a read that waits for bytes the peer has not sent
deriving Repr, DecidableEq

/-- a metadata value as `bytes.decode()` sees it -/
inductive MdVal where
  | absent | text | undecodable
deriving Repr, DecidableEq

inductive VersionMd where
  | absent | current | other
deriving Repr, DecidableEq

/-- `vgi_rpc.shm_segment_size`: absent, accepted by `int()`, or not -/
inductive SizeMd where
  | absent | numeric | bad
deriving Repr, DecidableEq

/-- One request as the decision procedure sees it. -/
structure Req where
  -- transport + pyarrow
  openStream : Step               -- `ipc.open_stream(reader)`
  firstRead : Step                -- first `read_next_batch_with_custom_metadata` (+ validation): a batch, or raises
                                  --   (StopIteration: the stream has no batch; IPCError: content fails validation; …)
  laterReads : List Step          -- the reads `_drain_stream` makes, in order; after the last one the reader reports EOS
  -- custom metadata of the first batch
  hasMethod : Bool
  methodText : Bool               -- `vgi_rpc.method` decodes as UTF-8
  version : VersionMd
  traceparent : MdVal
  tracestate : MdVal
  shmName : MdVal
  shmSize : SizeMd
  isPointer : Bool                -- `is_shm_pointer_batch`: zero rows ∧ `vgi_rpc.shm_offset` present ∧ no log-level key
  -- shared memory
  staticShm : Bool                -- a segment is already there (ShmPipeTransport / cached from an earlier request)
  shmOpen : Step                  -- `SharedMemory(name=…, create=False, size=…)` for the advertised name (the OS)
  allocInit : Step                -- `ShmAllocator(buf, size)` on the mapping: header unpack (struct.error when the mapping is
                                  --   smaller than the header) and magic / version / size checks (ValueError)
  resolve : Step                  -- `resolve_shm_batch` up to the read: length key present, `int()`, bounds (ValueError)
  deser : Step                    -- `_deserialize_from_shm`: the region read as an IPC stream — StopIteration when it holds no
                                  --   batch, OSError / ArrowInvalid when it is not IPC framing, a batch otherwise
  release : Step                  -- `release_shm()` = `shm.free(offset)` in the `finally` (the allocator may not know the offset)
  -- the batch kwargs are read from
  ncols : Nat
  rows : Nat
  asPy : Step                     -- `{f.name: column[0].as_py()}`
  -- dispatch
  isTransportOptions : Bool
  streamNoHeader : Bool           -- the method is a stream without a declared header: its client sends an input IPC stream,
                                  --   which the server drains (`_drain_refused_stream_input`) when it refuses the call
  peerWaits : Bool                -- the peer writes the request and then waits for the reply before it writes anything else
                                  --   (what the reference client does); false: the rest is already on the wire
  methodKnown : Bool
  versionCheck : Step             -- `_check_protocol_version`
  validate : Step                 -- `_deserialize_params` / `_validate_call_signature` / `_validate_params`
  call : Step                     -- the method + `_validate_result`
deriving Repr, DecidableEq

inductive Outcome where
  | replyContinue                 -- a response / typed error stream was written and the loop goes on
  | replyStop                     -- an error stream was written, then the connection ends
  | silentStop                    -- nothing was written and the connection ends (`serve` returned or raised)
  | hang                          -- nothing was written and the server keeps waiting
deriving Repr, DecidableEq

/-- which reply -/
inductive Reply where
  | none | protocolError | versionError | arrowInvalid | unknownMethod | protocolVersion | badParams | methodError | value
  | transportOptions
deriving Repr, DecidableEq

/-- result of a sub-computation: value, exception in flight, or blocked -/
inductive Ex (α : Type) where
  | ok (a : α)
  | raises (e : Exc)
  | blocks
deriving Repr

/-- a drain loop: read until a class in `ends` (StopIteration) is raised, stepping over the classes in `skips` -/
def drainWith (T : Tables) (skips ends : List Exc) : List Step → Step
  | [] => .ok
  | .ok :: r => drainWith T skips ends r
  | .raises e :: r =>
      if caught T ends e then .ok
      else if caught T skips e then drainWith T skips ends r
      else .raises e
  | .blocks :: _ => .blocks

/-- `_drain_stream(reader)` -/
def drain (T : Tables) (l : List Step) : Step := drainWith T T.drainSkips T.drainEnds l

/-- `ShmSegment.attach(name, size)`: open the mapping, validate its header; header failures of the classes in
`attachConvert` are re-raised as ValueError after the mapping has been closed, anything else propagates as it is -/
def attachStep (T : Tables) (rq : Req) : Step :=
  match rq.shmOpen with
  | .raises e => .raises e
  | _ =>
    match rq.allocInit with
    | .raises e => if caught T T.attachConvert e then .raises .ValueError else .raises e
    | _ => .ok

/-- `_maybe_attach_shm(md, kind)` on a non-HTTP transport: `some seg` / `None` -/
def maybeAttach (T : Tables) (rq : Req) : Ex Bool :=
  match rq.shmName with
  | .absent => .ok false
  | nm =>
    match rq.shmSize with
    | .absent => .ok false
    | sz =>
      -- `shm_name_bytes.decode()` then `int(shm_size_bytes)` inside one try
      let dec : Option Exc :=
        if nm = .undecodable then some .UnicodeDecodeError else if sz = .bad then some .ValueError else none
      match dec with
      | some e => if caught T T.attachMdDecode e then .ok false else .raises e
      | none =>
        match attachStep T rq with
        | .ok => .ok true
        | .raises e => if caught T T.attachGuard e then .ok false else .raises e
        | .blocks => .ok true

/-- rows check, then `{f.name: column[0].as_py()}` -/
def body (T : Tables) (rq : Req) : Ex Unit :=
  if rq.ncols > 0 && rq.rows != 1 then .raises .RpcError
  else match rq.asPy with
    | .raises e => if caught T T.asPyGuard e then .raises .RpcError else .raises e
    | _ => .ok ()

/-- `resolve_shm_batch`: the pointer checks, then the read of the region; read failures of the classes in `resolveConvert`
are re-raised as ValueError, anything else propagates as it is -/
def resolveStep (T : Tables) (rq : Req) : Step :=
  match rq.resolve with
  | .ok =>
    match rq.deser with
    | .raises e => if caught T T.resolveConvert e then .raises .ValueError else .raises e
    | _ => .ok
  | s => s

/-- `resolve_shm_batch` (when there is a segment and the batch is a pointer), the body, and `finally: release_shm()` -/
def resolveBody (T : Tables) (rq : Req) (hasSeg : Bool) : Ex Unit :=
  match (if hasSeg && rq.isPointer then resolveStep T rq else Step.ok) with
  | .raises e => if caught T T.pointerGuard e then .raises .RpcError else .raises e
  | .blocks => .blocks
  | .ok =>
    -- an exception `release_shm()` lets out replaces the body's
    if hasSeg && rq.isPointer then
      match rq.release with
      | .raises e => if caught T T.releaseGuard e then body T rq else .raises e
      | _ => body T rq
    else body T rq

/-- request_shm = the static / cached segment, else (pointer batch only) the segment named in this request -/
def segment (T : Tables) (rq : Req) : Ex Bool :=
  if rq.staticShm then .ok true else if rq.isPointer then maybeAttach T rq else .ok false

/-- `_read_request` after the stream has been drained: metadata checks, trace context, shm, kwargs -/
def afterDrain (T : Tables) (rq : Req) : Ex Unit :=
  if !rq.hasMethod then .raises .RpcError
  else if rq.version = .absent then .raises .VersionError
  else if rq.version = .other then .raises .VersionError
  else if !rq.methodText && !caught T T.methodDecode .UnicodeDecodeError then .raises .UnicodeDecodeError
  else if !rq.methodText then .raises .RpcError
  else if rq.traceparent = .undecodable && !caught T T.traceDecode .UnicodeDecodeError then .raises .UnicodeDecodeError
  else if rq.traceparent = .text && rq.tracestate = .undecodable && !caught T T.traceDecode .UnicodeDecodeError then
    .raises .UnicodeDecodeError
  else
    match segment T rq with
    | .raises e => .raises e
    | .blocks => .blocks
    | .ok hasSeg => resolveBody T rq hasSeg

/-- `_read_request`: `ok` = returned `(method_name, kwargs)` with the stream read to its end -/
def readRequest (T : Tables) (rq : Req) : Ex Unit :=
  match rq.openStream with
  | .raises e => .raises e
  | .blocks => .blocks
  | .ok =>
  match rq.firstRead with
  | .blocks => .blocks
  | .raises e =>
      if caught T T.firstRead e then
        if isA T e .StopIteration then .raises .RpcError          -- the reader is already at EOS
        else if T.firstReadDrains then
          -- the handler's own drain (`_drain_stream`, or the inline loop) before the refusal
          match drainWith T T.firstDrainSkips T.firstDrainEnds rq.laterReads with
          | .ok => .raises .RpcError
          | .raises e' => .raises e'
          | .blocks => .blocks
        else .raises .RpcError
      else .raises e
  | .ok =>
  match drain T rq.laterReads with
  | .raises e => .raises e
  | .blocks => .blocks
  | .ok => afterDrain T rq

structure Served where
  outcome : Outcome
  reply : Reply
  consumed : Bool          -- the request stream was read to its EOS marker (the next request starts at a stream boundary)
deriving Repr, DecidableEq

/-- an exception that leaves `serve_one` without a reply: the loop `break`s or `serve` raises — the connection ends -/
def escapes : Served := ⟨.silentStop, .none, false⟩

/-- A refusal of a stream call.  `first`: the error stream is written before the server waits for the input stream.  If it
is not, a header-less stream's lockstep peer and the server wait for each other. -/
def refusal (first : Bool) (rq : Req) (s : Served) : Served :=
  if rq.streamNoHeader && !first && rq.peerWaits then ⟨.hang, .none, false⟩ else s

/-- `serve_one` inside the `serve` loop -/
def serveOne (T : Tables) (rq : Req) : Served :=
  match readRequest T rq with
  | .blocks => ⟨.hang, .none, false⟩
  | .raises e =>
      match T.readRequestTry.find? (fun h => caught T h.1 e) with
      | some (_, true) => ⟨.replyStop, if isA T e .ArrowInvalid then .arrowInvalid else .protocolError, false⟩
      | some (_, false) =>
          -- the reply is written; the stream was read to its end unless the first batch failed validation and the
          -- handler does not drain
          ⟨.replyContinue, if isA T e .VersionError then .versionError else .protocolError,
           match rq.firstRead with
           | .raises e0 => isA T e0 .StopIteration || T.firstReadDrains
           | _ => true⟩
      | none => escapes
  | .ok () =>
    if rq.isTransportOptions then ⟨.replyContinue, .transportOptions, true⟩
    else if !rq.methodKnown then ⟨.replyContinue, .unknownMethod, true⟩
    else match rq.versionCheck with
      | .raises e => if caught T T.versionGate e then refusal T.versionReplyFirst rq ⟨.replyContinue, .protocolVersion, true⟩ else escapes
      | _ =>
      match rq.validate with
      | .raises e => if caught T T.validation e then refusal T.validationReplyFirst rq ⟨.replyContinue, .badParams, true⟩ else escapes
      | _ =>
      -- data plane: `shm_cache.refresh(req_md, kind)` attaches the advertised segment when none is there yet
      match (if rq.staticShm then Ex.ok true else maybeAttach T rq) with
      | .raises _ => escapes
      | _ =>
      match rq.call with
      | .raises e =>
          if caught T T.methodCall e then refusal T.initReplyFirst rq ⟨.replyContinue, .methodError, true⟩
          else ⟨.replyStop, .none, true⟩
      | _ => ⟨.replyContinue, .value, true⟩

/-- the loop: requests are served while the connection lives -/
def serveMany (T : Tables) : List Req → List Served
  | [] => []
  | rq :: rest =>
    let s := serveOne T rq
    s :: (if s.outcome = .replyContinue && s.consumed then serveMany T rest else [])

end VgiVerif.C05
