import VgiVerif.Prelude.SizeCaps
import VgiVerif.Gen.RespCaps
/-
C16 model: how the HTTP server applies `max_response_bytes` (wire cap) and `max_externalized_response_bytes`
(external cap).  Transliteration, branch order included, of

  predict_externalize_bytes_for_batch / _for_collector, maybe_externalize_batch / _collector   (vgi_rpc/external.py)
  _write_result_batch, _flush_collector (the external route)                                   (vgi_rpc/rpc/_wire.py)
  _enforce_response_budgets                                                                    (http/server/_responses.py)
  the result-writing part of _run_unary_sync                                                   (http/server/_app_unary.py)
  the flush part of _run_http_exchange_turn, the loop of _run_http_producer_turn               (http/server/_app_stream.py)

over sizes that are plain naturals: the model never computes an Arrow size, it is *given* `buf` (what
`get_total_buffer_size()` returns), `wire` (what a batch adds to an IPC stream), `framed` (the IPC stream the upload
helper serialises) and `ptr` (the pointer batch that replaces an uploaded payload).  It is parametric in the
extracted `Shape` (which comparisons the guards use, whether the budget is handed down and checked before upload).
-/
namespace VgiVerif.C16
open VgiVerif.SizeCaps

structure Cfg where
  wireCap : Option Nat      -- max_response_bytes
  extCap : Option Nat       -- max_externalized_response_bytes
  storage : Bool            -- an external config with a storage backend is wired up
  threshold : Nat           -- externalize_threshold_bytes
deriving Repr, DecidableEq

structure Batch where
  buf : Nat                 -- batch.get_total_buffer_size()
  rows : Nat
  wire : Nat                -- bytes its message adds to an IPC stream
deriving Repr, DecidableEq

/-- what may be externalised in one go: the single unary result, or all batches of one `OutputCollector` cycle -/
structure Payload where
  logs : Nat                -- wire bytes of the collector's log batches (0 for a unary result)
  data : Option Batch
  framed : Nat              -- len(ipc_bytes): the IPC stream the helper serialises and uploads
  ptr : Nat                 -- wire bytes of the pointer batch that replaces the payload
deriving Repr, DecidableEq

inductive Kind where
  | ok
  | errExt       -- RpcError "… exceeds max_externalized_response_bytes …"
  | errWire      -- RpcError "HTTP body exceeds max_response_bytes …"
  | errMethod    -- `process()` raised
deriving Repr, DecidableEq

structure Resp where
  kind : Kind
  body : Nat                -- HTTP body bytes
  uploads : List Nat        -- sizes handed to `storage.upload()` (pre-compression), in order
deriving Repr, DecidableEq

def capHit (op : Cmp) (x : Nat) : Option Nat → Bool
  | some c => op.holds x c
  | none => false

/-- `predict_externalize_bytes_for_batch` (0 when no external config / no storage) -/
def predictBatch (sh : Shape) (cfg : Cfg) (b : Batch) : Nat :=
  if !cfg.storage then 0
  else if sh.predictBatchSkipsEmpty && b.rows == 0 then 0
  else if sh.predictBatchThreshold.holds b.buf cfg.threshold then 0
  else b.buf

/-- `predict_externalize_bytes_for_collector` -/
def predictColl (sh : Shape) (cfg : Cfg) (p : Payload) : Nat :=
  if !cfg.storage then 0
  else match p.data with
    | none => 0
    | some d => if sh.predictCollThreshold.holds d.buf cfg.threshold then 0 else d.buf

inductive Flush where
  | inline (wire : Nat)
  | uploaded (wire : Nat) (up : Nat)
  | refused                       -- ExternalBudgetExceededError, raised before `storage.upload()`
deriving Repr, DecidableEq

def budgetRefuses (check : Option Cmp) (budget : Option Nat) (framed : Nat) : Bool :=
  match budget, check with
  | some m, some op => op.holds framed m
  | _, _ => false

/-- `_write_result_batch` → `maybe_externalize_batch` -/
def flushBatch (sh : Shape) (cfg : Cfg) (budget : Option Nat) (b : Batch) (framed ptr : Nat) : Flush :=
  if !cfg.storage then .inline b.wire
  else if sh.uploadBatchSkipsEmpty && b.rows == 0 then .inline b.wire
  else if sh.uploadBatchThreshold.holds b.buf cfg.threshold then .inline b.wire
  else if budgetRefuses sh.uploadBatchBudget budget framed then .refused
  else .uploaded ptr framed

def Payload.inlineWire (p : Payload) : Nat :=
  p.logs + (match p.data with | some d => d.wire | none => 0)

/-- `_flush_collector` → `maybe_externalize_collector` -/
def flushColl (sh : Shape) (cfg : Cfg) (budget : Option Nat) (p : Payload) : Flush :=
  if !cfg.storage then .inline p.inlineWire
  else match p.data with
    | none => .inline p.inlineWire
    | some d =>
      if sh.uploadCollThreshold.holds d.buf cfg.threshold then .inline p.inlineWire
      else if budgetRefuses sh.uploadCollBudget budget p.framed then .refused
      else .uploaded p.ptr p.framed

/-- `_enforce_response_budgets` (post-flush) and what the caller turns an overshoot into -/
def enforce (sh : Shape) (cfg : Cfg) (enabled : Bool) (errBody body ext : Nat) (ups : List Nat) : Resp :=
  if enabled && capHit sh.enforceWire body cfg.wireCap then ⟨.errWire, errBody, ups⟩
  else if enabled && capHit sh.enforceExternal ext cfg.extCap then ⟨.errExt, errBody, ups⟩
  else ⟨.ok, body, ups⟩

/-- the result-writing part of `_run_unary_sync`.
    `schema` = schema message, `pre` = schema message + client-log batches already in the stream (`schema ≤ pre`),
    `eos` = end-of-stream marker, `errWire` = wire bytes of the EXCEPTION batch.
    An external-cap refusal before the flush appends the error batch to the stream in progress; a post-flush overshoot
    *replaces* the body by a fresh stream. -/
def unaryRespond (sh : Shape) (cfg : Cfg) (schema pre eos errWire : Nat) (r : Batch) (framed ptr : Nat) : Resp :=
  let appended := pre + errWire + eos
  let replaced := schema + (if sh.unaryReplacementOnlyError then 0 else pre - schema) + errWire + eos
  if capHit sh.unaryPreflight (predictBatch sh cfg r) cfg.extCap then ⟨.errExt, appended, []⟩
  else
    match flushBatch sh cfg (if sh.unaryPassesBudget then cfg.extCap else none) r framed ptr with
    | .refused => ⟨.errExt, appended, []⟩
    | .inline w => enforce sh cfg sh.unaryEnforces replaced (pre + w + eos) 0 []
    | .uploaded w up => enforce sh cfg sh.unaryEnforces replaced (pre + w + eos) up [up]

/-- the flush part of `_run_http_exchange_turn` (`pre` = schema message).  Every cap error is answered through
    `_exchange_error_response`: a fresh stream. -/
def exchangeTurn (sh : Shape) (cfg : Cfg) (pre eos errWire : Nat) (p : Payload) : Resp :=
  let replaced := pre + (if sh.exchangeReplacementOnlyError then 0 else p.logs) + errWire + eos
  if capHit sh.exchangePreflight (predictColl sh cfg p) cfg.extCap then ⟨.errExt, replaced, []⟩
  else
    match flushColl sh cfg (if sh.exchangePassesBudget then cfg.extCap else none) p with
    | .refused => ⟨.errExt, pre + errWire + eos, []⟩      -- ExternalBudgetExceededError → `_RpcHttpError`, no logs in flight
    | .inline w => enforce sh cfg sh.exchangeEnforces replaced (pre + w + eos) 0 []
    | .uploaded w up => enforce sh cfg sh.exchangeEnforces replaced (pre + w + eos) up [up]

/-- one `process()` call of a producer: what the collector holds afterwards, or the fact that it raised -/
structure Iter where
  out : Payload
  finished : Bool
  raises : Bool
  errWire : Nat             -- wire bytes of the error batch written if this iteration ends in an error
deriving Repr, DecidableEq

/-- result of one producer turn, with the bookkeeping the bound is stated over -/
structure Turn where
  kind : Kind
  body : Nat
  uploads : List Nat
  before : Nat              -- bytes in the buffer when the last executed iteration started
  last : Nat                -- bytes that iteration wrote (its batches, or its error batch)
  sentinel : Bool           -- a continuation sentinel was appended
  iterations : Nat          -- `process()` calls made
deriving Repr, DecidableEq

def sumList : List Nat → Nat
  | [] => 0
  | x :: xs => x + sumList xs

/-- the `while True:` loop of `_run_http_producer_turn`; the script is the fuel.
    `tell` = `resp_buf.tell()`, `cum` = `cumulative_external_bytes`, `ups` = uploads so far, `n` = calls made -/
def producerLoop (sh : Shape) (cfg : Cfg) (sentinel eos : Nat) :
    List Iter → (tell cum : Nat) → (ups : List Nat) → (n : Nat) → Turn
  | [], tell, _, ups, n => ⟨.ok, tell + eos, ups, tell, 0, false, n⟩
  | it :: rest, tell, cum, ups, n =>
    if it.raises then ⟨.errMethod, tell + it.errWire + eos, ups, tell, it.errWire, false, n + 1⟩
    else
      let predicted := predictColl sh cfg it.out
      if cfg.storage && predicted != 0 && capHit sh.producerPreflight (cum + predicted) cfg.extCap then
        ⟨.errExt, tell + it.errWire + eos, ups, tell, it.errWire, false, n + 1⟩
      else
        let budget := if sh.producerPassesBudget then cfg.extCap.map (fun c => c - cum) else none
        match flushColl sh cfg budget it.out with
        | .refused => ⟨.errExt, tell + it.errWire + eos, ups, tell, it.errWire, false, n + 1⟩
        | .inline w =>
          if it.finished then ⟨.ok, tell + w + eos, ups, tell, w, false, n + 1⟩
          else if capHit sh.producerContinue (tell + w) cfg.wireCap then
            producerLoop sh cfg sentinel eos rest (tell + w) cum ups (n + 1)
          else ⟨.ok, tell + w + sentinel + eos, ups, tell, w, true, n + 1⟩
        | .uploaded w up =>
          if it.finished then ⟨.ok, tell + w + eos, (ups ++ [up]), tell, w, false, n + 1⟩
          else if capHit sh.producerContinue (tell + w) cfg.wireCap then
            producerLoop sh cfg sentinel eos rest (tell + w) (cum + up) (ups ++ [up]) (n + 1)
          else ⟨.ok, tell + w + sentinel + eos, (ups ++ [up]), tell, w, true, n + 1⟩

/-- `_run_http_producer_turn` (`pre` = schema message + sink logs) -/
def producerTurn (sh : Shape) (cfg : Cfg) (pre sentinel eos : Nat) (script : List Iter) : Turn :=
  producerLoop sh cfg sentinel eos script pre 0 [] 0

/-! the server of the working tree -/
def unaryRespond' := unaryRespond Gen.RespCaps.shape
def exchangeTurn' := exchangeTurn Gen.RespCaps.shape
def producerTurn' := producerTurn Gen.RespCaps.shape

end VgiVerif.C16
