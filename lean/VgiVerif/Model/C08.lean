import VgiVerif.Model.LogWire
/-
C08 model (a) — delivery of client logs, as REPAIRED by
  "fix: client logs emitted before a stream call failed were dropped":
the log batches of a `process()` call that fails (raises, returns without a data batch, calls `finish()` on an exchange
stream) are written before its error batch (`_flush_collector_logs`: every collector batch except the data batch, in
emission order — rpc/_server.py `_serve_stream`, http/server/_app_stream.py `_run_http_producer_turn` /
`_run_http_exchange_turn`), and the sink's buffered init logs are written before the init error
(`_write_error_stream(..., sink=sink)`; HTTP: `_RpcHttpError(write_logs=sink.flush_contents)`).

Same message-level abstraction and the same client-side functions as `Model/Engine.lean` (`readUntilData`, `drainLogs`,
`Http.parseInit / follow / assemble / readExchange / trailing` are reused unchanged); only the server's step function
differs, so the server-side drivers that call it are restated here over `processStep` below.  (b) — robustness — is
`LogWire.dispatchLog`.
-/
namespace VgiVerif.C08
open VgiVerif.Engine

/-- one `process()` call on a producer stream: `OutputCollector` + `_flush_collector` on success, `_flush_collector_logs`
+ error batch on failure -/
def processStep (s : Step) : StepOut :=
  match s.act with
  | .emit b => .cont (logItems s.logs ++ [.data b] ++ logItems s.post)
  | .finish => .done (logItems s.logs ++ logItems s.post)
  | .emitFinish b => .done (logItems s.logs ++ [.data b] ++ logItems s.post)
  | .raise e => .fail (logItems s.logs ++ [.err e])
  | .nothing => .fail (logItems s.logs ++ [.err noDataExn])

/-- exchange stream (`producer_mode = False`): `finish()` raises inside `process()`, after everything the call emitted
before it; the data batch of the failed call is dropped, its logs are kept -/
def processExchangeStep (s : Step) : StepOut :=
  match s.act with
  | .finish => .fail (logItems s.logs ++ logItems s.post ++ [.err finishOnExchangeExn])
  | .emitFinish _ => .fail (logItems s.logs ++ logItems s.post ++ [.err finishOnExchangeExn])
  | _ => processStep s

/-- a stream method that logs `il` and then raises `e`: the error stream the client reads (sockets: with its first read
or with the header; HTTP: the `/init` body) -/
def initFailItems (il : List Log) (e : Exn) : List Item := logItems il ++ [.err e]

def initFailObs (il : List Log) (e : Exn) : List Ev := (readUntilData (initFailItems il e)).1

namespace PipeR

def iterate : List Item → List Step → List Ev
  | carry, [] =>
      let (evs, _) := readUntilData carry
      evs ++ [.fin]
  | carry, s :: r =>
      match processStep s with
      | .cont items =>
          match readUntilData (carry ++ items) with
          | (evs, .gotData rest) => evs ++ iterate rest r
          | (evs, _) => evs
      | .done items =>
          match readUntilData (carry ++ items) with
          | (evs, .gotData rest) => evs ++ (readUntilData rest).1 ++ [.fin]
          | (evs, _) => evs ++ [.fin]
      | .fail items =>
          (readUntilData (carry ++ items)).1

def exchangeOne (carry : List Item) (s : Step) : List Ev × Option (List Item) :=
  match processExchangeStep s with
  | .cont items =>
      match readUntilData (carry ++ items) with
      | (evs, .gotData rest) => (evs, some rest)
      | (evs, _) => (evs, none)
  | .done items => ((readUntilData (carry ++ items)).1, none)
  | .fail items => ((readUntilData (carry ++ items)).1, none)

def exchangeAll : List Item → List Step → List Ev
  | carry, [] => drainLogs carry
  | carry, s :: r =>
      match exchangeOne carry s with
      | (evs, some rest) => evs ++ exchangeAll rest r
      | (evs, none) => evs

end PipeR

namespace HttpR

def turn (brk : Nat → Bool) : Nat → List Step → List Item
  | _, [] => []
  | pos, s :: r =>
      match processStep s with
      | .cont items => items ++ (if brk pos then [.token (pos + 1)] else turn brk (pos + 1) r)
      | .done items => items
      | .fail items => items

def serveContinuation (brk : Nat → Bool) (steps : List Step) (pos : Nat) : List Item :=
  turn brk pos (steps.drop pos)

def initBody (brk : Nat → Bool) (initLogs : List Log) (steps : List Step) : List Item :=
  logItems initLogs ++ turn brk 0 steps

def iterate (brk : Nat → Bool) (initLogs : List Log) (steps : List Step) : List Ev :=
  Http.assemble (Http.parseInit (initBody brk initLogs steps))
    (fun pos => Http.follow (serveContinuation brk steps) (steps.length + 1) (serveContinuation brk steps pos))

def exchangeOne (s : Step) : List Ev × Bool :=
  match processExchangeStep s with
  | .cont items => Http.readExchange items
  | .done items => ((Http.readExchange items).1, false)
  | .fail items => ((Http.readExchange items).1, false)

def exchangeAll : List Step → List Ev
  | [] => []
  | s :: r =>
      match exchangeOne s with
      | (evs, true) => evs ++ exchangeAll r
      | (evs, false) => evs

end HttpR

/-! ## `_ClientLogSink` (rpc/_wire.py): buffer until a writer is available, then write through

The sink is the `emit_client_log` of unary calls, of stream methods before / after their header, and of `on_cancel`.
`flush_contents(writer, schema)` is called with the RESULT schema of a unary method (the empty schema for `-> None`) or the
OUTPUT schema of a stream (possibly empty).  Whether `__call__` then writes through is decided by the test the extractor
reads off the source (`sinkTestsIsNotNone`): with truthiness tests an empty `pa.Schema` counts as "no writer". -/

structure Sink where
  buffer : List Log
  writer : Option Bool            -- `some schemaIsEmpty` after `flush_contents`, `none` before it / after `reset`
deriving Repr, DecidableEq

inductive SinkOp where
  | call (l : Log)                -- `sink(msg)`
  | flush (schemaEmpty : Bool)    -- `sink.flush_contents(writer, schema)`
  | reset                         -- `sink.reset()`
deriving Repr, DecidableEq

/-- one operation: new state, and the messages it wrote to the current stream -/
def sinkStep (s : Sink) : SinkOp → Sink × List Log
  | .call l =>
    match s.writer with
    | some schemaEmpty =>
      if VgiVerif.Gen.LogDispatch.sinkTestsIsNotNone || !schemaEmpty then (s, [l])
      else ({ s with buffer := s.buffer ++ [l] }, [])
    | none => ({ s with buffer := s.buffer ++ [l] }, [])
  | .flush e => (⟨[], some e⟩, s.buffer)
  | .reset => ({ s with writer := none }, [])

def sinkRun : Sink → List SinkOp → Sink × List Log
  | s, [] => (s, [])
  | s, op :: r =>
    let (s1, w1) := sinkStep s op
    let (s2, w2) := sinkRun s1 r
    (s2, w1 ++ w2)

def sinkCalled : List SinkOp → List Log
  | [] => []
  | .call l :: r => l :: sinkCalled r
  | _ :: r => sinkCalled r

end VgiVerif.C08
