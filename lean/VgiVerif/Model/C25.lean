import VgiVerif.Model.Sticky
/-
C25 model: the isolation-relevant entry points of the shared `Sticky` model —
what a presentation of a `VGI-Session` value resolves to on a worker (`present`), and the DELETE endpoint.
-/
namespace VgiVerif.C25
open VgiVerif.Sticky

/-- outcome of presenting a header value to `POST {prefix}/{method}` on worker `wk` -/
def present {Wire : Type} [DecidableEq Wire] (C : Codec Wire) (n : Net) (wk : Nat) (rq : Req Wire) : Resolve :=
  (resolve C (n.cfg wk) (n.world wk) rq).2

/-- response of `DELETE {prefix}/__session__` on worker `wk` -/
def deleteResp {Wire : Type} [DecidableEq Wire] (C : Codec Wire) (n : Net) (wk : Nat) (rq : Req Wire) : Nat × Bool :=
  (onDelete C (n.cfg wk) (n.world wk) rq).2

end VgiVerif.C25
