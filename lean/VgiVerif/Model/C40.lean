import VgiVerif.Prelude.PyStr
import VgiVerif.Prelude.PyInt
import VgiVerif.Prelude.CapsTypes
import VgiVerif.Gen.Caps
/-
C40 model.

* `capHeaders` — the `capability_headers` dict built by `make_wsgi_app` (vgi_rpc/http/server/_factory.py): the *extracted*
  table `Gen.Caps.table` interpreted row by row (dict assignment: a repeated key overwrites in place);
* `respond` — what a response carries: whatever the responder / error serializer / Falcon put there (`base`), then
  `_CapabilitiesMiddleware.process_response` (`resp.set_header` for every entry, `Cache-Control` on OPTIONS; Falcon stores
  header names lower-cased), then the `process_response` hooks of the middlewares registered earlier (`later`);
* `probe` — `http_capabilities()` (vgi_rpc/http/_client.py) from the header lookups on, `parse_encoding_list` included.
-/
namespace VgiVerif.C40
open VgiVerif.Caps VgiVerif.Gen.Caps VgiVerif.PyStr VgiVerif.PyInt

def sTrue : List Char := ['t', 'r', 'u', 'e']
def sFalse : List Char := ['f', 'a', 'l', 's', 'e']
def commaSpace : List Char := [',', ' ']

def encName : Encoding → List Char
  | .zstd => ['z', 's', 't', 'd']
  | .gzip => ['g', 'z', 'i', 'p']
  | .identity => ['i', 'd', 'e', 'n', 't', 'i', 't', 'y']

/-- `decodable`: `(ZSTD, GZIP)` filtered by runtime availability -/
def decodable (cfg : Cfg) : List Encoding := (if cfg.zstdAvailable then [.zstd] else []) ++ [.gzip]

/-- `enabled_encodings = tuple(codec_levels)` -/
def enabledEncodings (cfg : Cfg) : List Encoding := if cfg.compression then decodable cfg else []

def evalCond (cfg : Cfg) : Cond → Bool
  | .maxRequestBytes => cfg.maxRequestBytes.isSome
  | .maxResponseBytes => cfg.maxResponseBytes.isSome
  | .maxExternalizedResponseBytes => cfg.maxExternalizedResponseBytes.isSome
  | .uploadProvider => cfg.uploadProvider
  | .maxUploadBytes => cfg.maxUploadBytes.isSome
  | .proofRequired => cfg.proofRequired
  | .introspect => cfg.introspect
  | .sticky => cfg.sticky
  | .stickyEcho => !cfg.stickyEcho.isEmpty
  | .proxyHint => cfg.proxyHint

def intParam (cfg : Cfg) : IntParam → Option Int
  | .maxRequestBytes => cfg.maxRequestBytes
  | .maxResponseBytes => cfg.maxResponseBytes
  | .maxExternalizedResponseBytes => cfg.maxExternalizedResponseBytes
  | .maxUploadBytes => cfg.maxUploadBytes

def evalVal (cfg : Cfg) : Val → List Char
  | .decimal p => match intParam cfg p with
    | some n => pyStrInt n
    | none => ['N', 'o', 'n', 'e']          -- `str(None)`; unreachable under the extracted guards
  | .litTrue => sTrue
  | .storageFlag => if cfg.storage then sTrue else sFalse
  | .encodings => join commaSpace ((enabledEncodings cfg).map encName)
  | .truncDecimal => pyStrInt cfg.stickyTtl
  | .echoNames => join commaSpace cfg.stickyEcho

/-- `d[k] = v` on an insertion-ordered dict: overwrite in place, else append -/
def setHeader : Headers → List Char → List Char → Headers
  | [], k, v => [(k, v)]
  | (k', v') :: r, k, v => if k' = k then (k, v) :: r else (k', v') :: setHeader r k v

/-- `d.get(k)` -/
def lookupExact (hs : Headers) (k : List Char) : Option (List Char) := (hs.find? (fun p => p.1 == k)).map (·.2)

/-- the entry a table row contributes, if its guards hold -/
def rowEntry (cfg : Cfg) (r : Row) : Option (List Char × List Char) :=
  if r.conds.all (evalCond cfg) then some (r.header, evalVal cfg r.value) else none

/-- one `if <guards>: capability_headers[<name>] = <value>` statement -/
def addRow (cfg : Cfg) (acc : Headers) (r : Row) : Headers :=
  match rowEntry cfg r with
  | some kv => setHeader acc kv.1 kv.2
  | none => acc

/-- `capability_headers` as `make_wsgi_app` builds it -/
def capHeaders (cfg : Cfg) : Headers := table.foldl (addRow cfg) []

/-! ### responses -/

def lower (s : List Char) : List Char := s.map asciiLower

/-- case-insensitive header lookup (Falcon / WSGI / httpx header semantics) -/
def getHdr (hs : Headers) (name : List Char) : Option (List Char) :=
  (hs.find? (fun p => lower p.1 == lower name)).map (·.2)

/-- `resp.set_header(name, value)`: Falcon keeps one value per name, keyed by the lower-cased name -/
def respSet (hs : Headers) (k v : List Char) : Headers := setHeader hs (lower k) v

/-- `resp.get_header(name)` / what goes on the wire under `name` -/
def respGet (hs : Headers) (k : List Char) : Option (List Char) := lookupExact hs (lower k)

/-- header mutations other middlewares' `process_response` hooks perform -/
inductive Op where
  | set (k v : List Char)
  | append (k v : List Char)
  | delete (k : List Char)
deriving Repr

def Op.name : Op → List Char
  | .set k _ => k | .append k _ => k | .delete k => k

def applyOp (hs : Headers) : Op → Headers
  | .set k v => respSet hs k v
  | .append k v => match respGet hs k with
    | some old => respSet hs k (old ++ commaSpace ++ v)
    | none => respSet hs k v
  | .delete k => hs.filter (fun p => !(p.1 == lower k))

def cacheControl : List Char := ['C', 'a', 'c', 'h', 'e', '-', 'C', 'o', 'n', 't', 'r', 'o', 'l']
def cacheValue : List Char := "public, max-age=300".toList
def verbOptions : List Char := ['O', 'P', 'T', 'I', 'O', 'N', 'S']

/-- `_CapabilitiesMiddleware.process_response` -/
def stamp (cfg : Cfg) (verb : List Char) (hs : Headers) : Headers :=
  let s := (capHeaders cfg).foldl (fun acc kv => respSet acc kv.1 kv.2) hs
  if verb = verbOptions then respSet s cacheControl cacheValue else s

/-- headers of any response, as Falcon's `resp` holds them (keyed by lower-cased name): responder / error output
    (`base`), the capability stamp, then the hooks that run after it -/
def respond (cfg : Cfg) (verb : List Char) (base : Headers) (later : List Op) : Headers :=
  later.foldl applyOp (stamp cfg verb base)

/-! ### the client's probe -/

def allEncodings : List Encoding := [.zstd, .gzip, .identity]

/-- `token.split(";", 1)[0]` -/
def beforeSemicolon (s : List Char) : List Char := s.takeWhile (· ≠ ';')

/-- `parse_encoding_list` -/
def parseEncodingList (v : List Char) : List Encoding :=
  (splitOn ',' v).foldl (fun out raw =>
    let token := lower (strip raw)
    if token.isEmpty then out
    else
      let token := if token.contains ';' then strip (beforeSemicolon token) else token
      match allEncodings.find? (fun e => encName e == token) with
      | some e => if out.contains e then out else out ++ [e]
      | none => out) []

def probeOptInt (hs : Headers) (h : List Char) : Option Int :=
  match getHdr hs h with
  | none => none
  | some raw => pyIntParse raw

def probeIsTrue (hs : Headers) (h : List Char) : Bool :=
  match getHdr hs h with
  | none => false
  | some raw => raw == sTrue

/-- a present `VGI-Supported-Encodings` value: blank ⇒ `()`, else `parse_encoding_list(raw) or (zstd,)` -/
def encodingsOfRaw (raw : List Char) : List Encoding :=
  if (strip raw).isEmpty then []
  else match parseEncodingList raw with
    | [] => [.zstd]
    | l => l

def probeEncodings (hs : Headers) (h : List Char) : List Encoding :=
  match getHdr hs h with
  | none => [.zstd]
  | some raw => encodingsOfRaw raw

def probeNames (hs : Headers) (h : List Char) : List (List Char) :=
  match getHdr hs h with
  | none => []
  | some raw => if raw.isEmpty then [] else ((splitOn ',' raw).map strip).filter (fun n => !n.isEmpty)

def hdrOf (field : String) : List Char :=
  match Gen.Caps.probe.find? (fun p => p.field == field) with
  | some p => p.header
  | none => []

/-- `http_capabilities` from the response headers on -/
def probe (hs : Headers) : Caps :=
  { maxRequestBytes := probeOptInt hs (hdrOf "max_request_bytes"),
    maxResponseBytes := probeOptInt hs (hdrOf "max_response_bytes"),
    maxExternalizedResponseBytes := probeOptInt hs (hdrOf "max_externalized_response_bytes"),
    externalizationEnabled := probeIsTrue hs (hdrOf "externalization_enabled"),
    uploadUrlSupport := probeIsTrue hs (hdrOf "upload_url_support"),
    maxUploadBytes := probeOptInt hs (hdrOf "max_upload_bytes"),
    supportedEncodings := probeEncodings hs (hdrOf "supported_encodings"),
    stickyEnabled := probeIsTrue hs (hdrOf "sticky_enabled"),
    stickyDefaultTtl := probeOptInt hs (hdrOf "sticky_default_ttl"),
    stickyEchoHeaders := probeNames hs (hdrOf "sticky_echo_headers") }

end VgiVerif.C40
