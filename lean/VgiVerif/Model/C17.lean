import VgiVerif.Prelude.Codec
import VgiVerif.Prelude.HdrStr
import VgiVerif.Gen.ReqBody
import VgiVerif.Model.C18
/-
C17 model: the path of a request body to the RPC layer —
`_MaxRequestBytesMiddleware.process_request`, `_CompressionMiddleware.process_request` (request half),
`_get_request_stream` (vgi_rpc/http/server/_middleware.py, _responses.py), wired as in `make_wsgi_app`
(wire cap first, decoded cap = `max_request_bytes`); decoding is `C18.decompress`.

Falcon's `req.bounded_stream` is environment: it yields at most `Content-Length` bytes of `wsgi.input`, and **zero bytes
when the request has no Content-Length** (`BoundedStream(wsgi.input, self.content_length or 0)`).
-/
namespace VgiVerif.C17
open VgiVerif.Codec VgiVerif.HdrStr

structure Cfg where
  /-- `max_request_bytes` -/
  cap : Option Nat
  /-- `_CompressionMiddleware._decode` -/
  decode : List Enc
  /-- exempt prefixes of the wire cap (`f"{prefix}/health"`) -/
  exempt : List (List Char)

structure Req where
  verb : List Char
  path : List Char
  /-- the `Content-Length` header, if any -/
  contentLength : Option Nat
  /-- what the peer put on the stream -/
  wire : Bytes
  /-- the `Content-Encoding` header, if any -/
  contentEncoding : Option (List Char)

inductive Outcome where
  | status (code : Nat)
  | toRpc (b : Bytes)
deriving Repr, DecidableEq

structure Result where
  outcome : Outcome
  /-- decoded bytes the decoder held (0 when nothing was decoded) -/
  materialised : Nat
  /-- sizes requested from the decompression library -/
  reads : List Nat
deriving Repr, DecidableEq

/-- `zstd_disabled = os.environ.get("VGI_HTTP_DISABLE_ZSTD") == "1"` (variable name and value as extracted) -/
def zstdDisabled (env : Option (List Char)) : Bool := env == some Gen.ReqBody.disableZstdValue.toList

/-- `make_wsgi_app` + `_CompressionMiddleware.__init__`: the request codings the server decodes (`self._decode`), from the
runtime codecs, the environment switch and `compression_level`.  As extracted (`decodeWiring`), `compression_level` plays
no part: response compression off does not mean request decoding changes. -/
def mkDecode (runtime : List Enc) (env : Option (List Char)) (_compressionLevel : Option Int) : List Enc :=
  let decodable := (Gen.ReqBody.decodable.filterMap Enc.ofName).filter
    (fun e => runtime.contains e && !(zstdDisabled env && e == .zstd))
  decodable.filter (fun e => runtime.contains e)                       -- `__init__`: `enc for enc in decodable if enc in runtime`

/-- everything `req.bounded_stream` can ever yield -/
def bounded (r : Req) : Bytes := r.wire.take (r.contentLength.getD 0)

def post : List Char := "POST".toList

/-- the exemption loop of `_MaxRequestBytesMiddleware.process_request` -/
def exempted (cfg : Cfg) (r : Req) : Bool :=
  (if Gen.ReqBody.exemptGuard = "method_not_post" then r.verb != post else true) &&
  cfg.exempt.any (fun p =>
    if Gen.ReqBody.exemptTest = "eq_or_slash_prefix" then r.path == p || (p ++ ['/']).isPrefixOf r.path
    else p.isPrefixOf r.path)

/-- `_MaxRequestBytesMiddleware.process_request`: `.error status` = refused (raised, or `_reject_too_large` + `return`); `.ok capped` = `req.context.capped_request_body` -/
def wireCap (cfg : Cfg) (r : Req) : Except Nat (Option Bytes) :=
  match cfg.cap with
  | none => .ok none                                            -- middleware not installed
  | some c =>
    if exempted cfg r then .ok none
    else match r.contentLength with
      | some cl => if cmp Gen.ReqBody.contentLengthCmp cl c then .error Gen.ReqBody.wireTooLargeStatus else .ok none
      | none =>
        let body := (bounded r).take (c + Gen.ReqBody.chunkedReadExtra)       -- `req.bounded_stream.read(max + 1)`
        if cmp Gen.ReqBody.chunkedCmp body.length c then .error Gen.ReqBody.wireTooLargeStatus else .ok (some body)

/-- `(req.get_header("Content-Encoding") or "").strip().lower()` -/
def normalisedCoding (r : Req) : List Char :=
  let h := r.contentEncoding.getD []
  if Gen.ReqBody.ceNormalise = "strip_lower" then lower (strip h) else strip (lower h)

/-- what the request half of `_CompressionMiddleware.process_request` left behind -/
structure Decoded where
  /-- `.error status` = refused; `.ok (some b)` = `req.context.decompressed_stream`; `.ok none` = nothing decoded -/
  res : Except Nat (Option Bytes)
  peak : Nat
  reads : List Nat

/-- request half of `_CompressionMiddleware.process_request` -/
def decodeStage (L : Libs) (cfg : Cfg) (r : Req) (capped : Option Bytes) : Decoded :=
  let ce := normalisedCoding r
  if ce.isEmpty then ⟨.ok none, 0, []⟩
  else match Enc.ofValue ce with
    | none => ⟨.error Gen.ReqBody.unknownStatus, 0, []⟩
    | some e =>
      if Gen.ReqBody.identityPassThrough && e = .identity then ⟨.ok none, 0, []⟩
      else if !cfg.decode.contains e then ⟨.error Gen.ReqBody.disabledStatus, 0, []⟩
      else
        let compressed := match capped with | some b => b | none => bounded r
        let decodedCap := if Gen.ReqBody.decodedCapIsRequestCap then cfg.cap else none
        let run := C18.decompress L e compressed decodedCap
        ⟨match run.out with
          | .ok b => .ok (some b)
          | .limit => .error (if Gen.ReqBody.limitHandlerFirst then Gen.ReqBody.decodedTooLargeStatus else Gen.ReqBody.undecodableStatus)
          | _ => .error Gen.ReqBody.undecodableStatus,
         run.peak, run.reads⟩

/-- the whole path: wire cap, decode, `_get_request_stream`.
A refusal ends the request when it is raised, or when `_reject_request` marks the response complete (Falcon then skips the
remaining hooks and the responder); `Gen.ReqBody.refusalEndsRequest` says the code does one of the two.  If it did neither,
the later stages would still run — modelled below, and excluded by the theorems. -/
def process (L : Libs) (cfg : Cfg) (r : Req) : Result :=
  let stage2 (capped : Option Bytes) : Result :=
    let d := decodeStage L cfg r capped
    ⟨match d.res with
      | .error st =>
        if Gen.ReqBody.refusalEndsRequest then .status st
        else .toRpc (match capped with | some b => b | none => bounded r)
      | .ok (some b) => .toRpc b                                                  -- `decompressed_stream`
      | .ok none => .toRpc (match capped with | some b => b | none => bounded r), -- capped body, else `bounded_stream.read()`
     d.peak, d.reads⟩
  match wireCap cfg r with
  | .error st => if Gen.ReqBody.refusalEndsRequest then ⟨.status st, 0, []⟩ else stage2 none
  | .ok capped => stage2 capped

end VgiVerif.C17
